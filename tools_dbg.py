"""Developer helper: verify one contract module (optionally some procedures) and print every obligation's verdict.
usage: python3-vt tools_dbg.py C16_components [proc-key-substring ...]"""
import importlib, sys, time
sys.path.insert(0, '.')
from zivc import run
mod = importlib.import_module('contracts.' + sys.argv[1])
reg = mod.reg
subs = sys.argv[2:]
only = [k for k in reg.procs if reg.procs[k].source and (not subs or any(s in k for s in subs))]
t0 = time.time()
reports, lemmas, axs, dt = run.verify_registry(reg, only=only)
for rep in reports:
    print('==', rep.proc.key, rep.status, rep.detail[-1500:] if rep.status != 'ok' else '', 'paths', rep.paths, 'smoke', (rep.smoke.z3 if rep.smoke else None))
    for o, r in rep.obligations:
        if not r.discharged or '-v' in sys.argv:
            print('    z3=%s cvc5=%s %.2fs %s %s' % (r.z3, r.cvc5, r.time, o.label, ' '.join(o.trace or [])))
    print('   %d obligations, %d discharged' % (len(rep.obligations), sum(1 for o, r in rep.obligations if r.discharged)))
for o, r in lemmas:
    if not r.discharged:
        print('lemma', r.z3, r.cvc5, o.label)
print('lemmas', len(lemmas), 'axiom smoke', (axs.z3 if axs else None), '%.1fs' % (time.time() - t0))
