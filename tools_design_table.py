"""Regenerate the seeded-change table of DESIGN.md section 10.5 from seeded/RESULTS.json."""
import json, os, re
V = os.path.dirname(os.path.abspath(__file__))
res = json.load(open(os.path.join(V, 'seeded', 'RESULTS.json')))
rows = ['| change | breaks | result | caught by | first report |', '|---|---|---|---|---|']
for k in sorted(res):
    r = res[k]
    meta = json.load(open(os.path.join(V, 'seeded', k, 'meta.json')))
    how = []
    if any('failed obligation' in l for l in r['lines']):
        how.append('failed obligation')
    if any('witness' in l for l in r['lines']):
        how.append('replayed witness (bounded run)')
    first = [l.strip() for l in r['lines'] if 'failed obligation' in l or 'witness' in l]
    rows.append('| %s | %s | %s | %s | %s |' % (k, (meta.get('summary') or '')[:90].replace('|', '/'), 'detected' if r['detected'] else 'MISSED (exit %s)' % r['exit'],
                                               ' + '.join(how) or '-', (first[0][:120].replace('|', '/') if first else '')))
n = sum(1 for r in res.values() if r['detected'])
rows.append('')
rows.append('%d of %d detected at the last full run.' % (n, len(res)))
p = os.path.join(V, 'DESIGN.md')
s = open(p).read()
s = re.sub(r'<!-- KILLTABLE-BEGIN -->.*<!-- KILLTABLE-END -->', '<!-- KILLTABLE-BEGIN -->\n' + '\n'.join(rows) + '\n<!-- KILLTABLE-END -->', s, flags=re.S)
open(p, 'w').write(s)
print(n, len(res))
