#!/bin/bash
# (re)creates the helper scripts the seeded-change tools use, under /tmp/seed (scratch; nothing registered in MANIFEST needs them)
#   build.sh <worktree>            compile the accelerator inside the worktree
#   py.sh <worktree> <script> ...  run a script with zope.interface imported from the worktree (PURE_PYTHON honoured)
#   tests.sh <worktree>            the pinned suite against the worktree
mkdir -p /tmp/seed
cat > /tmp/seed/build.sh <<'EOF'
#!/bin/bash
WT=$1
rm -f $WT/src/zope/interface/_zope_interface_coptimizations*.so
gcc -shared -fPIC -O1 -w -I/root/.pyenv/versions/3.12.1/include/python3.12 $WT/src/zope/interface/_zope_interface_coptimizations.c \
  -o $WT/src/zope/interface/_zope_interface_coptimizations.cpython-312-x86_64-linux-gnu.so
EOF
cat > /tmp/seed/boot.py <<'EOF'
import sys, os, runpy
wt = sys.argv[1]
import zope
zope.__path__[:] = [os.path.join(wt, 'src', 'zope')] + [p for p in zope.__path__ if not p.startswith('/repo/')]
sys.path[:] = [os.path.join(wt, 'src')] + [p for p in sys.path if p != '/repo/src']
for k in [k for k in sys.modules if k.startswith('zope.interface')]:
    del sys.modules[k]
if sys.argv[2] == '--pytest':
    import pytest
    os.chdir(wt)
    sys.exit(pytest.main(['-q', '-p', 'no:cacheprovider', '--timeout=900', '--continue-on-collection-errors'] + sys.argv[3:]))
sys.argv = sys.argv[2:]
runpy.run_path(sys.argv[0], run_name='__main__')
EOF
cat > /tmp/seed/py.sh <<'EOF'
#!/bin/bash
exec /venv/bin/python /tmp/seed/boot.py "$@"
EOF
cat > /tmp/seed/tests.sh <<'EOF'
#!/bin/bash
/tmp/seed/build.sh $1 >/dev/null 2>&1
exec /venv/bin/python /tmp/seed/boot.py $1 --pytest
EOF
chmod +x /tmp/seed/*.sh
