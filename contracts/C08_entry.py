"""Contracts for the multi-object entry points of AdapterLookupBase (property C08): queryMultiAdapter, names, subscribers.

They are specified against what lookup()/lookupAll()/subscriptions() return (oracles LK, LA, SUBS -- the cache layer under
them is C05_cache, the searches are C04_lookup): the factory found by lookup on providedBy of the objects is called with the
underlying objects (a super proxy is replaced by its __self__), None results become the default, every subscription is
called in order and None results are dropped (nothing is returned for handlers)."""
import z3

from zivc.core import *  # noqa
from zivc.spec import Loop, Proc, Registry
from zivc import symex

FIELDS = {'__self__': OBJ, '$calls': SeqO}
reg = Registry(FIELDS)
L = Length
A = 'adapter.py:'
Int = z3.IntSort()
B = z3.BoolSort()
PB = z3.Function('providedBy_of', Obj, Obj)
SUPER = classconst('super')
LK = z3.Function('lookup_result', Obj, SeqO, Obj, Obj, Obj)          # self.lookup(required, provided, name) with default None
LK_BAD = z3.Function('lookup_rejects_name', Obj, B)
SUBS = z3.Function('subscriptions_result', Obj, SeqO, Obj, SeqO)     # self.subscriptions(required, provided) as a sequence
LA = z3.Function('lookupAll_result', Obj, SeqO, Obj, SeqO)           # self.lookupAll(required, provided): sequence of (name, value) pairs
CALLN = z3.Function('call_result', Obj, SeqO, Obj)                    # f(*args)
CALLN_RAISES = z3.Function('call_raises', Obj, SeqO, B)
call_ev = z3.Function('call_event', Obj, SeqO, Obj)
reg.assumptions.append('providedBy is a pure query; factories and subscribers are external calls described by result/raise oracles and a '
                       'ghost call log; they do not mutate the objects sequence')

pbmap = z3.Function('providedBy_of_the_first', SeqO, Int, SeqO)       # [providedBy(o) for o in objects[:k]]
unwrap = z3.Function('underlying_objects_of_the_first', z3.ArraySort(Obj, Obj), SeqO, Int, SeqO)
_s = z3.Const('m_s', SeqO)
_k = z3.Int('m_k')
_h = z3.Const('m_h', z3.ArraySort(Obj, Obj))
reg.axiom('pbmap-0', z3.ForAll([_s], pbmap(_s, 0) == Empty(SeqO), patterns=[pbmap(_s, 0)]))
reg.axiom('pbmap-step', z3.ForAll([_s, _k], z3.Implies(z3.And(0 <= _k, _k < L(_s)), pbmap(_s, _k + 1) == Concat(pbmap(_s, _k), Unit(PB(_s[_k])))),
                                  patterns=[pbmap(_s, _k + 1)]))
reg.axiom('unwrap-0', z3.ForAll([_h, _s], unwrap(_h, _s, 0) == Empty(SeqO), patterns=[unwrap(_h, _s, 0)]))
reg.axiom('unwrap-step', z3.ForAll([_h, _s, _k], z3.Implies(z3.And(0 <= _k, _k < L(_s)), unwrap(_h, _s, _k + 1) == Concat(
    unwrap(_h, _s, _k), Unit(z3.If(subtype(typeof(_s[_k]), SUPER), _h[_s[_k]], _s[_k])))), patterns=[unwrap(_h, _s, _k + 1)]))

reg.add(Proc('declarations.py:providedBy', [('ob', OBJ)], result=OBJ, trusted=True, pure_fn=lambda c: PB(c.a.ob), note='C01'))
reg.add(Proc(A + 'virtual.lookup', [('self', OBJ), ('required', SEQO), ('provided', OBJ), ('name', OBJ)], result=OBJ, trusted=True,
             raises={'ValueError': (lambda c: LK_BAD(c.a.name), None)},
             ensures=lambda c: [c.res == LK(c.a.self, c.a.required, c.a.provided, c.a.name)],
             note='LookupBase.lookup with default None (C05_cache): ValueError for a non-string name'))
reg.add(Proc(A + 'virtual.subscriptions', [('self', OBJ), ('required', SEQO), ('provided', OBJ)], result=SEQO, trusted=True,
             pure_fn=lambda c: SUBS(c.a.self, c.a.required, c.a.provided), note='LookupBase.subscriptions (C05_cache / C07)'))
reg.add(Proc(A + 'virtual.lookupAll', [('self', OBJ), ('required', SEQO), ('provided', OBJ)], result=SEQO, trusted=True,
             pure_fn=lambda c: LA(c.a.self, c.a.required, c.a.provided), note='LookupBase.lookupAll: tuple of (name, value) items'))


def _ext_call(ex, node, st, vals):
    """f(*args): external call -- logged, result/raise by oracle"""
    f = vals[0].t
    rest = list(vals[1:])
    if rest and rest[-1].ty.kind == 'star':
        args = rest.pop().t
        if rest:
            args = Concat(*([Unit(box(v)) for v in rest] + [args]))
    else:
        args = Concat(*[Unit(box(v)) for v in rest]) if rest else Empty(SeqO)
    st.heap.set('$calls', Concat(st.heap.get('$calls'), Unit(call_ev(f, args))))
    bad = st.clone()
    bad.assume(CALLN_RAISES(f, args))
    ex.raise_(bad, 'OtherError')
    st.assume(z3.Not(CALLN_RAISES(f, args)))
    return [(st, vobj(CALLN(f, args)))]


def _qma_post(c):
    objs = c.a.objects
    f = LK(c.a.self, pbmap(objs, L(objs)), c.a.provided, c.a.name)
    args = unwrap(c.h0('__self__'), objs, L(objs))
    r = CALLN(f, args)
    return [('no-factory-means-default-and-nothing-is-called', z3.Implies(f == NONE, z3.And(c.res == c.a.default, c.h('$calls') == c.h0('$calls')))),
            ('the-factory-lookup-finds-is-called-once-with-the-underlying-objects', z3.Implies(
                f != NONE, z3.And(c.h('$calls') == Concat(c.h0('$calls'), Unit(call_ev(f, args))),
                                  c.res == z3.If(r == NONE, c.a.default, r))))]


reg.add(Proc(A + 'AdapterLookupBase.queryMultiAdapter', [('self', OBJ), ('objects', SEQO), ('provided', OBJ), ('name', OBJ), ('default', OBJ)],
             source='adapter.py:AdapterLookupBase.queryMultiAdapter', result=OBJ,
             calls={'self.lookup': A + 'virtual.lookup', 'providedBy': 'declarations.py:providedBy'}, opaque_calls={'factory': _ext_call},
             locals={'$elt_K0': OBJ, '$elt_K1': OBJ}, modifies=['$calls'],
             raises={'ValueError': (lambda c: LK_BAD(c.a.name), lambda c: [('nothing-called', c.h('$calls') == c.h0('$calls'))]),
                     'OtherError': (lambda c: z3.And(z3.Not(LK_BAD(c.a.name)),
                                                     LK(c.a.self, pbmap(c.a.objects, L(c.a.objects)), c.a.provided, c.a.name) != NONE,
                                                     CALLN_RAISES(LK(c.a.self, pbmap(c.a.objects, L(c.a.objects)), c.a.provided, c.a.name),
                                                                  unwrap(c.h0('__self__'), c.a.objects, L(c.a.objects)))), None)},
             ensures=_qma_post,
             loops={'K0': Loop(lambda c: [('specifications-so-far', c.acc == pbmap(c.a.objects, c.i))]),
                    'K1': Loop(lambda c: [('underlying-objects-so-far', c.acc == unwrap(c.h('__self__'), c.a.objects, c.i)),
                                          ('nothing-called-yet', c.h('$calls') == c.h0('$calls'))])}))


def _names_post(c):
    items = LA(c.a.self, c.a.required, c.a.provided)
    j = z3.Int('np_j')
    return [('one-name-per-item-of-lookupAll-in-order', z3.And(L(c.res) == L(items), ForAllP([j], z3.Implies(
        z3.And(0 <= j, j < L(items)), c.res[j] == unbox_seq(items[j])[0]), [c.res[j]])))]


reg.add(Proc(A + 'AdapterLookupBase.names', [('self', OBJ), ('required', SEQO), ('provided', OBJ)],
             source='adapter.py:AdapterLookupBase.names', result=SEQO, calls={'self.lookupAll': A + 'virtual.lookupAll'},
             locals={'$elt_K0': OBJ},
             requires=lambda c: [('items-are-pairs', ForAllP([z3.Int('ip_j')], z3.Implies(
                 z3.And(0 <= z3.Int('ip_j'), z3.Int('ip_j') < L(LA(c.a.self, c.a.required, c.a.provided))),
                 z3.And(is_seq(LA(c.a.self, c.a.required, c.a.provided)[z3.Int('ip_j')]),
                        L(unbox_seq(LA(c.a.self, c.a.required, c.a.provided)[z3.Int('ip_j')])) == 2)), []))],
             ensures=_names_post,
             loops={'K0': Loop(lambda c: [('names-so-far', z3.And(L(c.acc) == c.i, ForAllP([z3.Int('nk_j')], z3.Implies(
                 z3.And(0 <= z3.Int('nk_j'), z3.Int('nk_j') < c.i),
                 c.acc[z3.Int('nk_j')] == unbox_seq(LA(c.a.self, c.a.required, c.a.provided)[z3.Int('nk_j')])[0]), [])))])}))

# subscribers: results(s, objs, k) = the non-None results of calling the first k subscriptions; events(s, objs, k) the calls made
results = z3.Function('non_None_results_of_the_first', SeqO, SeqO, Int, SeqO)
events = z3.Function('calls_of_the_first', SeqO, SeqO, Int, SeqO)
_ss, _oo = z3.Consts('r_s r_o', SeqO)
reg.axiom('results-0', z3.ForAll([_ss, _oo], results(_ss, _oo, 0) == Empty(SeqO), patterns=[results(_ss, _oo, 0)]))
reg.axiom('results-step', z3.ForAll([_ss, _oo, _k], z3.Implies(z3.And(0 <= _k, _k < L(_ss)), results(_ss, _oo, _k + 1) == z3.If(
    CALLN(_ss[_k], _oo) == NONE, results(_ss, _oo, _k), Concat(results(_ss, _oo, _k), Unit(CALLN(_ss[_k], _oo))))), patterns=[results(_ss, _oo, _k + 1)]))
reg.axiom('events-0', z3.ForAll([_ss, _oo], events(_ss, _oo, 0) == Empty(SeqO), patterns=[events(_ss, _oo, 0)]))
reg.axiom('events-step', z3.ForAll([_ss, _oo, _k], z3.Implies(z3.And(0 <= _k, _k < L(_ss)), events(_ss, _oo, _k + 1) == Concat(
    events(_ss, _oo, _k), Unit(call_ev(_ss[_k], _oo)))), patterns=[events(_ss, _oo, _k + 1)]))


def _subs(c):
    return SUBS(c.a.self, pbmap(c.a.objects, L(c.a.objects)), c.a.provided)


def _sub_post(c):
    s = _subs(c)
    objs = c.a.objects
    return [('every-subscription-is-called-once-in-order-with-the-objects', SeqEq(c.h('$calls'), Concat(c.h0('$calls'), events(s, objs, L(s))))),
            ('handlers-return-nothing', z3.Implies(c.a.provided == NONE, L(c.res) == 0)),
            ('otherwise-the-non-None-results-in-order', z3.Implies(c.a.provided != NONE, SeqEq(c.res, results(s, objs, L(s)))))]


def _sub_L(which):
    def inv(c):
        s = _subs(c)
        out = [('index-in-range', c.i <= L(s)), ('calls-so-far', SeqEq(c.h('$calls'), Concat(c.h0('$calls'), events(s, c.a.objects, c.i))))]
        if which == 1:
            out.append(('results-so-far', SeqEq(c.h('$list')[c.l.result], results(s, c.a.objects, c.i))))
            out.append(('result-is-a-new-list', z3.And(c.l.result != NONE, z3.Not(c.h0('$alloc')[c.l.result]))))
            out.append(('old-lists-untouched', ForAllP([z3.Const('sl_o', Obj)], z3.Implies(
                c.h0('$alloc')[z3.Const('sl_o', Obj)], c.h('$list')[z3.Const('sl_o', Obj)] == c.h0('$list')[z3.Const('sl_o', Obj)]), [])))
        return out
    return inv


reg.add(Proc(A + 'AdapterLookupBase.subscribers', [('self', OBJ), ('objects', SEQO), ('provided', OBJ)],
             source='adapter.py:AdapterLookupBase.subscribers', result=SEQO,
             calls={'self.subscriptions': A + 'virtual.subscriptions', 'providedBy': 'declarations.py:providedBy'},
             opaque_calls={'subscription': _ext_call}, locals={'$elt_K0': OBJ, 'subscriptions': SEQO, '$nomerge': True}, modifies=['$calls', '$list', '$alloc'],
             may_raise=['OtherError'], ensures=_sub_post,
             loops={'K0': Loop(lambda c: [('specifications-so-far', c.acc == pbmap(c.a.objects, c.i)),
                                          ('nothing-called-yet', c.h('$calls') == c.h0('$calls'))]),
                    'L0': Loop(_sub_L(0)), 'L1': Loop(_sub_L(1))}))
