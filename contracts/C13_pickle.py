"""Contracts for the by-reference reductions (property C13) over an assumed model of pickle:

  loads(dumps(x))  where x.__reduce__() is a string s          =  getattr(module of x, s)
                   where x.__reduce__() is (callable, args)    =  callable(*args)   (callable and args pickled by reference)

so each __reduce__ is specified by what its reduction rebuilds."""
import z3

from zivc.core import *  # noqa
from zivc.spec import Proc, Registry

FIELDS = {'__name__': NAME, 'inherit': OBJ, '_v_only_for': OBJ, '_Provides__args': SEQO, '_ClassProvides__args': SEQO,
          '__class__': OBJ}
reg = Registry(FIELDS)
L = Length
D = 'declarations.py:'
I = 'interface.py:'
owner = z3.Function('class_of_specification', Obj, Obj)        # ghost: the class whose __implemented__ is this specification
has_only_for = z3.Function('hasattr__v_only_for', Obj, z3.BoolSort())
IMPLEMENTEDBY = z3.Const('fn_implementedBy', Obj)
PROVIDES = z3.Const('fn_Provides', Obj)
reg.assumptions.append('pickle rebuilds a string reduction by attribute lookup in the defining module and a (callable, args) '
                       'reduction by calling it; byte-level format, persistent ids and renamed modules are not modelled')

reg.add(Proc(I + 'InterfaceClass.__reduce__', [('self', OBJ)], source='interface.py:InterfaceClass.__reduce__', result=NAME,
             ensures=lambda c: [('reduces-to-its-own-name', c.res == c.h('__name__')[c.a.self])]))
reg.add(Proc(D + '_ImmutableDeclaration.__reduce__', [('self', OBJ)], source='declarations.py:_ImmutableDeclaration.__reduce__',
             result=NAME, ensures=lambda c: [('reduces-to-the-module-global', c.res == strlit('_empty'))]))


def impl_inv(c):
    """the specification knows its class: through inherit, or (declared with an *only* form) through the remembered class"""
    s = c.a.self
    return z3.And(owner(s) != NONE,
                  z3.Implies(c.h('inherit')[s] != NONE, c.h('inherit')[s] == owner(s)),
                  z3.Implies(c.h('inherit')[s] == NONE, z3.And(has_only_for(s), c.h('_v_only_for')[s] == owner(s))))


reg.add(Proc(D + 'Implements.__reduce__', [('self', OBJ)], source='declarations.py:Implements.__reduce__',
             result=TUP(OBJ, SEQO), globals={'implementedBy': V(OBJ, IMPLEMENTEDBY)},
             requires=lambda c: [('specification-of-a-class', impl_inv(c))],
             ensures=lambda c: [('rebuilds-by-implementedBy-of-its-class', z3.And(
                 c.res.t[0].t == IMPLEMENTEDBY, L(c.res.t[1].t) == 1, c.res.t[1].t[0] == owner(c.a.self)))]))
reg.add(Proc(D + 'Provides.__reduce__', [('self', OBJ)], source='declarations.py:Provides@class.__reduce__', classname='Provides',
             result=TUP(OBJ, SEQO), globals={'Provides': V(OBJ, PROVIDES)},
             ensures=lambda c: [('rebuilds-by-the-Provides-factory-with-its-arguments', z3.And(
                 c.res.t[0].t == PROVIDES, c.res.t[1].t == c.h('_Provides__args')[c.a.self]))]))
reg.add(Proc(D + 'ClassProvides.__reduce__', [('self', OBJ)], source='declarations.py:ClassProvides.__reduce__', classname='ClassProvides',
             result=TUP(OBJ, SEQO),
             ensures=lambda c: [('rebuilds-by-its-class-with-its-arguments', z3.And(
                 c.res.t[0].t == c.h('__class__')[c.a.self], c.res.t[1].t == c.h('_ClassProvides__args')[c.a.self]))]))
