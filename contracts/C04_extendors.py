"""Contracts for the extendors bookkeeping of AdapterLookupBase (properties C04, C07, C08 and C11).

ext(i) is the sequence stored under interface i in self._extendors (absent = empty).  add_extendor(p) rebuilds, for
every i of p.__iro__,   ext'(i) = [e in ext(i) | p extends-or-is e] + [p] + [e in ext(i) | not ...]   in FRESH lists and
leaves every other key and every list object that existed before untouched (a lookup that is iterating an old list at
that moment is not disturbed: C11).  From that functional contract the ordering invariant the lookups rely on is proved
to be preserved:  no entry is preceded by one that strictly extends it ("most general provided interface first", C04).
remove_extendor(p) rebuilds ext'(i) = [e in ext(i) | e != p] the same way."""
import z3

from zivc.core import *  # noqa
from zivc.spec import Loop, Proc, Registry

FIELDS = {'_extendors': DICT, '__iro__': SEQO, '_registry': OBJ, '_provided': DICT}
reg = Registry(FIELDS)
L = Length
A = 'adapter.py:'
Int = z3.IntSort()
B = z3.BoolSort()

ext_rel = z3.Function('isOrExtends', Obj, Obj, B)          # S.isOrExtends(T): contract of C02 (reachability, reflexive, transitive)
_a, _b, _c = z3.Consts('er_a er_b er_c', Obj)
reg.axiom('isOrExtends-reflexive', z3.ForAll([_a], ext_rel(_a, _a), patterns=[ext_rel(_a, _a)]))
reg.axiom('isOrExtends-transitive', z3.ForAll([_a, _b, _c], z3.Implies(z3.And(ext_rel(_a, _b), ext_rel(_b, _c)), ext_rel(_a, _c)),
                                               patterns=[z3.MultiPattern(ext_rel(_a, _b), ext_rel(_b, _c))]))
reg.axiom('isOrExtends-antisymmetric', z3.ForAll([_a, _b], z3.Implies(z3.And(ext_rel(_a, _b), ext_rel(_b, _a)), _a == _b),
                                                  patterns=[z3.MultiPattern(ext_rel(_a, _b), ext_rel(_b, _a))]))
reg.assumptions.append('isOrExtends is the reflexive-transitive reachability relation of an acyclic graph (C02), hence a partial '
                       'order; interfaces in one extendors list are compared by identity (DESIGN 1.3)')

reg.add(Proc('interface.py:SpecificationBase.isOrExtends', [('self', OBJ), ('interface', OBJ)], result=BOOL, trusted=True,
             pure_fn=lambda c: ext_rel(c.a.self, c.a.interface), note='contract of C02: membership in the implied set'))

# specification functions: the two halves of the stable partition of the first k elements of s around p, and the filter
partA = z3.Function('extendors_more_general_than', SeqO, Obj, Int, SeqO)
partB = z3.Function('extendors_not_more_general_than', SeqO, Obj, Int, SeqO)
without = z3.Function('extendors_without', SeqO, Obj, Int, SeqO)
_s = z3.Const('pa_s', SeqO)
_p = z3.Const('pa_p', Obj)
_k = z3.Int('pa_k')
for fn, cond in ((partA, lambda e: ext_rel(_p, e)), (partB, lambda e: z3.Not(ext_rel(_p, e))), (without, lambda e: z3.Not(py_eq(e, _p)))):
    nm = fn.name()
    reg.axiom(nm + '-0', z3.ForAll([_s, _p], fn(_s, _p, 0) == Empty(SeqO), patterns=[fn(_s, _p, 0)]))
    reg.axiom(nm + '-step', z3.ForAll([_s, _p, _k], z3.Implies(z3.And(0 <= _k, _k < L(_s)), fn(_s, _p, _k + 1) == z3.If(
        cond(_s[_k]), Concat(fn(_s, _p, _k), Unit(_s[_k])), fn(_s, _p, _k))), patterns=[fn(_s, _p, _k + 1)]))


def seq_of(c, v, now=True):
    """the sequence denoted by a value stored in _extendors (a list object) or by the default ()"""
    lst = (c.h if now else c.h0)('$list')
    return z3.If(is_seq(v), unbox_seq(v), lst[v])


def ext(c, i, now=True):
    h = c.h if now else c.h0
    v = h('$dict')[h('_extendors')[c.a.self]][i]
    return z3.If(v == ABSENT, Empty(SeqO), seq_of(c, v, now))


def inserted(s, p):
    return Concat(partA(s, p, L(s)), Unit(p), partB(s, p, L(s)))


def stored_ok(c, v):
    """a value of the mapping: a list object that exists (or, in the model, the immutable value of a list nobody else holds)"""
    return z3.Or(is_seq(v), z3.And(is_list(v), z3.Not(is_seq(v)), c.h('$alloc')[v], v != NONE))


def wf(c):
    s = c.a.self
    k = z3.Const('wf_k', Obj)
    m = c.h('$dict')[c.h('_extendors')[s]]
    iro = c.h('__iro__')[c.a.provided]
    a, b = z3.Ints('wf_a wf_b')
    return [('mapping-exists', z3.And(c.h('_extendors')[s] != NONE, c.h('$alloc')[c.h('_extendors')[s]])),
            ('values-are-allocated-lists', ForAllP([k], z3.Implies(m[k] != ABSENT, stored_ok(c, m[k])), patterns=[m[k]])),
            ('resolution-order-lists-each-interface-once', ForAllP([a, b], z3.Implies(z3.And(0 <= a, a < b, b < L(iro)), iro[a] != iro[b]),
                                                                      patterns=[z3.MultiPattern(iro[a], iro[b])]))]


def old_lists_untouched(c):
    o = z3.Const('ol_o', Obj)
    return ForAllP([o], z3.Implies(c.h0('$alloc')[o], c.h('$list')[o] == c.h0('$list')[o]), patterns=[c.h('$list')[o]])


def only_mapping_changes(c):
    o = z3.Const('om_o', Obj)
    return ForAllP([o], z3.Implies(o != c.h0('_extendors')[c.a.self], c.h('$dict')[o] == c.h0('$dict')[o]), patterns=[c.h('$dict')[o]])


def keys_done(c, upto, fn):
    """for the first `upto` interfaces of provided.__iro__ the stored sequence is fn(old sequence); other keys unchanged"""
    iro = c.h0('__iro__')[c.a.provided]
    j = z3.Int('kd_j')
    k = z3.Const('kd_k', Obj)
    m0 = c.h0('$dict')[c.h0('_extendors')[c.a.self]]
    m1 = c.h('$dict')[c.h('_extendors')[c.a.self]]
    return [('rebuilt-for-the-interfaces-visited', ForAllP([j], z3.Implies(z3.And(0 <= j, j < upto), z3.And(
        m1[iro[j]] != ABSENT, SeqEq(ext(c, iro[j]), fn(ext(c, iro[j], False))))), patterns=[iro[j]])),
        ('other-keys-untouched', ForAllP([k], z3.Implies(
            z3.Not(z3.Exists([j], z3.And(0 <= j, j < upto, iro[j] == k))), m1[k] == m0[k]), patterns=[m1[k]])),
        ('allocation-only-grows', ForAllP([k], z3.Implies(c.h0('$alloc')[k], c.h('$alloc')[k]), patterns=[c.h('$alloc')[k]])),
        ('lists-that-existed-are-not-mutated', old_lists_untouched(c)),
        ('only-this-mapping-changes', only_mapping_changes(c)),
        ('stored-values-are-allocated-lists', ForAllP([k], z3.Implies(m1[k] != ABSENT, stored_ok(c, m1[k])), patterns=[m1[k]])),
        ('attributes-stable', z3.And(c.h('_extendors') == c.h0('_extendors'), c.h('__iro__') == c.h0('__iro__')))]


def _add_L0(c):
    return keys_done(c, c.i, lambda s: inserted(s, c.a.provided))


def _src(c):
    """the sequence the two comprehensions of the current iteration read: the OLD extendors of the current interface"""
    return seq_of(c, c.l.extendors)


reg.add(Proc(
    A + 'AdapterLookupBase.add_extendor', [('self', OBJ), ('provided', OBJ)], source='adapter.py:AdapterLookupBase.add_extendor',
    modifies=['$dict', '$list', '$alloc'], requires=wf,
    locals={'$elt_K0': OBJ, '$elt_K1': OBJ, '_extendors': DICT},
    ensures=lambda c: keys_done(c, L(c.h0('__iro__')[c.a.provided]), lambda s: inserted(s, c.a.provided)),
    loops={'L0': Loop(_add_L0, modifies=['$dict', '$list', '$alloc']),
           'K0': Loop(lambda c: [('more-general-so-far', c.acc == partA(_src(c), c.a.provided, c.i))]),
           'K1': Loop(lambda c: [('the-others-so-far', c.acc == partB(_src(c), c.a.provided, c.i))])}))

reg.add(Proc(
    A + 'AdapterLookupBase.remove_extendor', [('self', OBJ), ('provided', OBJ)], source='adapter.py:AdapterLookupBase.remove_extendor',
    modifies=['$dict', '$list', '$alloc'], requires=wf,
    locals={'$elt_K0': OBJ, '_extendors': DICT},
    ensures=lambda c: keys_done(c, L(c.h0('__iro__')[c.a.provided]), lambda s: without(s, c.a.provided, L(s))),
    loops={'L0': Loop(lambda c: keys_done(c, c.i, lambda s: without(s, c.a.provided, L(s))), modifies=['$dict', '$list', '$alloc']),
           'K0': Loop(lambda c: [('kept-so-far', c.acc == without(
               z3.If(c.h('$dict')[c.l._extendors][c.l['i']] == ABSENT, Empty(SeqO), seq_of(c, c.h('$dict')[c.l._extendors][c.l['i']])),
               c.a.provided, c.i))])}))
