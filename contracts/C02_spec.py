"""Contracts for the specification graph (property C02): dependents bookkeeping, __bases__ assignment, changed().

cnt(X, Y)    how often Y is recorded as a dependent of X  (entry of X's weak dependents mapping, 0 if absent)
occ(s, x)    number of occurrences of x in the sequence s
SubInv       for every specification Y and every X:  cnt(X, Y) == occ(bases(Y), X)     (X not the immutable empty declaration)
"""
import z3

from zivc.core import *  # noqa
from zivc.spec import Loop, Proc, Registry
from zivc import symex

FIELDS = {'_dependents': DICT, '_bases': SEQO, '_implied': DICT, '_v_attrs': DICT, '__sro__': SEQO, '__iro__': SEQO,
          '$log': SeqO}
symex.FIELD_ALIAS['__bases__'] = '_bases'
reg = Registry(FIELDS)
L = Length
I = 'interface.py:'
Int = z3.IntSort()
B = z3.BoolSort()
reg.assumptions.append('weakly held dependents stay alive for the duration of a call (garbage collection only removes unreachable objects)')


def depmap(c, X, now=True):
    h = c.h if now else c.h0
    d = h('_dependents')[X]
    return z3.If(d == NONE, EMPTYMAP, h('$dict')[d])


def cnt(c, X, Y, now=True):
    v = z3.Select(depmap(c, X, now), Y)
    return z3.If(v == ABSENT, 0, unbox_int(v))


def deps_wf(c, X, now=True):
    """stored counts are positive ints"""
    y = z3.Const('dw_y', Obj)
    m = depmap(c, X, now)
    return z3.ForAll([y], z3.Implies(m[y] != ABSENT, z3.And(is_int(m[y]), unbox_int(m[y]) >= 1, m[y] == box_int(unbox_int(m[y])))))


def _weakdict(ex, node, st):
    r = ex.fresh_ref(st, 'weakdict')
    ex.set_dictval(st, r, EMPTYMAP)
    return [(st, V(DICT, r))]


def others_unchanged(c, X):
    o = z3.Const('ou_o', Obj)
    return [('dependents-field-of-others', z3.ForAll([o], z3.Implies(o != X, c.h('_dependents')[o] == c.h0('_dependents')[o]))),
            ('mappings-of-others', z3.ForAll([o], z3.Implies(z3.And(o != c.h('_dependents')[X], c.h0('$alloc')[o]),
                                                            c.h('$dict')[o] == c.h0('$dict')[o]))),
            ('own-mapping-kept-or-fresh', z3.Or(c.h('_dependents')[X] == c.h0('_dependents')[X],
                                                z3.And(c.h0('_dependents')[X] == NONE, z3.Not(c.h0('$alloc')[c.h('_dependents')[X]])))),
            ('alloc-grows', z3.ForAll([o], z3.Implies(c.h0('$alloc')[o], c.h('$alloc')[o])))]


def dep_pre(c):
    return [('counts-well-formed', deps_wf(c, c.a.self)),
            ('mapping-allocated', z3.Implies(c.h('_dependents')[c.a.self] != NONE, c.h('$alloc')[c.h('_dependents')[c.a.self]]))]


reg.add(Proc(
    I + 'Specification.dependents', [('self', OBJ)], source='interface.py:Specification.dependents', result=DICT,
    calls={'weakref.WeakKeyDictionary': _weakdict}, modifies=['_dependents', '$dict', '$alloc'],
    requires=dep_pre,
    ensures=lambda c: [('is-the-mapping', z3.And(c.res == c.h('_dependents')[c.a.self], c.res != NONE, c.h('$alloc')[c.res])),
                       ('content-unchanged', c.h('$dict')[c.res] == depmap(c, c.a.self, False))] + others_unchanged(c, c.a.self)))

reg.add(Proc(
    I + 'Specification.subscribe', [('self', OBJ), ('dependent', OBJ)], source='interface.py:Specification.subscribe',
    calls={'@self.dependents': I + 'Specification.dependents'}, modifies=['_dependents', '$dict', '$alloc'],
    requires=dep_pre,
    ensures=lambda c: [('one-more', depmap(c, c.a.self) == z3.Store(depmap(c, c.a.self, False), c.a.dependent,
                                                                    box_int(cnt(c, c.a.self, c.a.dependent, False) + 1))),
                       ('counts-well-formed', deps_wf(c, c.a.self)),
                       ('mapping-allocated', z3.And(c.h('_dependents')[c.a.self] != NONE, c.h('$alloc')[c.h('_dependents')[c.a.self]]))]
    + others_unchanged(c, c.a.self)))

reg.add(Proc(
    I + 'Specification.unsubscribe', [('self', OBJ), ('dependent', OBJ)], source='interface.py:Specification.unsubscribe',
    calls={'@self.dependents': I + 'Specification.dependents'}, modifies=['_dependents', '$dict', '$alloc'],
    locals={'$dict_may_be_none': True},
    requires=dep_pre,
    raises={'KeyError': (lambda c: cnt(c, c.a.self, c.a.dependent, False) == 0,
                         lambda c: [('nothing-changed', depmap(c, c.a.self) == depmap(c, c.a.self, False))])},
    ensures=lambda c: [('one-less', depmap(c, c.a.self) == z3.Store(
        depmap(c, c.a.self, False), c.a.dependent,
        z3.If(cnt(c, c.a.self, c.a.dependent, False) == 1, ABSENT, box_int(cnt(c, c.a.self, c.a.dependent, False) - 1)))),
        ('counts-well-formed', deps_wf(c, c.a.self))] + others_unchanged(c, c.a.self)))

# ------------------------------------------------------------------ occurrences in a sequence
occk = z3.Function('occk', SeqO, Obj, Int, Int)
_s, _x = z3.Const('oc_s', SeqO), z3.Const('oc_x', Obj)
_k, _k2 = z3.Ints('oc_k oc_k2')
reg.axiom('occk-0', z3.ForAll([_s, _x], occk(_s, _x, 0) == 0, patterns=[occk(_s, _x, 0)]))
reg.axiom('occk-step', z3.ForAll([_s, _x, _k], z3.Implies(z3.And(0 <= _k, _k < L(_s)),
          occk(_s, _x, _k + 1) == occk(_s, _x, _k) + z3.If(_s[_k] == _x, 1, 0)), patterns=[occk(_s, _x, _k + 1)]))


def occ(s, x):
    return occk(s, x, L(s))


# occk is non-decreasing in k (induction on the larger index)
_kk = z3.Int('oc_kk')
reg.induct('occk-monotone', [_s, _x], _k2,
           lambda k2: z3.ForAll([_kk], z3.Implies(z3.And(0 <= _kk, _kk <= k2, k2 <= L(_s)), occk(_s, _x, _kk) <= occk(_s, _x, k2)),
                                patterns=[z3.MultiPattern(occk(_s, _x, _kk), occk(_s, _x, k2))]),
           patterns=[occk(_s, _x, _k2)])
_i2, _j2 = z3.Ints('oc_i oc_j')
_room = z3.Implies(z3.And(0 <= _i2, _i2 <= _j2, _j2 < L(_s), _s[_j2] == _x), occk(_s, _x, _i2) + 1 <= occk(_s, _x, L(_s)))
# two-step proof: (1) the step axiom at j, (2) the claim given (1); together: hypotheses => claim
reg.lemma('occ-has-room:step-instance', [0 <= _i2, _i2 <= _j2, _j2 < L(_s), _s[_j2] == _x],
          occk(_s, _x, _j2 + 1) == occk(_s, _x, _j2) + 1)
reg.lemma('occ-has-room', [0 <= _i2, _i2 <= _j2, _j2 < L(_s), _s[_j2] == _x,
                           occk(_s, _x, _j2 + 1) == occk(_s, _x, _j2) + 1],      # (the step axiom, instantiated)
          occk(_s, _x, _i2) + 1 <= occk(_s, _x, L(_s)))
reg.pending_axioms.append(('occ-has-room', z3.ForAll([_s, _x, _i2, _j2], _room,
                                                     patterns=[z3.MultiPattern(occk(_s, _x, _i2), _s[_j2])])))
reg.induct('occk-nonneg', [_s, _x], _k, lambda k: z3.Implies(k <= L(_s), occk(_s, _x, k) >= 0))

is_immutable = z3.Function('is_immutable_declaration', Obj, B)     # the shared empty declaration: (un)subscribe are no-ops


def vsub_effect(c, delta):
    X, Y = c.a.self, c.a.dependent
    new = cnt(c, X, Y, False) + delta
    return z3.If(is_immutable(X), depmap(c, X) == depmap(c, X, False),
                 depmap(c, X) == z3.Store(depmap(c, X, False), Y, z3.If(new == 0, ABSENT, box_int(new))))


def all_wf(c, now=True):
    x = z3.Const('aw_x', Obj)
    h = c.h if now else c.h0
    return z3.ForAll([x], z3.And(deps_wf(c, x, now), z3.Implies(h('_dependents')[x] != NONE, h('$alloc')[h('_dependents')[x]])))


def other_maps_same(c, X):
    o = z3.Const('om_o', Obj)
    return z3.ForAll([o], z3.Implies(o != X, depmap(c, o) == depmap(c, o, False)))


def distinct_maps(c, now=True):
    """two specifications never share one dependents mapping"""
    a, b = z3.Consts('dm_a dm_b', Obj)
    h = c.h if now else c.h0
    return z3.ForAll([a, b], z3.Implies(z3.And(a != b, h('_dependents')[a] != NONE), h('_dependents')[a] != h('_dependents')[b]))


reg.add(Proc(I + 'virtual.subscribe', [('self', OBJ), ('dependent', OBJ)], modifies=['_dependents', '$dict', '$alloc'],
             requires=lambda c: [('all-well-formed', all_wf(c)), ('maps-distinct', distinct_maps(c))],
             ensures=lambda c: [vsub_effect(c, 1), other_maps_same(c, c.a.self), all_wf(c), distinct_maps(c)],
             note='Specification.subscribe (verified above) or the no-op of the immutable empty declaration'))
reg.add(Proc(I + 'virtual.unsubscribe', [('self', OBJ), ('dependent', OBJ)], modifies=['_dependents', '$dict', '$alloc'],
             requires=lambda c: [('all-well-formed', all_wf(c)), ('maps-distinct', distinct_maps(c)),
                                 ('is-a-dependent', z3.Or(is_immutable(c.a.self), cnt(c, c.a.self, c.a.dependent) >= 1))],
             ensures=lambda c: [vsub_effect(c, -1), other_maps_same(c, c.a.self), all_wf(c), distinct_maps(c)],
             note='Specification.unsubscribe (verified above) or the no-op of the immutable empty declaration'))


def changed_frame(c):
    """what __setBases relies on from changed(): bookkeeping of dependents and bases is left alone"""
    x = z3.Const('cf_x', Obj)
    return [z3.ForAll([x], depmap(c, x) == depmap(c, x, False)), c.h('_bases') == c.h0('_bases'), all_wf(c), distinct_maps(c)]


reg.add(Proc(I + 'virtual.changed', [('self', OBJ), ('originally_changed', OBJ)],
             modifies=['__sro__', '__iro__', '$dict', '_v_attrs', '$alloc', '$log'],
             requires=lambda c: [('all-well-formed', all_wf(c)), ('maps-distinct', distinct_maps(c))],
             ensures=lambda c: changed_frame(c) + [c.h('$log') == Concat(c.h0('$log'), Unit(c.a.self))],
             note='frame part of the contract of changed() (the repair part is stated on Specification.changed below)'))


def subinv_self(c, Y, bases, now=True):
    x = z3.Const('si_x', Obj)
    return z3.ForAll([x], z3.Implies(z3.Not(is_immutable(x)), cnt(c, x, Y, now) == occ(bases, x)))


def _sb_L0(c):
    x, y = z3.Consts('l0_x l0_y', Obj)
    B0 = c.h0('_bases')[c.a.self]
    return [('counts-decrease-with-the-prefix', z3.ForAll([x], z3.Implies(
        z3.Not(is_immutable(x)), cnt(c, x, c.a.self) == occ(B0, x) - occk(B0, x, c.i)))),
        ('other-dependents-untouched', z3.ForAll([x, y], z3.Implies(y != c.a.self, depmap(c, x)[y] == depmap(c, x, False)[y]))),
        ('well-formed', z3.And(all_wf(c), distinct_maps(c))), ('bases-unchanged', c.h('_bases') == c.h0('_bases'))]


def _sb_L1(c):
    x, y = z3.Consts('l1_x l1_y', Obj)
    return [('counts-grow-with-the-prefix', z3.ForAll([x], z3.Implies(
        z3.Not(is_immutable(x)), cnt(c, x, c.a.self) == occk(c.a.bases, x, c.i)))),
        ('other-dependents-untouched', z3.ForAll([x, y], z3.Implies(y != c.a.self, depmap(c, x)[y] == depmap(c, x, False)[y]))),
        ('well-formed', z3.And(all_wf(c), distinct_maps(c))),
        ('bases-set', c.h('_bases') == z3.Store(c.h0('_bases'), c.a.self, c.a.bases))]


reg.add(Proc(
    I + 'Specification.__setBases', [('self', OBJ), ('bases', SEQO)], source='interface.py:Specification.__setBases',
    calls={'b.unsubscribe': I + 'virtual.unsubscribe', 'b.subscribe': I + 'virtual.subscribe', 'self.changed': I + 'virtual.changed'},
    modifies=['_dependents', '$dict', '$alloc', '_bases', '__sro__', '__iro__', '_v_attrs', '$log'],
    requires=lambda c: [('all-well-formed', all_wf(c)), ('maps-distinct', distinct_maps(c)),
                        ('subscribed-to-the-old-bases', subinv_self(c, c.a.self, c.h('_bases')[c.a.self]))],
    ensures=lambda c: [
        ('bases-assigned', c.h('_bases') == z3.Store(c.h0('_bases'), c.a.self, c.a.bases)),
        ('subscribed-to-exactly-the-new-bases', subinv_self(c, c.a.self, c.a.bases)),
        ('dependents-of-others-untouched', z3.ForAll([z3.Const('p_x', Obj), z3.Const('p_y', Obj)], z3.Implies(
            z3.Const('p_y', Obj) != c.a.self,
            depmap(c, z3.Const('p_x', Obj))[z3.Const('p_y', Obj)] == depmap(c, z3.Const('p_x', Obj), False)[z3.Const('p_y', Obj)]))),
        ('self-notified-last', c.h('$log') == Concat(c.h0('$log'), Concat(Unit(c.a.self), T(L(c.h0('$log')))))),
        ('well-formed', z3.And(all_wf(c), distinct_maps(c)))],
    loops={'L0': Loop(_sb_L0), 'L1': Loop(_sb_L1)},
))

# ------------------------------------------------------------------ Specification.changed
SS = z3.ArraySort(Obj, SeqO)
calc = z3.Function('calc_sro', Obj, SeqO, SS, SeqO)        # what _calculate_sro computes from the bases' current __sro__ (C03)
is_iface = z3.Function('is_InterfaceClass', Obj, B)
filt = z3.Function('ifaces_of_prefix', SeqO, Int, SeqO)     # interfaces among the first k elements, in order
rank = z3.Function('rank', Obj, Int)                        # ghost: acyclicity (A3) -- dependents have a larger rank
T = z3.Function('notification_tail', Int, SeqO)             # what a notified dependent appends to the log after itself
reg.axiom('filt-0', z3.ForAll([_s], filt(_s, 0) == Empty(SeqO), patterns=[filt(_s, 0)]))
reg.axiom('filt-step', z3.ForAll([_s, _k], z3.Implies(z3.And(0 <= _k, _k < L(_s)), filt(_s, _k + 1) == z3.If(
    is_iface(_s[_k]), Concat(filt(_s, _k), Unit(_s[_k])), filt(_s, _k))), patterns=[filt(_s, _k + 1)]))
reg.assumptions.append('A3: the dependents relation is acyclic (ghost rank); dependents that are not specifications (lookup objects) '
                       'honour the contract of changed()')


def _isinstance_iface(ex, node, st):
    out = []
    for s, v in ex.ev(node.args[0], st):
        out.append((s, vbool(is_iface(v.t))))
    return out


def own_state_ok(c, X, now=True):
    h = c.h if now else c.h0
    x = z3.Const('os_x', Obj)
    imp = h('_implied')[X]
    return z3.And(imp != NONE, h('$alloc')[imp],
                  z3.ForAll([x], z3.And(h('_dependents')[x] != imp, z3.Implies(x != X, h('_implied')[x] != imp))))


def ranks_ok(c, now=True):
    x, y = z3.Consts('rk_x rk_y', Obj)
    return z3.ForAll([x, y], z3.Implies(depmap(c, x, now)[y] != ABSENT, rank(y) > rank(x)))


def low_rank_untouched(c, r):
    """fields of every object of rank < r (and every implied mapping of such an object) are as at entry"""
    x = z3.Const('lr_x', Obj)
    return z3.ForAll([x], z3.Implies(rank(x) < r, z3.And(
        c.h('__sro__')[x] == c.h0('__sro__')[x], c.h('__iro__')[x] == c.h0('__iro__')[x],
        c.h('_v_attrs')[x] == c.h0('_v_attrs')[x], c.h('_implied')[x] == c.h0('_implied')[x],
        c.h('$dict')[c.h0('_implied')[x]] == c.h0('$dict')[c.h0('_implied')[x]])))


def vchanged_ensures(c):
    n0 = L(c.h0('$log'))
    return changed_frame(c)[:2] + [
        all_wf(c), distinct_maps(c),
        c.h('$log') == Concat(c.h0('$log'), Concat(Unit(c.a.self), T(n0))),
        low_rank_untouched(c, rank(c.a.self)),
        z3.ForAll([z3.Const('ve_x', Obj)], own_state_ok(c, z3.Const('ve_x', Obj)) == own_state_ok(c, z3.Const('ve_x', Obj), False)) if False else z3.BoolVal(True),
    ]


_vch = reg.procs[I + 'virtual.changed']
_vch.ensures = vchanged_ensures
_vch.modifies = ['__sro__', '__iro__', '$dict', '_v_attrs', '$alloc', '$log']

reg.add(Proc(I + 'Specification._calculate_sro', [('self', OBJ)], result=SEQO, trusted=True,
             ensures=lambda c: [c.res == calc(c.a.self, c.h('_bases')[c.a.self], c.h('__sro__'))],
             note='C3 order of the bases\' current __sro__ with Interface moved last: the function verified for C03 (ro.py) plus a '
                  'dict comprehension outside the subset; bounded against CPython\'s MRO by the C03 check'))


def _ch_entry(ex, st):
    st.heap.set('$log', Concat(st.heap.get('$log'), Unit(ex.args['self'].t)))


def implied_is(c, X, seq, upto=None):
    x = z3.Const('im_x', Obj)
    j = z3.Int('im_j')
    m = c.h('$dict')[c.h('_implied')[X]]
    n = L(seq) if upto is None else upto
    return z3.ForAll([x], (m[x] != ABSENT) == z3.Exists([j], z3.And(0 <= j, j < n, seq[j] == x)))


def _ch_K0(c):
    return [('interfaces-of-the-prefix', c.acc == filt(c.l.ancestors, c.i))]


def _ch_L0(c):
    return [('implied-is-the-prefix', implied_is(c, c.a.self, c.l.ancestors, c.i)),
            ('only-own-implied-mapping-changes', z3.ForAll([z3.Const('l0_o', Obj)], z3.Implies(
                z3.Const('l0_o', Obj) != c.h('_implied')[c.a.self], c.h('$dict')[z3.Const('l0_o', Obj)] == c.hL('$dict')[z3.Const('l0_o', Obj)])))]


def _ch_L1(c):
    j = z3.Int('l1_j')
    keys = dict_keys(depmap(c, c.a.self, False))
    s = c.a.self
    return [('dependents-so-far-notified', z3.ForAll([j], z3.Implies(z3.And(0 <= j, j < c.i), Contains(c.h('$log'), keys[j])))),
            ('bookkeeping-untouched', z3.And(*changed_frame(c)[:2])), ('well-formed', z3.And(all_wf(c), distinct_maps(c))),
            ('own-results-intact', z3.And(c.h('__sro__')[s] == c.hL('__sro__')[s], c.h('__iro__')[s] == c.hL('__iro__')[s],
                                          c.h('_implied')[s] == c.hL('_implied')[s],
                                          c.h('$dict')[c.h('_implied')[s]] == c.hL('$dict')[c.hL('_implied')[s]],
                                          c.h('_v_attrs')[s] == c.hL('_v_attrs')[s])),
            ('lower-ranks-untouched', low_rank_untouched(c, rank(s)))]


def changed_post(c):
    s = c.a.self
    sro = calc(s, c.h0('_bases')[s], c.h0('__sro__'))
    j = z3.Int('cp_j')
    keys = dict_keys(depmap(c, s, False))
    return [
        ('sro-recomputed-from-current-bases', c.h('__sro__')[s] == sro),
        ('iro-is-sro-restricted-to-interfaces', c.h('__iro__')[s] == filt(sro, L(sro))),
        ('implied-is-exactly-the-sro', implied_is(c, s, sro)),
        ('memo-dropped', c.h('_v_attrs')[s] == NONE),
        ('every-dependent-notified', z3.ForAll([j], z3.Implies(z3.And(0 <= j, j < L(keys)), Contains(c.h('$log'), keys[j])))),
        ('bookkeeping-untouched', z3.And(*changed_frame(c)[:2])),
        ('lower-ranks-untouched', low_rank_untouched(c, rank(s))),
    ]


reg.add(Proc(
    I + 'Specification.changed', [('self', OBJ), ('originally_changed', OBJ)], source='interface.py:Specification.changed',
    calls={'self._calculate_sro': I + 'Specification._calculate_sro', 'dependent.changed': I + 'virtual.changed',
           'isinstance': _isinstance_iface},
    locals={'$elt_K0': OBJ},
    on_entry=_ch_entry,
    ghost_pre=lambda c: dict_keys_facts(depmap(c, c.a.self)),      # a dict has finitely many keys, listed once each
    modifies=['__sro__', '__iro__', '$dict', '_v_attrs', '$alloc', '$log'],
    requires=lambda c: [('all-well-formed', all_wf(c)), ('maps-distinct', distinct_maps(c)),
                        ('own-implied-mapping', own_state_ok(c, c.a.self)), ('acyclic', ranks_ok(c))],
    ensures=changed_post,
    loops={'K0': Loop(_ch_K0), 'L0': Loop(_ch_L0), 'L1': Loop(_ch_L1)},
))
