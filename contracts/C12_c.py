"""Contracts for the C twins of the (name, module) order (properties C12 and C10): IB_richcompare and IB__hash__ are verified
against the SAME key-comparison specification as the Python reference (contracts/C12_order.py)."""
import z3

from zivc.core import *  # noqa
from zivc.spec import Loop
from zivc import cfun
from zivc.cfun import CProc, C_NULL, fail

FIELDS = {'__name__': OBJ, '__module__': OBJ, '_v_cached_hash': INT}
AXIOMS = []
ASSUMPTIONS = ['CPython API models of zivc/cfun.py (A2): PyObject_RichCompareBool on two exact str objects is the str comparison; '
               'PyObject_GetAttr either returns the attribute or fails with AttributeError / another exception (oracle); '
               'the module state (_get_interface_base_class) is available; names and modules of InterfaceBase instances are str']
B = z3.BoolSort()
Int = z3.IntSort()
IBCLS = z3.Const('InterfaceBase_class', Obj)
has_name = z3.Function('hasattr___name__', Obj, B)
has_module = z3.Function('hasattr___module__', Obj, B)
attr_other_error = z3.Function('getattr_raises_other', Obj, Int, B)
STR_NAME = z3.Const('str___name__', Obj)
STR_MODULE = z3.Const('str___module__', Obj)
rcb_oracle = z3.Function('RichCompareBool_oracle', Obj, Obj, Int, Int)
LT, LE, EQ, NE, GT, GE = 0, 1, 2, 3, 4, 5


def name_rel(a, b, op):
    """comparison of two names under the Py_* operator code `op` (a z3 Int)"""
    lt, eq = name_lt(a, b), a == b
    return z3.If(op == LT, lt, z3.If(op == LE, z3.Or(lt, eq), z3.If(op == EQ, eq, z3.If(op == NE, z3.Not(eq),
                 z3.If(op == GT, z3.And(z3.Not(lt), z3.Not(eq)), z3.Not(lt))))))


def _rcb(ex, st, vs):
    a, b, op = vs[0].t, vs[1].t, ex.as_int(vs[2])
    both_str = z3.And(is_name(a), is_name(b))
    ok = st
    bad = st.clone()
    bad.assume(z3.And(z3.Not(both_str), rcb_oracle(a, b, op) < 0))
    fail(bad, cfun.EXC_OTHER)
    ok.assume(z3.Or(both_str, rcb_oracle(a, b, op) >= 0))
    val = z3.If(both_str, z3.If(name_rel(unbox_name(a), unbox_name(b), op), 1, 0), z3.If(rcb_oracle(a, b, op) > 0, 1, 0))
    return [(bad, vint(-1)), (ok, vint(val))]


def _getattr(ex, st, vs):
    o, nm = vs[0].t, vs[1].t
    out = []
    for const, has, fld, idx in ((STR_NAME, has_name, '__name__', 1), (STR_MODULE, has_module, '__module__', 2)):
        s = st.clone()
        s.assume(nm == const)
        ok, miss, other = s, s.clone(), s.clone()
        ok.assume(has(o))
        v = z3.Select(ok.heap.get(fld), o)
        ok.assume(v != C_NULL)
        out.append((ok, vobj(v)))
        miss.assume(z3.And(z3.Not(has(o)), z3.Not(attr_other_error(o, idx))))
        out.append((fail(miss, cfun.EXC_ATTRIBUTE_ERROR), vobj(C_NULL)))
        other.assume(z3.And(z3.Not(has(o)), attr_other_error(o, idx)))
        out.append((fail(other, cfun.EXC_OTHER), vobj(C_NULL)))
    return out


def _get_ib_class(ex, st, vs):
    return [(st, vobj(IBCLS))]


API = {'PyObject_RichCompareBool': _rcb, 'PyObject_GetAttr': _getattr, '_get_interface_base_class': _get_ib_class}
GLOBALS = {'str__name__': vobj(STR_NAME), 'str__module__': vobj(STR_MODULE)}
AXIOMS += [STR_NAME != STR_MODULE, IBCLS != C_NULL, STR_NAME != C_NULL, STR_MODULE != C_NULL]


def keyrel(c, op):
    """the relation of the statement between key(self) and key(other) under operator code op"""
    s, o = c.a.self, c.a.other
    n1, m1 = unbox_name(c.h0('__name__')[s]), unbox_name(c.h0('__module__')[s])
    n2, m2 = unbox_name(c.h0('__name__')[o]), unbox_name(c.h0('__module__')[o])
    lt = z3.Or(name_lt(n1, n2), z3.And(n1 == n2, name_lt(m1, m2)))
    gt = z3.Or(name_lt(n2, n1), z3.And(n1 == n2, name_lt(m2, m1)))
    eq = z3.And(n1 == n2, m1 == m2)
    return z3.If(op == LT, lt, z3.If(op == LE, z3.Not(gt), z3.If(op == EQ, eq, z3.If(op == NE, z3.Not(eq), z3.If(op == GT, gt, z3.Not(lt))))))


def strs(c, o):
    return z3.And(is_name(c.h('__name__')[o]), is_name(c.h('__module__')[o]))


def _rc_pre(c):
    s = c.a.self
    x = z3.Const('ib_x', Obj)
    return [('self-is-an-interface-with-str-name-and-module', z3.And(s != C_NULL, s != NONE, strs(c, s), subtype(typeof(s), IBCLS))),
            ('operator-code', z3.And(0 <= c.a.op, c.a.op <= 5)),
            ('other-is-an-object', c.a.other != C_NULL),
            ('InterfaceBase-instances-carry-str-names', z3.ForAll([x], z3.Implies(subtype(typeof(x), IBCLS), z3.And(strs(c, x), has_name(x), has_module(x))),
                                                                 patterns=[subtype(typeof(x), IBCLS)])),
            ('None-is-no-interface', z3.Not(subtype(typeof(NONE), IBCLS)))]


def _rc_post(c):
    s, o, op = c.a.self, c.a.other, c.a.op
    comparable = z3.And(has_name(o), has_module(o))
    missing_attr = z3.Or(z3.And(z3.Not(has_name(o)), z3.Not(attr_other_error(o, 1))),
                         z3.And(has_name(o), z3.Not(has_module(o)), z3.Not(attr_other_error(o, 2))))
    return [
        ('every-interface-sorts-before-None', z3.Implies(o == NONE, z3.And(
            c.res == box_bool(z3.Or(op == LT, op == LE, op == NE)), c.exc == C_NULL))),
        ('ordered-and-equal-by-the-(name,module)-key', z3.Implies(z3.And(o != NONE, comparable, strs(c, o)), z3.And(
            c.res == box_bool(keyrel(c, op)), c.exc == C_NULL))),
        ('objects-without-name-or-module-are-not-comparable', z3.Implies(z3.And(o != NONE, o != s, missing_attr), z3.And(c.res == NOTIMPL, c.exc == C_NULL))),
        ('NULL-iff-an-exception-is-set', (c.res == C_NULL) == (c.exc != C_NULL)),
    ]


PROCS = [CProc('IB_richcompare', [('self', OBJ), ('other', OBJ), ('op', INT)], result=OBJ, requires=_rc_pre, ensures=_rc_post,
               api=API, globals=GLOBALS)]


# ------------------------------------------------------------------ IB__hash__: hash of the (name, module) pair, memoised in a C slot (0 = not yet)
def key_tuple(c, s, now=False):
    h = c.h if now else c.h0
    return box_seq(Concat(Unit(h('__name__')[s]), Unit(h('__module__')[s])))


def _hash_pre(c):
    s = c.a.self
    return [('self-is-an-object', z3.And(s != C_NULL, s != NONE)),
            ('a-cached-hash-is-the-hash-of-the-key', z3.Implies(c.h('_v_cached_hash')[s] != 0, c.h('_v_cached_hash')[s] == cfun.HASH(key_tuple(c, s, True))))]


def _hash_post(c):
    s = c.a.self
    complete = z3.And(c.h0('__name__')[s] != C_NULL, c.h0('__module__')[s] != C_NULL)
    return [('hash-of-the-(name,module)-pair', z3.Implies(z3.And(complete, c.exc == C_NULL), c.res == cfun.HASH(key_tuple(c, s)))),
            ('a-missing-name-or-module-is-an-AttributeError', z3.Implies(z3.Not(complete), z3.And(c.res == -1, c.exc == cfun.EXC_ATTRIBUTE_ERROR))),
            ('minus-one-iff-an-exception-is-set', (c.res == -1) == (c.exc != C_NULL)),
            ('the-memo-stays-valid', z3.Implies(c.h('_v_cached_hash')[s] != 0, z3.Or(c.h('_v_cached_hash')[s] == cfun.HASH(key_tuple(c, s)),
                                                                                   c.h('_v_cached_hash')[s] == -1))),
            ('only-the-own-memo-changes', z3.ForAll([z3.Const('hh_o', Obj)], z3.Implies(z3.Const('hh_o', Obj) != s,
                                                    c.h('_v_cached_hash')[z3.Const('hh_o', Obj)] == c.h0('_v_cached_hash')[z3.Const('hh_o', Obj)])))]


PROCS.append(CProc('IB__hash__', [('self', OBJ)], result=INT, requires=_hash_pre, ensures=_hash_post, modifies=['_v_cached_hash'],
                   api=API, globals=GLOBALS))


# ------------------------------------------------------------------ IB__init__: the twin of InterfaceBase.__init__(self, name=None, module=None)
FIELDS.update({'_implied': OBJ, '_dependents': OBJ, '_bases': OBJ, '_v_attrs': OBJ, '__iro__': OBJ, '__sro__': OBJ})
init_parse_fails = z3.Function('InterfaceBase_init_arguments_do_not_parse', Obj, Obj, B)
ARG_NAME = z3.Function('InterfaceBase_init_name_argument', Obj, Obj, Obj)         # NULL when not given
ARG_MODULE = z3.Function('InterfaceBase_init_module_argument', Obj, Obj, Obj)
ASSUMPTIONS.append('IB__init__: PyArg_ParseTupleAndKeywords("|OO", name, module) either fails with TypeError (oracle) or yields the two optional '
                   'arguments (NULL when not given); which keyword NAMES it accepts is checked by the differential program "constructors" of C10 '
                   '(fix e290ba1), not by this contract; re-initialising a live interface also clears the specification slots (the Python code does not: '
                   'not a supported operation)')


def _init_parse(ex, st, vs):
    fmt = getattr(vs[2], 'lit', '')
    outs = vs[4:]
    if not fmt.strip('"').startswith('|OO') or len(outs) != 2 or any(not isinstance(o, cfun.VRef) for o in outs):
        raise cfun.CUnsupported('IB__init__: argument format %r' % fmt)
    a, k = vs[0].t, vs[1].t
    bad = st.clone()
    bad.assume(init_parse_fails(a, k))
    fail(bad, cfun.EXC_TYPE_ERROR)
    st.assume(z3.Not(init_parse_fails(a, k)))
    st.env[outs[0].ref] = vobj(ARG_NAME(a, k))
    st.env[outs[1].ref] = vobj(ARG_MODULE(a, k))
    return [(bad, vint(0)), (st, vint(1))]


def _init_post(c):
    s, a, k = c.a.self, c.a.args, c.a.kwargs
    ok = z3.Not(init_parse_fails(a, k))
    o = z3.Const('ii_o', Obj)
    return [
        ('arguments-that-do-not-parse-are-a-TypeError-and-nothing-changes', z3.Implies(z3.Not(ok), z3.And(
            c.res == -1, c.exc == cfun.EXC_TYPE_ERROR, c.h('__name__') == c.h0('__name__'), c.h('__module__') == c.h0('__module__')))),
        ('name-and-module-are-the-arguments-None-when-not-given', z3.Implies(ok, z3.And(
            c.res == 0, c.exc == C_NULL,
            c.h('__name__')[s] == z3.If(ARG_NAME(a, k) == C_NULL, NONE, ARG_NAME(a, k)),
            c.h('__module__')[s] == z3.If(ARG_MODULE(a, k) == C_NULL, NONE, ARG_MODULE(a, k))))),
        ('minus-one-iff-an-exception-is-set', (c.res == -1) == (c.exc != C_NULL)),
        ('no-other-object-is-touched', z3.ForAll([o], z3.Implies(o != s, z3.And(
            c.h('__name__')[o] == c.h0('__name__')[o], c.h('__module__')[o] == c.h0('__module__')[o], c.h('_implied')[o] == c.h0('_implied')[o])))),
    ]


INIT_API = dict(API)
INIT_API['PyArg_ParseTupleAndKeywords'] = _init_parse
PROCS.append(CProc('IB__init__', [('self', OBJ), ('args', OBJ), ('kwargs', OBJ)], result=INT,
                   requires=lambda c: [('self-is-an-object', z3.And(c.a.self != C_NULL, c.a.self != NONE))], ensures=_init_post,
                   modifies=['__name__', '__module__', '_implied', '_dependents', '_bases', '_v_attrs', '__iro__', '__sro__'],
                   api=INIT_API, globals=GLOBALS))
