"""Contracts for zope.interface.ro (property C03): the C3 merge against the textbook definition.

Specification vocabulary (DESIGN 4.1).  ``T`` ranges over sequences of rows (rows are
sequences of objects, none of them ``None``).

  row_ok(row, b)      b may be taken with respect to row: row is empty, starts with b, or lacks b
  can_choose(b, T)    row_ok for every row                      ("b occurs in no tail")
  nxt(T)              the head of the first row whose head can be chosen, ``None`` if there is none
  without(row, x)     row with every occurrence of x deleted
  rem(T, x)           every row filtered by without(., x), empty rows dropped
  mergeable(T), mrg(T)  the textbook C3 merge:  mrg([]) = [],
                        mrg(T) = [nxt(T)] + mrg(rem(T, nxt(T)))   when nxt(T) exists
"""
import z3

from zivc.core import *  # noqa
from zivc.spec import Loop, Proc, Registry

FIELDS = {
    'leaf': OBJ, 'memo': DICT, 'base_tree': SEQSEQO, '_C3__mro': OBJ, '_C3__legacy_ro': OBJ,
    'direct_inconsistency': OBJ, 'bases_had_inconsistency': OBJ, '__bases__': SEQO,
    '_StaticMRO__mro': OBJ,
}

reg = Registry(FIELDS)
L = Length

# ------------------------------------------------------------------ specification functions
wo = z3.Function('wo', SeqO, Obj, z3.IntSort(), SeqO)           # without() of the first k elements
mapw = z3.Function('mapw', SSO, Obj, SSO)
de = z3.Function('de', SSO, z3.IntSort(), SSO)                  # drop-empty of the first k rows
nxt_idx = z3.Function('nxt_idx', SSO, z3.IntSort())
mrg = z3.Function('mrg', SSO, SeqO)
mergeable = z3.Function('mergeable', SSO, z3.BoolSort())
legacy = z3.Function('legacy', Obj, SeqO)
is_strict = z3.Function('is_strict', Obj, z3.BoolSort())        # ghost: the resolver is a _StrictC3


def without(row, x):
    return wo(row, x, L(row))


def rem(T, x):
    return de(mapw(T, x), L(T))


_rk = [0]


def notin(row, b):
    _rk[0] += 1
    k = z3.Int('ni_k%d' % _rk[0])
    return z3.ForAll([k], z3.Implies(z3.And(0 <= k, k < L(row)), row[k] != b))


def row_ok(row, b):
    return z3.Or(L(row) == 0, row[0] == b, notin(row, b))


def can_choose(b, T, tag=''):
    i = z3.Int('cc_i' + tag)
    return z3.ForAll([i], z3.Implies(z3.And(0 <= i, i < L(T)), row_ok(T[i], b)))


nxt = z3.Function('nxt', SSO, Obj)


def rows_nonempty(T, tag=''):
    i = z3.Int('rn_i' + tag)
    return z3.ForAll([i], z3.Implies(z3.And(0 <= i, i < L(T)), L(T[i]) > 0), patterns=[T[i]])


def no_none(T, tag=''):
    i = z3.Int('nn_i' + tag)
    return z3.ForAll([i], z3.Implies(z3.And(0 <= i, i < L(T)), z3.Not(Contains(T[i], NONE))),
                     patterns=[T[i]])


_row, _x, _k, _j = z3.Const('a_row', SeqO), z3.Const('a_x', Obj), z3.Int('a_k'), z3.Int('a_j')
_T = z3.Const('a_T', SSO)
reg.axiom('wo-0', z3.ForAll([_row, _x], wo(_row, _x, 0) == Empty(SeqO), patterns=[wo(_row, _x, 0)]))
reg.axiom('wo-step', z3.ForAll([_row, _x, _k], z3.Implies(
    z3.And(0 <= _k, _k < L(_row)),
    wo(_row, _x, _k + 1) == z3.If(_row[_k] == _x, wo(_row, _x, _k), Concat(wo(_row, _x, _k), Unit(_row[_k])))),
    patterns=[wo(_row, _x, _k + 1)]))
reg.axiom('mapw-len', z3.ForAll([_T, _x], L(mapw(_T, _x)) == L(_T), patterns=[mapw(_T, _x)]))
reg.axiom('mapw-elem', z3.ForAll([_T, _x, _j], z3.Implies(
    z3.And(0 <= _j, _j < L(_T)), mapw(_T, _x)[_j] == wo(_T[_j], _x, L(_T[_j]))), patterns=[mapw(_T, _x)[_j]]))
reg.axiom('de-0', z3.ForAll([_T], de(_T, 0) == Empty(SSO), patterns=[de(_T, 0)]))
reg.axiom('de-step', z3.ForAll([_T, _k], z3.Implies(
    z3.And(0 <= _k, _k < L(_T)),
    de(_T, _k + 1) == z3.If(L(_T[_k]) > 0, Concat(de(_T, _k), Unit(_T[_k])), de(_T, _k))),
    patterns=[de(_T, _k + 1)]))
# nxt_idx(T) is the least index whose head can be chosen (len(T) if none) -- definitional
reg.axiom('nxt-range', z3.ForAll([_T], z3.And(0 <= nxt_idx(_T), nxt_idx(_T) <= L(_T)), patterns=[nxt_idx(_T)]))
reg.axiom('nxt-hit', z3.ForAll([_T], z3.Implies(nxt_idx(_T) < L(_T), can_choose(_T[nxt_idx(_T)][0], _T, 'h')),
                               patterns=[nxt_idx(_T)]))
reg.axiom('nxt-least', z3.ForAll([_T, _j], z3.Implies(
    z3.And(0 <= _j, _j < nxt_idx(_T)), z3.Not(can_choose(_T[_j][0], _T, 'l'))), patterns=[z3.MultiPattern(nxt_idx(_T), _T[_j])]))
reg.axiom('nxt-def', z3.ForAll([_T], z3.And(
    z3.Implies(nxt_idx(_T) < L(_T), nxt(_T) == _T[nxt_idx(_T)][0]),
    z3.Implies(nxt_idx(_T) >= L(_T), nxt(_T) == NONE)), patterns=[nxt(_T)]))
# textbook merge
reg.axiom('mrg-empty', z3.ForAll([_T], z3.Implies(L(_T) == 0, z3.And(mergeable(_T), mrg(_T) == Empty(SeqO))),
                                 patterns=[mrg(_T)]))
reg.axiom('mrg-step', z3.ForAll([_T], z3.Implies(L(_T) > 0, z3.And(
    mergeable(_T) == z3.And(nxt(_T) != NONE, mergeable(rem(_T, nxt(_T)))),
    z3.Implies(nxt(_T) != NONE, mrg(_T) == Concat(Unit(nxt(_T)), mrg(rem(_T, nxt(_T))))))),
    patterns=[mrg(_T)]))
reg.axiom('mergeable-empty', z3.ForAll([_T], z3.Implies(L(_T) == 0, mergeable(_T)), patterns=[mergeable(_T)]))
reg.axiom('mergeable-step', z3.ForAll([_T], z3.Implies(
    L(_T) > 0, mergeable(_T) == z3.And(nxt(_T) != NONE, mergeable(rem(_T, nxt(_T))))), patterns=[mergeable(_T)]))

R = 'ro.py:'

# ------------------------------------------------------------------ C3._can_choose_base
reg.add(Proc(
    R + 'C3._can_choose_base', [('base', OBJ), ('base_tree_remaining', SEQSEQO)],
    source='ro.py:C3._can_choose_base', result=BOOL,
    ensures=lambda c: [('iff-can-choose', c.res == can_choose(c.a.base, c.a.base_tree_remaining))],
    loops={
        'L0': Loop(lambda c: [('rows-before-ok', z3.ForAll([z3.Int('ii')], z3.Implies(
            z3.And(0 <= z3.Int('ii'), z3.Int('ii') < c.i), row_ok(c.a.base_tree_remaining[z3.Int('ii')], c.a.base))))]),
        'L0.0': Loop(lambda c: [
            ('row-nonempty-other-head', z3.And(L(c.l.bases) > 0, c.l.bases[0] != c.a.base)),
            ('prefix-free', z3.ForAll([z3.Int('kk')], z3.Implies(
                z3.And(0 <= z3.Int('kk'), z3.Int('kk') < c.i), c.l.bases[z3.Int('kk')] != c.a.base))),
        ]),
    },
))


def ii(name='ii'):
    return z3.Int(name)


# ------------------------------------------------------------------ lemmas about the spec functions (induction)
_M = z3.Const('l_M', SSO)
_r = z3.Const('l_row', SeqO)
_xx = z3.Const('l_x', Obj)
_kk = z3.Int('l_k')
_jj = z3.Int('l_j')

# rows kept by drop-empty are non-empty
reg.induct('de-rows-nonempty', [_M], _kk,
           lambda k: z3.ForAll([_jj], z3.Implies(z3.And(0 <= _jj, _jj < L(de(_M, k))), L(de(_M, k)[_jj]) > 0)),
           side=lambda k: k <= L(_M))
# every row kept by drop-empty is a row of the input
reg.induct('de-rows-from-input', [_M], _kk,
           lambda k: z3.ForAll([_jj], z3.Implies(z3.And(0 <= _jj, _jj < L(de(_M, k))), Contains(_M, de(_M, k)[_jj]))),
           side=lambda k: k <= L(_M))
# filtering a row never introduces an element
reg.induct('wo-subset', [_r, _xx], _kk,
           lambda k: z3.ForAll([z3.Const('l_y', Obj)], z3.Implies(Contains(wo(_r, _xx, k), z3.Const('l_y', Obj)),
                                                                   Contains(_r, z3.Const('l_y', Obj)))),
           side=lambda k: k <= L(_r))


def _filter_none(ex, node, st):
    """filter(None, rows): keep the non-empty rows (rows are sequences, truthiness = non-emptiness)."""
    out = []
    for s, vs in ex.ev_list(node.args, st):
        if vs[0].t is not NONE or vs[1].ty != SEQSEQO:
            raise Exception('filter() form not modelled')
        M = vs[1].t
        out.append((s, V(SEQSEQO, de(M, L(M)))))
    return out


# ------------------------------------------------------------------ C3._nonempty_bases_ignoring
reg.add(Proc(
    R + 'C3._nonempty_bases_ignoring', [('base_tree', SEQSEQO), ('ignoring', OBJ)],
    source='ro.py:C3._nonempty_bases_ignoring', result=SEQSEQO,
    calls={'filter': _filter_none},
    locals={'$elt_K0': SEQO, '$elt_K1': OBJ},
    ensures=lambda c: [
        ('is-rem', SeqEq(c.res, rem(c.a.base_tree, c.a.ignoring))),
    ],
    loops={
        'K0': Loop(lambda c: [('prefix-mapped', SeqEq(c.acc, Slice(mapw(c.a.base_tree, c.a.ignoring), 0, c.i)))]),
        'K1': Loop(lambda c: [('prefix-filtered', c.acc == wo(c.l.bases, c.a.ignoring, c.i))]),
    },
))

# facts about rem used by the callers, as a lemma procedure over the spec functions only
_T2 = z3.Const('l_T', SSO)
reg.lemma('rem-rows-nonempty', [], rows_nonempty(rem(_T2, _xx), 'r1'))
reg.lemma('rem-keeps-no-none', [no_none(_T2, 'r2')], no_none(rem(_T2, _xx), 'r3'))
reg.pending_axioms.append(('rem-rows-nonempty', z3.ForAll([_T2, _xx], rows_nonempty(rem(_T2, _xx), 'r4'),
                                                         patterns=[rem(_T2, _xx)])))
reg.pending_axioms.append(('rem-keeps-no-none', z3.ForAll([_T2, _xx], z3.Implies(
    no_none(_T2, 'r5'), no_none(rem(_T2, _xx), 'r6')), patterns=[rem(_T2, _xx)])))

# ------------------------------------------------------------------ C3._find_next_C3_base
reg.add(Proc(
    R + 'C3._find_next_C3_base', [('self', OBJ), ('base_tree_remaining', SEQSEQO)],
    source='ro.py:C3._find_next_C3_base', result=OBJ,
    calls={'self._can_choose_base': R + 'C3._can_choose_base'},
    requires=lambda c: [('rows-nonempty', rows_nonempty(c.a.base_tree_remaining, 'f'))],
    ensures=lambda c: [('is-next', c.res == nxt(c.a.base_tree_remaining))],
    loops={'L0': Loop(lambda c: [('no-earlier-head-choosable', z3.ForAll([ii('fj')], z3.Implies(
        z3.And(0 <= ii('fj'), ii('fj') < c.i),
        z3.Not(can_choose(c.a.base_tree_remaining[ii('fj')][0], c.a.base_tree_remaining, 'f')))))])},
))

# ------------------------------------------------------------------ _guess_next_base (virtual) and overrides
TRUE = z3.BoolVal(True)
FALSE = z3.BoolVal(False)


def _others_unchanged(c, field):
    o = z3.Const('fr_o', Obj)
    return z3.ForAll([o], z3.Implies(o != c.a.self, c.h(field)[o] == c.h0(field)[o]))


_guess_raises = {
    '_UseLegacyRO': (lambda c: z3.Not(is_strict(c.a.self)),
                     lambda c: [('flag-set', truthy(c.h('direct_inconsistency')[c.a.self])),
                                ('frame', _others_unchanged(c, 'direct_inconsistency'))]),
    'InconsistentResolutionOrderError': (lambda c: is_strict(c.a.self),
                                         lambda c: [('unchanged', c.h('direct_inconsistency') == c.h0('direct_inconsistency'))]),
}
reg.add(Proc(R + 'virtual._guess_next_base', [('self', OBJ), ('base_tree_remaining', SEQSEQO)],
             raises=_guess_raises, modifies=['direct_inconsistency'], ensures=lambda c: [FALSE],
             note='virtual method: contract attached to the base declaration, overrides verified below'))
reg.add(Proc(R + 'InconsistentResolutionOrderError', [('c3', OBJ), ('base_tree_remaining', SEQSEQO)],
             ensures=lambda c: [truthy(c.res), c.res != NONE], trusted=True,
             note='exception constructor: only stores its arguments'))
reg.add(Proc(R + 'C3._warn_iro', [('self', OBJ)], trusted=True,
             note='warnings.warn: treated as effect-free (DESIGN 1.1)'))
reg.add(Proc(
    R + 'C3._guess_next_base', [('self', OBJ), ('base_tree_remaining', SEQSEQO)],
    source='ro.py:C3._guess_next_base', classname='C3',
    calls={'self._warn_iro': R + 'C3._warn_iro'},
    requires=lambda c: [z3.Not(is_strict(c.a.self))],
    raises={'_UseLegacyRO': (lambda c: TRUE, _guess_raises['_UseLegacyRO'][1])},
    modifies=['direct_inconsistency'], ensures=lambda c: [FALSE]))
reg.add(Proc(
    R + '_StrictC3._guess_next_base', [('self', OBJ), ('base_tree_remaining', SEQSEQO)],
    source='ro.py:_StrictC3._guess_next_base', classname='_StrictC3',
    requires=lambda c: [is_strict(c.a.self)],
    raises={'InconsistentResolutionOrderError': (lambda c: TRUE, lambda c: [])},
    ensures=lambda c: [FALSE]))

# ------------------------------------------------------------------ C3._choose_next_base
_choose_raises = {
    '_UseLegacyRO': (lambda c: z3.And(nxt(c.a.base_tree_remaining) == NONE, z3.Not(is_strict(c.a.self))),
                     _guess_raises['_UseLegacyRO'][1]),
    'InconsistentResolutionOrderError': (lambda c: z3.And(nxt(c.a.base_tree_remaining) == NONE, is_strict(c.a.self)),
                                         _guess_raises['InconsistentResolutionOrderError'][1]),
}
reg.add(Proc(
    R + 'C3._choose_next_base', [('self', OBJ), ('base_tree_remaining', SEQSEQO)],
    source='ro.py:C3._choose_next_base', result=OBJ,
    calls={'self._find_next_C3_base': R + 'C3._find_next_C3_base',
           'self._guess_next_base': R + 'virtual._guess_next_base'},
    requires=lambda c: [('rows-nonempty', rows_nonempty(c.a.base_tree_remaining, 'c')),
                        ('no-none', no_none(c.a.base_tree_remaining, 'c'))],
    raises=_choose_raises, modifies=['direct_inconsistency'],
    ensures=lambda c: [('is-next', z3.And(c.res == nxt(c.a.base_tree_remaining), c.res != NONE)),
                       ('flag-unchanged', c.h('direct_inconsistency') == c.h0('direct_inconsistency'))]))

# ------------------------------------------------------------------ C3.legacy_ro (property), C3._merge, C3.mro


def seqval(c_or_heap, o, now=True):
    lst = c_or_heap.h('$list') if now else c_or_heap.h0('$list')
    return z3.If(is_seq(o), unbox_seq(o), lst[o])


def T0(c):
    return rem(c.h0('base_tree')[c.a.self], NONE)


def expected(c):
    return z3.If(mergeable(T0(c)), mrg(T0(c)), legacy(c.h0('leaf')[c.a.self]))


reg.add(Proc(R + 'C3.legacy_ro', [('self', OBJ)], result=SEQO, trusted=True,
             modifies=['_C3__legacy_ro'],
             ensures=lambda c: [c.res == legacy(c.h0('leaf')[c.a.self])],
             note='spec function legacy(leaf) := what _legacy_ro computes; checked bounded by the falsifier'))


def _frame_resolvers(c):
    """only the resolver's own cache and flag change; lists that existed before keep their contents; trees and leaves stay"""
    o = z3.Const('fr2_o', Obj)
    return z3.And(
        z3.ForAll([o], z3.Implies(o != c.a.self, z3.And(c.h('_C3__mro')[o] == c.h0('_C3__mro')[o],
                                                      c.h('direct_inconsistency')[o] == c.h0('direct_inconsistency')[o]))),
        z3.ForAll([o], z3.Implies(c.h0('$alloc')[o], z3.And(c.h('$list')[o] == c.h0('$list')[o], c.h('$alloc')[o]))),
        c.h('base_tree') == c.h0('base_tree'), c.h('leaf') == c.h0('leaf'), c.h('bases_had_inconsistency') == c.h0('bases_had_inconsistency'))


def _merge_inv(c):
    btr, base, result = c.l.base_tree_remaining, c.l.base, c.l.result
    rv = c.h('$list')[result]
    return [
        ('no-none', no_none(btr, 'm')),
        ('mergeability-preserved', mergeable(rem(btr, base)) == mergeable(T0(c))),
        ('prefix-plus-rest-is-merge', z3.Implies(mergeable(T0(c)), SeqEq(Concat(rv, mrg(rem(btr, base))), mrg(T0(c))))),
        ('flag-unchanged', c.h('direct_inconsistency') == c.h0('direct_inconsistency')),
        ('result-fresh', z3.Not(c.h0('$alloc')[result])),
        ('other-lists-unchanged', z3.ForAll([z3.Const('m_o', Obj)], z3.Implies(
            c.h0('$alloc')[z3.Const('m_o', Obj)],
            c.h('$list')[z3.Const('m_o', Obj)] == c.h0('$list')[z3.Const('m_o', Obj)]))),
        ('base_tree-unchanged', c.h('base_tree') == c.h0('base_tree')),
        ('leaf-unchanged', c.h('leaf') == c.h0('leaf')),
        ('other-caches-unchanged', z3.ForAll([z3.Const('m_o2', Obj)], z3.Implies(
            z3.Const('m_o2', Obj) != c.a.self, c.h('_C3__mro')[z3.Const('m_o2', Obj)] == c.h0('_C3__mro')[z3.Const('m_o2', Obj)]))),
        ('inherited-flags-unchanged', c.h('bases_had_inconsistency') == c.h0('bases_had_inconsistency')),
        ('allocation-only-grows', z3.ForAll([z3.Const('m_o3', Obj)], z3.Implies(c.h0('$alloc')[z3.Const('m_o3', Obj)], c.h('$alloc')[z3.Const('m_o3', Obj)]))),
    ]


_merge_raises = {'InconsistentResolutionOrderError': (
    lambda c: z3.And(is_strict(c.a.self), z3.Not(mergeable(T0(c)))), lambda c: [])}

reg.add(Proc(
    R + 'C3._merge', [('self', OBJ)], source='ro.py:C3._merge', result=SEQO, classname='C3',
    calls={'self._nonempty_bases_ignoring': R + 'C3._nonempty_bases_ignoring',
           'self._choose_next_base': R + 'C3._choose_next_base',
           '@self.legacy_ro': R + 'C3.legacy_ro'},
    requires=lambda c: [('no-none', no_none(c.h('base_tree')[c.a.self], 'mq'))],
    modifies=['_C3__mro', 'direct_inconsistency', '$list', '_C3__legacy_ro'],
    raises=_merge_raises,
    ensures=lambda c: [
        ('c3-merge-when-mergeable', z3.Implies(mergeable(T0(c)), z3.And(
            SeqEq(c.res, mrg(T0(c))), c.h('direct_inconsistency') == c.h0('direct_inconsistency')))),
        ('legacy-when-not', z3.Implies(z3.Not(mergeable(T0(c))), z3.And(
            c.res == legacy(c.h0('leaf')[c.a.self]), truthy(c.h('direct_inconsistency')[c.a.self]),
            _others_unchanged(c, 'direct_inconsistency')))),
        ('other-resolvers-and-older-lists-untouched', _frame_resolvers(c)),
    ],
    loops={'L0': Loop(_merge_inv)},
))


def resolver_inv(c, heapnow=True):
    h = c.h if heapnow else c.h0
    o = h('_C3__mro')[c.a.self]
    T = rem(h('base_tree')[c.a.self], NONE)
    exp = z3.If(mergeable(T), mrg(T), legacy(h('leaf')[c.a.self]))
    val = z3.If(is_seq(o), unbox_seq(o), h('$list')[o])
    return z3.Implies(o != NONE, z3.And(SeqEq(val, exp),
                                        z3.Implies(z3.Not(mergeable(T)), truthy(h('direct_inconsistency')[c.a.self]))))


reg.add(Proc(
    R + 'C3.mro', [('self', OBJ)], source='ro.py:C3.mro', result=SEQO, classname='C3',
    calls={'self._merge': R + 'C3._merge'},
    requires=lambda c: [('no-none', no_none(c.h('base_tree')[c.a.self], 'mr')),
                        ('resolver-inv', resolver_inv(c))],
    modifies=['_C3__mro', 'direct_inconsistency', '$list', '_C3__legacy_ro'],
    raises={'InconsistentResolutionOrderError': (
        lambda c: z3.And(is_strict(c.a.self), z3.Not(mergeable(T0(c))), c.h0('_C3__mro')[c.a.self] == NONE),
        lambda c: [])},
    ensures=lambda c: [
        ('is-expected', SeqEq(c.res, expected(c))),
        ('flag-iff-not-mergeable', z3.Implies(z3.Not(mergeable(T0(c))), truthy(c.h('direct_inconsistency')[c.a.self]))),
        ('flag-kept-when-mergeable', z3.Implies(mergeable(T0(c)),
                                                c.h('direct_inconsistency') == c.h0('direct_inconsistency'))),
        ('cached', c.h('_C3__mro')[c.a.self] != NONE),
        ('resolver-inv', resolver_inv(c)),
        ('other-resolvers-and-older-lists-untouched', _frame_resolvers(c)),
    ],
))


# ------------------------------------------------------------------ is_consistent and ro(): the public entry points
# lin_incons(C)   ghost: some specification among C and its ancestors has no C3 merge of its base linearizations
#                 (recursive over the base graph: the own merge of C, or lin_incons of a base)
# The construction of a resolver (C3.resolver -> C3.__init__, recursive over the bases, memo table) is an ASSUMED contract
# here: a fresh resolver for C whose base_tree is [[C]] + [order of each base] + [bases], whose inherited flag says whether a
# base is inconsistent, whose own flag is still unset, and whose order is preset only on the single-base fast path (always
# mergeable).  It is checked bounded (falsify/C03.py: all ordered DAGs <= 4/5 nodes against Python's own MRO).
bases_incons = z3.Function('some_base_is_inconsistent', Obj, z3.BoolSort())
own_tree = z3.Function('own_base_tree', Obj, SSO)


def _resolver_post(c):
    r = c.res
    T = rem(own_tree(c.a.C), NONE)
    return [z3.Not(c.h0('$alloc')[r]), r != NONE, c.h('leaf')[r] == c.a.C, c.h('base_tree')[r] == own_tree(c.a.C),
            no_none(own_tree(c.a.C), 'rs'),
            is_strict(r) == z3.And(c.a.strict != NONE, truthy(c.a.strict)),
            z3.Not(truthy(c.h('direct_inconsistency')[r])),
            c.h('bases_had_inconsistency')[r] == box_bool(bases_incons(c.a.C)),
            z3.Implies(c.h('_C3__mro')[r] != NONE, z3.And(mergeable(T), SeqEq(
                z3.If(is_seq(c.h('_C3__mro')[r]), unbox_seq(c.h('_C3__mro')[r]), c.h('$list')[c.h('_C3__mro')[r]]), mrg(T)))),
            z3.ForAll([z3.Const('rp_o', Obj)], z3.Implies(c.h0('$alloc')[z3.Const('rp_o', Obj)], z3.And(
                c.h('direct_inconsistency')[z3.Const('rp_o', Obj)] == c.h0('direct_inconsistency')[z3.Const('rp_o', Obj)],
                c.h('$list')[z3.Const('rp_o', Obj)] == c.h0('$list')[z3.Const('rp_o', Obj)])))]


reg.add(Proc(R + 'C3.resolver', [('C', OBJ), ('strict', OBJ), ('base_mros', OBJ)], result=OBJ, trusted=True,
             modifies=['$alloc', 'leaf', 'memo', 'base_tree', '_C3__mro', 'bases_had_inconsistency', 'direct_inconsistency', '$list'],
             requires=lambda c: [('explicit-strictness', c.a.strict != NONE), ('no-precomputed-orders', c.a.base_mros == NONE)],
             ensures=_resolver_post,
             note='C3.resolver / C3.__init__: construction of the resolver tree (assumed, bounded: all ordered DAGs <= 4/5 nodes)'))
reg.assumptions.append('C3.resolver/C3.__init__ build, for a specification C, a resolver whose base_tree is [[C]] + [the order computed for '
                       'each base] + [the bases] and whose bases_had_inconsistency says whether some base (transitively) had no C3 merge '
                       '(assumed contract; the recursion over the base graph and the single-base fast path are checked bounded)')


def _had_inconsistency(ex, node, st, recv):
    """the property C3.had_inconsistency: direct_inconsistency or bases_had_inconsistency"""
    d = ex.read_field(st, recv.t, 'direct_inconsistency')
    b = ex.read_field(st, recv.t, 'bases_had_inconsistency')
    return [(st, V(OBJ, z3.If(truthy(d.t), d.t, b.t)))]


reg.add(Proc(
    R + 'is_consistent', [('C', OBJ)], source='ro.py:is_consistent', result=BOOL,
    calls={'C3.resolver': R + 'C3.resolver', 'resolver.mro': R + 'C3.mro'},
    dynattr={'had_inconsistency': _had_inconsistency},
    modifies=['$alloc', 'leaf', 'memo', 'base_tree', '_C3__mro', 'bases_had_inconsistency', 'direct_inconsistency', '$list', '_C3__legacy_ro'],
    ensures=lambda c: [('False-exactly-when-the-own-merge-or-a-base-is-inconsistent',
                        c.res == z3.Not(z3.Or(z3.Not(mergeable(rem(own_tree(c.a.C), NONE))), bases_incons(c.a.C))))],
))


# ro(C, strict, base_mros, log_changed_ro, use_legacy_ro): the C3 order of the resolver, the legacy order when asked for
STRICT_DEFAULT = z3.Const('C3_STRICT_IRO', Obj)
LOG_DEFAULT = z3.Const('C3_LOG_CHANGED_IRO', Obj)
LEGACY_DEFAULT = z3.Const('C3_USE_LEGACY_IRO', Obj)
own_tree2 = z3.Function('own_base_tree_given_base_orders', Obj, Obj, SSO)


def _resolver2_post(c):
    r = c.res
    T = rem(own_tree2(c.a.C, c.a.base_mros), NONE)
    o = z3.Const('rq_o', Obj)
    return [z3.Not(c.h0('$alloc')[r]), r != NONE, c.h('leaf')[r] == c.a.C, c.h('base_tree')[r] == own_tree2(c.a.C, c.a.base_mros),
            no_none(own_tree2(c.a.C, c.a.base_mros), 'rs2'),
            is_strict(r) == truthy(z3.If(c.a.strict != NONE, c.a.strict, STRICT_DEFAULT)),
            z3.Not(truthy(c.h('direct_inconsistency')[r])),
            z3.Implies(c.h('_C3__mro')[r] != NONE, z3.And(mergeable(T), SeqEq(
                z3.If(is_seq(c.h('_C3__mro')[r]), unbox_seq(c.h('_C3__mro')[r]), c.h('$list')[c.h('_C3__mro')[r]]), mrg(T)))),
            z3.ForAll([o], z3.Implies(c.h0('$alloc')[o], z3.And(
                c.h('direct_inconsistency')[o] == c.h0('direct_inconsistency')[o], c.h('$list')[o] == c.h0('$list')[o])))]


reg.add(Proc(R + 'C3.resolver2', [('C', OBJ), ('strict', OBJ), ('base_mros', OBJ)], result=OBJ, trusted=True,
             modifies=['$alloc', 'leaf', 'memo', 'base_tree', '_C3__mro', 'bases_had_inconsistency', 'direct_inconsistency', '$list'],
             ensures=_resolver2_post,
             note='C3.resolver with optional strictness (class default) and precomputed base orders (assumed, bounded)'))


def _class_flag(default):
    def get(ex, node, st, recv):
        return [(st, V(OBJ, default))]
    return get


def _ro_expected(c):
    T = rem(own_tree2(c.a.C, c.a.base_mros), NONE)
    use_legacy = truthy(z3.If(c.a.use_legacy_ro != NONE, c.a.use_legacy_ro, LEGACY_DEFAULT))
    return T, use_legacy


reg.add(Proc(R + '_logger', [], result=OBJ, trusted=True, ensures=lambda c: [c.res != NONE], note='logging.getLogger: effect-free'))


def _noop_report(ex, node, st, vs):
    """the comparison report and the log call: side-effect free as far as the returned order goes (DESIGN 1.1, listed)"""
    return [(st, V(OBJ, z3.Const('ro_report_object', Obj)))]


reg.add(Proc(
    R + 'ro', [('C', OBJ), ('strict', OBJ), ('base_mros', OBJ), ('log_changed_ro', OBJ), ('use_legacy_ro', OBJ)],
    source='ro.py:ro', result=SEQO,
    defaults={'strict': VNONE, 'base_mros': VNONE, 'log_changed_ro': VNONE, 'use_legacy_ro': VNONE},
    calls={'C3.resolver': R + 'C3.resolver2', 'resolver.mro': R + 'C3.mro', '@resolver.legacy_ro': R + 'C3.legacy_ro', '_logger': R + '_logger'},
    dynattr={'had_inconsistency': _had_inconsistency, 'LOG_CHANGED_IRO': _class_flag(LOG_DEFAULT), 'USE_LEGACY_IRO': _class_flag(LEGACY_DEFAULT)},
    opaque_calls={'_ROComparison': _noop_report, '.warning': _noop_report},
    globals={'_ROOT': V(OBJ, z3.Const('ro_ROOT', Obj))},
    # the two filtered copies only feed the log message: no fact about them is needed
    loops={'K0': Loop(lambda c: []), 'K1': Loop(lambda c: [])}, locals={'$elt_K0': OBJ, '$elt_K1': OBJ},
    modifies=['$alloc', 'leaf', 'memo', 'base_tree', '_C3__mro', 'bases_had_inconsistency', 'direct_inconsistency', '$list', '_C3__legacy_ro'],
    raises={'InconsistentResolutionOrderError': (
        lambda c: z3.And(truthy(z3.If(c.a.strict != NONE, c.a.strict, STRICT_DEFAULT)), z3.Not(mergeable(_ro_expected(c)[0]))), lambda c: [])},
    ensures=lambda c: [
        ('the-C3-merge-when-it-exists-else-the-legacy-order-and-the-legacy-order-when-asked-for', SeqEq(c.res, z3.If(
            _ro_expected(c)[1], legacy(c.a.C), z3.If(mergeable(_ro_expected(c)[0]), mrg(_ro_expected(c)[0]), legacy(c.a.C)))))],
))


# ------------------------------------------------------------------ Specification._calculate_sro: the root specification comes last
SSq = z3.ArraySort(Obj, SeqO)
ro_of = z3.Function('ro_given_the_orders_of_the_bases', Obj, SeqO, SSq, SeqO)
SPEC_ROOT = z3.Const('Specification_ROOT', Obj)       # Specification._ROOT: Interface once it is defined, None before


def _do_calculate_ro(ex, node, st, recv=None):
    """self._do_calculate_ro(base_mros={b: b.__sro__ for b in self.__bases__}) = ro.ro(self, base_mros=...): the order ro()
    computes (contract above) from the specification, its bases and the CURRENT orders of those bases; the dictionary
    comprehension that packages those orders is folded into the arguments of the specification function"""
    s = ex.args['self'].t
    return [(st, V(SEQO, ro_of(s, st.heap.get('__bases__')[s], st.heap.get('__sro__'))))]


def _csro_order(c):
    return ro_of(c.a.self, c.h0('__bases__')[c.a.self], c.h0('__sro__'))


def _csro_expected(c):
    o = _csro_order(c)
    return z3.If(z3.Or(SPEC_ROOT == NONE, L(o) == 0, o[L(o) - 1] == SPEC_ROOT), o, Concat(wo(o, SPEC_ROOT, L(o)), Unit(SPEC_ROOT)))


FIELDS['__sro__'] = SEQO
reg.fields['__sro__'] = SEQO
reg.add(Proc(
    'interface.py:Specification._calculate_sro', [('self', OBJ)], source='interface.py:Specification._calculate_sro', result=SEQO,
    calls={'self._do_calculate_ro': _do_calculate_ro}, dynattr={'_ROOT': lambda ex, node, st, recv: [(st, V(OBJ, SPEC_ROOT))]},
    locals={'$elt_K1': OBJ, '$value_lists': True}, modifies=['$list', '$alloc'],
    ensures=lambda c: [
        ('the-root-specification-comes-last', z3.Implies(z3.And(SPEC_ROOT != NONE, L(_csro_order(c)) > 0),
                                                         c.res[L(c.res) - 1] == SPEC_ROOT)),
        ('the-computed-order-with-the-root-moved-to-the-end', SeqEq(c.res, _csro_expected(c)))],
    loops={'K1': Loop(lambda c: [('filtered-prefix', c.acc == wo(_csro_order(c), SPEC_ROOT, c.i))])},    # K0 is the dict comprehension (folded)
))
reg.assumptions.append('Specification._do_calculate_ro is ro.ro (class attribute); the dictionary {base: base.__sro__} handed to it is not modelled as a '
                       'dictionary: the order is a function of the specification, its bases and the current orders of the bases')


# C3.__init__ (construction of the resolver tree: recursion over the bases through the memo table, the single-base fast path) is
# NOT under contract.  A first contract translated (the engine executes the body: constructor recursion through `kind(base, memo)`,
# the comprehension that calls mro(), any(...had_inconsistency...)), but closing it needs (i) "an order returned by mro() holds no
# None" as an invariant of _merge and of the cached order, and (ii) for the fast path the lemma "the C3 merge of [[C], lin(b), [b]]
# is [C] + lin(b)" (a linearization starts with its class and lists nothing twice) -- see DESIGN 10.2.  The frames needed for it
# (mro()/_merge touch no other resolver and no older list) are proved above.
