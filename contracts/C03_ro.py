"""Contracts for zope.interface.ro (property C03): the C3 merge against the textbook definition.

Specification vocabulary (DESIGN 4.1).  ``T`` ranges over sequences of rows (rows are
sequences of objects, none of them ``None``).

  row_ok(row, b)      b may be taken with respect to row: row is empty, starts with b, or lacks b
  can_choose(b, T)    row_ok for every row                      ("b occurs in no tail")
  nxt(T)              the head of the first row whose head can be chosen, ``None`` if there is none
  without(row, x)     row with every occurrence of x deleted
  rem(T, x)           every row filtered by without(., x), empty rows dropped
  mergeable(T), mrg(T)  the textbook C3 merge:  mrg([]) = [],
                        mrg(T) = [nxt(T)] + mrg(rem(T, nxt(T)))   when nxt(T) exists
"""
import z3

from zivc.core import *  # noqa
from zivc.spec import Loop, Proc, Registry

FIELDS = {
    'leaf': OBJ, 'memo': DICT, 'base_tree': SEQSEQO, '_C3__mro': OBJ, '_C3__legacy_ro': OBJ,
    'direct_inconsistency': OBJ, 'bases_had_inconsistency': OBJ, '__bases__': SEQO,
    '_StaticMRO__mro': OBJ,
}

reg = Registry(FIELDS)
L = Length

# ------------------------------------------------------------------ specification functions
wo = z3.Function('wo', SeqO, Obj, z3.IntSort(), SeqO)           # without() of the first k elements
mapw = z3.Function('mapw', SSO, Obj, SSO)
de = z3.Function('de', SSO, z3.IntSort(), SSO)                  # drop-empty of the first k rows
nxt_idx = z3.Function('nxt_idx', SSO, z3.IntSort())
mrg = z3.Function('mrg', SSO, SeqO)
mergeable = z3.Function('mergeable', SSO, z3.BoolSort())
legacy = z3.Function('legacy', Obj, SeqO)
is_strict = z3.Function('is_strict', Obj, z3.BoolSort())        # ghost: the resolver is a _StrictC3


def without(row, x):
    return wo(row, x, L(row))


def rem(T, x):
    return de(mapw(T, x), L(T))


_rk = [0]


def notin(row, b):
    _rk[0] += 1
    k = z3.Int('ni_k%d' % _rk[0])
    return z3.ForAll([k], z3.Implies(z3.And(0 <= k, k < L(row)), row[k] != b))


def row_ok(row, b):
    return z3.Or(L(row) == 0, row[0] == b, notin(row, b))


def can_choose(b, T, tag=''):
    i = z3.Int('cc_i' + tag)
    return z3.ForAll([i], z3.Implies(z3.And(0 <= i, i < L(T)), row_ok(T[i], b)))


nxt = z3.Function('nxt', SSO, Obj)


def rows_nonempty(T, tag=''):
    i = z3.Int('rn_i' + tag)
    return z3.ForAll([i], z3.Implies(z3.And(0 <= i, i < L(T)), L(T[i]) > 0), patterns=[T[i]])


def no_none(T, tag=''):
    i = z3.Int('nn_i' + tag)
    return z3.ForAll([i], z3.Implies(z3.And(0 <= i, i < L(T)), z3.Not(Contains(T[i], NONE))),
                     patterns=[T[i]])


_row, _x, _k, _j = z3.Const('a_row', SeqO), z3.Const('a_x', Obj), z3.Int('a_k'), z3.Int('a_j')
_T = z3.Const('a_T', SSO)
reg.axiom('wo-0', z3.ForAll([_row, _x], wo(_row, _x, 0) == Empty(SeqO), patterns=[wo(_row, _x, 0)]))
reg.axiom('wo-step', z3.ForAll([_row, _x, _k], z3.Implies(
    z3.And(0 <= _k, _k < L(_row)),
    wo(_row, _x, _k + 1) == z3.If(_row[_k] == _x, wo(_row, _x, _k), Concat(wo(_row, _x, _k), Unit(_row[_k])))),
    patterns=[wo(_row, _x, _k + 1)]))
reg.axiom('mapw-len', z3.ForAll([_T, _x], L(mapw(_T, _x)) == L(_T), patterns=[mapw(_T, _x)]))
reg.axiom('mapw-elem', z3.ForAll([_T, _x, _j], z3.Implies(
    z3.And(0 <= _j, _j < L(_T)), mapw(_T, _x)[_j] == wo(_T[_j], _x, L(_T[_j]))), patterns=[mapw(_T, _x)[_j]]))
reg.axiom('de-0', z3.ForAll([_T], de(_T, 0) == Empty(SSO), patterns=[de(_T, 0)]))
reg.axiom('de-step', z3.ForAll([_T, _k], z3.Implies(
    z3.And(0 <= _k, _k < L(_T)),
    de(_T, _k + 1) == z3.If(L(_T[_k]) > 0, Concat(de(_T, _k), Unit(_T[_k])), de(_T, _k))),
    patterns=[de(_T, _k + 1)]))
# nxt_idx(T) is the least index whose head can be chosen (len(T) if none) -- definitional
reg.axiom('nxt-range', z3.ForAll([_T], z3.And(0 <= nxt_idx(_T), nxt_idx(_T) <= L(_T)), patterns=[nxt_idx(_T)]))
reg.axiom('nxt-hit', z3.ForAll([_T], z3.Implies(nxt_idx(_T) < L(_T), can_choose(_T[nxt_idx(_T)][0], _T, 'h')),
                               patterns=[nxt_idx(_T)]))
reg.axiom('nxt-least', z3.ForAll([_T, _j], z3.Implies(
    z3.And(0 <= _j, _j < nxt_idx(_T)), z3.Not(can_choose(_T[_j][0], _T, 'l'))), patterns=[z3.MultiPattern(nxt_idx(_T), _T[_j])]))
reg.axiom('nxt-def', z3.ForAll([_T], z3.And(
    z3.Implies(nxt_idx(_T) < L(_T), nxt(_T) == _T[nxt_idx(_T)][0]),
    z3.Implies(nxt_idx(_T) >= L(_T), nxt(_T) == NONE)), patterns=[nxt(_T)]))
# textbook merge
reg.axiom('mrg-empty', z3.ForAll([_T], z3.Implies(L(_T) == 0, z3.And(mergeable(_T), mrg(_T) == Empty(SeqO))),
                                 patterns=[mrg(_T)]))
reg.axiom('mrg-step', z3.ForAll([_T], z3.Implies(L(_T) > 0, z3.And(
    mergeable(_T) == z3.And(nxt(_T) != NONE, mergeable(rem(_T, nxt(_T)))),
    z3.Implies(nxt(_T) != NONE, mrg(_T) == Concat(Unit(nxt(_T)), mrg(rem(_T, nxt(_T))))))),
    patterns=[mrg(_T)]))
reg.axiom('mergeable-empty', z3.ForAll([_T], z3.Implies(L(_T) == 0, mergeable(_T)), patterns=[mergeable(_T)]))
reg.axiom('mergeable-step', z3.ForAll([_T], z3.Implies(
    L(_T) > 0, mergeable(_T) == z3.And(nxt(_T) != NONE, mergeable(rem(_T, nxt(_T))))), patterns=[mergeable(_T)]))

R = 'ro.py:'

# ------------------------------------------------------------------ C3._can_choose_base
reg.add(Proc(
    R + 'C3._can_choose_base', [('base', OBJ), ('base_tree_remaining', SEQSEQO)],
    source='ro.py:C3._can_choose_base', result=BOOL,
    ensures=lambda c: [('iff-can-choose', c.res == can_choose(c.a.base, c.a.base_tree_remaining))],
    loops={
        'L0': Loop(lambda c: [('rows-before-ok', z3.ForAll([z3.Int('ii')], z3.Implies(
            z3.And(0 <= z3.Int('ii'), z3.Int('ii') < c.i), row_ok(c.a.base_tree_remaining[z3.Int('ii')], c.a.base))))]),
        'L0.0': Loop(lambda c: [
            ('row-nonempty-other-head', z3.And(L(c.l.bases) > 0, c.l.bases[0] != c.a.base)),
            ('prefix-free', z3.ForAll([z3.Int('kk')], z3.Implies(
                z3.And(0 <= z3.Int('kk'), z3.Int('kk') < c.i), c.l.bases[z3.Int('kk')] != c.a.base))),
        ]),
    },
))


def ii(name='ii'):
    return z3.Int(name)


# ------------------------------------------------------------------ lemmas about the spec functions (induction)
_M = z3.Const('l_M', SSO)
_r = z3.Const('l_row', SeqO)
_xx = z3.Const('l_x', Obj)
_kk = z3.Int('l_k')
_jj = z3.Int('l_j')

# rows kept by drop-empty are non-empty
reg.induct('de-rows-nonempty', [_M], _kk,
           lambda k: z3.ForAll([_jj], z3.Implies(z3.And(0 <= _jj, _jj < L(de(_M, k))), L(de(_M, k)[_jj]) > 0)),
           side=lambda k: k <= L(_M))
# every row kept by drop-empty is a row of the input
reg.induct('de-rows-from-input', [_M], _kk,
           lambda k: z3.ForAll([_jj], z3.Implies(z3.And(0 <= _jj, _jj < L(de(_M, k))), Contains(_M, de(_M, k)[_jj]))),
           side=lambda k: k <= L(_M))
# filtering a row never introduces an element
reg.induct('wo-subset', [_r, _xx], _kk,
           lambda k: z3.ForAll([z3.Const('l_y', Obj)], z3.Implies(Contains(wo(_r, _xx, k), z3.Const('l_y', Obj)),
                                                                   Contains(_r, z3.Const('l_y', Obj)))),
           side=lambda k: k <= L(_r))


def _filter_none(ex, node, st):
    """filter(None, rows): keep the non-empty rows (rows are sequences, truthiness = non-emptiness)."""
    out = []
    for s, vs in ex.ev_list(node.args, st):
        if vs[0].t is not NONE or vs[1].ty != SEQSEQO:
            raise Exception('filter() form not modelled')
        M = vs[1].t
        out.append((s, V(SEQSEQO, de(M, L(M)))))
    return out


# ------------------------------------------------------------------ C3._nonempty_bases_ignoring
reg.add(Proc(
    R + 'C3._nonempty_bases_ignoring', [('base_tree', SEQSEQO), ('ignoring', OBJ)],
    source='ro.py:C3._nonempty_bases_ignoring', result=SEQSEQO,
    calls={'filter': _filter_none},
    locals={'$elt_K0': SEQO, '$elt_K1': OBJ},
    ensures=lambda c: [
        ('is-rem', SeqEq(c.res, rem(c.a.base_tree, c.a.ignoring))),
    ],
    loops={
        'K0': Loop(lambda c: [('prefix-mapped', SeqEq(c.acc, Slice(mapw(c.a.base_tree, c.a.ignoring), 0, c.i)))]),
        'K1': Loop(lambda c: [('prefix-filtered', c.acc == wo(c.l.bases, c.a.ignoring, c.i))]),
    },
))

# facts about rem used by the callers, as a lemma procedure over the spec functions only
_T2 = z3.Const('l_T', SSO)
reg.lemma('rem-rows-nonempty', [], rows_nonempty(rem(_T2, _xx), 'r1'))
reg.lemma('rem-keeps-no-none', [no_none(_T2, 'r2')], no_none(rem(_T2, _xx), 'r3'))
reg.pending_axioms.append(('rem-rows-nonempty', z3.ForAll([_T2, _xx], rows_nonempty(rem(_T2, _xx), 'r4'),
                                                         patterns=[rem(_T2, _xx)])))
reg.pending_axioms.append(('rem-keeps-no-none', z3.ForAll([_T2, _xx], z3.Implies(
    no_none(_T2, 'r5'), no_none(rem(_T2, _xx), 'r6')), patterns=[rem(_T2, _xx)])))

# ------------------------------------------------------------------ C3._find_next_C3_base
reg.add(Proc(
    R + 'C3._find_next_C3_base', [('self', OBJ), ('base_tree_remaining', SEQSEQO)],
    source='ro.py:C3._find_next_C3_base', result=OBJ,
    calls={'self._can_choose_base': R + 'C3._can_choose_base'},
    requires=lambda c: [('rows-nonempty', rows_nonempty(c.a.base_tree_remaining, 'f'))],
    ensures=lambda c: [('is-next', c.res == nxt(c.a.base_tree_remaining))],
    loops={'L0': Loop(lambda c: [('no-earlier-head-choosable', z3.ForAll([ii('fj')], z3.Implies(
        z3.And(0 <= ii('fj'), ii('fj') < c.i),
        z3.Not(can_choose(c.a.base_tree_remaining[ii('fj')][0], c.a.base_tree_remaining, 'f')))))])},
))

# ------------------------------------------------------------------ _guess_next_base (virtual) and overrides
TRUE = z3.BoolVal(True)
FALSE = z3.BoolVal(False)


def _others_unchanged(c, field):
    o = z3.Const('fr_o', Obj)
    return z3.ForAll([o], z3.Implies(o != c.a.self, c.h(field)[o] == c.h0(field)[o]))


_guess_raises = {
    '_UseLegacyRO': (lambda c: z3.Not(is_strict(c.a.self)),
                     lambda c: [('flag-set', truthy(c.h('direct_inconsistency')[c.a.self])),
                                ('frame', _others_unchanged(c, 'direct_inconsistency'))]),
    'InconsistentResolutionOrderError': (lambda c: is_strict(c.a.self),
                                         lambda c: [('unchanged', c.h('direct_inconsistency') == c.h0('direct_inconsistency'))]),
}
reg.add(Proc(R + 'virtual._guess_next_base', [('self', OBJ), ('base_tree_remaining', SEQSEQO)],
             raises=_guess_raises, modifies=['direct_inconsistency'], ensures=lambda c: [FALSE],
             note='virtual method: contract attached to the base declaration, overrides verified below'))
reg.add(Proc(R + 'InconsistentResolutionOrderError', [('c3', OBJ), ('base_tree_remaining', SEQSEQO)],
             ensures=lambda c: [truthy(c.res), c.res != NONE], trusted=True,
             note='exception constructor: only stores its arguments'))
reg.add(Proc(R + 'C3._warn_iro', [('self', OBJ)], trusted=True,
             note='warnings.warn: treated as effect-free (DESIGN 1.1)'))
reg.add(Proc(
    R + 'C3._guess_next_base', [('self', OBJ), ('base_tree_remaining', SEQSEQO)],
    source='ro.py:C3._guess_next_base', classname='C3',
    calls={'self._warn_iro': R + 'C3._warn_iro'},
    requires=lambda c: [z3.Not(is_strict(c.a.self))],
    raises={'_UseLegacyRO': (lambda c: TRUE, _guess_raises['_UseLegacyRO'][1])},
    modifies=['direct_inconsistency'], ensures=lambda c: [FALSE]))
reg.add(Proc(
    R + '_StrictC3._guess_next_base', [('self', OBJ), ('base_tree_remaining', SEQSEQO)],
    source='ro.py:_StrictC3._guess_next_base', classname='_StrictC3',
    requires=lambda c: [is_strict(c.a.self)],
    raises={'InconsistentResolutionOrderError': (lambda c: TRUE, lambda c: [])},
    ensures=lambda c: [FALSE]))

# ------------------------------------------------------------------ C3._choose_next_base
_choose_raises = {
    '_UseLegacyRO': (lambda c: z3.And(nxt(c.a.base_tree_remaining) == NONE, z3.Not(is_strict(c.a.self))),
                     _guess_raises['_UseLegacyRO'][1]),
    'InconsistentResolutionOrderError': (lambda c: z3.And(nxt(c.a.base_tree_remaining) == NONE, is_strict(c.a.self)),
                                         _guess_raises['InconsistentResolutionOrderError'][1]),
}
reg.add(Proc(
    R + 'C3._choose_next_base', [('self', OBJ), ('base_tree_remaining', SEQSEQO)],
    source='ro.py:C3._choose_next_base', result=OBJ,
    calls={'self._find_next_C3_base': R + 'C3._find_next_C3_base',
           'self._guess_next_base': R + 'virtual._guess_next_base'},
    requires=lambda c: [('rows-nonempty', rows_nonempty(c.a.base_tree_remaining, 'c')),
                        ('no-none', no_none(c.a.base_tree_remaining, 'c'))],
    raises=_choose_raises, modifies=['direct_inconsistency'],
    ensures=lambda c: [('is-next', z3.And(c.res == nxt(c.a.base_tree_remaining), c.res != NONE)),
                       ('flag-unchanged', c.h('direct_inconsistency') == c.h0('direct_inconsistency'))]))

# ------------------------------------------------------------------ C3.legacy_ro (property), C3._merge, C3.mro


def seqval(c_or_heap, o, now=True):
    lst = c_or_heap.h('$list') if now else c_or_heap.h0('$list')
    return z3.If(is_seq(o), unbox_seq(o), lst[o])


def T0(c):
    return rem(c.h0('base_tree')[c.a.self], NONE)


def expected(c):
    return z3.If(mergeable(T0(c)), mrg(T0(c)), legacy(c.h0('leaf')[c.a.self]))


reg.add(Proc(R + 'C3.legacy_ro', [('self', OBJ)], result=SEQO, trusted=True,
             modifies=['_C3__legacy_ro'],
             ensures=lambda c: [c.res == legacy(c.h0('leaf')[c.a.self])],
             note='spec function legacy(leaf) := what _legacy_ro computes; checked bounded by the falsifier'))


def _merge_inv(c):
    btr, base, result = c.l.base_tree_remaining, c.l.base, c.l.result
    rv = c.h('$list')[result]
    return [
        ('no-none', no_none(btr, 'm')),
        ('mergeability-preserved', mergeable(rem(btr, base)) == mergeable(T0(c))),
        ('prefix-plus-rest-is-merge', z3.Implies(mergeable(T0(c)), SeqEq(Concat(rv, mrg(rem(btr, base))), mrg(T0(c))))),
        ('flag-unchanged', c.h('direct_inconsistency') == c.h0('direct_inconsistency')),
        ('result-fresh', z3.Not(c.h0('$alloc')[result])),
        ('other-lists-unchanged', z3.ForAll([z3.Const('m_o', Obj)], z3.Implies(
            c.h0('$alloc')[z3.Const('m_o', Obj)],
            c.h('$list')[z3.Const('m_o', Obj)] == c.h0('$list')[z3.Const('m_o', Obj)]))),
        ('base_tree-unchanged', c.h('base_tree') == c.h0('base_tree')),
        ('leaf-unchanged', c.h('leaf') == c.h0('leaf')),
    ]


_merge_raises = {'InconsistentResolutionOrderError': (
    lambda c: z3.And(is_strict(c.a.self), z3.Not(mergeable(T0(c)))), lambda c: [])}

reg.add(Proc(
    R + 'C3._merge', [('self', OBJ)], source='ro.py:C3._merge', result=SEQO, classname='C3',
    calls={'self._nonempty_bases_ignoring': R + 'C3._nonempty_bases_ignoring',
           'self._choose_next_base': R + 'C3._choose_next_base',
           '@self.legacy_ro': R + 'C3.legacy_ro'},
    requires=lambda c: [('no-none', no_none(c.h('base_tree')[c.a.self], 'mq'))],
    modifies=['_C3__mro', 'direct_inconsistency', '$list', '_C3__legacy_ro'],
    raises=_merge_raises,
    ensures=lambda c: [
        ('c3-merge-when-mergeable', z3.Implies(mergeable(T0(c)), z3.And(
            SeqEq(c.res, mrg(T0(c))), c.h('direct_inconsistency') == c.h0('direct_inconsistency')))),
        ('legacy-when-not', z3.Implies(z3.Not(mergeable(T0(c))), z3.And(
            c.res == legacy(c.h0('leaf')[c.a.self]), truthy(c.h('direct_inconsistency')[c.a.self]),
            _others_unchanged(c, 'direct_inconsistency')))),
    ],
    loops={'L0': Loop(_merge_inv)},
))


def resolver_inv(c, heapnow=True):
    h = c.h if heapnow else c.h0
    o = h('_C3__mro')[c.a.self]
    T = rem(h('base_tree')[c.a.self], NONE)
    exp = z3.If(mergeable(T), mrg(T), legacy(h('leaf')[c.a.self]))
    val = z3.If(is_seq(o), unbox_seq(o), h('$list')[o])
    return z3.Implies(o != NONE, z3.And(SeqEq(val, exp),
                                        z3.Implies(z3.Not(mergeable(T)), truthy(h('direct_inconsistency')[c.a.self]))))


reg.add(Proc(
    R + 'C3.mro', [('self', OBJ)], source='ro.py:C3.mro', result=SEQO, classname='C3',
    calls={'self._merge': R + 'C3._merge'},
    requires=lambda c: [('no-none', no_none(c.h('base_tree')[c.a.self], 'mr')),
                        ('resolver-inv', resolver_inv(c))],
    modifies=['_C3__mro', 'direct_inconsistency', '$list', '_C3__legacy_ro'],
    raises={'InconsistentResolutionOrderError': (
        lambda c: z3.And(is_strict(c.a.self), z3.Not(mergeable(T0(c))), c.h0('_C3__mro')[c.a.self] == NONE),
        lambda c: [])},
    ensures=lambda c: [
        ('is-expected', SeqEq(c.res, expected(c))),
        ('flag-iff-not-mergeable', z3.Implies(z3.Not(mergeable(T0(c))), truthy(c.h('direct_inconsistency')[c.a.self]))),
        ('flag-kept-when-mergeable', z3.Implies(mergeable(T0(c)),
                                                c.h('direct_inconsistency') == c.h0('direct_inconsistency'))),
        ('cached', c.h('_C3__mro')[c.a.self] != NONE),
        ('resolver-inv', resolver_inv(c)),
    ],
))
