"""Contracts for InterfaceBase.__call__ / __adapt__ (property C14), Python reference.

Everything the adaptation protocol calls out to (``__conform__``, hooks, a custom ``__adapt__``) is an external
call: its result and whether it raises are given by oracles indexed by the position in a ghost call log, and
every such call appends one event to the log.  "Later steps are never executed once an earlier one succeeds"
is then a statement about the final log."""
import z3

from zivc.core import *  # noqa
from zivc.spec import Loop, Proc, Registry
from zivc import symex

FIELDS = {'$log': SeqO}
reg = Registry(FIELDS)
L = Length
I = 'interface.py:'
B = z3.BoolSort()
Int = z3.IntSort()

ev = z3.Function('event', Int, Obj, Obj, Obj, Obj)        # (kind, callee, arg1, arg2) -> event
R = z3.Function('ext_result', Int, Obj)                   # result of the external call made at log position n
X = z3.Function('ext_raises', Int, B)                     # ... whether it raises instead
has_conform = z3.Function('has___conform__', Obj, B)
conform_attr_error = z3.Function('conform_access_raises_AttributeError', Obj, B)
conform_of = z3.Function('conform_of', Obj, Obj)
custom_adapt = z3.Function('has_custom___adapt__', Obj, B)
provides = z3.Function('spec_providedBy', Obj, Obj, B)
HOOKS = z3.Const('adapter_hooks', SeqO)
MARKER = z3.Const('_marker', Obj)
K_CONFORM, K_HOOK, K_CUSTOM = 1, 2, 3
hev = z3.Function('hook_events', Obj, Obj, Int, SeqO)     # the first i hook calls hook(self, obj)
stop = z3.Function('first_deciding_hook', Int, Int)       # least j with X(n0+j) or R(n0+j) != None, len(HOOKS) if none

_s, _o = z3.Consts('a_self a_obj', Obj)
_i, _n, _j = z3.Ints('a_i a_n a_j')
reg.axiom('hev-0', z3.ForAll([_s, _o], hev(_s, _o, 0) == Empty(SeqO), patterns=[hev(_s, _o, 0)]))
reg.axiom('hev-step', z3.ForAll([_s, _o, _i], z3.Implies(z3.And(0 <= _i, _i < L(HOOKS)),
          hev(_s, _o, _i + 1) == Concat(hev(_s, _o, _i), Unit(ev(K_HOOK, HOOKS[_i], _s, _o)))), patterns=[hev(_s, _o, _i + 1)]))
reg.axiom('hev-len', z3.ForAll([_s, _o, _i], z3.Implies(z3.And(0 <= _i, _i <= L(HOOKS)), L(hev(_s, _o, _i)) == _i),
                               patterns=[hev(_s, _o, _i)]))


def decides(n0, j):
    return z3.Or(X(n0 + j), R(n0 + j) != NONE)


reg.axiom('stop-range', z3.ForAll([_n], z3.And(0 <= stop(_n), stop(_n) <= L(HOOKS)), patterns=[stop(_n)]))
reg.axiom('stop-hit', z3.ForAll([_n], z3.Implies(stop(_n) < L(HOOKS), decides(_n, stop(_n))), patterns=[stop(_n)]))
reg.axiom('stop-least', z3.ForAll([_n, _j], z3.Implies(z3.And(0 <= _j, _j < stop(_n)), z3.Not(decides(_n, _j))),
                                  patterns=[z3.MultiPattern(stop(_n), R(_n + _j))]))
reg.axiom('none-distinct', MARKER != NONE)
reg.assumptions.append('external calls (__conform__, hooks, custom __adapt__) do not change adapter_hooks and are described by '
                       'result/raise oracles; providedBy is treated as a pure query')


def ext_call(kind):
    """model of one external call: appends an event, returns the oracle value or raises"""
    def handler(ex, node, st, vals):
        log = st.heap.get('$log')
        n = Length(log)
        callee = vals[0].t
        a1 = box(vals[1]) if len(vals) > 1 else NONE
        a2 = box(vals[2]) if len(vals) > 2 else NONE
        st.heap.set('$log', Concat(log, Unit(ev(kind, callee, a1, a2))))
        bad = st.clone()
        bad.assume(X(n))
        ex.raise_(bad, 'OtherError')
        st.assume(z3.Not(X(n)))
        return [(st, vobj(R(n)))]
    return handler


def _conform_attr(ex, node, st, recv):
    a = st.clone()
    a.assume(z3.And(z3.Not(has_conform(recv.t)), conform_attr_error(recv.t)))
    ex.raise_(a, 'AttributeError')
    b = st.clone()
    b.assume(z3.And(z3.Not(has_conform(recv.t)), z3.Not(conform_attr_error(recv.t))))
    ex.raise_(b, 'OtherError')
    st.assume(has_conform(recv.t))
    return [(st, vobj(conform_of(recv.t)))]


# ------------------------------------------------------------------ __adapt__ (standard)
def adapt_post(c, log0=None, now=None):
    log0 = c.h0('$log') if log0 is None else log0
    now = c.h('$log') if now is None else now
    n0 = L(log0)
    s = stop(n0)
    n = L(HOOKS)
    return [
        ('provided-returns-object-without-calling-anything',
         z3.Implies(provides(c.a.self, c.a.obj), z3.And(c.res == c.a.obj, now == log0))),
        ('hooks-called-in-order-until-one-decides',
         z3.Implies(z3.Not(provides(c.a.self, c.a.obj)), z3.And(
             SeqEq(now, Concat(log0, hev(c.a.self, c.a.obj, z3.If(s < n, s + 1, n)))),
             c.res == z3.If(s < n, R(n0 + s), NONE)))),
    ]


def adapt_raises(c):
    n0 = L(c.h0('$log'))
    s = stop(n0)
    return z3.And(z3.Not(provides(c.a.self, c.a.obj)), s < L(HOOKS), X(n0 + s))


def adapt_rpost(c):
    n0 = L(c.h0('$log'))
    s = stop(n0)
    return [('log-up-to-the-raising-hook', SeqEq(c.h('$log'), Concat(c.h0('$log'), hev(c.a.self, c.a.obj, s + 1))))]


def _adapt_loop(c):
    n0 = L(c.h0('$log'))
    j = z3.Int('al_j')
    return [('log-is-the-first-i-hook-calls', SeqEq(c.h('$log'), Concat(c.h0('$log'), hev(c.a.self, c.a.obj, c.i)))),
            ('none-decided-yet', z3.ForAll([j], z3.Implies(z3.And(0 <= j, j < c.i), z3.Not(decides(n0, j))))),
            ('not-provided', z3.Not(provides(c.a.self, c.a.obj)))]


reg.add(Proc(I + 'SpecificationBase.providedBy', [('self', OBJ), ('ob', OBJ)], result=BOOL, trusted=True,
             ensures=lambda c: [c.res == provides(c.a.self, c.a.ob)], note='contract of C01; treated as a pure query here'))
reg.add(Proc(
    I + 'InterfaceBase.__adapt__', [('self', OBJ), ('obj', OBJ)], source='interface.py:InterfaceBase.__adapt__', result=OBJ,
    globals={'adapter_hooks': V(SEQO, HOOKS)}, opaque_calls={'hook': ext_call(K_HOOK)},
    calls={'self.providedBy': I + 'SpecificationBase.providedBy'},
    modifies=['$log'], requires=lambda c: [z3.Not(custom_adapt(c.a.self))],
    raises={'OtherError': (adapt_raises, adapt_rpost)}, ensures=adapt_post,
    loops={'L0': Loop(_adapt_loop)},
))

# ------------------------------------------------------------------ the __adapt__ seen by __call__ (virtual: custom or standard)
def vadapt_ensures(c):
    n0 = L(c.h0('$log'))
    std = adapt_post(c)
    return [z3.Implies(z3.Not(custom_adapt(c.a.self)), z3.And(*[f for _, f in std])),
            z3.Implies(custom_adapt(c.a.self), z3.And(
                c.h('$log') == Concat(c.h0('$log'), Unit(ev(K_CUSTOM, c.a.self, c.a.obj, NONE))), c.res == R(n0)))]


reg.add(Proc(I + 'virtual.__adapt__', [('self', OBJ), ('obj', OBJ)], result=OBJ, modifies=['$log'],
             raises={'OtherError': (
                 lambda c: z3.If(custom_adapt(c.a.self), X(L(c.h0('$log'))), adapt_raises(c)),
                 lambda c: [z3.Implies(custom_adapt(c.a.self),
                                       c.h('$log') == Concat(c.h0('$log'), Unit(ev(K_CUSTOM, c.a.self, c.a.obj, NONE)))),
                            z3.Implies(z3.Not(custom_adapt(c.a.self)), z3.And(*[f for _, f in adapt_rpost(c)]))])},
             ensures=vadapt_ensures,
             note='dispatch: the interface class carries a custom __adapt__ (interfacemethod) or the standard one verified above'))
reg.add(Proc(I + 'virtual._call_conform', [('self', OBJ), ('conform', OBJ)], result=OBJ, modifies=['$log'],
             raises={'OtherError': (lambda c: X(L(c.h0('$log'))),
                                    lambda c: [c.h('$log') == Concat(c.h0('$log'), Unit(ev(K_CONFORM, c.a.conform, c.a.self, NONE)))])},
             ensures=lambda c: [c.h('$log') == Concat(c.h0('$log'), Unit(ev(K_CONFORM, c.a.conform, c.a.self, NONE))),
                                c.res == R(L(c.h0('$log')))],
             note='InterfaceClass._call_conform: conform(self); a TypeError raised by the call machinery itself (unbound method) '
                  'is outside the domain (DESIGN 5/C14)'))


# ------------------------------------------------------------------ __call__
def call_spec(c):
    """the decision list of the statement as (raises?, result, final log)"""
    s, o = c.a.self, c.a.obj
    log0 = c.h0('$log')
    n0 = L(log0)
    absent = z3.And(z3.Not(has_conform(o)), conform_attr_error(o))
    attr_other = z3.And(z3.Not(has_conform(o)), z3.Not(conform_attr_error(o)))
    cf = conform_of(o)
    conform_called = z3.And(has_conform(o), cf != NONE)
    log1 = z3.If(conform_called, Concat(log0, Unit(ev(K_CONFORM, cf, s, NONE))), log0)
    n1 = L(log1)
    conform_raises = z3.And(conform_called, X(n0))
    conform_value = z3.And(conform_called, z3.Not(X(n0)), R(n0) != NONE)
    # step 3 starts at log1
    cust = custom_adapt(s)
    st = stop(n1)
    nh = L(HOOKS)
    prov = provides(s, o)
    adapt_raises_ = z3.If(cust, X(n1), z3.And(z3.Not(prov), st < nh, X(n1 + st)))
    adapt_res = z3.If(cust, R(n1), z3.If(prov, o, z3.If(st < nh, R(n1 + st), NONE)))
    adapt_log = z3.If(cust, Concat(log1, Unit(ev(K_CUSTOM, s, o, NONE))),
                      z3.If(prov, log1, Concat(log1, hev(s, o, z3.If(st < nh, st + 1, nh)))))
    reaches_adapt = z3.And(z3.Not(attr_other), z3.Not(conform_raises), z3.Not(conform_value))
    return dict(attr_other=attr_other, conform_raises=conform_raises, conform_value=conform_value, log1=log1, n0=n0,
                reaches_adapt=reaches_adapt, adapt_raises=adapt_raises_, adapt_res=adapt_res, adapt_log=adapt_log)


def call_ensures(c):
    d = call_spec(c)
    return [
        ('conform-result-wins-and-nothing-later-runs', z3.Implies(d['conform_value'], z3.And(c.res == R(d['n0']), c.h('$log') == d['log1']))),
        ('then-adaptation', z3.Implies(z3.And(d['reaches_adapt'], d['adapt_res'] != NONE),
                                       z3.And(c.res == d['adapt_res'], SeqEq(c.h('$log'), d['adapt_log'])))),
        ('then-alternate', z3.Implies(z3.And(d['reaches_adapt'], d['adapt_res'] == NONE),
                                      z3.And(c.res == c.a.alternate, c.a.alternate != MARKER, SeqEq(c.h('$log'), d['adapt_log'])))),
    ]


reg.add(Proc(
    I + 'InterfaceBase.__call__', [('self', OBJ), ('obj', OBJ), ('alternate', OBJ)], source='interface.py:InterfaceBase.__call__',
    result=OBJ, globals={'_marker': V(OBJ, MARKER)}, dynattr={'__conform__': _conform_attr},
    calls={'self._call_conform': I + 'virtual._call_conform', 'self.__adapt__': I + 'virtual.__adapt__'},
    modifies=['$log'],
    raises={
        'OtherError': (lambda c: z3.Or(call_spec(c)['attr_other'], call_spec(c)['conform_raises'],
                                       z3.And(call_spec(c)['reaches_adapt'], call_spec(c)['adapt_raises'])),
                       lambda c: [('nothing-after-the-raising-step', z3.Implies(call_spec(c)['attr_other'], c.h('$log') == c.h0('$log')))]),
        'TypeError': (lambda c: z3.And(call_spec(c)['reaches_adapt'], z3.Not(call_spec(c)['adapt_raises']),
                                       call_spec(c)['adapt_res'] == NONE, c.a.alternate == MARKER),
                      lambda c: [('all-steps-ran', SeqEq(c.h('$log'), call_spec(c)['adapt_log']))]),
    },
    ensures=call_ensures,
))


# ------------------------------------------------------------------ InterfaceClass._call_conform: the TypeError heuristic
# conform(self) is an external call with three outcomes: a result, an exception that is no TypeError, a TypeError.  A TypeError
# whose traceback has a single entry was raised by the call machinery itself (the object is a class, __conform__ an unbound
# method): the interface behaves as though there were no __conform__.  Every other exception propagates.
XT = z3.Function('raised_exception_is_a_TypeError', Int, z3.BoolSort())
DEEP = z3.Function('traceback_has_more_than_one_entry', Int, z3.BoolSort())
TB_MORE = z3.Const('a_further_traceback_entry', Obj)
reg.axiom('a-traceback-entry-is-not-None', TB_MORE != NONE)


def _conform_call(ex, node, st, vals):
    log = st.heap.get('$log')
    n = Length(log)
    st.heap.set('$log', Concat(log, Unit(ev(K_CONFORM, vals[0].t, box(vals[1]), NONE))))
    other = st.clone()
    other.assume(z3.And(X(n), z3.Not(XT(n))))
    ex.raise_(other, 'OtherError')
    te = st.clone()
    te.assume(z3.And(X(n), XT(n)))
    ex.raise_(te, 'TypeError')
    st.assume(z3.Not(X(n)))
    return [(st, vobj(R(n)))]


def _exc_info(ex, node, st):
    """sys.exc_info(): only [2].tb_next is looked at -- whether the traceback of the exception being handled has a second entry"""
    n = Length(st.heap.get('$log')) - 1
    tb = z3.Const('traceback_of_the_handled_exception', Obj)
    st.assume(tb != NONE)
    st.heap.set('tb_next', z3.Store(st.heap.get('tb_next'), tb, z3.If(DEEP(n), TB_MORE, NONE)))
    return [(st, V(SEQO, Concat(Unit(NONE), Unit(NONE), Unit(tb))))]


FIELDS['tb_next'] = OBJ
reg.fields['tb_next'] = OBJ


def _cc_n0(c):
    return L(c.h0('$log'))


reg.add(Proc(
    I + 'InterfaceClass._call_conform', [('self', OBJ), ('conform', OBJ)], source='interface.py:InterfaceClass._call_conform', result=OBJ,
    opaque_calls={'conform': _conform_call}, calls={'sys.exc_info': _exc_info}, modifies=['$log', 'tb_next'],
    raises={'OtherError': (lambda c: z3.And(X(_cc_n0(c)), z3.Not(XT(_cc_n0(c)))),
                           lambda c: [('the-call-is-logged', c.h('$log') == Concat(c.h0('$log'), Unit(ev(K_CONFORM, c.a.conform, c.a.self, NONE))))]),
            'TypeError': (lambda c: z3.And(X(_cc_n0(c)), XT(_cc_n0(c)), DEEP(_cc_n0(c))),
                          lambda c: [('the-call-is-logged', c.h('$log') == Concat(c.h0('$log'), Unit(ev(K_CONFORM, c.a.conform, c.a.self, NONE))))])},
    ensures=lambda c: [
        ('conform-is-called-once-with-the-interface', c.h('$log') == Concat(c.h0('$log'), Unit(ev(K_CONFORM, c.a.conform, c.a.self, NONE)))),
        ('its-result-or-None-for-a-TypeError-of-the-call-itself', c.res == z3.If(X(_cc_n0(c)), NONE, R(_cc_n0(c))))],
))
reg.assumptions.append('_call_conform: sys.exc_info()[2].tb_next is modelled by the oracle "the traceback of the handled TypeError has more than one entry"')
