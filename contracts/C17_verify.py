"""Contracts for verify.py (property C17): _incompat decides exactly the call shapes of the statement,
_verify aggregates every individual failure."""
import z3

from zivc.core import *  # noqa
from zivc.spec import Loop, Proc, Registry

FIELDS = {'exceptions': SEQO}
reg = Registry(FIELDS)
L = Length
Vf = 'verify.py:'


def key(m, name):
    return z3.Select(m, box_name(strlit(name)))


def sig(c, which):
    """(required count, positional count, has *args, has **kw) of a getSignatureInfo() dict at entry"""
    m = c.h0('$dict')[getattr(c.a, which)]
    return (L(unbox_seq(key(m, 'required'))), L(unbox_seq(key(m, 'positional'))),
            truthy(key(m, 'varargs')), truthy(key(m, 'kwargs')))


def sig_wf(c, which):
    m = c.h('$dict')[getattr(c.a, which)]
    out = []
    for k in ('required', 'positional'):
        out.append(('%s-%s-is-tuple' % (which, k), z3.And(key(m, k) != ABSENT, is_seq(key(m, k)))))
    for k in ('varargs', 'kwargs'):
        out.append(('%s-%s-present' % (which, k), key(m, k) != ABSENT))
    out.append(('%s-required-le-positional' % which,
                L(unbox_seq(key(m, 'required'))) <= L(unbox_seq(key(m, 'positional')))))
    return out


def binds(n, ir, ip, iv):
    """a call with n positional arguments binds to the implementation"""
    return z3.And(ir <= n, z3.Or(n <= ip, iv))


def compatible(c):
    rr, rp, rv, rk = sig(c, 'required')
    ir, ip, iv, ik = sig(c, 'implemented')
    n = z3.Int('n_args')
    return z3.And(
        z3.ForAll([n], z3.Implies(z3.And(rr <= n, n <= rp), binds(n, ir, ip, iv))),      # every admitted positional arity
        z3.Implies(rv, z3.ForAll([n], z3.Implies(rr <= n, binds(n, ir, ip, iv)))),        # surplus positionals with *args
        z3.Implies(rk, ik))                                                               # arbitrary keywords with **kw


def _sig_of_map(m):
    return (L(unbox_seq(key(m, 'required'))), L(unbox_seq(key(m, 'positional'))), truthy(key(m, 'varargs')), truthy(key(m, 'kwargs')))


# compat(R, I): the statement's quantified formulation over two signature mappings, behind a predicate symbol (definitional
# axiom) so that callers can carry the fact without re-proving an arithmetic quantifier
compat = z3.Function('every_admitted_call_binds', ObjMap, ObjMap, z3.BoolSort())
_R, _I = z3.Consts('cm_R cm_I', ObjMap)


def _compat_def(R_, I_):
    rr, rp, rv, rk = _sig_of_map(R_)
    ir, ip, iv, ik = _sig_of_map(I_)
    n = z3.Int('n_args_d')
    return z3.And(z3.ForAll([n], z3.Implies(z3.And(rr <= n, n <= rp), binds(n, ir, ip, iv))),
                  z3.Implies(rv, z3.ForAll([n], z3.Implies(rr <= n, binds(n, ir, ip, iv)))), z3.Implies(rk, ik))


reg.axiom('compat-def', z3.ForAll([_R, _I], compat(_R, _I) == _compat_def(_R, _I), patterns=[compat(_R, _I)]))


reg.add(Proc(
    Vf + '_incompat', [('required', DICT), ('implemented', DICT)], source='verify.py:_incompat', result=OBJ,
    globals={'_MSG_TOO_MANY': V(NAME, strlit('implementation requires too many arguments'))},
    requires=lambda c: sig_wf(c, 'required') + sig_wf(c, 'implemented'),
    ensures=lambda c: [('none-iff-every-admitted-call-binds', (c.res == NONE) == compatible(c)),
                       ('message-is-true', truthy(c.res) == z3.Not(compatible(c))),
                       ('the-same-through-the-predicate-symbol', truthy(c.res) == z3.Not(compat(
                           c.h0('$dict')[c.a.required], c.h0('$dict')[c.a.implemented])))],
))

# ------------------------------------------------------------------ _verify
B = z3.BoolSort()
impl_ = z3.Function('spec_implementedBy', Obj, Obj, B)      # iface.implementedBy(cls)   (contract of C01)
prov_ = z3.Function('spec_providedBy', Obj, Obj, B)         # iface.providedBy(ob)
nad = z3.Function('namesAndDescriptions_all', Obj, SeqO)   # pairs (name, description), contract of C15
el_raises = z3.Function('element_invalid', Obj, Obj, Obj, Obj, Name, B)
el_exc = z3.Function('element_exception', Obj, Obj, Obj, Obj, Name, Obj)
errs = z3.Function('errs', Obj, Obj, Name, z3.IntSort(), SeqO)   # failures among the first k elements, in order
dni = z3.Function('DoesNotImplement_of', Obj, Obj, Obj)
is_multiple = z3.Function('is_MultipleInvalid', Obj, B)

_i, _c = z3.Consts('v_iface v_cand', Obj)
_vt = z3.Const('v_vtype', Name)
_k = z3.Int('v_k')


def pair(iface, k):
    return unbox_seq(nad(iface)[k])


reg.axiom('errs-0', z3.ForAll([_i, _c, _vt], errs(_i, _c, _vt, 0) == Empty(SeqO), patterns=[errs(_i, _c, _vt, 0)]))
reg.axiom('errs-step', z3.ForAll([_i, _c, _vt, _k], z3.Implies(
    z3.And(0 <= _k, _k < L(nad(_i))),
    errs(_i, _c, _vt, _k + 1) == z3.If(
        el_raises(_i, pair(_i, _k)[0], pair(_i, _k)[1], _c, _vt),
        Concat(errs(_i, _c, _vt, _k), Unit(el_exc(_i, pair(_i, _k)[0], pair(_i, _k)[1], _c, _vt))),
        errs(_i, _c, _vt, _k))), patterns=[errs(_i, _c, _vt, _k + 1)]))

reg.add(Proc(Vf + 'SpecificationBase.implementedBy', [('self', OBJ), ('cls', OBJ)], result=BOOL, trusted=True,
             ensures=lambda c: [c.res == impl_(c.a.self, c.a.cls)], note='contract of C01 (declarations)'))
reg.add(Proc(Vf + 'SpecificationBase.providedBy', [('self', OBJ), ('ob', OBJ)], result=BOOL, trusted=True,
             ensures=lambda c: [c.res == prov_(c.a.self, c.a.ob)], note='contract of C01 (declarations)'))
reg.add(Proc(Vf + 'InterfaceClass.namesAndDescriptions', [('self', OBJ), ('all', BOOL)], result=SEQO, trusted=True,
             ensures=lambda c: [z3.Implies(c.a.all, c.res == nad(c.a.self)),
                                z3.ForAll([_k], z3.Implies(z3.And(0 <= _k, _k < L(c.res)), z3.And(
                                    is_seq(c.res[_k]), L(unbox_seq(c.res[_k])) == 2)))],
             note='contract of C15: the (name, description) pairs along __iro__'))
reg.add(Proc(Vf + 'summary._verify_element', [('iface', OBJ), ('name', OBJ), ('desc', OBJ), ('candidate', OBJ), ('vtype', NAME)],
             trusted=True,
             raises={'Invalid': (lambda c: el_raises(c.a.iface, c.a.name, c.a.desc, c.a.candidate, c.a.vtype),
                                 lambda c: [c.res == el_exc(c.a.iface, c.a.name, c.a.desc, c.a.candidate, c.a.vtype)])},
             note='per-element decision as seen by _verify: raises exactly when element_invalid holds; the body of '
                  '_verify_element is verified against the decision table that DEFINES element_invalid (below)'))
reg.add(Proc(Vf + 'DoesNotImplement', [('interface', OBJ), ('target', OBJ)], trusted=True, result=OBJ,
             ensures=lambda c: [c.res == dni(c.a.interface, c.a.target), c.res != NONE]))
reg.add(Proc(Vf + 'MultipleInvalid', [('iface', OBJ), ('target', OBJ), ('exceptions', LISTO)], trusted=True, result=OBJ,
             modifies=['exceptions'],
             ensures=lambda c: [is_multiple(c.res), c.res != NONE,
                                c.h('exceptions')[c.res] == c.h('$list')[c.a.exceptions]],
             note='exceptions.MultipleInvalid.__init__ stores tuple(exceptions)'))


def total(c):
    declares = z3.If(c.a.vtype == strlit('c'), impl_(c.a.iface, c.a.candidate), prov_(c.a.iface, c.a.candidate))
    base = z3.If(z3.And(z3.Not(c.a.tentative), z3.Not(declares)),
                 Unit(dni(c.a.iface, c.a.candidate)), Empty(SeqO))
    return base, Concat(base, errs(c.a.iface, c.a.candidate, c.a.vtype, L(nad(c.a.iface))))


reg.add(Proc(
    Vf + '_verify', [('iface', OBJ), ('candidate', OBJ), ('tentative', BOOL), ('vtype', NAME)],
    source='verify.py:_verify', result=BOOL, finite={'vtype': ['c', 'o']},
    calls={'_verify_element': Vf + 'summary._verify_element'},
    modifies=['$list', 'exceptions'],
    raises={'Invalid': (
        lambda c: L(total(c)[1]) > 0,
        lambda c: [('single-is-the-failure', z3.Implies(L(total(c)[1]) == 1, c.res == total(c)[1][0])),
                   ('several-are-all-listed', z3.Implies(L(total(c)[1]) > 1, z3.And(
                       is_multiple(c.res), SeqEq(c.h('exceptions')[c.res], total(c)[1]))))])},
    ensures=lambda c: [('true-iff-nothing-wrong', z3.And(c.res, L(total(c)[1]) == 0))],
    loops={'L0': Loop(lambda c: [
        ('collected-so-far', SeqEq(c.h('$list')[c.l.excs],
                                   Concat(total(c)[0], errs(c.a.iface, c.a.candidate, c.a.vtype, c.i)))),
        ('excs-fresh', z3.Not(c.h0('$alloc')[c.l.excs])),
        ('others', z3.ForAll([z3.Const('o', Obj)], z3.Implies(c.h0('$alloc')[z3.Const('o', Obj)],
                   c.h('$list')[z3.Const('o', Obj)] == c.h0('$list')[z3.Const('o', Obj)]))),
        ('exceptions-unchanged', c.h('exceptions') == c.h0('exceptions')),
    ])},
))


# ------------------------------------------------------------------ _verify_element: the per-element decision table
# Oracles for what the body asks about Python objects (attribute protocol, type predicates); the signature of a description
# is the mapping getSignatureInfo() returns (Method descriptions: contract of C18 for fromFunction/fromMethod).
has_attr = z3.Function('candidate_has_attribute', Obj, Obj, B)
attr_of = z3.Function('candidate_attribute', Obj, Obj, Obj)
no_signature = z3.Function('is_methoddescriptor_or_builtin', Obj, B)
siginfo = z3.Function('signature_info_of_description', Obj, ObjMap)          # desc.getSignatureInfo()
implsig = z3.Function('signature_info_of_function', Obj, z3.IntSort(), ObjMap)   # fromFunction(f, imlevel=k).getSignatureInfo()
callable_ = z3.Function('callable', Obj, B)
CLS = {n: classconst(n) for n in ('Method', 'FunctionType', 'MethodTypes', 'property', 'type')}
FIELDS['__func__'] = OBJ
reg.fields['__func__'] = OBJ
FIELDS['$desc_sig'] = z3.ArraySort(Obj, ObjMap)
reg.fields['$desc_sig'] = z3.ArraySort(Obj, ObjMap)


def _isa(x, cls):
    return subtype(typeof(x), CLS[cls])


def sig_m(m):
    return (L(unbox_seq(key(m, 'required'))), L(unbox_seq(key(m, 'positional'))), truthy(key(m, 'varargs')), truthy(key(m, 'kwargs')))


def compatible_m(req, impl):
    rr, rp, rv, rk = sig_m(req)
    ir, ip, iv, ik = sig_m(impl)
    n = z3.Int('n_args_m')
    return z3.And(z3.ForAll([n], z3.Implies(z3.And(rr <= n, n <= rp), binds(n, ir, ip, iv))),
                  z3.Implies(rv, z3.ForAll([n], z3.Implies(rr <= n, binds(n, ir, ip, iv)))), z3.Implies(rk, ik))


def wf_m(m):
    return z3.And(*[z3.And(key(m, k) != ABSENT, is_seq(key(m, k))) for k in ('required', 'positional')],
                  *[key(m, k) != ABSENT for k in ('varargs', 'kwargs')],
                  L(unbox_seq(key(m, 'required'))) <= L(unbox_seq(key(m, 'positional'))))


def element_invalid_def(c, func_field):
    """the decision table of the statement for one (name, description) of the interface"""
    cand, name, desc, vt = c.a.candidate, c.a.name, c.a.desc, c.a.vtype
    attr = attr_of(cand, name)
    is_c = vt == strlit('c')
    is_meth = _isa(desc, 'Method')
    fn = _isa(attr, 'FunctionType')
    bound = z3.And(_isa(attr, 'MethodTypes'), typeof(func_field[attr]) == CLS['FunctionType'])
    imlevel = z3.If(z3.And(_isa(cand, 'type'), is_c), 1, 0)
    return z3.If(z3.Not(has_attr(cand, name)), z3.Not(z3.And(z3.Not(is_meth), is_c)),       # missing: only a non-method on a class passes
           z3.If(z3.Not(is_meth), False,                                                  # attributes: presence is all
           z3.If(no_signature(attr), False,                                               # no signature to introspect
           z3.If(fn, z3.Not(compat(siginfo(desc), implsig(attr, imlevel))),         # function (self dropped for class verification)
           z3.If(bound, z3.Not(compat(siginfo(desc), implsig(func_field[attr], 1))),  # bound method
           z3.If(z3.And(_isa(attr, 'property'), is_c), False,                             # property on a class: cannot tell
                 z3.Not(callable_(attr))))))))                                            # anything else must at least be callable


def _getattr(ex, node, st):
    """getattr(candidate, name): the attribute, or AttributeError (oracle has_attr)"""
    out = []
    for s, (o, n) in ex.ev_list(node.args, st):
        miss = s.clone()
        miss.assume(z3.Not(has_attr(box(o), box(n))))
        ex.raise_(miss, 'AttributeError')
        s.assume(has_attr(box(o), box(n)))
        out.append((s, vobj(attr_of(box(o), box(n)))))
    return out


def _no_sig(ex, node, st):
    return [(s, vbool(no_signature(box(v)))) for s, (v,) in ex.ev_list(node.args, st)]


def _sig_dict(ex, st, content):
    r = ex.fresh_ref(st, 'dict')
    ex.set_dictval(st, r, content)
    st.assume(wf_m(content))
    return r


def _from_function(ex, node, st):
    """fromFunction(attr, iface, name=name[, imlevel=1]): a description of that function (contract of C18)"""
    im = 0
    for kw in node.keywords:
        if kw.arg == 'imlevel':
            im = kw.value.value
    out = []
    for s, vs in ex.ev_list(node.args[:1], st):
        m = ex.fresh_ref(s, 'method')
        s.heap.set('$desc_sig', z3.Store(s.heap.get('$desc_sig'), m, implsig(box(vs[0]), z3.IntVal(im))))
        out.append((s, vobj(m)))
    return out


def _from_method(ex, node, st):
    out = []
    for s, vs in ex.ev_list(node.args[:1], st):
        m = ex.fresh_ref(s, 'method')
        f = z3.Select(s.heap.get('__func__'), box(vs[0]))
        s.heap.set('$desc_sig', z3.Store(s.heap.get('$desc_sig'), m, implsig(f, z3.IntVal(1))))
        out.append((s, vobj(m)))
    return out


def _get_sig(ex, node, st, recv=None):
    """x.getSignatureInfo(): a fresh dict with the signature of the description"""
    out = []
    for s, v in ex.ev(node.func.value, st):
        content = z3.Select(s.heap.get('$desc_sig'), v.t)
        out.append((s, V(DICT, _sig_dict(ex, s, content))))
    return out


def _ve_pre(c):
    return [('the-description-has-its-signature', c.h('$desc_sig')[c.a.desc] == siginfo(c.a.desc)),
            ('arguments-are-objects', z3.And(c.a.candidate != NONE, c.a.desc != NONE, c.h('$alloc')[c.a.desc]))]


_ve_raises = {
    'BrokenImplementation': (lambda c: z3.And(z3.Not(has_attr(c.a.candidate, c.a.name)), element_invalid_def(c, c.h0('__func__'))), lambda c: []),
    'BrokenMethodImplementation': (lambda c: z3.And(has_attr(c.a.candidate, c.a.name), element_invalid_def(c, c.h0('__func__'))), lambda c: []),
}
reg.add(Proc(
    Vf + '_verify_element', [('iface', OBJ), ('name', OBJ), ('desc', OBJ), ('candidate', OBJ), ('vtype', NAME)],
    source='verify.py:_verify_element', finite={'vtype': ['c', 'o']}, globals={'FunctionType': V(OBJ, CLS['FunctionType'])},
    calls={'getattr': _getattr, 'inspect.ismethoddescriptor': _no_sig, 'inspect.isbuiltin': _no_sig,
           'fromFunction': _from_function, 'fromMethod': _from_method,
           'desc.getSignatureInfo': _get_sig, 'meth.getSignatureInfo': _get_sig, '_incompat': Vf + '_incompat'},
    requires=_ve_pre, raises=_ve_raises, modifies=['$alloc', '$dict', '$desc_sig'],
    ensures=lambda c: [('passes-exactly-when-the-decision-table-accepts', z3.Not(element_invalid_def(c, c.h0('__func__'))))],
))
reg.assumptions.append('_verify_element: getattr/ismethoddescriptor/isbuiltin/isinstance/callable are oracles over the candidate; ismethoddescriptor and '
                       'isbuiltin are merged into one "no signature" oracle (both only lead to the same early return); fromFunction/fromMethod/'
                       'getSignatureInfo by the contract of C18 (the description carries the signature mapping of the function at the given imlevel)')
