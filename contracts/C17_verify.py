"""Contracts for verify.py (property C17): _incompat decides exactly the call shapes of the statement,
_verify aggregates every individual failure."""
import z3

from zivc.core import *  # noqa
from zivc.spec import Loop, Proc, Registry

FIELDS = {'exceptions': SEQO}
reg = Registry(FIELDS)
L = Length
Vf = 'verify.py:'


def key(m, name):
    return z3.Select(m, box_name(strlit(name)))


def sig(c, which):
    """(required count, positional count, has *args, has **kw) of a getSignatureInfo() dict at entry"""
    m = c.h0('$dict')[getattr(c.a, which)]
    return (L(unbox_seq(key(m, 'required'))), L(unbox_seq(key(m, 'positional'))),
            truthy(key(m, 'varargs')), truthy(key(m, 'kwargs')))


def sig_wf(c, which):
    m = c.h('$dict')[getattr(c.a, which)]
    out = []
    for k in ('required', 'positional'):
        out.append(('%s-%s-is-tuple' % (which, k), z3.And(key(m, k) != ABSENT, is_seq(key(m, k)))))
    for k in ('varargs', 'kwargs'):
        out.append(('%s-%s-present' % (which, k), key(m, k) != ABSENT))
    out.append(('%s-required-le-positional' % which,
                L(unbox_seq(key(m, 'required'))) <= L(unbox_seq(key(m, 'positional')))))
    return out


def binds(n, ir, ip, iv):
    """a call with n positional arguments binds to the implementation"""
    return z3.And(ir <= n, z3.Or(n <= ip, iv))


def compatible(c):
    rr, rp, rv, rk = sig(c, 'required')
    ir, ip, iv, ik = sig(c, 'implemented')
    n = z3.Int('n_args')
    return z3.And(
        z3.ForAll([n], z3.Implies(z3.And(rr <= n, n <= rp), binds(n, ir, ip, iv))),      # every admitted positional arity
        z3.Implies(rv, z3.ForAll([n], z3.Implies(rr <= n, binds(n, ir, ip, iv)))),        # surplus positionals with *args
        z3.Implies(rk, ik))                                                               # arbitrary keywords with **kw


reg.add(Proc(
    Vf + '_incompat', [('required', DICT), ('implemented', DICT)], source='verify.py:_incompat', result=OBJ,
    globals={'_MSG_TOO_MANY': V(NAME, strlit('implementation requires too many arguments'))},
    requires=lambda c: sig_wf(c, 'required') + sig_wf(c, 'implemented'),
    ensures=lambda c: [('none-iff-every-admitted-call-binds', (c.res == NONE) == compatible(c)),
                       ('message-is-true', truthy(c.res) == z3.Not(compatible(c)))],
))

# ------------------------------------------------------------------ _verify
B = z3.BoolSort()
impl_ = z3.Function('spec_implementedBy', Obj, Obj, B)      # iface.implementedBy(cls)   (contract of C01)
prov_ = z3.Function('spec_providedBy', Obj, Obj, B)         # iface.providedBy(ob)
nad = z3.Function('namesAndDescriptions_all', Obj, SeqO)   # pairs (name, description), contract of C15
el_raises = z3.Function('element_invalid', Obj, Obj, Obj, Obj, Name, B)
el_exc = z3.Function('element_exception', Obj, Obj, Obj, Obj, Name, Obj)
errs = z3.Function('errs', Obj, Obj, Name, z3.IntSort(), SeqO)   # failures among the first k elements, in order
dni = z3.Function('DoesNotImplement_of', Obj, Obj, Obj)
is_multiple = z3.Function('is_MultipleInvalid', Obj, B)

_i, _c = z3.Consts('v_iface v_cand', Obj)
_vt = z3.Const('v_vtype', Name)
_k = z3.Int('v_k')


def pair(iface, k):
    return unbox_seq(nad(iface)[k])


reg.axiom('errs-0', z3.ForAll([_i, _c, _vt], errs(_i, _c, _vt, 0) == Empty(SeqO), patterns=[errs(_i, _c, _vt, 0)]))
reg.axiom('errs-step', z3.ForAll([_i, _c, _vt, _k], z3.Implies(
    z3.And(0 <= _k, _k < L(nad(_i))),
    errs(_i, _c, _vt, _k + 1) == z3.If(
        el_raises(_i, pair(_i, _k)[0], pair(_i, _k)[1], _c, _vt),
        Concat(errs(_i, _c, _vt, _k), Unit(el_exc(_i, pair(_i, _k)[0], pair(_i, _k)[1], _c, _vt))),
        errs(_i, _c, _vt, _k))), patterns=[errs(_i, _c, _vt, _k + 1)]))

reg.add(Proc(Vf + 'SpecificationBase.implementedBy', [('self', OBJ), ('cls', OBJ)], result=BOOL, trusted=True,
             ensures=lambda c: [c.res == impl_(c.a.self, c.a.cls)], note='contract of C01 (declarations)'))
reg.add(Proc(Vf + 'SpecificationBase.providedBy', [('self', OBJ), ('ob', OBJ)], result=BOOL, trusted=True,
             ensures=lambda c: [c.res == prov_(c.a.self, c.a.ob)], note='contract of C01 (declarations)'))
reg.add(Proc(Vf + 'InterfaceClass.namesAndDescriptions', [('self', OBJ), ('all', BOOL)], result=SEQO, trusted=True,
             ensures=lambda c: [z3.Implies(c.a.all, c.res == nad(c.a.self)),
                                z3.ForAll([_k], z3.Implies(z3.And(0 <= _k, _k < L(c.res)), z3.And(
                                    is_seq(c.res[_k]), L(unbox_seq(c.res[_k])) == 2)))],
             note='contract of C15: the (name, description) pairs along __iro__'))
reg.add(Proc(Vf + '_verify_element', [('iface', OBJ), ('name', OBJ), ('desc', OBJ), ('candidate', OBJ), ('vtype', NAME)],
             trusted=True,
             raises={'Invalid': (lambda c: el_raises(c.a.iface, c.a.name, c.a.desc, c.a.candidate, c.a.vtype),
                                 lambda c: [c.res == el_exc(c.a.iface, c.a.name, c.a.desc, c.a.candidate, c.a.vtype)])},
             note='per-element decision (attribute present, callable, signature compatible via _incompat): '
                  'assumed here, checked bounded against inspect.Signature.bind by the falsifier'))
reg.add(Proc(Vf + 'DoesNotImplement', [('interface', OBJ), ('target', OBJ)], trusted=True, result=OBJ,
             ensures=lambda c: [c.res == dni(c.a.interface, c.a.target), c.res != NONE]))
reg.add(Proc(Vf + 'MultipleInvalid', [('iface', OBJ), ('target', OBJ), ('exceptions', LISTO)], trusted=True, result=OBJ,
             modifies=['exceptions'],
             ensures=lambda c: [is_multiple(c.res), c.res != NONE,
                                c.h('exceptions')[c.res] == c.h('$list')[c.a.exceptions]],
             note='exceptions.MultipleInvalid.__init__ stores tuple(exceptions)'))


def total(c):
    declares = z3.If(c.a.vtype == strlit('c'), impl_(c.a.iface, c.a.candidate), prov_(c.a.iface, c.a.candidate))
    base = z3.If(z3.And(z3.Not(c.a.tentative), z3.Not(declares)),
                 Unit(dni(c.a.iface, c.a.candidate)), Empty(SeqO))
    return base, Concat(base, errs(c.a.iface, c.a.candidate, c.a.vtype, L(nad(c.a.iface))))


reg.add(Proc(
    Vf + '_verify', [('iface', OBJ), ('candidate', OBJ), ('tentative', BOOL), ('vtype', NAME)],
    source='verify.py:_verify', result=BOOL, finite={'vtype': ['c', 'o']},
    modifies=['$list', 'exceptions'],
    raises={'Invalid': (
        lambda c: L(total(c)[1]) > 0,
        lambda c: [('single-is-the-failure', z3.Implies(L(total(c)[1]) == 1, c.res == total(c)[1][0])),
                   ('several-are-all-listed', z3.Implies(L(total(c)[1]) > 1, z3.And(
                       is_multiple(c.res), SeqEq(c.h('exceptions')[c.res], total(c)[1]))))])},
    ensures=lambda c: [('true-iff-nothing-wrong', z3.And(c.res, L(total(c)[1]) == 0))],
    loops={'L0': Loop(lambda c: [
        ('collected-so-far', SeqEq(c.h('$list')[c.l.excs],
                                   Concat(total(c)[0], errs(c.a.iface, c.a.candidate, c.a.vtype, c.i)))),
        ('excs-fresh', z3.Not(c.h0('$alloc')[c.l.excs])),
        ('others', z3.ForAll([z3.Const('o', Obj)], z3.Implies(c.h0('$alloc')[z3.Const('o', Obj)],
                   c.h('$list')[z3.Const('o', Obj)] == c.h0('$list')[z3.Const('o', Obj)]))),
        ('exceptions-unchanged', c.h('exceptions') == c.h0('exceptions')),
    ])},
))
