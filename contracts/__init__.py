"""Table of properties: which contract registries and which bounded check serve each one."""

PROPS = {
    'C03': dict(
        title='Resolution orders are valid linearizations and equal C3 whenever C3 exists',
        contracts=['C03_ro'], falsifier='C03', modes=['py'], level='proof',
        level_text='Every obligation generated from the real bodies of the C3 merge functions of ro.py '
                   '(_can_choose_base, _nonempty_bases_ignoring, _find_next_C3_base, _choose_next_base, '
                   '_guess_next_base x2, _merge, mro) against the textbook C3 definition is discharged for all inputs '
                   'and all iteration counts; the glue (resolver construction, legacy fallback order, _calculate_sro) '
                   'is checked bounded on all ordered DAGs up to 4/5 nodes with re-basing histories, labelled bounded.',
        level_note='Assumes A1-A6 of DESIGN 3.5; assumed contracts: legacy_ro (spec function), warnings are no-ops; '
                   'the mathematical lemma "C3 merge of linearizations is a linearization" is not machine-checked.',
    ),
    'C18': dict(
        title="Method descriptions mirror the described function's real signature",
        contracts=['C18_method'], falsifier='C18', modes=['py'], level='proof',
        level_text='fromFunction (both imlevel values), fromMethod and Element.setTaggedValue are verified from their real '
                   'bodies against CPython\'s documented code-object layout: positional/required/optional/varargs/kwargs/'
                   'name/interface/tagged values are exactly those of the statement, for every layout (any number of '
                   'positional-only, positional, defaulted, keyword-only parameters, *args, **kw). getSignatureInfo / '
                   'getSignatureString (string rendering) are checked bounded against inspect.signature on all signatures '
                   'with <=2 parameters per kind.',
        level_note='Assumes the code-object layout of CPython >= 3.8 (precondition wf), co_flags bits through an uninterpreted '
                   'bit_and, Method()/Element.__init__ by an assumed constructor contract, PyPy __defaults_count__ branch excluded.',
    ),
    'C17': dict(
        title='verifyObject/verifyClass accept exactly the candidates meeting the contract',
        contracts=['C17_verify'], falsifier='C17', modes=['py'], level='proof',
        level_text='_incompat is verified from its real body against the statement\'s own quantified formulation (every '
                   'positional arity from required to all positional binds, surplus positionals with *args, keywords with '
                   '**kw) for all signature sizes; _verify is verified to collect exactly the undeclared-interface failure '
                   'plus every per-element failure in order and to raise the single Invalid / MultipleInvalid listing '
                   'exactly those. The per-element decision table _verify_element is an assumed contract, checked bounded '
                   'against inspect.Signature.bind on all signature pairs with <=2 parameters per kind.',
        level_note='Assumed contracts: _verify_element (bounded), implementedBy/providedBy (C01), namesAndDescriptions (C15), '
                   'exception constructors. Keyword-only parameters of an implementation are outside the quantifier.',
    ),
    'C12': dict(
        title='Interfaces have a total, hash-consistent, process-independent order',
        contracts=['C12_order'], falsifier='C12', modes=['py', 'c'], level='proof',
        level_text='Python reference: _compare, __lt__/__le__/__gt__/__ge__, InterfaceBase.__eq__/__ne__/__hash__ are verified '
                   'from their real bodies against one key-comparison specification; irreflexivity, trichotomy, transitivity, '
                   '<= as < or ==, hash consistency are proved as lemmas over that specification for all names. The C '
                   'rich-compare/hash twins are compared with the same specification bounded (fixed pool incl. non-ASCII '
                   'names), labelled bounded, until the C front end covers them.',
        level_note='str comparison enters only as a strict total order (axioms); __name__/__module__ are str; C twin bounded.',
    ),
    'C04': dict(
        title='Adapter lookup returns the most specific applicable registration',
        contracts=['C04_lookup'], falsifier='C04', modes=['py', 'c'], level='proof',
        only={'C04_lookup': ['adapter.py:_lookup', 'adapter.py:AdapterLookupBase._uncached_lookup']},
        level_text='_lookup (the nested first-match search, recursion used through its own contract) and '
                   'AdapterLookupBase._uncached_lookup (walk of the registry resolution order) are verified from their real '
                   'bodies against the recursive "first applicable, position by position, most general provided first" '
                   'specification for all registry contents, arities and hierarchies. The C twin of _lookup, the extendor '
                   'ordering (add_extendor) and the cache wrapper are compared with a brute-force ranking bounded (random '
                   'worlds, both implementations), labelled bounded.',
        level_note='Assumes the representation invariant of registries (tree of dicts per order, extendor lists) as '
                   'precondition (established by the mutators, C09), ghost predicate in_tree, _subscribe by assumed contract.',
    ),
}

# properties not claimed (kept current; see DESIGN.md section 6)
NOT_APPLICABLE = [
]
