"""Table of properties: which contract registries and which bounded check serve each one."""

PROPS = {
    'C03': dict(
        title='Resolution orders are valid linearizations and equal C3 whenever C3 exists',
        contracts=['C03_ro', 'C02_spec'], falsifier='C03', modes=['py'], level='proof',
        only={'C02_spec': ['interface.py:Specification.changed', 'interface.py:Specification.__setBases']},
        level_text='Every obligation generated from the real bodies of the C3 merge functions of ro.py '
                   '(_can_choose_base, _nonempty_bases_ignoring, _find_next_C3_base, _choose_next_base, '
                   '_guess_next_base x2, _merge, mro) against the textbook C3 definition is discharged for all inputs '
                   'and all iteration counts; the public entry points are verified on top of them: ro() returns the C3 merge of the '
                   'resolver\'s base tree when it exists, the legacy order otherwise or when asked for, and raises '
                   'InconsistentResolutionOrderError exactly in strict mode without a merge (the logging block cannot change the result); '
                   'is_consistent computes the leaf\'s own merge before reading the flags and answers False exactly when the own merge or a '
                   'base is inconsistent; Specification._calculate_sro returns that order with the root specification (Interface) moved to '
                   'the end. The construction of the resolver tree (C3.resolver/C3.__init__: recursion over the bases, memo table, single-base '
                   'fast path) and the legacy fallback order are an assumed contract, checked bounded on all ordered DAGs up to 4/5 nodes with '
                   're-basing histories against CPython\'s own MRO, labelled bounded.',
        level_note='Assumes A1-A6 of DESIGN 3.5; assumed contracts: C3.resolver/C3.__init__ (resolver tree), legacy_ro (spec function), '
                   'warnings/logging are no-ops, the {base: base.__sro__} dictionary is folded into the specification function; '
                   'the mathematical lemma "C3 merge of linearizations is a linearization" is not machine-checked.',
    ),
    'C18': dict(
        title="Method descriptions mirror the described function's real signature",
        contracts=['C18_method'], falsifier='C18', modes=['py'], level='proof',
        level_text='fromFunction (both imlevel values), fromMethod and Element.setTaggedValue are verified from their real '
                   'bodies against CPython\'s documented code-object layout: positional/required/optional/varargs/kwargs/'
                   'name/interface/tagged values are exactly those of the statement, for every layout (any number of '
                   'positional-only, positional, defaulted, keyword-only parameters, *args, **kw). getSignatureInfo / '
                   'getSignatureString (string rendering) are checked bounded against inspect.signature on all signatures '
                   'with <=2 parameters per kind.',
        level_note='Assumes the code-object layout of CPython >= 3.8 (precondition wf), co_flags bits through an uninterpreted '
                   'bit_and, Method()/Element.__init__ by an assumed constructor contract, PyPy __defaults_count__ branch excluded.',
    ),
    'C17': dict(
        title='verifyObject/verifyClass accept exactly the candidates meeting the contract',
        contracts=['C17_verify'], falsifier='C17', modes=['py'], level='proof',
        level_text='_incompat is verified from its real body against the statement\'s own quantified formulation (every '
                   'positional arity from required to all positional binds, surplus positionals with *args, keywords with '
                   '**kw) for all signature sizes; _verify is verified to collect exactly the undeclared-interface failure '
                   'plus every per-element failure in order and to raise the single Invalid / MultipleInvalid listing '
                   'exactly those. _verify_element is verified from its real body against the decision table of the statement: a missing '
                   'attribute fails unless it is a non-method looked for on a class; a non-method only has to be present; method '
                   'descriptors and builtins (no signature) pass; a function is described with the implied self dropped exactly when a '
                   'class is verified as a class, a bound method through its function; a property on a class passes; anything else has '
                   'to be callable; and whenever a signature was obtained the element fails exactly when _incompat objects (same predicate '
                   'symbol as in the contract of _incompat). The end-to-end behaviour is additionally checked bounded against '
                   'inspect.Signature.bind on all signature pairs with <=2 parameters per kind.',
        level_note='Oracles: getattr / type predicates / callable on the candidate; fromFunction, fromMethod, getSignatureInfo by the contract of C18; '
                   'implementedBy/providedBy (C01), namesAndDescriptions (C15), exception constructors assumed. Keyword-only parameters of an '
                   'implementation are outside the quantifier.',
    ),
    'C12': dict(
        title='Interfaces have a total, hash-consistent, process-independent order',
        contracts=['C12_order'], cfun=['C12_c'], falsifier='C12', modes=['py', 'c'], level='proof',
        level_text='Python reference: _compare, __lt__/__le__/__gt__/__ge__, InterfaceBase.__eq__/__ne__/__hash__ are verified '
                   'from their real bodies against one key-comparison specification; irreflexivity, trichotomy, transitivity, '
                   '<= as < or ==, hash consistency are proved as lemmas over that specification for all names. The C twin '
                   'IB_richcompare is verified from the clang AST of the real file against the SAME specification (functional C front '
                   'end: every path, CPython API by functional models): identical object, None, InterfaceBase instances, foreign '
                   'objects with and without __name__/__module__, NULL iff an exception is set; the C hash twin IB__hash__ against the cached hash of '
                   'the (name, module) key. The end-to-end behaviour is compared with the specification bounded (pool incl. Latin-1/BMP/astral names).',
        level_note='str comparison enters only as a strict total order (axioms); __name__/__module__ are str; CPython API models '
                   'trusted (A2).',
    ),
    'C04': dict(
        title='Adapter lookup returns the most specific applicable registration',
        contracts=['C04_lookup', 'C04_extendors'], falsifier='C04', modes=['py', 'c'], level='proof',
        only={'C04_lookup': ['adapter.py:_lookup', 'adapter.py:AdapterLookupBase._uncached_lookup', 'adapter.py:AdapterLookupBase._subscribe'],
              'C04_extendors': ['adapter.py:AdapterLookupBase.add_extendor', 'adapter.py:AdapterLookupBase.remove_extendor']},
        level_text='_lookup (the nested first-match search, recursion used through its own contract) and '
                   'AdapterLookupBase._uncached_lookup (walk of the registry resolution order) are verified from their real '
                   'bodies against the recursive "first applicable, position by position, most general provided first" '
                   'specification for all registry contents, arities and hierarchies; add_extendor/remove_extendor are verified to '
                   'rebuild, for every interface of the provided interface\'s resolution order, exactly the stable partition '
                   '[more general entries] + [provided] + [the others] (resp. the list without the interface) in fresh lists, '
                   'touching no other key and no list that existed before; _subscribe keeps "a remembered specification is a subscribed one". '
                   'The cache wrapper and the C twin of the cached search are verified under C05/C08 (contracts/C05_cache.py, contracts/C05_c.py: '
                   'a cached answer is returned, otherwise the answer of this uncached search is returned and stored); the end-to-end ranking is '
                   'additionally compared with a brute-force ranking bounded (random worlds incl. one key registered for most provided '
                   'interfaces of a DAG in random order, both implementations), labelled bounded.',
        level_note='Assumes the representation invariant of registries (tree of dicts per order, extendor lists) as '
                   'precondition (the mutators are verified against their effect on the containers under C09; that they re-establish the '
                   'tree shape is a meta-argument), ghost predicate in_tree.',
    ),
    'C07': dict(
        title='subscriptions() returns every applicable subscriber, with multiplicity, in order',
        contracts=['C04_lookup', 'C09_registry', 'C04_extendors'], falsifier='C07', modes=['py', 'c'], level='other',
        cfun=['C05_c'], cfun_only={'C05_c': ['_subcache', '_subscriptions']},
        level_text_extra=' The registry walk is verified from the real body: AdapterLookupBase._uncached_subscriptions goes through the reversed resolution order '
                         '(base registries first), each chain member contributes what _subscriptions appends for its subscriber tree of the right order '
                         '(handlers: provided None), and the lookup object ends up subscribed to every required specification (_subscribe, verified: a '
                         'specification remembered in _required is a subscribed one). The C _subscriptions (and _subcache) is verified from the clang AST against the cache contract of the Python twin: a cached answer is '
                         'returned without searching, otherwise the answer of the uncached search is returned and stored in the subscriptions cache of that '
                         'provided interface -- and in no other cache (contracts/C05_c.py).',
        only={'C04_lookup': ['adapter.py:_subscriptions', 'adapter.py:AdapterLookupBase._uncached_subscriptions', 'adapter.py:AdapterLookupBase._subscribe'],
              'C04_extendors': ['adapter.py:AdapterLookupBase.add_extendor', 'adapter.py:AdapterLookupBase.remove_extendor'],
              'C09_registry': ['adapter.py:BaseAdapterRegistry.subscribe', 'adapter.py:BaseAdapterRegistry.unsubscribe',
                               'adapter.py:BaseAdapterRegistry._addValueToLeaf', 'adapter.py:BaseAdapterRegistry._removeValueFromLeaf']},
        level_text='_subscriptions (the nested collector, recursion through its own contract) is verified from its real body: '
                   'it appends exactly the leaves of the applicable keys, least specific first at every required position and '
                   'for the provided extendors, preserving leaf order and multiplicity, and touches no other list. subscribe is verified '
                   'to append the subscriber to the tuple leaf of exactly that key (found by the path specification in the final heap) and '
                   'unsubscribe to remove exactly the equal subscribers of that leaf keeping the order of the others, pruning only emptied '
                   'mappings, and to change nothing when no equal subscriber is there (contracts/C09_registry.py, shared with C09). '
                   'The end-to-end statement over histories (duplicates, equal-but-distinct values, handlers, chains) is checked bounded '
                   'against a reference model, labelled bounded.',
        level_note='collector, registry walk, mutators and the C twin of the cached search are deductive; that the heap-level effect of the mutators is '
                   'the view-level effect needs the tree shape of the containers (meta-argument); histories bounded (<= 6). in_tree ghost, tree-of-dicts precondition.',
        explanation='collector, walk, mutators and cache layer proved against one specification each; composition over histories bounded',
    ),
    'C08': dict(
        title='All lookup entry points agree with lookup() and subscriptions()',
        contracts=['C04_lookup', 'C05_cache', 'C08_entry'], falsifier='C08', modes=['py', 'c'], level='other',
        cfun=['C05_c', 'C06_c'], cfun_only={'C05_c': ['_lookup', '_lookup1', '_adapter_hook', '_lookupAll', '_subscriptions'],
                                            'C06_c': ['VB_lookup', 'VB_lookup1', 'VB_adapter_hook', 'VB_queryAdapter', 'VB_lookupAll', 'VB_subscriptions']},
        level_text_extra=' The uncached searches behind the entry points are verified from their real bodies: _uncached_lookup (nearest registry with an applicable '
                         'registration), _uncached_lookupAll (reversed resolution order, so derived registries override base registries name by name) and '
                         '_uncached_subscriptions (reversed resolution order, contributions concatenated). The C twins _lookup, _lookup1, _adapter_hook, _lookupAll, _subscriptions are verified from the clang AST against the SAME postconditions '
                         '(NULL name = empty name, NULL default = None, ValueError for a non-str name before anything is touched, _lookup1 = _lookup of the '
                         '1-tuple, the hook calls the factory found for providedBy(object) with the object underlying a super proxy), and the six VB_* entry '
                         'points are verified to consult the cache layer only after the generation snapshot was verified.',
        only={'C04_lookup': ['adapter.py:_lookupAll', 'adapter.py:AdapterLookupBase._uncached_lookupAll', 'adapter.py:AdapterLookupBase._uncached_subscriptions',
                             'adapter.py:AdapterLookupBase._uncached_lookup']},
        level_text='Verified from the real bodies (Python reference): _lookupAll against the recursive override specification; '
                   'LookupBase.lookup returns the cached value or what the uncached search answers, None meaning the default by identity, '
                   'and raises ValueError for a non-string name before touching anything; lookup1(r, p, n) is specified by the very '
                   'expression of lookup((r,), p, n); adapter_hook/queryAdapter call the factory lookup finds on providedBy(object) with '
                   'the underlying object of a super proxy and turn a missing factory or a None result into the default; '
                   'queryMultiAdapter does the same for several objects; names lists the keys of lookupAll in order; subscribers calls '
                   'every subscription once in order with the objects, drops None results and returns nothing for handlers (ghost call '
                   'log); lookupAll/subscriptions return the cached or the uncached answer. All of them keep the cache invariant of C05. '
                   'The C twins and the end-to-end agreement under random cache warm-up orders are checked bounded in both '
                   'implementations, labelled bounded.',
        level_note='providedBy is a pure oracle here (C01); factories/subscribers are external calls with result oracles and do not '
                   'mutate the registry; VerifyingBase (generation check) and the C twins bounded.',
        explanation='Python entry points proved against one lookup/subscriptions specification; C twins and verifying flavour bounded',
    ),
    'C09': dict(
        title='Registration bookkeeping reflects exactly the net effect of the history',
        contracts=['C09_registry'], falsifier='C09', modes=['py'], level='other',
        only={'C09_registry': ['adapter.py:BaseAdapterRegistry.register', 'adapter.py:BaseAdapterRegistry.unregister', 'adapter.py:BaseAdapterRegistry.subscribe', 'adapter.py:BaseAdapterRegistry.unsubscribe', 'adapter.py:BaseAdapterRegistry._addValueToLeaf', 'adapter.py:BaseAdapterRegistry._removeValueFromLeaf', 'adapter.py:_convert_None_to_Interface',
                               'adapter.py:BaseAdapterRegistry._setBases', 'adapter.py:BaseAdapterRegistry.__init__',
                               'adapter.py:BaseAdapterRegistry._find_leaf', 'adapter.py:BaseAdapterRegistry.registered',
                               'adapter.py:BaseAdapterRegistry.subscribed', 'adapter.py:BaseAdapterRegistry._allKeys',
                               'adapter.py:BaseAdapterRegistry._all_entries', 'adapter.py:BaseAdapterRegistry.allRegistrations',
                               'adapter.py:BaseAdapterRegistry.allSubscriptions', 'adapter.py:BaseAdapterRegistry._createLookup']},
        level_text="Verified from the real bodies for all registry contents: (re-)initialisation installs fresh empty containers and "
                   "continues the generation counter (rebuild() runs it on a live registry); _find_leaf / registered / subscribed answer the entry at "
                   "the end of the path of exactly that key (required specifications with None standing for Interface, then provided, then the name) "
                   "or None; register rejects non-string names with ValueError before touching anything, treats None as unregister, leaves the value "
                   "registered under exactly that key IN THE FINAL HEAP (four path lemmas proved by induction), is a no-op exactly when that very object "
                   "is already there and notifies otherwise, lets existing dicts only gain edges to fresh empty dicts plus the leaf entry, lets the "
                   "by-order list only grow by fresh empty mappings and bumps the reference count of provided by one; subscribe appends the subscriber to "
                   "the tuple leaf of exactly that key with the same frame and always notifies; unregister removes the entry iff it is there and (no value "
                   "given or that very object is registered), unsubscribe iff an equal subscriber is in the leaf (all equal ones go, order kept), and then, "
                   "position by position along the path, only the leaf entry disappears and only mappings that are empty now are pruned, the by-order "
                   "list only loses trailing empty mappings, the reference counts follow, everything else is untouched -- otherwise nothing at all changes; "
                   "_allKeys / _all_entries / allRegistrations / allSubscriptions yield exactly the entries of the per-order trees (every key of every dict, "
                   "in dict order, reshaped to (required, provided, name, value); every subscriber of every leaf in leaf order); _createLookup (run by "
                   "__init__, hence by rebuild()) installs a NEW lookup object and binds every delegated method name in the instance dictionary to that "
                   "object. That the effect on the "
                   "dict OBJECTS is the effect on the VIEW of other keys needs the tree shape of the containers (no dict reachable by two paths): that "
                   "step, the link between the enumeration and the path specification, and rebuild() are checked bounded against a dictionary replay of "
                   "random histories (<= 7 calls).",
        level_note="preconditions (representation invariant, established by the mutators, not itself proved inductive): per-order roots and path nodes are "
                   "allocated dicts that are neither lookup caches nor the reference-count mapping, path nodes pairwise distinct, private containers are "
                   "not stored as values, subscription leaves are tuples, the name is not a specification of the key; heap model: a never-allocated "
                   "object has empty dict contents; KeyError-freedom of the _provided bookkeeping is not claimed (may_raise); the reference count clause "
                   "follows the code (a replaced value bumps the count, DESIGN 10.3).",
        explanation='mutators, queries and enumeration generators proved against a path specification of the nested mappings (heap-level frame); the view-level frame for other keys, the enumeration/path link and rebuild() bounded',
    ),
    'C05': dict(
        title='Lookup caches are transparent: answers never depend on earlier lookups',
        contracts=['C04_lookup', 'C02_spec', 'C09_registry', 'C05_cache', 'C06_verifying'], falsifier='C05', modes=['py', 'c'], level='other',
        cfun=['C05_c', 'C06_c'],
        cfunctions=['_subcache', '_getcache', '_lookup', '_lookup1', '_adapter_hook', '_lookupAll', '_subscriptions'],
        creturns={'_subcache': 'borrowed', '_getcache': 'borrowed'},
        only={'C04_lookup': ['adapter.py:AdapterLookupBase._uncached_lookup', 'adapter.py:AdapterLookupBase._uncached_lookupAll',
                             'adapter.py:AdapterLookupBase._uncached_subscriptions', 'adapter.py:AdapterLookupBase._subscribe',
                             'adapter.py:AdapterLookupBase.changed'],
              'C02_spec': ['interface.py:Specification.changed', 'interface.py:Specification.__setBases'],
              'C09_registry': ['adapter.py:LookupBase.changed', 'adapter.py:BaseAdapterRegistry.changed', 'adapter.py:AdapterRegistry.changed', 'adapter.py:BaseAdapterRegistry.register', 'adapter.py:BaseAdapterRegistry.unregister', 'adapter.py:BaseAdapterRegistry.subscribe', 'adapter.py:BaseAdapterRegistry.unsubscribe',
                               'adapter.py:BaseAdapterRegistry._setBases', 'adapter.py:BaseAdapterRegistry.__init__'],
              'C05_cache': ['adapter.py:LookupBase._getcache', 'adapter.py:LookupBase.lookup', 'adapter.py:LookupBase.lookupAll',
                            'adapter.py:LookupBase.subscriptions', 'adapter.py:LookupBase.lookup1', 'adapter.py:LookupBase.adapter_hook',
                            'adapter.py:LookupBase.queryAdapter']},
        level_text='The invalidation edges are verified from the real bodies: _uncached_lookup subscribes the lookup object to every '
                   'required specification on every path; __bases__ assignment keeps the subscription invariant and changed() '
                   'notifies every dependent (C02 contracts); every registry mutator either touches nothing or ends by notifying '
                   'the registry; BaseAdapterRegistry.changed bumps the generation and empties the three caches of its lookup object '
                   '(LookupBase.changed); AdapterRegistry.changed reaches every registered sub-registry; in the C lookup functions a '
                   'value computed by a call-out is only stored into a cache dictionary acquired before it (obligation St of the C '
                   'front end: an answer computed before a re-entrant invalidation never lands in the live cache). The cache-filling '
                   'methods of the Python reference (_getcache, lookup, lookup1, adapter_hook, queryAdapter, lookupAll, subscriptions) are '
                   'verified to keep the invariant "every cache entry equals what the uncached search answers in the current state '
                   '(ghost epoch)" -- also when the call-out to the uncached search re-enters and invalidates: the node fetched before '
                   'the call-out is then an orphan and the stale answer never reaches the rebuilt tree. That the epoch advances on every '
                   'relevant mutation is the invalidation chain above. The C twins are verified from the clang AST of the real file by the '
                   'functional C front end against the SAME invariant and the SAME top-level postconditions (contracts/C05_c.py: _subcache, '
                   '_getcache, _lookup, _lookup1, _adapter_hook, _lookupAll, _subscriptions, LB_changed -- lazily created top dictionaries, '
                   'NULL name/default, every allocation and dictionary store may fail and the invariant still holds on those exits), and the '
                   'verifying flavour (contracts/C06_c.py: _generations_tuple with its loop invariant, _verify, verify_changed and the six '
                   'VB_* entry points: the generation snapshot is verified before the cache layer is consulted). The Python entry points are '
                   'additionally verified to reach the caches only through the virtual _getcache (which VerifyingBase overrides). '
                   'The end-to-end statement is checked bounded: the first entry point called after every kind of mutation at every chain member (1404-point product), mutations completing '
                   'while a lookup is in flight, and random interleavings (<= 9 steps) of all entry points with every mutation kind, '
                   'compared with cold registries, both implementations.',
        level_note='the uncached searches as seen by the cache layer are assumed contracts (verified under C04/C07/C08); a re-entrant lookup '
                   'that only fills caches during a call-out is not modelled (without an invalidation the call-out leaves the tree as it is); '
                   'C side: CPython API models of contracts/C05_c.py and contracts/C06_c.py are trusted, reference counting is the subject of '
                   'the ownership obligations; the end-to-end statement over histories is bounded.',
        explanation='invalidation edges and the cache-filling functions of BOTH implementations proved against one cache-soundness invariant; end-to-end transparency over histories bounded',
    ),
    'C06': dict(
        title='Registries consult exactly their current base chain, in resolution order',
        contracts=['C04_lookup', 'C09_registry', 'C06_verifying', 'C05_cache'], falsifier='C06', modes=['py', 'c'], level='other',
        cfun=['C06_c'],
        # an answer computed from the chain as it was before a re-basing that completes while the lookup is in flight must not
        # reach the live cache (else the old chain is consulted from then on): cache-soundness contracts of the three cached
        # searches (Python) and the stale-store obligations St of their C twins
        cfunctions=['_lookup', '_lookupAll', '_subscriptions', '_generations_tuple', '_verify', 'verify_changed'],
        creturns={'_verify': 'int'},
        level_text_extra=' The C twin of the verifying flavour is verified from the clang AST (contracts/C06_c.py): _generations_tuple (loop invariant: the new tuple '
                         'holds the generation counters of the first i registries), _verify (a current snapshot means nothing happens, a stale or missing one '
                         'empties the caches and is re-taken, failure is reported), verify_changed (snapshot = tuple(registry.ro)[1:], generations recorded '
                         'for exactly that order, a failed invalidation leaves no snapshot) and the six VB_* entry points (verification precedes every '
                         'use of the cache layer).',
        only={'C04_lookup': ['adapter.py:AdapterLookupBase._uncached_lookup', 'adapter.py:AdapterLookupBase._uncached_lookupAll',
                             'adapter.py:AdapterLookupBase._uncached_subscriptions'],
              'C05_cache': ['adapter.py:LookupBase.lookup', 'adapter.py:LookupBase.lookupAll', 'adapter.py:LookupBase.subscriptions'],
              'C09_registry': ['adapter.py:BaseAdapterRegistry.changed', 'adapter.py:AdapterRegistry.changed',
                               'adapter.py:BaseAdapterRegistry._setBases', 'adapter.py:AdapterRegistry._setBases',
                               'adapter.py:AdapterRegistry._addSubregistry', 'adapter.py:AdapterRegistry._removeSubregistry',
                               'adapter.py:BaseAdapterRegistry.__init__']},
        level_text='_uncached_lookup is verified to consult the registries of the stored resolution order nearest first and to '
                   'stop at the first hit. Assigning __bases__ is verified from the real bodies: BaseAdapterRegistry._setBases records '
                   'the bases, stores exactly the C3 order ro.ro computes from the base graph as it then is, leaves every other '
                   'registry\'s bases and order alone and notifies last; AdapterRegistry._setBases additionally leaves the registry '
                   'linked as sub-registry of every new base and of no dropped one, touching no other link; (re-)initialisation (__init__, which '
                   'rebuild() runs on a live registry) continues the generation counter instead of restarting it; the generation-checking '
                   'flavour (VerifyingBase, Python reference): changed() empties the caches and re-takes the snapshot from the '
                   'registry\'s current order with the generations of exactly those registries, _verify() does nothing when every '
                   'snapshot generation is current and otherwise runs changed(), and _getcache/lookupAll/subscriptions verify the '
                   'snapshot before delegating. That the stored orders '
                   'of the DESCENDANTS follow is not a consequence of these contracts -- it is the recorded defect (stale order of '
                   'descendants of a re-based registry), announced as KNOWN-FINDING; the end-to-end statement is checked bounded on '
                   'random registry DAGs/histories of both flavours, continuing past the recorded deviation.',
        level_note='known finding C06-stale-ro-of-descendants; ro.ro by assumed contract (C03); VerifyingBase generation checks bounded.',
        explanation='walk order proved; freshness of the stored order decided by bounded checking; one recorded genuine defect',
    ),
    'C01': dict(
        title='providedBy/implementedBy report exactly the declared and inherited interfaces',
        contracts=['C02_spec', 'C01_decl', 'C02_c', 'C01_impl'], cfun=['C01_c', 'C02_c'], falsifier='C01', modes=['py', 'c'], level='other',
        level_text_extra=' The C twins are verified from the clang AST of the real file: getObjectSpecification and providedBy against the SAME postconditions '
                         'as the Python functions (attribute-protocol oracles shared), implementedBy as a fast path in front of the Python implementedBy '
                         '(an Implements in the own class dictionary, else a registered builtin specification, else -- super proxies, unreadable '
                         'dictionaries, old-style declarations -- the fallback) (contracts/C01_c.py), and I.providedBy / I.implementedBy / isOrExtends in '
                         'both implementations against membership in the _implied mapping of the declaration (contracts/C02_c.py).',
        only={'C02_spec': ['interface.py:Specification.changed', 'interface.py:Specification.__setBases']},
        level_text='Verified from the real bodies of declarations.py: _classImplements_ordered keeps everything already declared, adds '
                   'every new interface the specification does not already imply (only redundant ones may be dropped), invents nothing, '
                   'lists no duplicate, and assigns bases = declared interfaces followed by implementedBy of each class base unless an '
                   '*only* form cleared the inheritance; classImplements / classImplementsFirst / classImplementsOnly establish these '
                   'two-sided bounds for their own arguments (Only: exactly the given interfaces, inheritance stops, other classes '
                   'untouched); Declaration._add_interfaces_to_cls strips exactly what the class implies now and appends the class '
                   'specification; ProvidesClass.__init__, the shared-declaration factory Provides (cache keyed by its arguments), '
                   'directlyProvides, directlyProvidedBy, alsoProvides and noLongerProvides compose to "the object carries a declaration '
                   'built from its class and the (re-)declared interfaces, no other object is re-declared, class declarations are '
                   'untouched". The literal clause "only interfaces redundant NOW are dropped" is PROVED for declarations not taken from '
                   'the shared cache and fails unrestricted (KNOWN-FINDING). The propagation to every dependent specification is the C02 '
                   'contract of __setBases/changed. The Python implementedBy is verified from its real body (contracts/C01_impl.py): a super proxy '
                   'goes to _implementedBy_super; the class specification on record (own class dictionary, else the table of builtin '
                   'specifications) is returned as it is and nothing changes; otherwise a fresh specification is created, RECORDED for the '
                   'class (in the table when the class takes no attributes) and returned, it inherits from the class and its bases are exactly '
                   'the recorded specifications of the base classes (created on the way, recursion through its own contract); a recorded '
                   'specification is never replaced and no existing one is touched. providedBy / getObjectSpecification / the descriptors '
                   'follow the documented attribute order (above). The old-style and proxy fallbacks, the class-as-object branch '
                   '(ClassProvides) and the end-to-end statement over histories are checked bounded '
                   '(random histories <=9 steps, layered class DAGs of 5..9 classes, exhaustive class-level sequences, both implementations).',
        level_note='inside the declaration contracts implementedBy is used as a pure lookup of the recorded specification (its body is verified '
                   'separately, C01_impl); object shapes restricted to plain instances of plain classes (readable class dictionary, no old-style '
                   'declarations); _normalizeargs verified under C20; one known finding (stale shared instance declaration).',
        explanation='declaration functions proved against two-sided membership bounds, implementedBy against record-or-create; composition over histories bounded; one recorded defect',
    ),
    'C02': dict(
        title='extends/isOrExtends equal reachability over current bases, after any rebasing',
        contracts=['C02_spec', 'C02_c'], cfun=['C02_c'], falsifier='C02', modes=['py', 'c'], level='other',
        level_text_extra=" The queries themselves are verified in BOTH implementations against one specification (contracts/C02_c.py): "
                         "SpecificationBase.isOrExtends/__call__/providedBy/implementedBy from the Python ast and SB_extends/SB__call__/"
                         "SB_providedBy/SB_implementedBy from the clang AST answer membership in the _implied mapping (of the declaration, for the "
                         "latter two), a missing _implied is an AttributeError, an unhashable argument a TypeError.",
        level_text="The dependents bookkeeping is verified from the real bodies: Specification.dependents/subscribe/unsubscribe keep "
                   "exact positive counts; Specification.__setBases (the __bases__ setter) leaves the specification subscribed to "
                   "exactly its new bases with multiplicity, touches nobody else's bookkeeping and notifies itself last; "
                   "Specification.changed recomputes __sro__ from the current bases, sets __iro__ to its interfaces and _implied to "
                   "exactly its members, drops the attribute memo, notifies every dependent and leaves everything of lower rank "
                   "untouched. The global consequence (after any re-basing history every descendant answers by graph reachability) "
                   "rests on these contracts plus an induction over the acyclic dependents graph that is not machine-checked; it is "
                   "checked bounded on random mixed graphs with re-basing histories.",
        level_note="_calculate_sro is an assumed contract (C03 covers ro.py); the induction from the local contracts to the global "
                   "statement is a meta-argument (DESIGN 4.2); weak dependents assumed alive during a call; equal-named distinct "
                   "interfaces are one key by design.",
        explanation='local repair-by-notification contracts proved (subscription invariant, recomputation, cascade); global statement bounded',
    ),
    'C13': dict(
        title='Specifications pickle by reference and unpickle to the equivalent live object',
        contracts=['C13_pickle', 'C01_decl'], falsifier='C13', modes=['py', 'c'], level='other',
        only={'C01_decl': ['declarations.py:ProvidesClass.__init__', 'declarations.py:ClassProvides.__init__',
                           'declarations.py:classImplementsOnly']},
        level_text="The five __reduce__ methods (InterfaceClass, Implements, the empty declaration, Provides, ClassProvides) are "
                   "verified from their real bodies: each reduces to a name or to (callable, arguments) that, under the assumed model "
                   "of pickle, rebuild the identical object (interface: its own name; class specification: implementedBy(its class), "
                   "also for classes declared with an *only* form) or the same declaration (factory/class with the recorded "
                   "arguments). The recorded arguments are verified to be exactly the constructor arguments (ProvidesClass.__init__, "
                   "ClassProvides.__init__; the shared-declaration factory Provides, keyed by its arguments, is verified under C01), "
                   "and classImplementsOnly records the class the specification pickles as. Equality/"
                   "hash of the result, histories and the byte content of pickles are checked bounded through the real pickle (all protocols).",
        level_note="pickle itself is an assumed external contract; the link 'recorded arguments = current declaration' is bounded.",
        explanation='reductions proved over an assumed pickle model; round trips through the real pickle bounded',
    ),
    'C14': dict(
        title='Calling an interface follows the PEP 246 adaptation order',
        contracts=['C14_adapt'], cfun=['C14_c'], falsifier='C14', modes=['py', 'c'], level='proof',
        level_text='InterfaceBase.__call__ and InterfaceBase.__adapt__ (Python reference) are verified from their real bodies against '
                   'the decision list of the statement, with every external call (__conform__, hooks, custom __adapt__) modelled by '
                   'result/raise oracles and a ghost call log: the result, the exception and the exact sequence of executed steps '
                   'are those of the statement for every hook list length and every oracle. The C twin IB__adapt__ is verified from the '
                   'clang AST of the real file (functional C front end, same oracles and ghost call log): an object that provides the '
                   'interface is returned without calling anything, otherwise exactly the first k hooks are called in list order with '
                   '(interface, object), none of the first k-1 decides, the k-th decides by result or exception or all were called and '
                   'None is returned, NULL iff an exception is set; a bridging lemma (proved) shows that this loop summary is the '
                   'decision list of the Python contract, and the same fact is proved in the form of the Python contract. IB__call__ is verified '
                   'from the clang AST against the very decision list the Python __call__ is verified against (call_spec of '
                   'contracts/C14_adapt.py): argument parsing fails before anything runs, a missing __conform__ (AttributeError while '
                   'fetching it) is skipped and any other error of fetching it propagates, the non-None result of _call_conform wins, '
                   'an interface whose class carries the _CALL_CUSTOM_ADAPT flag calls its custom __adapt__ and otherwise IB__adapt__ (by '
                   'contract), then the alternate, then TypeError; an exception raised by any step -- also an AttributeError raised '
                   'INSIDE __conform__ -- propagates and nothing later runs. The product of the statement (hook lists <= 2/3, attribute '
                   'locations, inherited custom __adapt__, adaptation sequences, hooks that re-enter adaptation) is additionally run bounded '
                   'in both implementations.',
        level_text_extra=' InterfaceClass._call_conform is verified from its body: conform(interface) is called exactly once, its result is returned, '
                         'every exception propagates -- except a TypeError whose traceback has a single entry (raised by the call machinery: the object is '
                         'a class, __conform__ an unbound method), which counts as "no __conform__" (None).',
        level_note='assumes hooks do not edit the hook list (C11 covers that), providedBy is a pure query (an unset _implied is an AttributeError in both '
                   'implementations, fix fd42db3); __call__ uses _call_conform through the summary without the shallow-TypeError case (a class used as the '
                   'adapted object); the traceback test is an oracle; the _CALL_CUSTOM_ADAPT flag is present exactly for interfaces '
                   'with a custom __adapt__ (InterfaceClass.__new__, bounded); CPython API models trusted (A2).',
    ),
    'C15': dict(
        title='Attribute, tagged-value and invariant resolution all follow the resolution order',
        contracts=['C15_attrs', 'C02_spec'], falsifier='C15', modes=['py'], level='other',
        only={'C02_spec': ['interface.py:Specification.changed', 'interface.py:Specification.__setBases']},
        level_text='Specification.get (with its per-interface memo), direct, getDescriptionFor/__getitem__, __contains__, '
                   'queryDescriptionFor, namesAndDescriptions(all=True), Element.queryTaggedValue, InterfaceClass.queryTaggedValue and '
                   'getTaggedValue are verified from their real bodies against ONE specification, "the first interface along __iro__ '
                   'that defines the name/tag directly", for all interface tables and resolution orders; hence they agree with each '
                   'other. getTaggedValueTags returns exactly the tags some interface of __iro__ carries directly; validateInvariants '
                   'runs every invariant of every interface of __iro__ in order (ghost call log), collects every failure in a given '
                   'list and raises Invalid exactly when something failed (two induction lemmas); names(all=True) (and hence iter) is '
                   'the own names plus the names of every base (recursion through its own contract). That the names of the ancestors '
                   'are the names along __iro__ (C03: __iro__ lists exactly the ancestors) and "follows later changes of __bases__" '
                   '(memo reset by changed(), C02) are checked bounded on random DAGs with re-basing and a warm memo.',
        level_note='names() is verified as a recursion equation over __bases__, its closed form rests on C03; the re-basing clause is '
                   'bounded; memo validity is a precondition established by changed() (C02).',
        explanation='accessors proved against one first-definer-along-__iro__ specification; remaining accessors and re-basing bounded',
    ),
    'C16': dict(
        title='Components listings, lookups and events stay mutually consistent',
        contracts=['C16_components'], falsifier='C16', modes=['py'], level='other',
        level_text="Verified from the real bodies of registry.py for all contents of the four listings: registerUtility/unregisterUtility "
                   "(Components and the _UtilityRegistrations helper), registerAdapter/unregisterAdapter, registerSubscriptionAdapter/"
                   "unregisterSubscriptionAdapter, registerHandler/unregisterHandler change the listing and the underlying registry under "
                   "the same key with the same value and nothing else (mirror clauses over ghost maps of the registries), return whether "
                   "something was removed, leave everything untouched on a no-op or an argument error, and append exactly the events of the "
                   "statement (replaced utility: Unregistered then Registered; no-op: none); the four registered*() generators yield exactly "
                   "one registration object per recorded entry in order; the property _utility_registrations_cache returns an object bound to "
                   "the current registry and listing; the ==-searched _UnhashableComponentCounter get/set/del act on the first equal entry. "
                   "The literal event clause is PROVED outside the two recorded regions and fails unrestricted (two KNOWN-FINDINGs). The "
                   "(Re-)initialisation (Components.__init__, _init_registries, _init_registrations; __init__ is also the documented way to wipe a "
                   "live object) is verified to leave four fresh empty listings, two fresh registries holding nothing and no volatile utility "
                   "bookkeeping, to emit no event and to touch no older container. The counter cache arithmetic "
                   "(__cache_utility/__uncache_utility/_is_utility_subscribed: dictionaries keyed by == of the components) and "
                   "rebuildUtilityRegistryFromLocalCache are checked bounded on random histories (<= 8 calls) and exhaustive sequences after one "
                   "component was registered under two names (incl. loss of the volatile bookkeeping).",
        level_note='underlying registry mutators by the abstract contracts of C09 (assumed here, bodies under contract there); counter cache '
                   'helpers assumed; helper inspectors (_getAdapterRequired ...) are oracles; event clause: two known findings',
        explanation='mutators, listings, events and re-initialisation proved against mirror/event contracts; counter cache and rebuild bounded; two recorded deviations from the literal event clause',
    ),
    'C19': dict(
        title='super() proxies see only the remainder of the MRO',
        contracts=['C19_super', 'C01_decl', 'C01_impl'], cfun=['C01_c'], falsifier='C19', modes=['py', 'c'], level='other',
        level_text_extra=' C side (contracts/C01_c.py, from the clang AST): providedBy answers a super proxy by implementedBy alone and the C implementedBy hands '
                         'every super proxy to the Python fallback (_implementedBy_super, verified above) without looking at any dictionary.',
        only={'C01_decl': ['declarations.py:providedBy', 'declarations.py:getObjectSpecification', 'declarations.py:ObjectSpecificationDescriptor.__get__']},
        level_text="_next_super_class and _implementedBy_super are verified from their real bodies: for s = super(C, ob) the returned "
                   "specification has exactly the bases [implementedBy(c) for c in type(ob).__mro__ after C], whether it is built or "
                   "taken from the per-class cache, and the cache stays sound (every entry has that shape for its own key) for every "
                   "MRO and cache content; Implements.changed drops the per-class cache before recomputing (so a later declaration change "
                   "on the class of the object is followed); the Python providedBy answers a super proxy through implementedBy alone, "
                   "never through __providedBy__/__provides__ of the proxy (what the underlying object directly provides is not "
                   "consulted), getObjectSpecification and the __providedBy__ descriptor follow the documented attribute order. "
                   "adapter_hook passes the underlying object to the factory (C08 contracts). The dispatch inside the Python implementedBy is "
                   "verified (contracts/C01_impl.py: a super proxy goes to _implementedBy_super before any dictionary is looked at). The "
                   "follow-up of changes on OTHER classes of the MRO is checked bounded on random class DAGs (also as the very first question "
                   "asked about an instance).",
        level_note="Implements.named is an assumed constructor contract (C02); implementedBy of plain classes verified under C01_impl.",
        explanation='the super specification builder and the dispatch in both implementations proved; histories bounded',
    ),
    'C20': dict(
        title='Declaration algebra: iteration, membership, + and - obey ordered-set laws',
        contracts=['C20_decl'], falsifier='C20', modes=['py'], level='other',
        level_text="Verified from the real bodies against ifs(S), 'declared order without duplicates, nested declarations flattened in "
                   "place': the three interfaces() generators (interface, declaration, empty declaration), Specification.extends, "
                   "Declaration.__contains__ (member iff listed), Declaration.__sub__ (keeps, in order, exactly what neither is nor "
                   "extends an interface of B; operands unchanged) and Declaration.__add__: the literal placement rule of the "
                   "statement is PROVED for every operand pair outside the recorded region and the unrestricted obligation fails "
                   "(KNOWN-FINDING C20-add-placement-literal). _normalizeargs is verified to append, in order, exactly the leaves of the "
                   "argument tree (interfaces and class specifications are leaves, tuples and declarations are expanded, recursion through "
                   "its own contract, any depth) to the given list or a fresh one and to touch no other list; Declaration.__init__ makes exactly "
                   "those leaves the bases (the specification function the contracts of + and - use for their results). flattened(), "
                   "alsoProvides/noLongerProvides are checked bounded (exhaustive over DAGs <= 3/4 and argument trees of depth 2).",
        level_note="Specification.__init__ (bases recorded, C02) assumed; argument trees are finite and made of interfaces, class specifications, tuples and "
                   "declarations; members compared by identity; one known finding.",
        explanation='algebra operations, argument normalisation and the constructor proved against an executable-independent specification; one recorded deviation from the literal statement',
    ),
    'C11': dict(
        title='Lookups stay memory-safe and atomic when other code mutates the registry',
        contracts=['C04_extendors'], falsifier='C11', modes=['py', 'c'], level='other',
        only={'C04_extendors': ['adapter.py:AdapterLookupBase.add_extendor', 'adapter.py:AdapterLookupBase.remove_extendor']},
        cfunctions=['_subcache', '_getcache', '_lookup', '_lookup1', '_adapter_hook', '_lookupAll', '_subscriptions', 'IB__adapt__', 'SB_extends', 'SB_providedBy', 'SB_implementedBy',
                    '_generations_tuple', '_verify', 'verify_changed'],
        creturns={'_subcache': 'borrowed', '_getcache': 'borrowed', '_verify': 'int'},
        level_text='Python side: add_extendor/remove_extendor are verified never to mutate a list that existed before the call (the walk of a '
                   'lookup in progress iterates those lists); every k-th container access of an uncached walk is interrupted by every '
                   'single mutation kind, bounded. The C lookup functions (_subcache, _getcache, _lookup, _lookup1, _adapter_hook, _lookupAll, _subscriptions) and '
                   'IB__adapt__/SB_extends/SB_providedBy/SB_implementedBy are executed path by path from the clang AST of the real file '
                   'under ownership contracts of the CPython API: on every path no reference borrowed from a mutable container is '
                   'used after a call that can run Python code unless the frame owns it (U), references are balanced at every '
                   'return incl. error exits (L), NULL is never passed where forbidden (N), list indexes are bounded by a size read '
                   'since the last call-out (B), and a value computed by a call-out is only stored into a container acquired before '
                   'it (St: no answer computed before a re-entrant mutation survives in the live cache). Behaviour under actual '
                   're-entrant mutation (532-point product), reference-count deltas and a short thread stress are checked bounded.',
        level_note='CPython API table and call-out classification are trusted (dict hashing of specification keys assumed not to run '
                   'registry-mutating code; name checked str => PyObject_IsTrue does not call out); thread interleavings of the '
                   'pure-Python implementation are not decided (DESIGN 6).',
        explanation='ownership obligations discharged path-wise for the C functions; atomicity under re-entrancy and threads bounded',
        not_decided=['pre-emptive interleaving of the pure-Python implementation at byte-code granularity', 'free-threaded builds'],
    ),
    'C10': dict(
        title='The C accelerator is observationally equivalent to the Python reference',
        contracts=['C01_impl'], cfun=['C12_c', 'C14_c', 'C05_c', 'C06_c', 'C02_c', 'C01_c'], falsifier='C10', modes=['py', 'c'], level='other', differential=True,
        cfunctions=['_subcache', '_getcache', '_lookup', '_lookup1', '_adapter_hook', '_lookupAll', '_subscriptions', 'IB__adapt__', 'SB_extends', 'SB_providedBy', 'SB_implementedBy',
                    '_generations_tuple', '_verify', 'verify_changed'],
        creturns={'_subcache': 'borrowed', '_getcache': 'borrowed', '_verify': 'int'},
        level_text='Bounded differential check: six generated API programs (about 18k steps: registry chains 3-4 deep of both flavours with a mutation at every level and warm leaf caches, specification queries, comparison and hashing, '
                   'declaration queries, adaptation calls, registry lookups incl. cached answers) over a pool of 33 odd argument values '
                   'are executed under both implementations and the traces (value shapes and exception types) compared; in addition '
                   'the bounded checks of C01-C09, C12-C14, C19 run under both implementations against one executable contract each. '
                   'Twin pairs verified against ONE functional contract (C side from the clang AST by the functional C front end, Python '
                   'side from the ast): IB_richcompare / _compare+__lt__..__ge__+__eq__+__ne__ and IB__hash__ / __hash__ (key order, C12), '
                   'IB__adapt__ / __adapt__ and IB__call__ / __call__ (decision list of the adaptation protocol, C14), _getcache/_lookup/_lookup1/_adapter_hook/_lookupAll/_subscriptions/LB_changed and their '
                   'LookupBase twins (cache-soundness invariant and result clauses, C05/C08), _verify/verify_changed/VB_* and the VerifyingBase '
                   'twins (generation snapshot, C06), SB_extends/SB__call__/SB_providedBy/SB_implementedBy and the SpecificationBase twins '
                   '(membership in _implied, C02), getObjectSpecification and providedBy against the postconditions of the Python functions, '
                   'implementedBy as fast path in front of the Python fallback (whose body is verified: record-or-create, contracts/C01_impl.py), OSD_descr_get against ObjectSpecificationDescriptor.__get__ and '
                   'CPB_descr_get against ClassProvidesBase.__get__ (C01); more pairs are listed in the evidence as they are added. '
                   'The ownership obligations of the C functions (see C11) are discharged as part of this check.',
        level_note='IB__init__ / InterfaceBase.__init__ are verified against the same clause (name and module are the arguments, None when not given; the C code also clears the specification slots, the Python code does not: re-initialising a live interface is not a supported operation; the keyword NAMES are checked by the differential program constructors, fix e290ba1); the agreement of the Python '
                   'implementedBy with the C fast path on its two fast cases is bounded; the CPython API '
                   'models of the C contract modules are trusted.',
        explanation='differential execution of generated programs under both implementations; ownership obligations of the C twins discharged',
        not_decided=['programs reaching C-only behaviour through user subclasses overriding the hooks', 'pre-3.11 static-type branch of the C file, PyPy'],
    ),
}

# properties not claimed (kept current; see DESIGN.md section 6)
NOT_APPLICABLE = [
]
