"""Contracts for the mutators and the change-notification chain of adapter registries (properties C05, C06, C07, C09).

notified(R)   ghost counter: how often R.changed(...) ran (every run bumps the generation and empties the caches of
              R's lookup object; for AdapterRegistry it also reaches every registered sub-registry)
A mutator either leaves every container that existed at entry untouched, or ends by notifying the registry."""
import z3

from zivc.core import *  # noqa
from zivc.spec import Loop, Proc, Registry
from zivc import symex

FIELDS = {'_adapters': LISTO, '_subscribers': LISTO, '_provided': DICT, '_v_lookup': OBJ, '_generation': INT,
          '$notified': z3.ArraySort(Obj, z3.IntSort()), '_cache': DICT, '_mcache': DICT, '_scache': DICT,
          '_v_subregistries': DICT, '$log': SeqO, '__bases__': SEQO, 'ro': SEQO, '_verify_ro': SEQO,
          '_verify_generations': SEQO, '_registry': OBJ, '__dict__': DICT}
reg = Registry(FIELDS)
L = Length
A = 'adapter.py:'
Int = z3.IntSort()
INTERFACE = z3.Const('zope_Interface', Obj)
reg.axiom('Interface-is-an-object', z3.And(INTERFACE != NONE, INTERFACE != ABSENT))


cachedict = z3.Function('is_lookup_cache_dict', Obj, z3.BoolSort())     # ghost: the dict objects used as lookup caches


def only_caches_change(c):
    o = z3.Const('occ_o', Obj)
    return z3.ForAll([o], z3.Implies(z3.Not(cachedict(o)), c.h('$dict')[o] == c.h0('$dict')[o]))


def notified(c, R, now=True):
    return (c.h('$notified') if now else c.h0('$notified'))[R]


def old_containers_untouched(c):
    o = z3.Const('oc_o', Obj)
    return z3.ForAll([o], z3.Implies(c.h0('$alloc')[o], z3.And(c.h('$dict')[o] == c.h0('$dict')[o],
                                                                c.h('$list')[o] == c.h0('$list')[o])))


def caches_empty(c, Lk):
    return z3.And(*[c.h('$dict')[c.h(f)[Lk]] == EMPTYMAP for f in ('_cache', '_mcache', '_scache')])


# ------------------------------------------------------------------ LookupBase.changed (Python twin)
reg.add(Proc(A + 'LookupBase.changed', [('self', OBJ), ('ignored', OBJ)], source='adapter.py:LookupBase.changed',
             modifies=['$dict'], defaults={'ignored': VNONE},
             requires=lambda c: [('they-are-cache-dicts', z3.And(*[cachedict(c.h(f)[c.a.self]) for f in ('_cache', '_mcache', '_scache')])),
                                 ('three-distinct-cache-dicts', z3.And(
                 c.h('_cache')[c.a.self] != NONE, c.h('_mcache')[c.a.self] != NONE, c.h('_scache')[c.a.self] != NONE,
                 z3.Distinct(c.h('_cache')[c.a.self], c.h('_mcache')[c.a.self], c.h('_scache')[c.a.self])))],
             ensures=lambda c: [('all-three-caches-empty', caches_empty(c, c.a.self)), ('only-caches-change', only_caches_change(c)),
                                ('nothing-else', z3.ForAll([z3.Const('o', Obj)], z3.Implies(
                                    z3.And(*[z3.Const('o', Obj) != c.h(f)[c.a.self] for f in ('_cache', '_mcache', '_scache')]),
                                    c.h('$dict')[z3.Const('o', Obj)] == c.h0('$dict')[z3.Const('o', Obj)])))]))

# the lookup object's changed() as seen by the registry (LookupBase / VerifyingBase / AdapterLookupBase chain, C or Python)
reg.add(Proc(A + 'virtual.lookup_changed', [('self', OBJ), ('originally_changed', OBJ)], modifies=['$dict', '$log'],
             ensures=lambda c: [caches_empty(c, c.a.self), c.h('$log') == Concat(c.h0('$log'), Unit(c.a.self)), only_caches_change(c)],
             note='AdapterLookupBase.changed -> LookupBase.changed (verified above) / VerifyingBase.changed: caches emptied'))

reg.add(Proc(A + 'BaseAdapterRegistry.changed', [('self', OBJ), ('originally_changed', OBJ)],
             source='adapter.py:BaseAdapterRegistry.changed',
             calls={'self._v_lookup.changed': A + 'virtual.lookup_changed'},
             modifies=['_generation', '$dict', '$log'],
             ensures=lambda c: [('generation-bumped', c.h('_generation')[c.a.self] == c.h0('_generation')[c.a.self] + 1),
                                ('own-lookup-caches-emptied', caches_empty(c, c.h('_v_lookup')[c.a.self])),
                                ('lookup-object-told', c.h('$log') == Concat(c.h0('$log'), Unit(c.h('_v_lookup')[c.a.self]))),
                                ('only-caches-change', only_caches_change(c)),
                                ('other-generations', z3.ForAll([z3.Const('o', Obj)], z3.Implies(
                                    z3.Const('o', Obj) != c.a.self, c.h('_generation')[z3.Const('o', Obj)] == c.h0('_generation')[z3.Const('o', Obj)])))]))

# ------------------------------------------------------------------ AdapterRegistry: sub-registry links and cascade
T = z3.Function('subregistry_tail', Int, SeqO)
reg.add(Proc(A + 'virtual.registry_changed', [('self', OBJ), ('originally_changed', OBJ)],
             modifies=['_generation', '$dict', '$log', '$notified'],
             ensures=lambda c: [c.h('$log') == Concat(c.h0('$log'), Concat(Unit(c.a.self), T(L(c.h0('$log'))))),
                                c.h('$notified')[c.a.self] == c.h0('$notified')[c.a.self] + 1, only_caches_change(c),
                                z3.ForAll([z3.Const('vr_o', Obj)], c.h('$notified')[z3.Const('vr_o', Obj)] >= c.h0('$notified')[z3.Const('vr_o', Obj)]),
                                c.h('$dict')[c.h0('_v_subregistries')[c.h0('$caller')]] == c.h0('$dict')[c.h0('_v_subregistries')[c.h0('$caller')]]
                                if False else z3.BoolVal(True)],
             note='changed() of a registry (Base/AdapterRegistry, any flavour): ghost log entry, notification counter'))


def _ar_entry(ex, st):
    s = ex.args['self'].t
    st.heap.set('$log', Concat(st.heap.get('$log'), Unit(s)))
    st.heap.set('$notified', z3.Store(st.heap.get('$notified'), s, z3.Select(st.heap.get('$notified'), s) + 1))


def _super_changed(ex, node, st):
    """super().changed(originally_changed) inside AdapterRegistry.changed = BaseAdapterRegistry.changed(self, ...)"""
    out = []
    for s, vs in ex.ev_list(node.args, st):
        args = {'self': ex.args['self'], 'originally_changed': vs[0]}
        out.extend(ex.apply_contract(node, s, reg.procs[A + 'BaseAdapterRegistry.changed'], args))
    return out


def _arc_L0(c):
    j = z3.Int('ac_j')
    keys = dict_keys(c.h0('$dict')[c.h0('_v_subregistries')[c.a.self]])
    return [('subregistries-so-far-notified', z3.ForAll([j], z3.Implies(z3.And(0 <= j, j < c.i), Contains(c.h('$log'), keys[j])))),
            ('own-generation-kept', c.h('_generation')[c.a.self] == c.hL('_generation')[c.a.self]) if False else
            ('counter', c.h('$notified')[c.a.self] >= c.h0('$notified')[c.a.self] + 1),
            ('links-untouched', z3.And(c.h('_v_subregistries') == c.h0('_v_subregistries'), only_caches_change(c))),
            ('own-lookup-told', Contains(c.h('$log'), c.h('_v_lookup')[c.a.self]))]


reg.add(Proc(A + 'AdapterRegistry.changed', [('self', OBJ), ('originally_changed', OBJ)], source='adapter.py:AdapterRegistry.changed',
             calls={'super().changed': _super_changed, 'sub.changed': A + 'virtual.registry_changed'},
             on_entry=_ar_entry, ghost_pre=lambda c: dict_keys_facts(c.h('$dict')[c.h('_v_subregistries')[c.a.self]]),
             modifies=['_generation', '$dict', '$log', '$notified'],
             requires=lambda c: [('links-mapping-exists', z3.And(c.h('_v_subregistries')[c.a.self] != NONE,
                                                                  z3.Not(cachedict(c.h('_v_subregistries')[c.a.self]))))],
             ensures=lambda c: [('every-registered-subregistry-notified', z3.ForAll([z3.Int('pj')], z3.Implies(
                 z3.And(0 <= z3.Int('pj'), z3.Int('pj') < L(dict_keys(c.h0('$dict')[c.h0('_v_subregistries')[c.a.self]]))),
                 Contains(c.h('$log'), dict_keys(c.h0('$dict')[c.h0('_v_subregistries')[c.a.self]])[z3.Int('pj')])))),
                 ('own-lookup-told', Contains(c.h('$log'), c.h('_v_lookup')[c.a.self]))],
             loops={'L0': Loop(_arc_L0)}))

# ------------------------------------------------------------------ leaf helpers
rmeq = z3.Function('without_equal', SeqO, Obj, Int, SeqO)       # elements of the first k that are not == x, in order
_s, _x = z3.Const('rm_s', SeqO), z3.Const('rm_x', Obj)
_k = z3.Int('rm_k')
reg.axiom('rmeq-0', z3.ForAll([_s, _x], rmeq(_s, _x, 0) == Empty(SeqO), patterns=[rmeq(_s, _x, 0)]))
reg.axiom('rmeq-step', z3.ForAll([_s, _x, _k], z3.Implies(z3.And(0 <= _k, _k < L(_s)), rmeq(_s, _x, _k + 1) == z3.If(
    py_eq(_s[_k], _x), rmeq(_s, _x, _k), Concat(rmeq(_s, _x, _k), Unit(_s[_k])))), patterns=[rmeq(_s, _x, _k + 1)]))

reg.add(Proc(A + 'BaseAdapterRegistry._addValueToLeaf', [('self', OBJ), ('existing_leaf_sequence', OBJ), ('new_item', OBJ)],
             source='adapter.py:BaseAdapterRegistry._addValueToLeaf', result=SEQO,
             ensures=lambda c: [('appended-at-the-end', SeqEq(c.res, Concat(
                 z3.If(c.a.existing_leaf_sequence == NONE, Empty(SeqO),
                       z3.If(is_seq(c.a.existing_leaf_sequence), unbox_seq(c.a.existing_leaf_sequence),
                             c.h('$list')[c.a.existing_leaf_sequence])), Unit(c.a.new_item))))]))
reg.add(Proc(A + 'BaseAdapterRegistry._removeValueFromLeaf', [('self', OBJ), ('existing_leaf_sequence', SEQO), ('to_remove', OBJ)],
             source='adapter.py:BaseAdapterRegistry._removeValueFromLeaf', result=SEQO, locals={'$elt_K0': OBJ},
             ensures=lambda c: [('all-equal-entries-removed-order-kept', c.res == rmeq(c.a.existing_leaf_sequence, c.a.to_remove,
                                                                                       L(c.a.existing_leaf_sequence)))],
             loops={'K0': Loop(lambda c: [('prefix', c.acc == rmeq(c.a.existing_leaf_sequence, c.a.to_remove, c.i))])}))

# ------------------------------------------------------------------ mutators: "untouched, or notified last"
reg.add(Proc(A + '_convert_None_to_Interface', [('x', OBJ)], source='adapter.py:_convert_None_to_Interface', result=OBJ,
             globals={'Interface': V(OBJ, INTERFACE)}, pure_fn=lambda c: z3.If(c.a.x == NONE, INTERFACE, c.a.x),
             ensures=lambda c: [('None-means-Interface', c.res == z3.If(c.a.x == NONE, INTERFACE, c.a.x))]))
reg.add(Proc(A + '_normalize_name', [('name', OBJ)], result=OBJ, trusted=True, pure_fn=lambda c: c.a.name,
             note='_compat._normalize_name: identity on str (bytes names are outside the domain)'))
reg.add(Proc(A + 'virtual.add_extendor', [('self', OBJ), ('provided', OBJ)], trusted=True, modifies=['$extendors'],
             note='extendor bookkeeping of the lookup object (own mapping only); bounded by C04/C07 checks'))
reg.add(Proc(A + 'virtual.remove_extendor', [('self', OBJ), ('provided', OBJ)], trusted=True, modifies=['$extendors'],
             note='extendor bookkeeping of the lookup object (own mapping only); bounded by C04/C07 checks'))
reg.fields['$extendors'] = Int
reg.add(Proc(A + 'virtual.self_changed', [('self', OBJ), ('originally_changed', OBJ)],
             modifies=['_generation', '$dict', '$log', '$notified'],
             ensures=lambda c: [c.h('$notified')[c.a.self] == c.h0('$notified')[c.a.self] + 1, only_caches_change(c),
                                c.h('_generation')[c.a.self] == c.h0('_generation')[c.a.self] + 1],
             note='self.changed(self): Base/AdapterRegistry.changed verified above'))


def _mapping_type(ex, node, st):
    # a newly created mapping is empty.  Modelled without a heap write: the dict contents recorded for an object that was
    # never allocated before are the empty mapping (heap-model assumption, listed); this keeps every path through the
    # existing dicts syntactically untouched by the allocation.
    r = ex.fresh_ref(st, 'mapping')
    st.assume(ex.dictval(st, r) == EMPTYMAP)
    st.assume(z3.And(is_dict(r), z3.Not(cachedict(r))))
    return [(st, V(DICT, r))]


reg.assumptions.append('heap model: the dict contents recorded for a never-allocated object are empty (self._mappingType() returns a new empty mapping)')


MUT_CALLS = {'_convert_None_to_Interface': A + '_convert_None_to_Interface', '_normalize_name': A + '_normalize_name',
             'self._mappingType': _mapping_type, 'self._v_lookup.add_extendor': A + 'virtual.add_extendor',
             'self._v_lookup.remove_extendor': A + 'virtual.remove_extendor', 'self.changed': A + 'virtual.self_changed',
             'self._addValueToLeaf': A + 'BaseAdapterRegistry._addValueToLeaf',
             'self._removeValueFromLeaf': A + 'BaseAdapterRegistry._removeValueFromLeaf'}
MUT_MOD = ['$dict', '$list', '$alloc', '_generation', '$log', '$notified', '$extendors']


def untouched_or_notified(c):
    return z3.Or(c.h('$notified')[c.a.self] == c.h0('$notified')[c.a.self] + 1,
                 z3.And(c.h('$notified')[c.a.self] == c.h0('$notified')[c.a.self], old_containers_untouched(c)))


def reg_wf(c):
    """the registry's containers exist and no tree container is a lookup cache"""
    o = z3.Const('rw_o', Obj)
    return [('containers-exist', z3.And(c.h('_adapters')[c.a.self] != NONE, c.h('_subscribers')[c.a.self] != NONE,
                                        c.h('_provided')[c.a.self] != NONE, c.h('$alloc')[c.h('_adapters')[c.a.self]],
                                        c.h('$alloc')[c.h('_subscribers')[c.a.self]], c.h('$alloc')[c.h('_provided')[c.a.self]])),
            ('tree-nodes-are-dicts-not-caches', z3.ForAll([o], z3.Implies(
                z3.And(c.h('$alloc')[o], z3.Not(cachedict(o)), is_dict(o)),
                z3.ForAll([z3.Const('rw_k', Obj)], z3.Implies(
                    z3.And(c.h('$dict')[o][z3.Const('rw_k', Obj)] != ABSENT, is_dict(c.h('$dict')[o][z3.Const('rw_k', Obj)])),
                    z3.And(c.h('$alloc')[c.h('$dict')[o][z3.Const('rw_k', Obj)]], z3.Not(cachedict(c.h('$dict')[o][z3.Const('rw_k', Obj)]))))))))]


def _stable(c):
    return [('not-notified-yet', c.h('$notified') == c.h0('$notified')), ('generation', c.h('_generation') == c.h0('_generation'))]


def _pairs(c):
    """the local list `lookups` holds (container, key) pairs"""
    j = z3.Int('lp_j')
    s = c.h('$list')[c.l.lookups]
    return z3.ForAll([j], z3.Implies(z3.And(0 <= j, j < L(s)), z3.And(is_seq(s[j]), L(unbox_seq(s[j])) == 2)), patterns=[s[j]])


def _quiet(c):
    return _stable(c) + [('nothing-touched-yet', old_containers_untouched(c)), ('lookups-holds-pairs', _pairs(c))]


reg.add(Proc(
    A + 'BaseAdapterRegistry.unsubscribe', [('self', OBJ), ('required', SEQO), ('provided', OBJ), ('value', OBJ)],
    source='adapter.py:BaseAdapterRegistry.unsubscribe', calls=MUT_CALLS, modifies=MUT_MOD,
    locals={'$containers': True, '$objdict': True, 'components': DICT, 'd': DICT, 'comp': DICT},
    requires=reg_wf, may_raise=['KeyError'],
    ensures=lambda c: [('untouched-or-notified-last', untouched_or_notified(c))],
    loops={'L0': Loop(_quiet), 'L1': Loop(lambda c: _stable(c)), 'L2': Loop(lambda c: _stable(c))},
))

reg.add(Proc(
    A + 'BaseAdapterRegistry.unregister', [('self', OBJ), ('required', SEQO), ('provided', OBJ), ('name', OBJ), ('value', OBJ)],
    source='adapter.py:BaseAdapterRegistry.unregister', calls=MUT_CALLS, modifies=MUT_MOD, result=OBJ,
    locals={'$containers': True, '$objdict': True, 'components': DICT, 'd': DICT, 'comp': DICT},
    requires=reg_wf, may_raise=['KeyError'],
    ensures=lambda c: [('untouched-or-notified-last', untouched_or_notified(c))],
    loops={'L0': Loop(_quiet), 'L1': Loop(lambda c: _stable(c)), 'L2': Loop(lambda c: _stable(c))},
))
reg.add(Proc(
    A + 'BaseAdapterRegistry.subscribe', [('self', OBJ), ('required', SEQO), ('provided', OBJ), ('value', OBJ)],
    source='adapter.py:BaseAdapterRegistry.subscribe', calls=MUT_CALLS, modifies=MUT_MOD,
    locals={'$containers': True, '$objdict': True, 'components': DICT, 'd': DICT},
    requires=lambda c: reg_wf(c) + [('leaves-are-tuples', z3.BoolVal(True))], may_raise=['KeyError'],
    ensures=lambda c: [('always-notifies', c.h('$notified')[c.a.self] == c.h0('$notified')[c.a.self] + 1)],
    loops={'L0': Loop(lambda c: _stable(c) + [('byorder-alive', c.l.byorder == c.h('_subscribers')[c.a.self])]),
           'L1': Loop(lambda c: _stable(c))},
))

MUT_CALLS2 = dict(MUT_CALLS, **{'self.unregister': A + 'BaseAdapterRegistry.unregister'})
reg.add(Proc(
    A + 'BaseAdapterRegistry.register', [('self', OBJ), ('required', SEQO), ('provided', OBJ), ('name', OBJ), ('value', OBJ)],
    source='adapter.py:BaseAdapterRegistry.register', calls=MUT_CALLS2, modifies=MUT_MOD,
    locals={'$containers': True, '$objdict': True, 'components': DICT, 'd': DICT},
    requires=reg_wf, may_raise=['KeyError'],
    raises={'ValueError': (lambda c: z3.Not(is_name(c.a.name)),
                           lambda c: [('nothing-changed', z3.And(old_containers_untouched(c), c.h('$notified') == c.h0('$notified')))])},
    ensures=lambda c: [
        ('None-means-unregister', z3.Implies(c.a.value == NONE, untouched_or_notified(c))),
        ('notifies-unless-that-very-object-is-already-registered', z3.Implies(c.a.value != NONE, z3.Or(
            c.h('$notified')[c.a.self] == c.h0('$notified')[c.a.self] + 1,
            z3.And(c.h('$notified')[c.a.self] == c.h0('$notified')[c.a.self],
                   (c.h('$dict')[c.l.components][c.a.name] == c.a.value) if 'components' in c.l else z3.BoolVal(False)))))],
    loops={'L0': Loop(lambda c: _stable(c) + [('byorder-alive', c.l.byorder == c.h('_adapters')[c.a.self])]),
           'L1': Loop(lambda c: _stable(c))},
))


# ------------------------------------------------------------------ base chain of a registry (property C06)
# regbases[R]  the tuple stored as R.__dict__['__bases__'] (boxed; ABSENT before the first assignment)
# ro[R]        the stored resolution order;  C3ORDER(regbases, R) the order ro.ro computes from the CURRENT base graph
reg.fields['regbases'] = OBJ
REGB = z3.ArraySort(Obj, Obj)
C3ORDER = z3.Function('c3_order_of_registry', REGB, Obj, SeqO)
reg.assumptions.append('ro.ro(registry) returns the C3 order of the registry over the __bases__ graph as it is at the time of the '
                       'call (C03 covers ro.py); registries are compared by identity')
BASES_ALIAS = {'__bases__': 'regbases'}


def _pats(seq, j):
    return [seq[j]] if z3.is_const(seq) and seq.decl().kind() == z3.Z3_OP_UNINTERPRETED else []


def _ro_ro(ex, node, st):
    """ro.ro(C): an assumed pure function of the current base graph; any further argument is outside the contract"""
    if len(node.args) != 1 or node.keywords:
        raise symex.Unsupported(node, 'ro.ro with arguments other than the registry: no contract')
    out = []
    for s, vs in ex.ev_list(node.args, st):
        out.append((s, V(SEQO, C3ORDER(s.heap.get('regbases'), vs[0].t))))
    return out


def subs_of_reg(c, r, now=True):
    h = c.h if now else c.h0
    return h('$dict')[h('_v_subregistries')[r]]


def links_wf(c):
    a, b = z3.Consts('lw_a lw_b', Obj)
    return [('every-registry-has-its-own-links-mapping', ForAllP([a, b], z3.Implies(a != b, c.h('_v_subregistries')[a] != c.h('_v_subregistries')[b]),
                                                                      patterns=[z3.MultiPattern(c.h('_v_subregistries')[a], c.h('_v_subregistries')[b])])),
            ('links-mappings-exist-and-are-not-caches', ForAllP([a], z3.And(c.h('_v_subregistries')[a] != NONE,
                                                                             z3.Not(cachedict(c.h('_v_subregistries')[a]))),
                                                                  patterns=[c.h('_v_subregistries')[a]]))]


reg.add(Proc(A + 'AdapterRegistry._addSubregistry', [('self', OBJ), ('r', OBJ)], source='adapter.py:AdapterRegistry._addSubregistry',
             modifies=['$dict'], requires=lambda c: [c.h('_v_subregistries')[c.a.self] != NONE],
             ensures=lambda c: [('r-is-linked', subs_of_reg(c, c.a.self)[c.a.r] != ABSENT),
                                ('nothing-else', ForAllP([z3.Const('as_o', Obj), z3.Const('as_k', Obj)], z3.Implies(
                                    z3.Or(z3.Const('as_o', Obj) != c.h('_v_subregistries')[c.a.self], z3.Const('as_k', Obj) != c.a.r),
                                    c.h('$dict')[z3.Const('as_o', Obj)][z3.Const('as_k', Obj)] == c.h0('$dict')[z3.Const('as_o', Obj)][z3.Const('as_k', Obj)])))]))
reg.add(Proc(A + 'AdapterRegistry._removeSubregistry', [('self', OBJ), ('r', OBJ)], source='adapter.py:AdapterRegistry._removeSubregistry',
             modifies=['$dict'], requires=lambda c: [c.h('_v_subregistries')[c.a.self] != NONE],
             ensures=lambda c: [('r-is-not-linked', subs_of_reg(c, c.a.self)[c.a.r] == ABSENT),
                                ('nothing-else', ForAllP([z3.Const('as_o', Obj), z3.Const('as_k', Obj)], z3.Implies(
                                    z3.Or(z3.Const('as_o', Obj) != c.h('_v_subregistries')[c.a.self], z3.Const('as_k', Obj) != c.a.r),
                                    c.h('$dict')[z3.Const('as_o', Obj)][z3.Const('as_k', Obj)] == c.h0('$dict')[z3.Const('as_o', Obj)][z3.Const('as_k', Obj)])))]))


def _base_setbases_post(c):
    s = c.a.self
    return [('bases-recorded', c.h('regbases')[s] == box_seq(c.a.bases)),
            ('stored-order-is-the-C3-order-of-the-current-base-graph', c.h('ro')[s] == C3ORDER(c.h('regbases'), s)),
            ('other-registries-keep-bases-and-order', ForAllP([z3.Const('sb_o', Obj)], z3.Implies(z3.Const('sb_o', Obj) != s, z3.And(
                c.h('regbases')[z3.Const('sb_o', Obj)] == c.h0('regbases')[z3.Const('sb_o', Obj)],
                c.h('ro')[z3.Const('sb_o', Obj)] == c.h0('ro')[z3.Const('sb_o', Obj)])))),
            ('notified-last', c.h('$notified')[s] == c.h0('$notified')[s] + 1),
            ('only-caches-change', only_caches_change(c)),
            ('generation-bumped-exactly-once', c.h('_generation')[s] == c.h0('_generation')[s] + 1)]


reg.add(Proc(A + 'BaseAdapterRegistry._setBases', [('self', OBJ), ('bases', SEQO)], source='adapter.py:BaseAdapterRegistry._setBases',
             calls={'ro.ro': _ro_ro, 'self.changed': A + 'virtual.self_changed'}, attr_alias=BASES_ALIAS, locals={'$instdict': True},
             modifies=['regbases', 'ro', '_generation', '$dict', '$log', '$notified'], ensures=_base_setbases_post))


def _super_setbases(ex, node, st):
    out = []
    for s, vs in ex.ev_list(node.args, st):
        args = {'self': ex.args['self'], 'bases': ex.coerce(vs[0], SEQO, s)}
        out.extend(ex.apply_contract(node, s, reg.procs[A + 'BaseAdapterRegistry._setBases'], args))
    return out


def old_bases(c):
    v = c.h0('regbases')[c.a.self]
    return z3.If(v == ABSENT, Empty(SeqO), unbox_seq(v))


def _ar_setbases_pre(c):
    j = z3.Int('sp_j')
    old = old_bases(c)
    return links_wf(c) + [
        ('recorded-bases-are-a-tuple', z3.Or(c.h('regbases')[c.a.self] == ABSENT, is_seq(c.h('regbases')[c.a.self]))),
        ('linked-to-every-current-base', ForAllP([j], z3.Implies(z3.And(0 <= j, j < L(old)), subs_of_reg(c, old[j])[c.a.self] != ABSENT),
                                                   patterns=_pats(old, j)))]


def _links_frame(c):
    """only the key `self` of links mappings changes; caches may change (changed()); nothing else"""
    o, k = z3.Consts('lf_o lf_k', Obj)
    r = z3.Const('lf_r', Obj)
    return ForAllP([r, k], z3.Implies(k != c.a.self, subs_of_reg(c, r)[k] == subs_of_reg(c, r, False)[k]),
                     patterns=[subs_of_reg(c, r)[k]])


def _ar_setbases_post(c):
    j = z3.Int('sq_j')
    old = old_bases(c)
    new = c.a.bases
    r = z3.Const('sq_r', Obj)
    return _base_setbases_post(c)[:4] + _base_setbases_post(c)[5:] + [
        ('linked-to-every-new-base', ForAllP([j], z3.Implies(z3.And(0 <= j, j < L(new)), subs_of_reg(c, new[j])[c.a.self] != ABSENT),
                                               patterns=[new[j]])),
        ('unlinked-from-every-dropped-base', ForAllP([j], z3.Implies(
            z3.And(0 <= j, j < L(old), z3.Not(Contains(new, old[j]))), subs_of_reg(c, old[j])[c.a.self] == ABSENT), patterns=_pats(old, j))),
        ('links-of-other-registries-to-their-bases-untouched', _links_frame(c)),
        ('registries-that-are-neither-old-nor-new-bases-keep-their-links', ForAllP([r], z3.Implies(
            z3.And(z3.Not(Contains(old, r)), z3.Not(Contains(new, r))), subs_of_reg(c, r) == subs_of_reg(c, r, False)),
            patterns=[subs_of_reg(c, r)]))]


def _ar_L0(c):
    j = z3.Int('l0_j')
    old = old_bases(c)
    r = z3.Const('l0_r', Obj)
    return [('index-in-range', c.i <= L(old)),
            ('dropped-bases-visited-are-unlinked', ForAllP([j], z3.Implies(
                z3.And(0 <= j, j < c.i, z3.Not(Contains(c.a.bases, old[j]))), subs_of_reg(c, old[j])[c.a.self] == ABSENT), patterns=_pats(old, j))),
            ('kept-bases-stay-linked', ForAllP([j], z3.Implies(
                z3.And(0 <= j, j < L(old), Contains(c.a.bases, old[j])), subs_of_reg(c, old[j])[c.a.self] != ABSENT), patterns=_pats(old, j))),
            ('only-own-key-changes', _links_frame(c)),
            ('others-keep-their-links', ForAllP([r], z3.Implies(z3.Not(Contains(old, r)), subs_of_reg(c, r) == subs_of_reg(c, r, False)),
                                                  patterns=[subs_of_reg(c, r)])),
            ('attributes-stable', z3.And(c.h('_v_subregistries') == c.h0('_v_subregistries'), c.h('regbases') == c.h0('regbases'),
                                         c.h('ro') == c.h0('ro'), c.h('$notified') == c.h0('$notified'),
                                         c.h('_generation') == c.h0('_generation'), c.h('$log') == c.h0('$log'))),
            ('only-links-mappings-change', ForAllP([z3.Const('l0_o', Obj)], z3.Implies(
                ForAllP([r], c.h('_v_subregistries')[r] != z3.Const('l0_o', Obj)),
                c.h('$dict')[z3.Const('l0_o', Obj)] == c.h0('$dict')[z3.Const('l0_o', Obj)])))]


def _ar_L1(c):
    j = z3.Int('l1_j')
    old = old_bases(c)
    new = c.a.bases
    r = z3.Const('l1_r', Obj)
    return [('new-bases-visited-are-linked', ForAllP([j], z3.Implies(z3.And(0 <= j, j < c.i), subs_of_reg(c, new[j])[c.a.self] != ABSENT),
                                                        patterns=[new[j]])),
            ('kept-bases-stay-linked', ForAllP([j], z3.Implies(
                z3.And(0 <= j, j < L(old), Contains(new, old[j])), subs_of_reg(c, old[j])[c.a.self] != ABSENT), patterns=_pats(old, j))),
            ('dropped-bases-are-unlinked', ForAllP([j], z3.Implies(
                z3.And(0 <= j, j < L(old), z3.Not(Contains(new, old[j]))), subs_of_reg(c, old[j])[c.a.self] == ABSENT), patterns=_pats(old, j))),
            ('only-own-key-changes', _links_frame(c)),
            ('others-keep-their-links', ForAllP([r], z3.Implies(z3.And(z3.Not(Contains(old, r)), z3.Not(Contains(new, r))),
                                                                  subs_of_reg(c, r) == subs_of_reg(c, r, False)), patterns=[subs_of_reg(c, r)])),
            ('attributes-stable', z3.And(c.h('_v_subregistries') == c.h0('_v_subregistries'), c.h('regbases') == c.h0('regbases'),
                                         c.h('ro') == c.h0('ro'), c.h('$notified') == c.h0('$notified'),
                                         c.h('_generation') == c.h0('_generation'), c.h('$log') == c.h0('$log'))),
            ('only-links-mappings-change', ForAllP([z3.Const('l0_o', Obj)], z3.Implies(
                ForAllP([r], c.h('_v_subregistries')[r] != z3.Const('l0_o', Obj)),
                c.h('$dict')[z3.Const('l0_o', Obj)] == c.h0('$dict')[z3.Const('l0_o', Obj)])))]


reg.add(Proc(A + 'AdapterRegistry._setBases', [('self', OBJ), ('bases', SEQO)], source='adapter.py:AdapterRegistry._setBases',
             calls={'super()._setBases': _super_setbases, 'r._removeSubregistry': A + 'AdapterRegistry._removeSubregistry',
                    'r._addSubregistry': A + 'AdapterRegistry._addSubregistry'},
             attr_alias=BASES_ALIAS, locals={'$instdict': True, 'old': SEQO},
             modifies=['regbases', 'ro', '_generation', '$dict', '$log', '$notified'],
             requires=_ar_setbases_pre, ensures=_ar_setbases_post,
             loops={'L0': Loop(_ar_L0), 'L1': Loop(_ar_L1)}))


# ------------------------------------------------------------------ (re-)initialisation: __init__ is also what rebuild() runs on a LIVE registry
def _fresh_container(kind):
    def handler(ex, node, st):
        r = ex.fresh_ref(st, kind)
        if kind == 'list':
            ex.set_listval(st, r, Empty(SeqO))
            return [(st, V(LISTO, r))]
        ex.set_dictval(st, r, EMPTYMAP)
        st.assume(z3.Not(cachedict(r)))
        return [(st, V(DICT, r))]
    return handler


def _create_lookup(ex, node, st):
    """self._createLookup(): a new lookup object is installed (its caches are empty; C05_cache) -- no effect on the generation"""
    r = ex.fresh_ref(st, 'lookup')
    ex.write_field(st, ex.args['self'].t, '_v_lookup', vobj(r))
    return [(st, VNONE)]


def _assign_bases(ex, tgt, st, recv, v):
    """self.__bases__ = bases: the property setter runs _setBases (contract above; virtual for AdapterRegistry)"""
    args = {'self': recv, 'bases': ex.coerce(v, SEQO, st)}
    res = ex.apply_contract(tgt, st, reg.procs[A + 'BaseAdapterRegistry._setBases'], args)
    assert len(res) == 1 and res[0][0] is st


def _init_post(c):
    s = c.a.self
    return [('the-generation-counter-continues', c.h('_generation')[s] == c.h0('_generation')[s] + 1),
            ('fresh-empty-containers', z3.And(
                z3.Not(c.h0('$alloc')[c.h('_adapters')[s]]), z3.Not(c.h0('$alloc')[c.h('_subscribers')[s]]), z3.Not(c.h0('$alloc')[c.h('_provided')[s]]),
                L(c.h('$list')[c.h('_adapters')[s]]) == 0, L(c.h('$list')[c.h('_subscribers')[s]]) == 0, c.h('$dict')[c.h('_provided')[s]] == EMPTYMAP)),
            ('bases-recorded-and-order-computed', z3.And(c.h('regbases')[s] == box_seq(c.a.bases), c.h('ro')[s] == C3ORDER(c.h('regbases'), s))),
            ('notified', c.h('$notified')[s] == c.h0('$notified')[s] + 1)]


reg.add(Proc(A + 'BaseAdapterRegistry.__init__', [('self', OBJ), ('bases', SEQO)], source='adapter.py:BaseAdapterRegistry.__init__',
             calls={'self._sequenceType': _fresh_container('list'), 'self._providedType': _fresh_container('dict'),
                    'self._createLookup': _create_lookup},
             setattr_={'__bases__': _assign_bases},
             modifies=['_adapters', '_subscribers', '_provided', '_v_lookup', 'regbases', 'ro', '_generation', '$dict', '$list', '$alloc',
                       '$log', '$notified'],
             ensures=_init_post))


# ================================================================== functional effect on the nested mappings (property C09)
# walk(D, n, key, j)   the node reached from dict object n after following key[0..j) through the dict contents D
#                      (None as soon as a key is missing -- what `components.get(k)` / `if d is None` see)
# keyof(req, p)        the path of a registration: the required specifications (None standing for Interface) followed by provided
# leafval(...)         what _find_leaf answers: the entry `name` of the node at the end of the path, None if there is none
DS = z3.ArraySort(Obj, ObjMap)
walk = z3.Function('walk', DS, Obj, SeqO, Int, Obj)
keyof = z3.Function('registration_key', SeqO, Obj, SeqO)
_D = z3.Const('wk_D', DS)
_n = z3.Const('wk_n', Obj)
_key = z3.Const('wk_key', SeqO)
_j = z3.Int('wk_j')
_rq = z3.Const('wk_rq', SeqO)
_pv = z3.Const('wk_pv', Obj)


def gD(D, c, k):
    """dict.get(k) on the dict object c: None when absent"""
    v = z3.Select(z3.Select(D, c), k)
    return z3.If(v == ABSENT, NONE, v)


reg.axiom('walk-0', z3.ForAll([_D, _n, _key], walk(_D, _n, _key, 0) == _n, patterns=[walk(_D, _n, _key, 0)]))
reg.axiom('walk-step', z3.ForAll([_D, _n, _key, _j], z3.Implies(z3.And(0 <= _j, _j < L(_key)), walk(_D, _n, _key, _j + 1) == z3.If(
    walk(_D, _n, _key, _j) == NONE, NONE, gD(_D, walk(_D, _n, _key, _j), _key[_j]))), patterns=[walk(_D, _n, _key, _j + 1)]))
reg.axiom('walk-step-seen-from-the-read', z3.ForAll([_D, _n, _key, _j], z3.Implies(z3.And(0 <= _j, _j < L(_key)), walk(_D, _n, _key, _j + 1) == z3.If(
    walk(_D, _n, _key, _j) == NONE, NONE, gD(_D, walk(_D, _n, _key, _j), _key[_j]))),
    patterns=[z3.Select(z3.Select(_D, walk(_D, _n, _key, _j)), _key[_j])]))
reg.axiom('keyof-length', z3.ForAll([_rq, _pv], L(keyof(_rq, _pv)) == L(_rq) + 1, patterns=[keyof(_rq, _pv)]))
reg.axiom('keyof-elements', z3.ForAll([_rq, _pv, _j], z3.Implies(z3.And(0 <= _j, _j <= L(_rq)), keyof(_rq, _pv)[_j] == z3.If(
    _j == L(_rq), _pv, z3.If(_rq[_j] == NONE, INTERFACE, _rq[_j]))), patterns=[keyof(_rq, _pv)[_j]]))

# once the path is broken it stays broken (induction on the later position)
_j0 = z3.Int('wk_j0')
reg.induct('walk-stays-None', [_D, _n, _key], _j,
           lambda k: z3.ForAll([_j0], z3.Implies(z3.And(0 <= _j0, _j0 <= k, k <= L(_key), walk(_D, _n, _key, _j0) == NONE),
                                                 walk(_D, _n, _key, k) == NONE),
                               patterns=[z3.MultiPattern(walk(_D, _n, _key, _j0), walk(_D, _n, _key, k))]),
           patterns=[walk(_D, _n, _key, _j)])


def leafval(D, LV, byorder, required, provided, name):
    order = L(required)
    key = keyof(required, provided)
    end = walk(D, z3.Select(LV, byorder)[order], key, L(key))
    return z3.If(z3.Or(L(z3.Select(LV, byorder)) <= order, end == NONE), NONE, gD(D, end, name))


def roots_are_dicts(c, byorder):
    """every per-order root of the by-order list is a dict object"""
    j = z3.Int('rd_j')
    s = c.h('$list')[byorder]
    return ForAllP([j], z3.Implies(z3.And(0 <= j, j < L(s)), z3.And(is_dict(s[j]), s[j] != NONE)), patterns=[s[j]])


def inner_nodes_are_dicts(c):
    """the values stored above the leaf level of a registration tree are dict objects (tree of dicts; established by the mutators)"""
    o, k = z3.Consts('in_o in_k', Obj)
    return ForAllP([o, k], z3.Implies(z3.And(treenode(o), z3.Not(leafnode(o)), c.h('$dict')[o][k] != ABSENT),
                                      z3.And(is_dict(c.h('$dict')[o][k]), c.h('$dict')[o][k] != NONE, treenode(c.h('$dict')[o][k]))),
                   patterns=[c.h('$dict')[o][k]])


treenode = z3.Function('registration_tree_node', Obj, z3.BoolSort())      # ghost: dict objects that are nodes of a registration tree
leafnode = z3.Function('registration_tree_leaf_level', Obj, z3.BoolSort())  # ghost: ... those holding {name: value}


def _fl_L0(c):
    D = c.h('$dict')
    root = c.h('$list')[c.a.byorder][L(c.a.required)]
    key = keyof(c.a.required, c.a.provided)
    return [('key-is-the-registration-key', SeqEq(c.l.key, key)),
            ('components-is-the-node-after-i-steps', z3.And(c.l.components == walk(D, root, key, c.i), c.l.components != NONE)),
            ('nothing-changes', z3.And(c.h('$dict') == c.h0('$dict'), c.h('$list') == c.h0('$list')))]


reg.add(Proc(
    A + 'BaseAdapterRegistry._find_leaf', [('self', OBJ), ('byorder', LISTO), ('required', SEQO), ('provided', OBJ), ('name', OBJ)],
    source='adapter.py:BaseAdapterRegistry._find_leaf', result=OBJ,
    calls={'_convert_None_to_Interface': A + '_convert_None_to_Interface'},
    locals={'components': DICT, 'd': DICT},
    requires=lambda c: [('by-order-roots-are-dicts', roots_are_dicts(c, c.a.byorder))],
    ensures=lambda c: [('the-entry-at-the-end-of-the-path-or-None',
                        c.res == leafval(c.h('$dict'), c.h('$list'), c.a.byorder, c.a.required, c.a.provided, c.a.name)),
                       ('pure', z3.And(c.h('$dict') == c.h0('$dict'), c.h('$list') == c.h0('$list')))],
    loops={'L0': Loop(_fl_L0)},
))
reg.add(Proc(
    A + 'BaseAdapterRegistry.registered', [('self', OBJ), ('required', SEQO), ('provided', OBJ), ('name', OBJ)],
    source='adapter.py:BaseAdapterRegistry.registered', result=OBJ, defaults={'name': V(OBJ, box_name(EMPTYNAME))},
    calls={'self._find_leaf': A + 'BaseAdapterRegistry._find_leaf', '_normalize_name': A + '_normalize_name'},
    requires=lambda c: [('by-order-roots-are-dicts', roots_are_dicts(c, c.h('_adapters')[c.a.self]))],
    ensures=lambda c: [('the-adapter-entry-of-exactly-that-key-or-None',
                        c.res == leafval(c.h('$dict'), c.h('$list'), c.h('_adapters')[c.a.self], c.a.required, c.a.provided, c.a.name))],
))


def _leafseq(c, v):
    """a subscription leaf as a sequence: a tuple value (the default leaf type), or a list object"""
    return z3.If(v == NONE, Empty(SeqO), z3.If(is_seq(v), unbox_seq(v), c.h('$list')[v]))


def _has_equal(seq, x):
    j = z3.Int('he_j')
    return z3.Exists([j], z3.And(0 <= j, j < L(seq), py_eq(seq[j], x)))


reg.add(Proc(
    A + 'BaseAdapterRegistry.subscribed', [('self', OBJ), ('required', SEQO), ('provided', OBJ), ('subscriber', OBJ)],
    source='adapter.py:BaseAdapterRegistry.subscribed', result=OBJ, locals={'$containers': True, '$in_uses_eq': True},
    calls={'self._find_leaf': A + 'BaseAdapterRegistry._find_leaf'},
    requires=lambda c: [('by-order-roots-are-dicts', roots_are_dicts(c, c.h('_subscribers')[c.a.self])),
                        ('subscription-leaves-are-tuples-or-lists', (lambda v: z3.Or(v == NONE, is_seq(v), is_list(v)))(
                            leafval(c.h('$dict'), c.h('$list'), c.h('_subscribers')[c.a.self], c.a.required, c.a.provided,
                                    box_name(EMPTYNAME))))],
    ensures=lambda c: [('the-subscriber-iff-an-equal-one-is-in-the-leaf-of-exactly-that-key', c.res == z3.If(
        _has_equal(_leafseq(c, leafval(c.h('$dict'), c.h('$list'), c.h('_subscribers')[c.a.self], c.a.required, c.a.provided,
                                       box_name(EMPTYNAME))), c.a.subscriber), c.a.subscriber, NONE))],
))


# ------------------------------------------------------------------ unregister / unsubscribe: exact effect on the containers
class _Path:
    """the path of the key (required, provided) in the by-order list `field` of the registry, in the ENTRY state"""

    def __init__(self, c, field):
        self.c = c
        self.byo = c.h0(field)[c.a.self]
        self.D0, self.LV0 = c.h0('$dict'), c.h0('$list')
        self.order = L(c.a.required)
        self.key = keyof(c.a.required, c.a.provided)
        self.root0 = self.LV0[self.byo][self.order]
        self.n = L(self.key)
        self.pd = c.h0('_provided')[c.a.self]

    def w0(self, j):
        return walk(self.D0, self.root0, self.key, j)

    @property
    def leaf0(self):
        return self.w0(self.n)

    def leafval0(self, name):
        return z3.If(z3.Or(L(self.LV0[self.byo]) <= self.order, self.leaf0 == NONE), NONE, gD(self.D0, self.leaf0, name))


def path_pre(field):
    def pre(c):
        p = _Path(c, field)
        j, j2 = z3.Ints('pp_j pp_j2')
        return reg_wf(c) + [
            ('by-order-roots-are-dicts', roots_are_dicts(c, c.h(field)[c.a.self])),
            ('path-nodes-are-registration-nodes-not-caches-not-the-count-mapping', ForAllP([j], z3.Implies(
                z3.And(0 <= j, j <= p.n, p.order < L(p.LV0[p.byo]), p.w0(j) != NONE),
                z3.And(z3.Not(cachedict(p.w0(j))), p.w0(j) != p.pd, c.h('$alloc')[p.w0(j)])), patterns=[p.w0(j)])),
            ('by-order-roots-are-neither-caches-nor-the-count-mapping', ForAllP([j2], z3.Implies(
                z3.And(0 <= j2, j2 < L(p.LV0[p.byo])), z3.And(z3.Not(cachedict(p.LV0[p.byo][j2])), p.LV0[p.byo][j2] != p.pd)),
                patterns=[p.LV0[p.byo][j2]])),
            ('path-nodes-are-pairwise-distinct', ForAllP([j, j2], z3.Implies(
                z3.And(0 <= j, j < j2, j2 <= p.n, p.order < L(p.LV0[p.byo]), p.w0(j2) != NONE), p.w0(j) != p.w0(j2)),
                patterns=[z3.MultiPattern(p.w0(j), p.w0(j2))])),
            ('count-mapping-is-no-cache', z3.Not(cachedict(p.pd))),
            ('by-order-list-is-allocated', c.h('$alloc')[p.byo])]
    return pre


def _only_removed(c, p, name, lo, skip_counts=False):
    """exact effect of a removal on the dict objects, position by position along the path of the key:
    dicts off the path are untouched; a path node keeps every entry except its path edge, which is either kept or -- from
    position lo on, and only if the child is empty now -- deleted; the leaf loses exactly the entry `name`"""
    o, k = z3.Consts('or_o or_k', Obj)
    j, j2 = z3.Ints('or_j or_j2')
    D, D0 = c.h('$dict'), c.h0('$dict')
    guard = z3.And(z3.Not(cachedict(o)), o != p.pd) if skip_counts else z3.BoolVal(True)
    offpath = z3.ForAll([j2], z3.Implies(z3.And(0 <= j2, j2 <= p.n), o != p.w0(j2)))
    return z3.And(
        ForAllP([o], z3.Implies(z3.And(guard, offpath), D[o] == D0[o]), patterns=[D[o]]),
        ForAllP([j, k], z3.Implies(z3.And(0 <= j, j < p.n, k != p.key[j]), D[p.w0(j)][k] == D0[p.w0(j)][k]), patterns=[D[p.w0(j)][k]]),
        ForAllP([j], z3.Implies(z3.And(0 <= j, j < p.n), z3.Or(
            D[p.w0(j)][p.key[j]] == p.w0(j + 1),
            z3.And(j >= lo, D[p.w0(j)][p.key[j]] == ABSENT, z3.Not(dict_nonempty(D[p.w0(j + 1)]))))), patterns=[p.w0(j)]),
        ForAllP([k], z3.Implies(k != name, D[p.leaf0][k] == D0[p.leaf0][k]), patterns=[D[p.leaf0][k]]),
        D[p.leaf0][name] == ABSENT)


def _lookups_are_the_path(c, p, upto):
    j = z3.Int('lp2_j')
    s = c.h('$list')[c.l.lookups]
    return z3.And(L(s) == upto, z3.Not(c.h0('$alloc')[c.l.lookups]),
                  ForAllP([j], z3.Implies(z3.And(0 <= j, j < upto), z3.And(
                      is_seq(s[j]), L(unbox_seq(s[j])) == 2, unbox_seq(s[j])[0] == p.w0(j), unbox_seq(s[j])[1] == p.key[j])), patterns=[s[j]]))


def _old_lists_untouched(c):
    o = z3.Const('ol_o', Obj)
    return ForAllP([o], z3.Implies(c.h0('$alloc')[o], c.h('$list')[o] == c.h0('$list')[o]), patterns=[c.h('$list')[o]])


def _unreg_L0(field):
    def inv(c):
        p = _Path(c, field)
        return _quiet(c) + [
            ('key-is-the-registration-key', SeqEq(c.l.key, p.key)),
            ('by-order-list', z3.And(c.l.byorder == p.byo, p.order < L(p.LV0[p.byo]), c.l.order == p.order)),
            ('components-is-the-node-after-i-steps', z3.And(c.l.components == p.w0(c.i), c.l.components != NONE)),
            ('lookups-records-the-path', _lookups_are_the_path(c, p, c.i))]
    return inv


def _unreg_L1(field, name_of):
    def inv(c):
        p = _Path(c, field)
        return _stable(c) + [
            ('entries-only-removed-along-the-path', _only_removed(c, p, name_of(c), p.n - c.i)),
            ('the-entry-is-gone', c.h('$dict')[p.leaf0][name_of(c)] == ABSENT),
            ('lists-untouched', _old_lists_untouched(c)),
            ('lookups-records-the-path', _lookups_are_the_path(c, p, p.n))]
    return inv


def _unreg_L2(field, name_of):
    def inv(c):
        p = _Path(c, field)
        j = z3.Int('l2_j')
        o = z3.Const('l2_o', Obj)
        cur = c.h('$list')[p.byo]
        return _stable(c) + [
            ('entries-only-removed-along-the-path', _only_removed(c, p, name_of(c), 0)),
            ('the-entry-is-gone', c.h('$dict')[p.leaf0][name_of(c)] == ABSENT),
            ('by-order-list-only-loses-trailing-empty-mappings', z3.And(
                L(cur) <= L(p.LV0[p.byo]), SeqEq(cur, Slice(p.LV0[p.byo], 0, L(cur))),
                z3.ForAll([j], z3.Implies(z3.And(L(cur) <= j, j < L(p.LV0[p.byo])), z3.Not(dict_nonempty(c.h('$dict')[p.LV0[p.byo][j]])))))),
            ('other-lists-untouched', ForAllP([o], z3.Implies(z3.And(c.h0('$alloc')[o], o != p.byo), c.h('$list')[o] == c.h0('$list')[o]),
                                                patterns=[c.h('$list')[o]]))]
    return inv


def _count_after(c, p, delta):
    """the reference count of `provided` in the count mapping after adding delta (entry deleted at 0)"""
    n0 = unbox_int(p.D0[p.pd][c.a.provided])
    return z3.If(n0 + delta == 0, ABSENT, box_int(n0 + delta))


def _unreg_post(field, name_of, hit_of, delta_of=None):
    def post(c):
        p = _Path(c, field)
        name = name_of(c)
        hit = hit_of(c, p)
        j = z3.Int('up_j')
        o, k = z3.Consts('up_o up_k', Obj)
        cur = c.h('$list')[p.byo]
        D = c.h('$dict')
        return [
            ('untouched-or-notified-last', untouched_or_notified(c)),
            ('removes-iff-that-very-object-is-registered', (c.h('$notified')[c.a.self] == c.h0('$notified')[c.a.self] + 1) == hit),
            ('no-op-otherwise', z3.Implies(z3.Not(hit), old_containers_untouched(c))),
            ('the-entry-is-gone', z3.Implies(hit, D[p.leaf0][name] == ABSENT) if delta_of is None else z3.BoolVal(True)),
            ('entries-only-removed-along-the-path-and-only-emptied-mappings-pruned', z3.Implies(hit, _only_removed(c, p, name, 0, True))),
            ('by-order-list-only-loses-trailing-empty-mappings', z3.Implies(hit, z3.And(
                L(cur) <= L(p.LV0[p.byo]), SeqEq(cur, Slice(p.LV0[p.byo], 0, L(cur))),
                z3.ForAll([j], z3.Implies(z3.And(L(cur) <= j, j < L(p.LV0[p.byo])), z3.Not(dict_nonempty(D[p.LV0[p.byo][j]]))))))),
            ('other-lists-untouched', ForAllP([o], z3.Implies(z3.And(c.h0('$alloc')[o], o != p.byo), c.h('$list')[o] == c.h0('$list')[o]),
                                                patterns=[c.h('$list')[o]])),
            ('reference-count-of-provided-follows', z3.Implies(hit, z3.And(
                D[p.pd][c.a.provided] == _count_after(c, p, -1 if delta_of is None else delta_of(c, p)),
                ForAllP([k], z3.Implies(k != c.a.provided, D[p.pd][k] == p.D0[p.pd][k]), patterns=[D[p.pd][k]])))),
        ]
    return post


def _unregister_hit(c, p):
    lv = p.leafval0(c.a.name)
    return z3.And(lv != NONE, z3.Or(c.a.value == NONE, lv == c.a.value))


_p = reg.procs[A + 'BaseAdapterRegistry.unregister']
_p.requires = path_pre('_adapters')
_p.ensures = _unreg_post('_adapters', lambda c: c.a.name, _unregister_hit)
_p.loops = {'L0': Loop(_unreg_L0('_adapters')), 'L1': Loop(_unreg_L1('_adapters', lambda c: c.a.name)),
            'L2': Loop(_unreg_L2('_adapters', lambda c: c.a.name))}
_p.locals = dict(_p.locals, comp=DICT)

# ------------------------------------------------------------------ unsubscribe
EMPTY_NAME_OBJ = box_name(EMPTYNAME)


def _unsub_parts(c, p):
    old = p.leafval0(EMPTY_NAME_OBJ)
    oldseq = z3.If(is_seq(old), unbox_seq(old), c.h0('$list')[old])
    new = z3.If(c.a.value == NONE, Empty(SeqO), rmeq(oldseq, c.a.value, L(oldseq)))
    present = z3.And(old != NONE, L(oldseq) > 0)
    hit = z3.And(present, L(new) != L(oldseq))
    return old, oldseq, new, hit


def _unsub_post(c):
    p = _Path(c, '_subscribers')
    old, oldseq, new, hit = _unsub_parts(c, p)
    D, D0 = c.h('$dict'), c.h0('$dict')
    o, k = z3.Consts('us_o us_k', Obj)
    j = z3.Int('us_j')
    cur = c.h('$list')[p.byo]
    emptied = z3.And(hit, L(new) == 0)
    shrunk = z3.And(hit, L(new) > 0)
    return [
        ('untouched-or-notified-last', untouched_or_notified(c)),
        ('removes-iff-an-equal-subscriber-is-there', (c.h('$notified')[c.a.self] == c.h0('$notified')[c.a.self] + 1) == hit),
        ('no-op-otherwise', z3.Implies(z3.Not(hit), old_containers_untouched(c))),
        ('a-leaf-that-keeps-subscribers-is-replaced-by-the-remaining-ones-in-order-nothing-else-changes', z3.Implies(shrunk, z3.And(
            D[p.leaf0][EMPTY_NAME_OBJ] == box_seq(new),
            ForAllP([o, k], z3.Implies(z3.And(z3.Not(cachedict(o)), o != p.pd, z3.Or(o != p.leaf0, k != EMPTY_NAME_OBJ)), D[o][k] == D0[o][k]),
                    patterns=[D[o][k]]),
            c.h('$list')[p.byo] == p.LV0[p.byo]))),
        ('an-emptied-leaf-is-removed-and-only-emptied-mappings-are-pruned', z3.Implies(emptied, _only_removed(c, p, EMPTY_NAME_OBJ, 0, True))),
        ('by-order-list-only-loses-trailing-empty-mappings', z3.Implies(hit, z3.And(
            L(cur) <= L(p.LV0[p.byo]), SeqEq(cur, Slice(p.LV0[p.byo], 0, L(cur))),
            z3.ForAll([j], z3.Implies(z3.And(L(cur) <= j, j < L(p.LV0[p.byo])), z3.Not(dict_nonempty(D[p.LV0[p.byo][j]]))))))),
        ('other-lists-untouched', ForAllP([o], z3.Implies(z3.And(c.h0('$alloc')[o], o != p.byo), c.h('$list')[o] == c.h0('$list')[o]),
                                          patterns=[c.h('$list')[o]])),
        ('reference-count-of-provided-follows-the-number-of-removed-subscribers', z3.Implies(z3.And(hit, c.a.provided != NONE), z3.And(
            D[p.pd][c.a.provided] == _count_after(c, p, L(new) - L(oldseq)),
            ForAllP([k], z3.Implies(k != c.a.provided, D[p.pd][k] == p.D0[p.pd][k]), patterns=[D[p.pd][k]])))),
        ('handlers-do-not-touch-the-reference-counts', z3.Implies(c.a.provided == NONE, D[p.pd] == D0[p.pd])),
    ]


def _unsub_pre(c):
    p = _Path(c, '_subscribers')
    old = p.leafval0(EMPTY_NAME_OBJ)
    return path_pre('_subscribers')(c) + [
        ('subscription-leaves-are-tuples', z3.Or(old == NONE, is_seq(old)))]


_p = reg.procs[A + 'BaseAdapterRegistry.unsubscribe']
_p.requires = _unsub_pre
_p.ensures = _unsub_post
_p.loops = {'L0': Loop(_unreg_L0('_subscribers')), 'L1': Loop(_unreg_L1('_subscribers', lambda c: EMPTY_NAME_OBJ)),
            'L2': Loop(_unreg_L2('_subscribers', lambda c: EMPTY_NAME_OBJ))}
_p.locals = dict(_p.locals, comp=DICT)


# ------------------------------------------------------------------ register / subscribe: exact effect on the containers
# Three facts about paths, each proved by induction on every run and used through ground instances supplied at the stores:
#   W  creating the missing edge at position i of a path leaves the first i steps of the path as they were
#   A  two heaps that agree on the nodes of the first i steps of a path have the same first i steps
#   C  if private containers (lookup caches, the reference-count mapping) are never stored as values of other dicts, no node
#      of a path that starts outside them is one of them
def upd(D, o, k, v):
    return z3.Store(D, o, z3.Store(z3.Select(D, o), k, v))


_v = z3.Const('wu_v', Obj)
_pd = z3.Const('wu_pd', Obj)
_D2 = z3.Const('wu_D2', DS)
_jj = z3.Int('wu_j')
_i2 = z3.Int('wu_i')


def _lemma_W(D, n, key, v, i, j, ref=None, k=None):
    wi = walk(D, n, key, i)
    ref = wi if ref is None else ref
    k = key[i] if k is None else k
    return z3.Implies(z3.And(0 <= i, i < L(key), wi != NONE, ref == wi, k == key[i], gD(D, wi, key[i]) == NONE, 0 <= j, j <= i),
                      walk(upd(D, ref, k, v), n, key, j) == walk(D, n, key, j))


reg.induct('creating-a-missing-edge-keeps-the-path-so-far', [_D, _n, _key, _v, _i2], _j,
           lambda j: _lemma_W(_D, _n, _key, _v, _i2, j), export=False)


def _lemma_A(D, D2, n, key, i):
    return z3.Implies(z3.And(0 <= i, i <= L(key), z3.ForAll([_jj], z3.Implies(
        z3.And(0 <= _jj, _jj < i, walk(D, n, key, _jj) != NONE), z3.Select(D2, walk(D, n, key, _jj)) == z3.Select(D, walk(D, n, key, _jj))))),
        walk(D2, n, key, i) == walk(D, n, key, i))


reg.induct('heaps-that-agree-on-the-path-nodes-have-the-same-path', [_D, _D2, _n, _key], _j,
           lambda i: _lemma_A(_D, _D2, _n, _key, i), export=False)


_o, _k = z3.Consts('wu_o wu_k', Obj)


def _lemma_U(D, n, key, o, k, v, i):
    """writing one entry (o, k) that is not an edge of the first i steps of a path leaves those steps as they were"""
    return z3.Implies(z3.And(0 <= i, i <= L(key), z3.ForAll([_jj], z3.Implies(z3.And(0 <= _jj, _jj < i), z3.Not(z3.And(
        walk(D, n, key, _jj) == o, key[_jj] == k))))), walk(upd(D, o, k, v), n, key, i) == walk(D, n, key, i))


reg.induct('a-write-off-the-path-keeps-the-path', [_D, _n, _key, _o, _k, _v], _j,
           lambda i: _lemma_U(_D, _n, _key, _o, _k, _v, i), export=False)


def private(o, pd):
    return z3.Or(cachedict(o), o == pd)


def closure(D, pd):
    """private containers are not stored as values of dicts that are not private themselves"""
    o, k = z3.Consts('cl_o cl_k', Obj)
    return ForAllP([o, k], z3.Implies(z3.Not(private(o, pd)), z3.Not(private(z3.Select(z3.Select(D, o), k), pd))),
                   patterns=[z3.Select(z3.Select(D, o), k)])


def _lemma_C(D, n, key, pd, j):
    return z3.Implies(z3.And(0 <= j, j <= L(key), pd != NONE, z3.Not(private(n, pd)), closure(D, pd)), z3.Not(private(walk(D, n, key, j), pd)))


reg.axiom('None-and-the-absent-marker-are-no-containers', z3.And(z3.Not(cachedict(NONE)), z3.Not(cachedict(ABSENT))))
reg.induct('no-path-node-is-a-private-container', [_D, _n, _key, _pd], _j,
           lambda j: _lemma_C(_D, _n, _key, _pd, j), export=False)


def _C_instance(D, root, key, pd):
    """instance of lemma C for one heap, with the position quantified inside (closure(D) is proved once)"""
    return z3.Implies(z3.And(pd != NONE, z3.Not(private(root, pd)), closure(D, pd)),
                      ForAllP([_jj], z3.Implies(z3.And(0 <= _jj, _jj <= L(key)), z3.Not(private(walk(D, root, key, _jj), pd))),
                              patterns=[walk(D, root, key, _jj)]))


def _path_facts(D, D2, root, key, pd):
    """ground instances of C (for every position) and A (whole path) for a heap change D -> D2"""
    return [_C_instance(D, root, key, pd), _lemma_A(D, D2, root, key, L(key))]


def _store_hook(field):
    """ghost: instances of the lemmas above for the dict stores of register/subscribe"""
    def hook(ex, st, before, ref, k, v):
        env = st.env
        if 'key' not in env or 'byorder' not in env or 'order' not in env:
            return []
        key = env['key'].t
        root = st.heap.get('$list')[env['byorder'].t][env['order'].t]
        pd = ex.heap0.get('_provided')[ex.args['self'].t] if hasattr(ex, 'heap0') else None
        idx = env.get('$i_L1')
        if idx is not None and 'k' in env and k.eq(box(env['k'])):
            # components[k] = d inside the walk: ref is the node at position i, k is key[i]
            return [_lemma_W(before, root, key, v, idx.t, idx.t, ref, k)]
        pd = st.heap.get('_provided')[ex.args['self'].t]
        return [_C_instance(before, root, key, pd), _lemma_U(before, root, key, ref, k, v, L(key))]
    return hook


def _changed_with_path_facts(field):
    """self.changed(self): the contract of the registry's changed() (caches only), plus instances of C and A for that heap change"""
    def handler(ex, node, st):
        out = []
        for s, vs in ex.ev_list(node.args, st):
            before = s.heap.get('$dict')
            args = {'self': ex.args['self'], 'originally_changed': vs[0]}
            for s2, val in ex.apply_contract(node, s, reg.procs[A + 'virtual.self_changed'], args):
                env = s2.env
                if 'key' in env and 'byorder' in env and 'order' in env:
                    root = s2.heap.get('$list')[env['byorder'].t][env['order'].t]
                    for f in _path_facts(before, s2.heap.get('$dict'), root, env['key'].t, s2.heap.get('_provided')[ex.args['self'].t]):
                        s2.assume(f)
                out.append((s2, val))
        return out
    return handler


def _added_ok(c, o, k):
    """an entry that register/subscribe may add to a dict that existed before: a missing edge, now pointing to a fresh dict"""
    v = c.h('$dict')[o][k]
    return z3.And(gD(c.h0('$dict'), o, k) == NONE, z3.Not(c.h0('$alloc')[v]), c.h('$alloc')[v], z3.Not(cachedict(v)), is_dict(v))


def _only_gains(c, leaf=None, name=None, skip=False):
    o, k = z3.Consts('og_o og_k', Obj)
    D, D0 = c.h('$dict'), c.h0('$dict')
    pd = c.h0('_provided')[c.a.self]
    guard = z3.And(c.h0('$alloc')[o], z3.Not(cachedict(o)), o != pd) if skip else c.h0('$alloc')[o]
    alts = [D[o][k] == D0[o][k], _added_ok(c, o, k)]
    if leaf is not None:
        alts.append(z3.And(o == leaf, k == name))
    return ForAllP([o, k], z3.Implies(guard, z3.Or(*alts)), patterns=[D[o][k]])


def _byorder_grows(c, byo):
    j = z3.Int('bg_j')
    cur, old = c.h('$list')[byo], c.h0('$list')[byo]
    return z3.And(L(old) <= L(cur), SeqEq(old, Slice(cur, 0, L(old))),
                  ForAllP([j], z3.Implies(z3.And(L(old) <= j, j < L(cur)), z3.And(
                      z3.Not(c.h0('$alloc')[cur[j]]), c.h('$alloc')[cur[j]], z3.Not(cachedict(cur[j])), is_dict(cur[j]), cur[j] != NONE)),
                          patterns=[cur[j]]))


def _reg_L0(field):
    def inv(c):
        byo = c.h0(field)[c.a.self]
        o = z3.Const('r0_o', Obj)
        j = z3.Int('r0_j')
        cur = c.h('$list')[byo]
        return _stable(c) + [
            ('byorder-alive', z3.And(c.l.byorder == byo, c.l.order == L(c.a.required))),
            ('by-order-list-only-grows-by-fresh-empty-mappings', _byorder_grows(c, byo)),
            ('appended-mappings-are-empty', ForAllP([j], z3.Implies(z3.And(L(c.h0('$list')[byo]) <= j, j < L(cur)),
                                                                    c.h('$dict')[cur[j]] == EMPTYMAP), patterns=[cur[j]])),
            ('old-dicts-untouched', ForAllP([o], z3.Implies(c.h0('$alloc')[o], c.h('$dict')[o] == c.h0('$dict')[o]), patterns=[c.h('$dict')[o]])),
            ('private-containers-stay-private', closure(c.h('$dict'), c.h0('_provided')[c.a.self])),
            ('other-lists-untouched', ForAllP([o], z3.Implies(z3.And(c.h0('$alloc')[o], o != byo), c.h('$list')[o] == c.h0('$list')[o]),
                                              patterns=[c.h('$list')[o]]))]
    return inv


def _reg_L1(field):
    def inv(c):
        byo = c.h0(field)[c.a.self]
        pd = c.h0('_provided')[c.a.self]
        key = keyof(c.a.required, c.a.provided)
        root = c.h('$list')[byo][L(c.a.required)]
        o = z3.Const('r1_o', Obj)
        comp = c.l.components
        w0i = walk(c.h0('$dict'), c.h0('$list')[byo][L(c.a.required)], key, c.i)
        return _stable(c) + [
            ('byorder-alive', z3.And(c.l.byorder == byo, c.l.order == L(c.a.required), L(c.h('$list')[byo]) > L(c.a.required))),
            ('key-is-the-registration-key', SeqEq(c.l.key, key)),
            ('components-is-the-node-after-i-steps', z3.And(comp == walk(c.h('$dict'), root, key, c.i), comp != NONE)),
            ('components-is-a-registration-node', z3.And(c.h('$alloc')[comp], z3.Not(cachedict(comp)), comp != pd)),
            ('still-on-the-old-path-and-nothing-written-or-in-fresh-territory', z3.If(
                c.h0('$alloc')[comp],
                z3.And(ForAllP([o], z3.Implies(c.h0('$alloc')[o], c.h('$dict')[o] == c.h0('$dict')[o]), patterns=[c.h('$dict')[o]]),
                       L(c.a.required) < L(c.h0('$list')[byo]), comp == w0i),
                z3.And(c.h('$dict')[comp] == EMPTYMAP, z3.Implies(L(c.a.required) < L(c.h0('$list')[byo]), w0i == NONE)))),
            ('existing-dicts-only-gain-edges-to-fresh-dicts', _only_gains(c)),
            ('private-containers-stay-private', closure(c.h('$dict'), pd)),
            ('by-order-list-only-grows-by-fresh-empty-mappings', _byorder_grows(c, byo)),
            ('other-lists-untouched', ForAllP([o], z3.Implies(z3.And(c.h0('$alloc')[o], o != byo), c.h('$list')[o] == c.h0('$list')[o]),
                                              patterns=[c.h('$list')[o]]))]
    return inv


def _reg_pre(field):
    def pre(c):
        byo = c.h(field)[c.a.self]
        pd = c.h('_provided')[c.a.self]
        key = keyof(c.a.required, c.a.provided)
        j = z3.Int('rp_j')
        s = c.h('$list')[byo]
        D = c.h('$dict')
        order = L(c.a.required)
        return reg_wf(c) + [
            ('by-order-roots-are-registration-nodes', ForAllP([j], z3.Implies(z3.And(0 <= j, j < L(s)), z3.And(
                is_dict(s[j]), s[j] != NONE, c.h('$alloc')[s[j]], z3.Not(cachedict(s[j])), s[j] != pd)), patterns=[s[j]])),
            ('path-nodes-existed-before', ForAllP([j], z3.Implies(
                z3.And(0 <= j, j <= L(key), order < L(s), walk(D, s[order], key, j) != NONE), c.h('$alloc')[walk(D, s[order], key, j)]),
                patterns=[walk(D, s[order], key, j)])),
            ('private-containers-are-not-stored-as-values', closure(D, pd)),
            ('the-value-is-no-private-container', z3.And(z3.Not(private(c.a.value, pd)), c.a.value != ABSENT)),
            ('count-mapping-is-a-dict-and-no-cache', z3.And(z3.Not(cachedict(pd)), c.h('$alloc')[pd], is_dict(pd), pd != NONE)),
            ('by-order-list-is-allocated', c.h('$alloc')[byo])]
    return pre


reg.axiom('lookup-caches-are-dicts', z3.ForAll([_n], z3.Implies(cachedict(_n), is_dict(_n)), patterns=[cachedict(_n)]))


def _reg_post(c):
    byo = c.h0('_adapters')[c.a.self]
    pd = c.h0('_provided')[c.a.self]
    D, D0 = c.h('$dict'), c.h0('$dict')
    key = keyof(c.a.required, c.a.provided)
    leaf = walk(D, c.h('$list')[byo][L(c.a.required)], key, L(key))
    before = leafval(D0, c.h0('$list'), byo, c.a.required, c.a.provided, c.a.name)
    o, k = z3.Consts('rq_o rq_k', Obj)
    notified1 = c.h('$notified')[c.a.self] == c.h0('$notified')[c.a.self] + 1
    reg_ = c.a.value != NONE
    n0 = z3.If(D0[pd][c.a.provided] == ABSENT, 0, unbox_int(D0[pd][c.a.provided]))
    return [
        ('None-means-unregister', z3.Implies(c.a.value == NONE, untouched_or_notified(c))),
        ('the-value-is-registered-under-exactly-that-key', z3.Implies(reg_, leafval(
            D, c.h('$list'), byo, c.a.required, c.a.provided, c.a.name) == c.a.value)),
        ('re-registering-the-same-object-is-a-no-op-anything-else-notifies', z3.Implies(reg_, z3.And(
            notified1 == (before != c.a.value),
            z3.Or(notified1, c.h('$notified')[c.a.self] == c.h0('$notified')[c.a.self])))),
        ('existing-dicts-only-gain-edges-to-fresh-dicts-and-the-leaf-entry', z3.Implies(reg_, _only_gains(c, leaf, c.a.name, True))),
        ('by-order-list-only-grows-by-fresh-empty-mappings', z3.Implies(reg_, _byorder_grows(c, byo))),
        ('other-lists-untouched', z3.Implies(reg_, ForAllP([o], z3.Implies(z3.And(c.h0('$alloc')[o], o != byo), c.h('$list')[o] == c.h0('$list')[o]),
                                                           patterns=[c.h('$list')[o]]))),
        ('reference-count-of-provided-goes-up-by-one-when-an-entry-is-written', z3.Implies(z3.And(reg_, notified1), z3.And(
            D[pd][c.a.provided] == box_int(n0 + 1),
            ForAllP([k], z3.Implies(k != c.a.provided, D[pd][k] == D0[pd][k]), patterns=[D[pd][k]])))),
        ('a-no-op-leaves-the-reference-counts-alone', z3.Implies(z3.And(reg_, z3.Not(notified1)), D[pd] == D0[pd])),
    ]


def _name_is_no_key(c, name=None):
    j = z3.Int('nk_j')
    key = keyof(c.a.required, c.a.provided)
    name = c.a.name if name is None else name
    return ('the-name-is-not-a-specification-of-the-key', ForAllP([j], z3.Implies(z3.And(0 <= j, j < L(key)), key[j] != name),
                                                                   patterns=[key[j]]))


_p = reg.procs[A + 'BaseAdapterRegistry.register']
_p.requires = lambda c: _reg_pre('_adapters')(c) + [_name_is_no_key(c)] + [
    (lbl + '-when-None-unregisters', z3.Implies(c.a.value == NONE, f)) for lbl, f in path_pre('_adapters')(c)[len(reg_wf(c)):]]
_p.locals = dict(_p.locals, **{'$nomerge': True})
_p.ensures = _reg_post
_p.loops = {'L0': Loop(_reg_L0('_adapters')), 'L1': Loop(_reg_L1('_adapters'))}
_p.on_dict_store = _store_hook('_adapters')
_p.calls = dict(_p.calls, **{'self.changed': _changed_with_path_facts('_adapters')})


# ------------------------------------------------------------------ subscribe
def _sub_post(c):
    byo = c.h0('_subscribers')[c.a.self]
    pd = c.h0('_provided')[c.a.self]
    D, D0 = c.h('$dict'), c.h0('$dict')
    key = keyof(c.a.required, c.a.provided)
    leaf = walk(D, c.h('$list')[byo][L(c.a.required)], key, L(key))
    before = leafval(D0, c.h0('$list'), byo, c.a.required, c.a.provided, EMPTY_NAME_OBJ)
    oldseq = z3.If(before == NONE, Empty(SeqO), z3.If(is_seq(before), unbox_seq(before), c.h0('$list')[before]))
    o, k = z3.Consts('sq_o sq_k', Obj)
    n0 = z3.If(D0[pd][c.a.provided] == ABSENT, 0, unbox_int(D0[pd][c.a.provided]))
    return [
        ('always-notifies', c.h('$notified')[c.a.self] == c.h0('$notified')[c.a.self] + 1),
        ('the-subscriber-is-appended-to-the-leaf-of-exactly-that-key', leafval(
            D, c.h('$list'), byo, c.a.required, c.a.provided, EMPTY_NAME_OBJ) == box_seq(Concat(oldseq, Unit(c.a.value)))),
        ('existing-dicts-only-gain-edges-to-fresh-dicts-and-the-leaf-entry', _only_gains(c, leaf, EMPTY_NAME_OBJ, True)),
        ('by-order-list-only-grows-by-fresh-empty-mappings', _byorder_grows(c, byo)),
        ('other-lists-untouched', ForAllP([o], z3.Implies(z3.And(c.h0('$alloc')[o], o != byo), c.h('$list')[o] == c.h0('$list')[o]),
                                          patterns=[c.h('$list')[o]])),
        ('reference-count-of-provided-goes-up-by-one', z3.Implies(c.a.provided != NONE, z3.And(
            D[pd][c.a.provided] == box_int(n0 + 1),
            ForAllP([k], z3.Implies(k != c.a.provided, D[pd][k] == D0[pd][k]), patterns=[D[pd][k]])))),
        ('handlers-do-not-touch-the-reference-counts', z3.Implies(c.a.provided == NONE, D[pd] == D0[pd])),
    ]


def _sub_pre(c):
    byo = c.h('_subscribers')[c.a.self]
    before = leafval(c.h('$dict'), c.h('$list'), byo, c.a.required, c.a.provided, EMPTY_NAME_OBJ)
    return _reg_pre('_subscribers')(c) + [
        _name_is_no_key(c, EMPTY_NAME_OBJ),
        ('subscription-leaves-are-tuples', z3.Or(before == NONE, is_seq(before))),
        ('the-subscriber-is-an-object', c.a.value != ABSENT)]


_p = reg.procs[A + 'BaseAdapterRegistry.subscribe']
_p.requires = _sub_pre
_p.ensures = _sub_post
_p.locals = dict(_p.locals, **{'$nomerge': True})
_p.loops = {'L0': Loop(_reg_L0('_subscribers')), 'L1': Loop(_reg_L1('_subscribers'))}
_p.on_dict_store = _store_hook('_subscribers')
_p.calls = dict(_p.calls, **{'self.changed': _changed_with_path_facts('_subscribers')})


# ------------------------------------------------------------------ the enumeration generators (allRegistrations / allSubscriptions)
# ents(D, node, i, prefix)   what _allKeys yields for the sub-tree at `node` with i levels of keys still to go below the current
#                            one: for every key k of the dict (in dict order) the pair (prefix + (k,), value) when i == 0,
#                            else the entries of the child under prefix + (k,)
ents = z3.Function('tree_entries', DS, Obj, Int, SeqO, SeqO)
entsk = z3.Function('tree_entries_of_first_keys', DS, Obj, Int, SeqO, Int, SeqO)
_pf = z3.Const('en_prefix', SeqO)
_i3 = z3.Int('en_i')
_k3 = z3.Int('en_k')


def _entry(keyseq, value):
    return box_seq(Concat(Unit(box_seq(keyseq)), Unit(value)))


def _keys_of(D, node):
    return dict_keys(z3.Select(D, node))


_kk = _keys_of(_D, _n)[_k3]
_child = z3.Select(z3.Select(_D, _n), _kk)
reg.axiom('entsk-0', z3.ForAll([_D, _n, _i3, _pf], entsk(_D, _n, _i3, _pf, 0) == Empty(SeqO), patterns=[entsk(_D, _n, _i3, _pf, 0)]))
reg.axiom('entsk-step', z3.ForAll([_D, _n, _i3, _pf, _k3], z3.Implies(
    z3.And(0 <= _k3, _k3 < L(_keys_of(_D, _n))),
    entsk(_D, _n, _i3, _pf, _k3 + 1) == Concat(entsk(_D, _n, _i3, _pf, _k3), z3.If(
        _i3 == 0, Unit(_entry(Concat(_pf, Unit(_kk)), _child)), ents(_D, _child, _i3 - 1, Concat(_pf, Unit(_kk)))))),
    patterns=[entsk(_D, _n, _i3, _pf, _k3 + 1)]))
reg.axiom('ents-def', z3.ForAll([_D, _n, _i3, _pf], ents(_D, _n, _i3, _pf) == entsk(_D, _n, _i3, _pf, L(_keys_of(_D, _n))),
                                patterns=[ents(_D, _n, _i3, _pf)]))


def _entries_shaped(seq, keylen):
    """every entry is a pair (key tuple of the given length, value)"""
    j = z3.Int('es_j')
    return ForAllP([j], z3.Implies(z3.And(0 <= j, j < L(seq)), z3.And(
        is_seq(seq[j]), L(unbox_seq(seq[j])) == 2, is_seq(unbox_seq(seq[j])[0]), L(unbox_seq(unbox_seq(seq[j])[0])) == keylen)),
        patterns=[seq[j]])


def _ak_inv(c):
    D = c.h('$dict')
    y = c.l['$yield']
    return [('yielded-the-entries-of-the-first-k-keys', SeqEq(y, entsk(D, c.a.components, c.a.i, c.a.parent_k, c.i))),
            ('every-entry-is-a-pair-with-a-full-key', _entries_shaped(y, L(c.a.parent_k) + c.a.i + 1)),
            ('nothing-changes', z3.And(c.h('$dict') == c.h0('$dict'), c.h('$list') == c.h0('$list')))]


treewf = z3.Function('tree_of_dicts_down_to_the_leaf_level', DS, Obj, Int, z3.BoolSort())
_kq = z3.Const('tw_k', Obj)
reg.axiom('treewf-step', z3.ForAll([_D, _n, _i3], z3.Implies(_i3 >= 1, treewf(_D, _n, _i3) == z3.ForAll([_kq], z3.Implies(
    z3.Select(z3.Select(_D, _n), _kq) != ABSENT,
    z3.And(z3.Select(z3.Select(_D, _n), _kq) != NONE, treewf(_D, z3.Select(z3.Select(_D, _n), _kq), _i3 - 1))))),
    patterns=[treewf(_D, _n, _i3)]))


def _ak_tree(c):
    """below the leaf level every value is a dict (tree of dicts; established by the mutators)"""
    o, k = z3.Consts('at_o at_k', Obj)
    return ('values-above-the-leaf-level-are-dicts', z3.Implies(c.a.i > 0, ForAllP([k], z3.Implies(
        c.h('$dict')[c.a.components][k] != ABSENT, z3.And(is_dict(c.h('$dict')[c.a.components][k]), c.h('$dict')[c.a.components][k] != NONE)),
        patterns=[c.h('$dict')[c.a.components][k]])))


reg.add(Proc(
    A + 'BaseAdapterRegistry._allKeys', [('cls', OBJ), ('components', DICT), ('i', INT), ('parent_k', SEQO)],
    source='adapter.py:BaseAdapterRegistry._allKeys', result=SEQO, defaults={'parent_k': V(SEQO, Empty(SeqO))},
    calls={'cls._allKeys': A + 'BaseAdapterRegistry._allKeys'}, locals={'v': OBJ},
    requires=lambda c: [('levels', c.a.i >= 0), ('components-is-a-dict', c.a.components != NONE),
                        ('tree-of-dicts-down-to-the-leaf-level', treewf(c.h('$dict'), c.a.components, c.a.i))],
    ensures=lambda c: [('yields-the-entries-of-the-sub-tree-in-dict-order', SeqEq(c.res, ents(c.h('$dict'), c.a.components, c.a.i, c.a.parent_k))),
                       ('every-entry-is-a-pair-with-a-full-key', _entries_shaped(c.res, L(c.a.parent_k) + c.a.i + 1)),
                       ('pure', z3.And(c.h('$dict') == c.h0('$dict'), c.h('$list') == c.h0('$list')))],
    loops={'L0': Loop(_ak_inv), 'L1': Loop(_ak_inv)},
))


# _all_entries(byorder): every entry of every per-order tree, reshaped to (required, provided, name, value)
resh = z3.Function('entries_reshaped', SeqO, Int, Int, SeqO)           # the first m entries of E for order o, as 4-tuples
allents = z3.Function('all_entries_of_first_orders', DS, SeqO, Int, SeqO)
_E = z3.Const('re_E', SeqO)
_o3, _m3 = z3.Ints('re_o re_m')
_bo = z3.Const('re_byorder', SeqO)


def _entry4(o, e):
    keyseq = unbox_seq(unbox_seq(e)[0])
    return box_seq(Concat(Unit(box_seq(Slice(keyseq, 0, o))), Unit(keyseq[o]), Unit(keyseq[o + 1]), Unit(unbox_seq(e)[1])))


reg.axiom('resh-0', z3.ForAll([_E, _o3], resh(_E, _o3, 0) == Empty(SeqO), patterns=[resh(_E, _o3, 0)]))
reg.axiom('resh-step', z3.ForAll([_E, _o3, _m3], z3.Implies(z3.And(0 <= _m3, _m3 < L(_E)),
          resh(_E, _o3, _m3 + 1) == Concat(resh(_E, _o3, _m3), Unit(_entry4(_o3, _E[_m3])))), patterns=[resh(_E, _o3, _m3 + 1)]))
reg.axiom('allents-0', z3.ForAll([_D, _bo], allents(_D, _bo, 0) == Empty(SeqO), patterns=[allents(_D, _bo, 0)]))
_Eo = ents(_D, _bo[_o3], _o3 + 1, Empty(SeqO))
reg.axiom('allents-step', z3.ForAll([_D, _bo, _o3], z3.Implies(z3.And(0 <= _o3, _o3 < L(_bo)),
          allents(_D, _bo, _o3 + 1) == Concat(allents(_D, _bo, _o3), resh(_Eo, _o3, L(_Eo)))), patterns=[allents(_D, _bo, _o3 + 1)]))


def _byorder_trees(c, seq):
    j = z3.Int('bt_j')
    return ('every-per-order-root-is-a-tree-of-dicts-of-that-depth', ForAllP([j], z3.Implies(z3.And(0 <= j, j < L(seq)), z3.And(
        seq[j] != NONE, treewf(c.h('$dict'), seq[j], j + 1))), patterns=[seq[j]]))


def _ae_L0(c):
    seq = c.h0('$list')[c.a.byorder]
    return [('index-in-range', c.i <= L(seq)),
            ('yielded-the-entries-of-the-first-i-orders', SeqEq(c.l['$yield'], allents(c.h0('$dict'), seq, c.i))),
            ('nothing-changes', z3.And(c.h('$dict') == c.h0('$dict'), c.h('$list') == c.h0('$list')))]


def _ae_L00(c):
    seq = c.h0('$list')[c.a.byorder]
    o = c.l['$i_L0']
    E = ents(c.h0('$dict'), seq[o], o + 1, Empty(SeqO))
    return [('yielded-the-earlier-orders-and-the-first-j-entries-of-this-one',
             SeqEq(c.l['$yield'], Concat(allents(c.h0('$dict'), seq, o), resh(E, o, c.i)))),
            ('nothing-changes', z3.And(c.h('$dict') == c.h0('$dict'), c.h('$list') == c.h0('$list')))]


reg.add(Proc(
    A + 'BaseAdapterRegistry._all_entries', [('self', OBJ), ('byorder', LISTO)], source='adapter.py:BaseAdapterRegistry._all_entries',
    result=SEQO, calls={'self._allKeys': A + 'BaseAdapterRegistry._allKeys'}, locals={'key': SEQO, 'components': DICT},
    requires=lambda c: [_byorder_trees(c, c.h('$list')[c.a.byorder])],
    ensures=lambda c: [('yields-every-entry-of-every-order-as-required-provided-name-value', SeqEq(
        c.res, allents(c.h('$dict'), c.h('$list')[c.a.byorder], L(c.h('$list')[c.a.byorder])))),
        ('pure', z3.And(c.h('$dict') == c.h0('$dict'), c.h('$list') == c.h0('$list')))],
    loops={'L0': Loop(_ae_L0), 'L0.0': Loop(_ae_L00)},
))


reg.add(Proc(
    A + 'BaseAdapterRegistry.allRegistrations', [('self', OBJ)], source='adapter.py:BaseAdapterRegistry.allRegistrations', result=SEQO,
    calls={'self._all_entries': A + 'BaseAdapterRegistry._all_entries'},
    requires=lambda c: [_byorder_trees(c, c.h('$list')[c.h('_adapters')[c.a.self]])],
    ensures=lambda c: [('yields-every-entry-of-the-adapter-trees', SeqEq(c.res, allents(
        c.h('$dict'), c.h('$list')[c.h('_adapters')[c.a.self]], L(c.h('$list')[c.h('_adapters')[c.a.self]])))),
        ('pure', z3.And(c.h('$dict') == c.h0('$dict'), c.h('$list') == c.h0('$list')))],
))

# allSubscriptions: every subscriber of every leaf, in leaf order
expand = z3.Function('subscribers_of_entry', Obj, Int, SeqO)          # (required, provided, v) for the first k subscribers of a 4-entry
subsall = z3.Function('subscriptions_of_first_entries', SeqO, Int, SeqO)
_e4 = z3.Const('sx_e', Obj)
_k4 = z3.Int('sx_k')
_E4 = z3.Const('sx_E', SeqO)


def _leaf_of(e):
    return unbox_seq(unbox_seq(e)[3])


reg.axiom('expand-0', z3.ForAll([_e4], expand(_e4, 0) == Empty(SeqO), patterns=[expand(_e4, 0)]))
reg.axiom('expand-step', z3.ForAll([_e4, _k4], z3.Implies(z3.And(0 <= _k4, _k4 < L(_leaf_of(_e4))), expand(_e4, _k4 + 1) == Concat(
    expand(_e4, _k4), Unit(box_seq(Concat(Unit(unbox_seq(_e4)[0]), Unit(unbox_seq(_e4)[1]), Unit(_leaf_of(_e4)[_k4])))))),
    patterns=[expand(_e4, _k4 + 1)]))
reg.axiom('subsall-0', z3.ForAll([_E4], subsall(_E4, 0) == Empty(SeqO), patterns=[subsall(_E4, 0)]))
reg.axiom('subsall-step', z3.ForAll([_E4, _k4], z3.Implies(z3.And(0 <= _k4, _k4 < L(_E4)), subsall(_E4, _k4 + 1) == Concat(
    subsall(_E4, _k4), expand(_E4[_k4], L(_leaf_of(_E4[_k4]))))), patterns=[subsall(_E4, _k4 + 1)]))


def _all_sub_entries(c):
    return allents(c.h0('$dict'), c.h0('$list')[c.h0('_subscribers')[c.a.self]], L(c.h0('$list')[c.h0('_subscribers')[c.a.self]]))


def _as_shape(c):
    """every entry of the subscriber trees is a 4-tuple whose value is a tuple of subscribers (leaves are tuples)"""
    E = allents(c.h('$dict'), c.h('$list')[c.h('_subscribers')[c.a.self]], L(c.h('$list')[c.h('_subscribers')[c.a.self]]))
    j = z3.Int('as_j')
    return ('entries-are-4-tuples-with-tuple-leaves', ForAllP([j], z3.Implies(z3.And(0 <= j, j < L(E)), z3.And(
        is_seq(E[j]), L(unbox_seq(E[j])) == 4, is_seq(unbox_seq(E[j])[3]))), patterns=[E[j]]))


reg.add(Proc(
    A + 'BaseAdapterRegistry.allSubscriptions', [('self', OBJ)], source='adapter.py:BaseAdapterRegistry.allSubscriptions', result=SEQO,
    calls={'self._all_entries': A + 'BaseAdapterRegistry._all_entries'}, locals={'value': SEQO},
    requires=lambda c: [_byorder_trees(c, c.h('$list')[c.h('_subscribers')[c.a.self]]), _as_shape(c)],
    ensures=lambda c: [('yields-every-subscriber-of-every-leaf-in-order', SeqEq(c.res, subsall(_all_sub_entries(c), L(_all_sub_entries(c))))),
                       ('pure', z3.And(c.h('$dict') == c.h0('$dict'), c.h('$list') == c.h0('$list')))],
    loops={'L0': Loop(lambda c: [('yielded-the-subscribers-of-the-first-i-entries', SeqEq(c.l['$yield'], subsall(_all_sub_entries(c), c.i))),
                                 ('nothing-changes', z3.And(c.h('$dict') == c.h0('$dict'), c.h('$list') == c.h0('$list')))]),
           'L0.0': Loop(lambda c: [('yielded-the-earlier-entries-and-the-first-j-subscribers-of-this-one', SeqEq(
               c.l['$yield'], Concat(subsall(_all_sub_entries(c), c.l['$i_L0']), expand(_all_sub_entries(c)[c.l['$i_L0']], c.i)))),
               ('nothing-changes', z3.And(c.h('$dict') == c.h0('$dict'), c.h('$list') == c.h0('$list')))])},
))


# ------------------------------------------------------------------ _createLookup: the delegated lookup methods follow the NEW lookup object
DELEG = z3.Const('BaseAdapterRegistry__delegated', SeqN)            # the tuple of method names copied from the lookup object
bound_method = z3.Function('bound_method_of', Obj, Name, Obj)       # getattr(lookup_object, name)
reg.fields['__dict__'] = DICT
reg.assumptions.append('_createLookup: self.LookupClass(self) yields a new lookup object for the registry (its caches are empty, C05); getattr(lookup, name) '
                       'is the method of THAT object (uninterpreted, injective in the object is not needed)')


def _lookup_class(ex, node, st, recv=None):
    r = ex.fresh_ref(st, 'lookup')
    ex.write_field(st, r, '_registry', vobj(ex.args['self'].t))
    return [(st, vobj(r))]


def _getattr_method(ex, node, st):
    out = []
    for s, (o, n) in ex.ev_list(node.args, st):
        out.append((s, vobj(bound_method(box(o), n.t if n.ty.kind == 'name' else unbox_name(box(n))))))
    return out


def _cl_L0(c):
    j = z3.Int('cl_j')
    s = c.a.self
    d = c.h('$dict')[c.h('__dict__')[s]]
    o = z3.Const('cl_o', Obj)
    return [('the-first-i-names-are-bound-to-the-new-lookup-object', ForAllP([j], z3.Implies(z3.And(0 <= j, j < c.i),
             d[box_name(DELEG[j])] == bound_method(c.h('_v_lookup')[s], DELEG[j])), patterns=[DELEG[j]])),
            ('the-new-lookup-object-stays', z3.And(c.h('_v_lookup') == c.hL('_v_lookup'), c.h('__dict__') == c.h0('__dict__'),
                                                   c.h('$list') == c.h0('$list'))),
            ('only-the-own-instance-dictionary-changes', ForAllP([o], z3.Implies(o != c.h0('__dict__')[s], c.h('$dict')[o] == c.h0('$dict')[o]),
                                                                 patterns=[c.h('$dict')[o]]))]


reg.add(Proc(
    A + 'BaseAdapterRegistry._createLookup', [('self', OBJ)], source='adapter.py:BaseAdapterRegistry._createLookup',
    calls={'self.LookupClass': _lookup_class, 'getattr': _getattr_method},
    dynattr={'_delegated': lambda ex, node, st, recv: [(st, V(SEQN, DELEG))], '__dict__': lambda ex, node, st, recv: [(st, V(DICT, st.heap.get('__dict__')[recv.t]))]},
    modifies=['_v_lookup', '$dict', '$alloc', '_registry'],
    requires=lambda c: [('the-registry-has-an-instance-dictionary', c.h('__dict__')[c.a.self] != NONE)],
    ensures=lambda c: [
        ('a-new-lookup-object-for-this-registry', z3.And(z3.Not(c.h0('$alloc')[c.h('_v_lookup')[c.a.self]]),
                                                        c.h('_registry')[c.h('_v_lookup')[c.a.self]] == c.a.self)),
        ('every-delegated-method-is-that-of-the-new-lookup-object', ForAllP([z3.Int('cq_j')], z3.Implies(
            z3.And(0 <= z3.Int('cq_j'), z3.Int('cq_j') < L(DELEG)),
            c.h('$dict')[c.h('__dict__')[c.a.self]][box_name(DELEG[z3.Int('cq_j')])] == bound_method(c.h('_v_lookup')[c.a.self], DELEG[z3.Int('cq_j')])),
            patterns=[DELEG[z3.Int('cq_j')]])),
        ('only-the-own-instance-dictionary-changes', ForAllP([z3.Const('cq_o', Obj)], z3.Implies(
            z3.Const('cq_o', Obj) != c.h0('__dict__')[c.a.self], c.h('$dict')[z3.Const('cq_o', Obj)] == c.h0('$dict')[z3.Const('cq_o', Obj)]),
            patterns=[c.h('$dict')[z3.Const('cq_o', Obj)]]))],
    loops={'L0': Loop(_cl_L0)},
))
