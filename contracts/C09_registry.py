"""Contracts for the mutators and the change-notification chain of adapter registries (properties C05, C06, C07, C09).

notified(R)   ghost counter: how often R.changed(...) ran (every run bumps the generation and empties the caches of
              R's lookup object; for AdapterRegistry it also reaches every registered sub-registry)
A mutator either leaves every container that existed at entry untouched, or ends by notifying the registry."""
import z3

from zivc.core import *  # noqa
from zivc.spec import Loop, Proc, Registry
from zivc import symex

FIELDS = {'_adapters': LISTO, '_subscribers': LISTO, '_provided': DICT, '_v_lookup': OBJ, '_generation': INT,
          '$notified': z3.ArraySort(Obj, z3.IntSort()), '_cache': DICT, '_mcache': DICT, '_scache': DICT,
          '_v_subregistries': DICT, '$log': SeqO, '__bases__': SEQO, 'ro': SEQO, '_verify_ro': SEQO,
          '_verify_generations': SEQO, '_registry': OBJ, '__dict__': DICT}
reg = Registry(FIELDS)
L = Length
A = 'adapter.py:'
Int = z3.IntSort()
INTERFACE = z3.Const('zope_Interface', Obj)
reg.axiom('Interface-is-an-object', z3.And(INTERFACE != NONE, INTERFACE != ABSENT))


cachedict = z3.Function('is_lookup_cache_dict', Obj, z3.BoolSort())     # ghost: the dict objects used as lookup caches


def only_caches_change(c):
    o = z3.Const('occ_o', Obj)
    return z3.ForAll([o], z3.Implies(z3.Not(cachedict(o)), c.h('$dict')[o] == c.h0('$dict')[o]))


def notified(c, R, now=True):
    return (c.h('$notified') if now else c.h0('$notified'))[R]


def old_containers_untouched(c):
    o = z3.Const('oc_o', Obj)
    return z3.ForAll([o], z3.Implies(c.h0('$alloc')[o], z3.And(c.h('$dict')[o] == c.h0('$dict')[o],
                                                                c.h('$list')[o] == c.h0('$list')[o])))


def caches_empty(c, Lk):
    return z3.And(*[c.h('$dict')[c.h(f)[Lk]] == EMPTYMAP for f in ('_cache', '_mcache', '_scache')])


# ------------------------------------------------------------------ LookupBase.changed (Python twin)
reg.add(Proc(A + 'LookupBase.changed', [('self', OBJ), ('ignored', OBJ)], source='adapter.py:LookupBase.changed',
             modifies=['$dict'], defaults={'ignored': VNONE},
             requires=lambda c: [('they-are-cache-dicts', z3.And(*[cachedict(c.h(f)[c.a.self]) for f in ('_cache', '_mcache', '_scache')])),
                                 ('three-distinct-cache-dicts', z3.And(
                 c.h('_cache')[c.a.self] != NONE, c.h('_mcache')[c.a.self] != NONE, c.h('_scache')[c.a.self] != NONE,
                 z3.Distinct(c.h('_cache')[c.a.self], c.h('_mcache')[c.a.self], c.h('_scache')[c.a.self])))],
             ensures=lambda c: [('all-three-caches-empty', caches_empty(c, c.a.self)), ('only-caches-change', only_caches_change(c)),
                                ('nothing-else', z3.ForAll([z3.Const('o', Obj)], z3.Implies(
                                    z3.And(*[z3.Const('o', Obj) != c.h(f)[c.a.self] for f in ('_cache', '_mcache', '_scache')]),
                                    c.h('$dict')[z3.Const('o', Obj)] == c.h0('$dict')[z3.Const('o', Obj)])))]))

# the lookup object's changed() as seen by the registry (LookupBase / VerifyingBase / AdapterLookupBase chain, C or Python)
reg.add(Proc(A + 'virtual.lookup_changed', [('self', OBJ), ('originally_changed', OBJ)], modifies=['$dict', '$log'],
             ensures=lambda c: [caches_empty(c, c.a.self), c.h('$log') == Concat(c.h0('$log'), Unit(c.a.self)), only_caches_change(c)],
             note='AdapterLookupBase.changed -> LookupBase.changed (verified above) / VerifyingBase.changed: caches emptied'))

reg.add(Proc(A + 'BaseAdapterRegistry.changed', [('self', OBJ), ('originally_changed', OBJ)],
             source='adapter.py:BaseAdapterRegistry.changed',
             calls={'self._v_lookup.changed': A + 'virtual.lookup_changed'},
             modifies=['_generation', '$dict', '$log'],
             ensures=lambda c: [('generation-bumped', c.h('_generation')[c.a.self] == c.h0('_generation')[c.a.self] + 1),
                                ('own-lookup-caches-emptied', caches_empty(c, c.h('_v_lookup')[c.a.self])),
                                ('lookup-object-told', c.h('$log') == Concat(c.h0('$log'), Unit(c.h('_v_lookup')[c.a.self]))),
                                ('only-caches-change', only_caches_change(c)),
                                ('other-generations', z3.ForAll([z3.Const('o', Obj)], z3.Implies(
                                    z3.Const('o', Obj) != c.a.self, c.h('_generation')[z3.Const('o', Obj)] == c.h0('_generation')[z3.Const('o', Obj)])))]))

# ------------------------------------------------------------------ AdapterRegistry: sub-registry links and cascade
T = z3.Function('subregistry_tail', Int, SeqO)
reg.add(Proc(A + 'virtual.registry_changed', [('self', OBJ), ('originally_changed', OBJ)],
             modifies=['_generation', '$dict', '$log', '$notified'],
             ensures=lambda c: [c.h('$log') == Concat(c.h0('$log'), Concat(Unit(c.a.self), T(L(c.h0('$log'))))),
                                c.h('$notified')[c.a.self] == c.h0('$notified')[c.a.self] + 1, only_caches_change(c),
                                z3.ForAll([z3.Const('vr_o', Obj)], c.h('$notified')[z3.Const('vr_o', Obj)] >= c.h0('$notified')[z3.Const('vr_o', Obj)]),
                                c.h('$dict')[c.h0('_v_subregistries')[c.h0('$caller')]] == c.h0('$dict')[c.h0('_v_subregistries')[c.h0('$caller')]]
                                if False else z3.BoolVal(True)],
             note='changed() of a registry (Base/AdapterRegistry, any flavour): ghost log entry, notification counter'))


def _ar_entry(ex, st):
    s = ex.args['self'].t
    st.heap.set('$log', Concat(st.heap.get('$log'), Unit(s)))
    st.heap.set('$notified', z3.Store(st.heap.get('$notified'), s, z3.Select(st.heap.get('$notified'), s) + 1))


def _super_changed(ex, node, st):
    """super().changed(originally_changed) inside AdapterRegistry.changed = BaseAdapterRegistry.changed(self, ...)"""
    out = []
    for s, vs in ex.ev_list(node.args, st):
        args = {'self': ex.args['self'], 'originally_changed': vs[0]}
        out.extend(ex.apply_contract(node, s, reg.procs[A + 'BaseAdapterRegistry.changed'], args))
    return out


def _arc_L0(c):
    j = z3.Int('ac_j')
    keys = dict_keys(c.h0('$dict')[c.h0('_v_subregistries')[c.a.self]])
    return [('subregistries-so-far-notified', z3.ForAll([j], z3.Implies(z3.And(0 <= j, j < c.i), Contains(c.h('$log'), keys[j])))),
            ('own-generation-kept', c.h('_generation')[c.a.self] == c.hL('_generation')[c.a.self]) if False else
            ('counter', c.h('$notified')[c.a.self] >= c.h0('$notified')[c.a.self] + 1),
            ('links-untouched', z3.And(c.h('_v_subregistries') == c.h0('_v_subregistries'), only_caches_change(c))),
            ('own-lookup-told', Contains(c.h('$log'), c.h('_v_lookup')[c.a.self]))]


reg.add(Proc(A + 'AdapterRegistry.changed', [('self', OBJ), ('originally_changed', OBJ)], source='adapter.py:AdapterRegistry.changed',
             calls={'super().changed': _super_changed, 'sub.changed': A + 'virtual.registry_changed'},
             on_entry=_ar_entry, ghost_pre=lambda c: dict_keys_facts(c.h('$dict')[c.h('_v_subregistries')[c.a.self]]),
             modifies=['_generation', '$dict', '$log', '$notified'],
             requires=lambda c: [('links-mapping-exists', z3.And(c.h('_v_subregistries')[c.a.self] != NONE,
                                                                  z3.Not(cachedict(c.h('_v_subregistries')[c.a.self]))))],
             ensures=lambda c: [('every-registered-subregistry-notified', z3.ForAll([z3.Int('pj')], z3.Implies(
                 z3.And(0 <= z3.Int('pj'), z3.Int('pj') < L(dict_keys(c.h0('$dict')[c.h0('_v_subregistries')[c.a.self]]))),
                 Contains(c.h('$log'), dict_keys(c.h0('$dict')[c.h0('_v_subregistries')[c.a.self]])[z3.Int('pj')])))),
                 ('own-lookup-told', Contains(c.h('$log'), c.h('_v_lookup')[c.a.self]))],
             loops={'L0': Loop(_arc_L0)}))

# ------------------------------------------------------------------ leaf helpers
rmeq = z3.Function('without_equal', SeqO, Obj, Int, SeqO)       # elements of the first k that are not == x, in order
_s, _x = z3.Const('rm_s', SeqO), z3.Const('rm_x', Obj)
_k = z3.Int('rm_k')
reg.axiom('rmeq-0', z3.ForAll([_s, _x], rmeq(_s, _x, 0) == Empty(SeqO), patterns=[rmeq(_s, _x, 0)]))
reg.axiom('rmeq-step', z3.ForAll([_s, _x, _k], z3.Implies(z3.And(0 <= _k, _k < L(_s)), rmeq(_s, _x, _k + 1) == z3.If(
    py_eq(_s[_k], _x), rmeq(_s, _x, _k), Concat(rmeq(_s, _x, _k), Unit(_s[_k])))), patterns=[rmeq(_s, _x, _k + 1)]))

reg.add(Proc(A + 'BaseAdapterRegistry._addValueToLeaf', [('self', OBJ), ('existing_leaf_sequence', OBJ), ('new_item', OBJ)],
             source='adapter.py:BaseAdapterRegistry._addValueToLeaf', result=SEQO,
             ensures=lambda c: [('appended-at-the-end', SeqEq(c.res, Concat(
                 z3.If(c.a.existing_leaf_sequence == NONE, Empty(SeqO),
                       z3.If(is_seq(c.a.existing_leaf_sequence), unbox_seq(c.a.existing_leaf_sequence),
                             c.h('$list')[c.a.existing_leaf_sequence])), Unit(c.a.new_item))))]))
reg.add(Proc(A + 'BaseAdapterRegistry._removeValueFromLeaf', [('self', OBJ), ('existing_leaf_sequence', SEQO), ('to_remove', OBJ)],
             source='adapter.py:BaseAdapterRegistry._removeValueFromLeaf', result=SEQO, locals={'$elt_K0': OBJ},
             ensures=lambda c: [('all-equal-entries-removed-order-kept', c.res == rmeq(c.a.existing_leaf_sequence, c.a.to_remove,
                                                                                       L(c.a.existing_leaf_sequence)))],
             loops={'K0': Loop(lambda c: [('prefix', c.acc == rmeq(c.a.existing_leaf_sequence, c.a.to_remove, c.i))])}))

# ------------------------------------------------------------------ mutators: "untouched, or notified last"
reg.add(Proc(A + '_convert_None_to_Interface', [('x', OBJ)], source='adapter.py:_convert_None_to_Interface', result=OBJ,
             globals={'Interface': V(OBJ, INTERFACE)}, pure_fn=lambda c: z3.If(c.a.x == NONE, INTERFACE, c.a.x),
             ensures=lambda c: [('None-means-Interface', c.res == z3.If(c.a.x == NONE, INTERFACE, c.a.x))]))
reg.add(Proc(A + '_normalize_name', [('name', OBJ)], result=OBJ, trusted=True, pure_fn=lambda c: c.a.name,
             note='_compat._normalize_name: identity on str (bytes names are outside the domain)'))
reg.add(Proc(A + 'virtual.add_extendor', [('self', OBJ), ('provided', OBJ)], trusted=True, modifies=['$extendors'],
             note='extendor bookkeeping of the lookup object (own mapping only); bounded by C04/C07 checks'))
reg.add(Proc(A + 'virtual.remove_extendor', [('self', OBJ), ('provided', OBJ)], trusted=True, modifies=['$extendors'],
             note='extendor bookkeeping of the lookup object (own mapping only); bounded by C04/C07 checks'))
reg.fields['$extendors'] = Int
reg.add(Proc(A + 'virtual.self_changed', [('self', OBJ), ('originally_changed', OBJ)],
             modifies=['_generation', '$dict', '$log', '$notified'],
             ensures=lambda c: [c.h('$notified')[c.a.self] == c.h0('$notified')[c.a.self] + 1, only_caches_change(c),
                                c.h('_generation')[c.a.self] == c.h0('_generation')[c.a.self] + 1],
             note='self.changed(self): Base/AdapterRegistry.changed verified above'))


def _mapping_type(ex, node, st):
    r = ex.fresh_ref(st, 'mapping')
    ex.set_dictval(st, r, EMPTYMAP)
    st.assume(z3.And(is_dict(r), z3.Not(cachedict(r))))
    return [(st, V(DICT, r))]


MUT_CALLS = {'_convert_None_to_Interface': A + '_convert_None_to_Interface', '_normalize_name': A + '_normalize_name',
             'self._mappingType': _mapping_type, 'self._v_lookup.add_extendor': A + 'virtual.add_extendor',
             'self._v_lookup.remove_extendor': A + 'virtual.remove_extendor', 'self.changed': A + 'virtual.self_changed',
             'self._addValueToLeaf': A + 'BaseAdapterRegistry._addValueToLeaf',
             'self._removeValueFromLeaf': A + 'BaseAdapterRegistry._removeValueFromLeaf'}
MUT_MOD = ['$dict', '$list', '$alloc', '_generation', '$log', '$notified', '$extendors']


def untouched_or_notified(c):
    return z3.Or(c.h('$notified')[c.a.self] == c.h0('$notified')[c.a.self] + 1,
                 z3.And(c.h('$notified')[c.a.self] == c.h0('$notified')[c.a.self], old_containers_untouched(c)))


def reg_wf(c):
    """the registry's containers exist and no tree container is a lookup cache"""
    o = z3.Const('rw_o', Obj)
    return [('containers-exist', z3.And(c.h('_adapters')[c.a.self] != NONE, c.h('_subscribers')[c.a.self] != NONE,
                                        c.h('_provided')[c.a.self] != NONE, c.h('$alloc')[c.h('_adapters')[c.a.self]],
                                        c.h('$alloc')[c.h('_subscribers')[c.a.self]], c.h('$alloc')[c.h('_provided')[c.a.self]])),
            ('tree-nodes-are-dicts-not-caches', z3.ForAll([o], z3.Implies(
                z3.And(c.h('$alloc')[o], z3.Not(cachedict(o)), is_dict(o)),
                z3.ForAll([z3.Const('rw_k', Obj)], z3.Implies(
                    z3.And(c.h('$dict')[o][z3.Const('rw_k', Obj)] != ABSENT, is_dict(c.h('$dict')[o][z3.Const('rw_k', Obj)])),
                    z3.And(c.h('$alloc')[c.h('$dict')[o][z3.Const('rw_k', Obj)]], z3.Not(cachedict(c.h('$dict')[o][z3.Const('rw_k', Obj)]))))))))]


def _stable(c):
    return [('not-notified-yet', c.h('$notified') == c.h0('$notified')), ('generation', c.h('_generation') == c.h0('_generation'))]


def _pairs(c):
    """the local list `lookups` holds (container, key) pairs"""
    j = z3.Int('lp_j')
    s = c.h('$list')[c.l.lookups]
    return z3.ForAll([j], z3.Implies(z3.And(0 <= j, j < L(s)), z3.And(is_seq(s[j]), L(unbox_seq(s[j])) == 2)), patterns=[s[j]])


def _quiet(c):
    return _stable(c) + [('nothing-touched-yet', old_containers_untouched(c)), ('lookups-holds-pairs', _pairs(c))]


reg.add(Proc(
    A + 'BaseAdapterRegistry.unsubscribe', [('self', OBJ), ('required', SEQO), ('provided', OBJ), ('value', OBJ)],
    source='adapter.py:BaseAdapterRegistry.unsubscribe', calls=MUT_CALLS, modifies=MUT_MOD,
    locals={'$containers': True, '$objdict': True, 'components': DICT, 'd': DICT, 'comp': DICT},
    requires=reg_wf, may_raise=['KeyError'],
    ensures=lambda c: [('untouched-or-notified-last', untouched_or_notified(c))],
    loops={'L0': Loop(_quiet), 'L1': Loop(lambda c: _stable(c)), 'L2': Loop(lambda c: _stable(c))},
))

reg.add(Proc(
    A + 'BaseAdapterRegistry.unregister', [('self', OBJ), ('required', SEQO), ('provided', OBJ), ('name', OBJ), ('value', OBJ)],
    source='adapter.py:BaseAdapterRegistry.unregister', calls=MUT_CALLS, modifies=MUT_MOD, result=OBJ,
    locals={'$containers': True, '$objdict': True, 'components': DICT, 'd': DICT, 'comp': DICT},
    requires=reg_wf, may_raise=['KeyError'],
    ensures=lambda c: [('untouched-or-notified-last', untouched_or_notified(c))],
    loops={'L0': Loop(_quiet), 'L1': Loop(lambda c: _stable(c)), 'L2': Loop(lambda c: _stable(c))},
))
reg.add(Proc(
    A + 'BaseAdapterRegistry.subscribe', [('self', OBJ), ('required', SEQO), ('provided', OBJ), ('value', OBJ)],
    source='adapter.py:BaseAdapterRegistry.subscribe', calls=MUT_CALLS, modifies=MUT_MOD,
    locals={'$containers': True, '$objdict': True, 'components': DICT, 'd': DICT},
    requires=lambda c: reg_wf(c) + [('leaves-are-tuples', z3.BoolVal(True))], may_raise=['KeyError'],
    ensures=lambda c: [('always-notifies', c.h('$notified')[c.a.self] == c.h0('$notified')[c.a.self] + 1)],
    loops={'L0': Loop(lambda c: _stable(c) + [('byorder-alive', c.l.byorder == c.h('_subscribers')[c.a.self])]),
           'L1': Loop(lambda c: _stable(c))},
))

MUT_CALLS2 = dict(MUT_CALLS, **{'self.unregister': A + 'BaseAdapterRegistry.unregister'})
reg.add(Proc(
    A + 'BaseAdapterRegistry.register', [('self', OBJ), ('required', SEQO), ('provided', OBJ), ('name', OBJ), ('value', OBJ)],
    source='adapter.py:BaseAdapterRegistry.register', calls=MUT_CALLS2, modifies=MUT_MOD,
    locals={'$containers': True, '$objdict': True, 'components': DICT, 'd': DICT},
    requires=reg_wf, may_raise=['KeyError'],
    raises={'ValueError': (lambda c: z3.Not(is_name(c.a.name)),
                           lambda c: [('nothing-changed', z3.And(old_containers_untouched(c), c.h('$notified') == c.h0('$notified')))])},
    ensures=lambda c: [
        ('None-means-unregister', z3.Implies(c.a.value == NONE, untouched_or_notified(c))),
        ('notifies-unless-that-very-object-is-already-registered', z3.Implies(c.a.value != NONE, z3.Or(
            c.h('$notified')[c.a.self] == c.h0('$notified')[c.a.self] + 1,
            z3.And(c.h('$notified')[c.a.self] == c.h0('$notified')[c.a.self],
                   (c.h('$dict')[c.l.components][c.a.name] == c.a.value) if 'components' in c.l else z3.BoolVal(False)))))],
    loops={'L0': Loop(lambda c: _stable(c) + [('byorder-alive', c.l.byorder == c.h('_adapters')[c.a.self])]),
           'L1': Loop(lambda c: _stable(c))},
))


# ------------------------------------------------------------------ base chain of a registry (property C06)
# regbases[R]  the tuple stored as R.__dict__['__bases__'] (boxed; ABSENT before the first assignment)
# ro[R]        the stored resolution order;  C3ORDER(regbases, R) the order ro.ro computes from the CURRENT base graph
reg.fields['regbases'] = OBJ
REGB = z3.ArraySort(Obj, Obj)
C3ORDER = z3.Function('c3_order_of_registry', REGB, Obj, SeqO)
reg.assumptions.append('ro.ro(registry) returns the C3 order of the registry over the __bases__ graph as it is at the time of the '
                       'call (C03 covers ro.py); registries are compared by identity')
BASES_ALIAS = {'__bases__': 'regbases'}


def _pats(seq, j):
    return [seq[j]] if z3.is_const(seq) and seq.decl().kind() == z3.Z3_OP_UNINTERPRETED else []


def _ro_ro(ex, node, st):
    """ro.ro(C): an assumed pure function of the current base graph; any further argument is outside the contract"""
    if len(node.args) != 1 or node.keywords:
        raise symex.Unsupported(node, 'ro.ro with arguments other than the registry: no contract')
    out = []
    for s, vs in ex.ev_list(node.args, st):
        out.append((s, V(SEQO, C3ORDER(s.heap.get('regbases'), vs[0].t))))
    return out


def subs_of_reg(c, r, now=True):
    h = c.h if now else c.h0
    return h('$dict')[h('_v_subregistries')[r]]


def links_wf(c):
    a, b = z3.Consts('lw_a lw_b', Obj)
    return [('every-registry-has-its-own-links-mapping', ForAllP([a, b], z3.Implies(a != b, c.h('_v_subregistries')[a] != c.h('_v_subregistries')[b]),
                                                                      patterns=[z3.MultiPattern(c.h('_v_subregistries')[a], c.h('_v_subregistries')[b])])),
            ('links-mappings-exist-and-are-not-caches', ForAllP([a], z3.And(c.h('_v_subregistries')[a] != NONE,
                                                                             z3.Not(cachedict(c.h('_v_subregistries')[a]))),
                                                                  patterns=[c.h('_v_subregistries')[a]]))]


reg.add(Proc(A + 'AdapterRegistry._addSubregistry', [('self', OBJ), ('r', OBJ)], source='adapter.py:AdapterRegistry._addSubregistry',
             modifies=['$dict'], requires=lambda c: [c.h('_v_subregistries')[c.a.self] != NONE],
             ensures=lambda c: [('r-is-linked', subs_of_reg(c, c.a.self)[c.a.r] != ABSENT),
                                ('nothing-else', ForAllP([z3.Const('as_o', Obj), z3.Const('as_k', Obj)], z3.Implies(
                                    z3.Or(z3.Const('as_o', Obj) != c.h('_v_subregistries')[c.a.self], z3.Const('as_k', Obj) != c.a.r),
                                    c.h('$dict')[z3.Const('as_o', Obj)][z3.Const('as_k', Obj)] == c.h0('$dict')[z3.Const('as_o', Obj)][z3.Const('as_k', Obj)])))]))
reg.add(Proc(A + 'AdapterRegistry._removeSubregistry', [('self', OBJ), ('r', OBJ)], source='adapter.py:AdapterRegistry._removeSubregistry',
             modifies=['$dict'], requires=lambda c: [c.h('_v_subregistries')[c.a.self] != NONE],
             ensures=lambda c: [('r-is-not-linked', subs_of_reg(c, c.a.self)[c.a.r] == ABSENT),
                                ('nothing-else', ForAllP([z3.Const('as_o', Obj), z3.Const('as_k', Obj)], z3.Implies(
                                    z3.Or(z3.Const('as_o', Obj) != c.h('_v_subregistries')[c.a.self], z3.Const('as_k', Obj) != c.a.r),
                                    c.h('$dict')[z3.Const('as_o', Obj)][z3.Const('as_k', Obj)] == c.h0('$dict')[z3.Const('as_o', Obj)][z3.Const('as_k', Obj)])))]))


def _base_setbases_post(c):
    s = c.a.self
    return [('bases-recorded', c.h('regbases')[s] == box_seq(c.a.bases)),
            ('stored-order-is-the-C3-order-of-the-current-base-graph', c.h('ro')[s] == C3ORDER(c.h('regbases'), s)),
            ('other-registries-keep-bases-and-order', ForAllP([z3.Const('sb_o', Obj)], z3.Implies(z3.Const('sb_o', Obj) != s, z3.And(
                c.h('regbases')[z3.Const('sb_o', Obj)] == c.h0('regbases')[z3.Const('sb_o', Obj)],
                c.h('ro')[z3.Const('sb_o', Obj)] == c.h0('ro')[z3.Const('sb_o', Obj)])))),
            ('notified-last', c.h('$notified')[s] == c.h0('$notified')[s] + 1),
            ('only-caches-change', only_caches_change(c)),
            ('generation-bumped-exactly-once', c.h('_generation')[s] == c.h0('_generation')[s] + 1)]


reg.add(Proc(A + 'BaseAdapterRegistry._setBases', [('self', OBJ), ('bases', SEQO)], source='adapter.py:BaseAdapterRegistry._setBases',
             calls={'ro.ro': _ro_ro, 'self.changed': A + 'virtual.self_changed'}, attr_alias=BASES_ALIAS, locals={'$instdict': True},
             modifies=['regbases', 'ro', '_generation', '$dict', '$log', '$notified'], ensures=_base_setbases_post))


def _super_setbases(ex, node, st):
    out = []
    for s, vs in ex.ev_list(node.args, st):
        args = {'self': ex.args['self'], 'bases': ex.coerce(vs[0], SEQO, s)}
        out.extend(ex.apply_contract(node, s, reg.procs[A + 'BaseAdapterRegistry._setBases'], args))
    return out


def old_bases(c):
    v = c.h0('regbases')[c.a.self]
    return z3.If(v == ABSENT, Empty(SeqO), unbox_seq(v))


def _ar_setbases_pre(c):
    j = z3.Int('sp_j')
    old = old_bases(c)
    return links_wf(c) + [
        ('recorded-bases-are-a-tuple', z3.Or(c.h('regbases')[c.a.self] == ABSENT, is_seq(c.h('regbases')[c.a.self]))),
        ('linked-to-every-current-base', ForAllP([j], z3.Implies(z3.And(0 <= j, j < L(old)), subs_of_reg(c, old[j])[c.a.self] != ABSENT),
                                                   patterns=_pats(old, j)))]


def _links_frame(c):
    """only the key `self` of links mappings changes; caches may change (changed()); nothing else"""
    o, k = z3.Consts('lf_o lf_k', Obj)
    r = z3.Const('lf_r', Obj)
    return ForAllP([r, k], z3.Implies(k != c.a.self, subs_of_reg(c, r)[k] == subs_of_reg(c, r, False)[k]),
                     patterns=[subs_of_reg(c, r)[k]])


def _ar_setbases_post(c):
    j = z3.Int('sq_j')
    old = old_bases(c)
    new = c.a.bases
    r = z3.Const('sq_r', Obj)
    return _base_setbases_post(c)[:4] + _base_setbases_post(c)[5:] + [
        ('linked-to-every-new-base', ForAllP([j], z3.Implies(z3.And(0 <= j, j < L(new)), subs_of_reg(c, new[j])[c.a.self] != ABSENT),
                                               patterns=[new[j]])),
        ('unlinked-from-every-dropped-base', ForAllP([j], z3.Implies(
            z3.And(0 <= j, j < L(old), z3.Not(Contains(new, old[j]))), subs_of_reg(c, old[j])[c.a.self] == ABSENT), patterns=_pats(old, j))),
        ('links-of-other-registries-to-their-bases-untouched', _links_frame(c)),
        ('registries-that-are-neither-old-nor-new-bases-keep-their-links', ForAllP([r], z3.Implies(
            z3.And(z3.Not(Contains(old, r)), z3.Not(Contains(new, r))), subs_of_reg(c, r) == subs_of_reg(c, r, False)),
            patterns=[subs_of_reg(c, r)]))]


def _ar_L0(c):
    j = z3.Int('l0_j')
    old = old_bases(c)
    r = z3.Const('l0_r', Obj)
    return [('index-in-range', c.i <= L(old)),
            ('dropped-bases-visited-are-unlinked', ForAllP([j], z3.Implies(
                z3.And(0 <= j, j < c.i, z3.Not(Contains(c.a.bases, old[j]))), subs_of_reg(c, old[j])[c.a.self] == ABSENT), patterns=_pats(old, j))),
            ('kept-bases-stay-linked', ForAllP([j], z3.Implies(
                z3.And(0 <= j, j < L(old), Contains(c.a.bases, old[j])), subs_of_reg(c, old[j])[c.a.self] != ABSENT), patterns=_pats(old, j))),
            ('only-own-key-changes', _links_frame(c)),
            ('others-keep-their-links', ForAllP([r], z3.Implies(z3.Not(Contains(old, r)), subs_of_reg(c, r) == subs_of_reg(c, r, False)),
                                                  patterns=[subs_of_reg(c, r)])),
            ('attributes-stable', z3.And(c.h('_v_subregistries') == c.h0('_v_subregistries'), c.h('regbases') == c.h0('regbases'),
                                         c.h('ro') == c.h0('ro'), c.h('$notified') == c.h0('$notified'),
                                         c.h('_generation') == c.h0('_generation'), c.h('$log') == c.h0('$log'))),
            ('only-links-mappings-change', ForAllP([z3.Const('l0_o', Obj)], z3.Implies(
                ForAllP([r], c.h('_v_subregistries')[r] != z3.Const('l0_o', Obj)),
                c.h('$dict')[z3.Const('l0_o', Obj)] == c.h0('$dict')[z3.Const('l0_o', Obj)])))]


def _ar_L1(c):
    j = z3.Int('l1_j')
    old = old_bases(c)
    new = c.a.bases
    r = z3.Const('l1_r', Obj)
    return [('new-bases-visited-are-linked', ForAllP([j], z3.Implies(z3.And(0 <= j, j < c.i), subs_of_reg(c, new[j])[c.a.self] != ABSENT),
                                                        patterns=[new[j]])),
            ('kept-bases-stay-linked', ForAllP([j], z3.Implies(
                z3.And(0 <= j, j < L(old), Contains(new, old[j])), subs_of_reg(c, old[j])[c.a.self] != ABSENT), patterns=_pats(old, j))),
            ('dropped-bases-are-unlinked', ForAllP([j], z3.Implies(
                z3.And(0 <= j, j < L(old), z3.Not(Contains(new, old[j]))), subs_of_reg(c, old[j])[c.a.self] == ABSENT), patterns=_pats(old, j))),
            ('only-own-key-changes', _links_frame(c)),
            ('others-keep-their-links', ForAllP([r], z3.Implies(z3.And(z3.Not(Contains(old, r)), z3.Not(Contains(new, r))),
                                                                  subs_of_reg(c, r) == subs_of_reg(c, r, False)), patterns=[subs_of_reg(c, r)])),
            ('attributes-stable', z3.And(c.h('_v_subregistries') == c.h0('_v_subregistries'), c.h('regbases') == c.h0('regbases'),
                                         c.h('ro') == c.h0('ro'), c.h('$notified') == c.h0('$notified'),
                                         c.h('_generation') == c.h0('_generation'), c.h('$log') == c.h0('$log'))),
            ('only-links-mappings-change', ForAllP([z3.Const('l0_o', Obj)], z3.Implies(
                ForAllP([r], c.h('_v_subregistries')[r] != z3.Const('l0_o', Obj)),
                c.h('$dict')[z3.Const('l0_o', Obj)] == c.h0('$dict')[z3.Const('l0_o', Obj)])))]


reg.add(Proc(A + 'AdapterRegistry._setBases', [('self', OBJ), ('bases', SEQO)], source='adapter.py:AdapterRegistry._setBases',
             calls={'super()._setBases': _super_setbases, 'r._removeSubregistry': A + 'AdapterRegistry._removeSubregistry',
                    'r._addSubregistry': A + 'AdapterRegistry._addSubregistry'},
             attr_alias=BASES_ALIAS, locals={'$instdict': True, 'old': SEQO},
             modifies=['regbases', 'ro', '_generation', '$dict', '$log', '$notified'],
             requires=_ar_setbases_pre, ensures=_ar_setbases_post,
             loops={'L0': Loop(_ar_L0), 'L1': Loop(_ar_L1)}))


# ------------------------------------------------------------------ (re-)initialisation: __init__ is also what rebuild() runs on a LIVE registry
def _fresh_container(kind):
    def handler(ex, node, st):
        r = ex.fresh_ref(st, kind)
        if kind == 'list':
            ex.set_listval(st, r, Empty(SeqO))
            return [(st, V(LISTO, r))]
        ex.set_dictval(st, r, EMPTYMAP)
        st.assume(z3.Not(cachedict(r)))
        return [(st, V(DICT, r))]
    return handler


def _create_lookup(ex, node, st):
    """self._createLookup(): a new lookup object is installed (its caches are empty; C05_cache) -- no effect on the generation"""
    r = ex.fresh_ref(st, 'lookup')
    ex.write_field(st, ex.args['self'].t, '_v_lookup', vobj(r))
    return [(st, VNONE)]


def _assign_bases(ex, tgt, st, recv, v):
    """self.__bases__ = bases: the property setter runs _setBases (contract above; virtual for AdapterRegistry)"""
    args = {'self': recv, 'bases': ex.coerce(v, SEQO, st)}
    res = ex.apply_contract(tgt, st, reg.procs[A + 'BaseAdapterRegistry._setBases'], args)
    assert len(res) == 1 and res[0][0] is st


def _init_post(c):
    s = c.a.self
    return [('the-generation-counter-continues', c.h('_generation')[s] == c.h0('_generation')[s] + 1),
            ('fresh-empty-containers', z3.And(
                z3.Not(c.h0('$alloc')[c.h('_adapters')[s]]), z3.Not(c.h0('$alloc')[c.h('_subscribers')[s]]), z3.Not(c.h0('$alloc')[c.h('_provided')[s]]),
                L(c.h('$list')[c.h('_adapters')[s]]) == 0, L(c.h('$list')[c.h('_subscribers')[s]]) == 0, c.h('$dict')[c.h('_provided')[s]] == EMPTYMAP)),
            ('bases-recorded-and-order-computed', z3.And(c.h('regbases')[s] == box_seq(c.a.bases), c.h('ro')[s] == C3ORDER(c.h('regbases'), s))),
            ('notified', c.h('$notified')[s] == c.h0('$notified')[s] + 1)]


reg.add(Proc(A + 'BaseAdapterRegistry.__init__', [('self', OBJ), ('bases', SEQO)], source='adapter.py:BaseAdapterRegistry.__init__',
             calls={'self._sequenceType': _fresh_container('list'), 'self._providedType': _fresh_container('dict'),
                    'self._createLookup': _create_lookup},
             setattr_={'__bases__': _assign_bases},
             modifies=['_adapters', '_subscribers', '_provided', '_v_lookup', 'regbases', 'ro', '_generation', '$dict', '$list', '$alloc',
                       '$log', '$notified'],
             ensures=_init_post))
