"""Contracts for attribute / tagged-value resolution along __iro__ (property C15).

direct(J, n)   the description J defines directly (entry of its own attribute table), None if it has none
first(I, n)    direct(J, n) of the first J in I.__iro__ that defines n, None if no such J
"""
import z3

from zivc.core import *  # noqa
from zivc.spec import Loop, Proc, Registry

FIELDS = {'__iro__': SEQO, '_v_attrs': DICT, '_InterfaceClass__attrs': DICT, '_Element__tagged_values': DICT}
reg = Registry(FIELDS)
L = Length
I = 'interface.py:'
DS = z3.ArraySort(Obj, ObjMap)
FS = z3.ArraySort(Obj, Obj)
Int = z3.IntSort()
MARKER = z3.Const('_marker', Obj)
reg.axiom('marker', z3.And(MARKER != NONE, MARKER != ABSENT))


def gd(D, d, k):
    v = z3.Select(z3.Select(D, d), k)
    return z3.If(v == ABSENT, NONE, v)


def direct(c, J, n, now=True):
    D = c.h('$dict') if now else c.h0('$dict')
    A = c.h('_InterfaceClass__attrs') if now else c.h0('_InterfaceClass__attrs')
    return gd(D, A[J], n)


# least index >= lo in iro whose interface defines n directly (len(iro) if none)
fd = z3.Function('first_definer_from', DS, FS, SeqO, Obj, Int, Int)
D_, A_ = z3.Const('D_', DS), z3.Const('A_', FS)
iro_, n_ = z3.Const('iro_', SeqO), z3.Const('n_', Obj)
lo_, j_ = z3.Ints('lo_ j_')


def defines(D, A, iro, n, j):
    return gd(D, z3.Select(A, iro[j]), n) != NONE


_f = fd(D_, A_, iro_, n_, lo_)
reg.axiom('fd-range', z3.ForAll([D_, A_, iro_, n_, lo_], z3.Implies(z3.And(0 <= lo_, lo_ <= L(iro_)),
                                                                     z3.And(lo_ <= _f, _f <= L(iro_))), patterns=[_f]))
reg.axiom('fd-hit', z3.ForAll([D_, A_, iro_, n_, lo_], z3.Implies(z3.And(0 <= lo_, _f < L(iro_)), defines(D_, A_, iro_, n_, _f)),
                              patterns=[_f]))
reg.axiom('fd-least', z3.ForAll([D_, A_, iro_, n_, lo_, j_], z3.Implies(
    z3.And(0 <= lo_, lo_ <= j_, j_ < _f), z3.Not(defines(D_, A_, iro_, n_, j_))), patterns=[z3.MultiPattern(_f, iro_[j_])]))


def first(c, Iface, n, now=True):
    D = c.h('$dict') if now else c.h0('$dict')
    A = c.h('_InterfaceClass__attrs') if now else c.h0('_InterfaceClass__attrs')
    iro = (c.h('__iro__') if now else c.h0('__iro__'))[Iface]
    k = fd(D, A, iro, n, 0)
    return z3.If(k < L(iro), gd(D, A[iro[k]], n), NONE)


def tables_ok(c, Iface):
    """the attribute tables along __iro__ are dict objects distinct from the memo of Iface"""
    j = z3.Int('tk_j')
    iro = c.h('__iro__')[Iface]
    A = c.h('_InterfaceClass__attrs')
    return z3.ForAll([j], z3.Implies(z3.And(0 <= j, j < L(iro)), z3.And(
        iro[j] != NONE, A[iro[j]] != NONE, A[iro[j]] != c.h('_v_attrs')[Iface], c.h('$alloc')[A[iro[j]]])))


def memo_ok(c, Iface, now=True):
    h = c.h if now else c.h0
    m = h('_v_attrs')[Iface]
    n = z3.Const('mo_n', Obj)
    return z3.Implies(m != NONE, z3.ForAll([n], z3.Implies(
        h('$dict')[m][n] != ABSENT, z3.And(h('$dict')[m][n] == first(c, Iface, n, now), h('$dict')[m][n] != NONE))))


reg.add(Proc(I + 'InterfaceClass.direct', [('self', OBJ), ('name', OBJ)], source='interface.py:InterfaceClass.direct',
             classname='InterfaceClass', result=OBJ,
             requires=lambda c: [c.h('_InterfaceClass__attrs')[c.a.self] != NONE],
             ensures=lambda c: [('own-table-entry', c.res == direct(c, c.a.self, c.a.name))]))


def only_memo_changed(c):
    o = z3.Const('om_o', Obj)
    return [
        ('memo-field-only-of-self', z3.ForAll([o], z3.Implies(o != c.a.self, c.h('_v_attrs')[o] == c.h0('_v_attrs')[o]))),
        ('dicts-only-the-memo', z3.ForAll([o], z3.Implies(z3.And(o != c.h('_v_attrs')[c.a.self], c.h0('$alloc')[o]),
                                                         c.h('$dict')[o] == c.h0('$dict')[o]))),
        ('memo-is-own-or-fresh', z3.Or(c.h('_v_attrs')[c.a.self] == c.h0('_v_attrs')[c.a.self],
                                       z3.Not(c.h0('$alloc')[c.h('_v_attrs')[c.a.self]]))),
    ]


def _get_loop(c):
    j = z3.Int('gl_j')
    D, A = c.h('$dict'), c.h('_InterfaceClass__attrs')
    iro = c.h('__iro__')[c.a.self]
    return [('no-earlier-definer', z3.ForAll([j], z3.Implies(z3.And(0 <= j, j < c.i), z3.Not(defines(D, A, iro, c.a.name, j))))),
            ('nothing-changed-yet', z3.And(c.h('$dict') == c.hL('$dict'), c.h('_v_attrs') == c.hL('_v_attrs'))),
            ('not-found-yet', c.l.attr == NONE)]


reg.add(Proc(
    I + 'Specification.get', [('self', OBJ), ('name', OBJ), ('default', OBJ)], source='interface.py:Specification.get',
    result=OBJ, calls={'iface.direct': I + 'InterfaceClass.direct'},
    requires=lambda c: [('tables', tables_ok(c, c.a.self)), ('memo-valid', memo_ok(c, c.a.self)),
                        ('memo-allocated', z3.Implies(c.h('_v_attrs')[c.a.self] != NONE, c.h('$alloc')[c.h('_v_attrs')[c.a.self]]))],
    modifies=['_v_attrs', '$dict', '$alloc'],
    ensures=lambda c: [('first-definer-along-iro', c.res == z3.If(first(c, c.a.self, c.a.name, False) == NONE, c.a.default,
                                                                  first(c, c.a.self, c.a.name, False))),
                       ('memo-valid', memo_ok(c, c.a.self))] + only_memo_changed(c),
    loops={'L0': Loop(_get_loop)},
))

# accessors defined through get(): verified as callers of its contract
_get_key = I + 'Specification.get'


def via_get(name, src, params, ens, raises=None, extra_calls=None):
    reg.add(Proc(I + 'InterfaceClass.' + name, params, source='interface.py:InterfaceClass.' + src, result=OBJ,
                 calls=dict({'self.get': _get_key}, **(extra_calls or {})),
                 requires=reg.procs[_get_key].requires, modifies=['_v_attrs', '$dict', '$alloc'],
                 raises=raises or {}, ensures=ens))


reg.procs[_get_key].defaults = {'default': VNONE}
via_get('getDescriptionFor', 'getDescriptionFor', [('self', OBJ), ('name', OBJ)],
        lambda c: [('first-definer', c.res == first(c, c.a.self, c.a.name, False)), ('memo-valid', memo_ok(c, c.a.self))],
        raises={'KeyError': (lambda c: first(c, c.a.self, c.a.name, False) == NONE, lambda c: [])})
reg.add(Proc(I + 'InterfaceClass.__contains__', [('self', OBJ), ('name', OBJ)], source='interface.py:InterfaceClass.__contains__',
             result=BOOL, calls={'self.get': _get_key}, requires=reg.procs[_get_key].requires,
             modifies=['_v_attrs', '$dict', '$alloc'],
             ensures=lambda c: [('present-iff-some-definer', c.res == (first(c, c.a.self, c.a.name, False) != NONE))]))
via_get('queryDescriptionFor', 'queryDescriptionFor', [('self', OBJ), ('name', OBJ), ('default', OBJ)],
        lambda c: [('first-definer-or-default', c.res == z3.If(first(c, c.a.self, c.a.name, False) == NONE, c.a.default,
                                                               first(c, c.a.self, c.a.name, False)))])

# ------------------------------------------------------------------ namesAndDescriptions(all=True)
reg.add(Proc(I + 'virtual.namesAndDescriptions', [('self', OBJ)], result=DICT, trusted=True,
             ensures=lambda c: [c.res == c.h('_InterfaceClass__attrs')[c.a.self]],
             note='namesAndDescriptions() without all: the items of the own attribute table (same function, first branch)'))


def _nad_loop(c):
    n = z3.Const('nl_n', Obj)
    D0, A = c.h0('$dict'), c.h('_InterfaceClass__attrs')
    iro = c.h('__iro__')[c.a.self]
    ln = L(iro)
    lo = ln - c.i
    k = fd(D0, A, iro, n, lo)
    r = c.h('$dict')[c.l.r]
    o = z3.Const('nl_o', Obj)
    return [('latest-processed-definer-wins', z3.ForAll([n], r[n] == z3.If(k < ln, D0[A[iro[k]]][n], ABSENT))),
            ('r-fresh', z3.Not(c.h0('$alloc')[c.l.r])),
            ('tables-untouched', z3.ForAll([o], z3.Implies(c.h0('$alloc')[o], c.h('$dict')[o] == c.h0('$dict')[o])))]


def _nad_post(c):
    n = z3.Const('np_n', Obj)
    f = first(c, c.a.self, n, False)
    return [('description-of-first-definer-along-iro', z3.Implies(c.a.all, z3.ForAll([n], z3.If(
        f != NONE, c.res[n] == f, c.res[n] == ABSENT))))]


def _dict_of(ex, node, st):
    """dict(x.namesAndDescriptions()): a copy of the callee's table"""
    out = []
    for s, v in ex.ev(node.args[0], st):
        r = ex.fresh_ref(s, 'dict')
        ex.set_dictval(s, r, ex.dictval(s, v.t))
        out.append((s, V(DICT, r)))
    return out


reg.add(Proc(
    I + 'InterfaceClass.namesAndDescriptions', [('self', OBJ), ('all', BOOL)],
    source='interface.py:InterfaceClass.namesAndDescriptions', classname='InterfaceClass', result=Ty('items'),
    calls={'iface.namesAndDescriptions': I + 'virtual.namesAndDescriptions', 'dict': _dict_of},
    requires=lambda c: [('tables', tables_ok(c, c.a.self)),
                        ('no-None-descriptions', z3.ForAll([z3.Int('q_j'), z3.Const('q_n', Obj)], z3.Implies(
                            z3.And(0 <= z3.Int('q_j'), z3.Int('q_j') < L(c.h('__iro__')[c.a.self])),
                            c.h('$dict')[c.h('_InterfaceClass__attrs')[c.h('__iro__')[c.a.self][z3.Int('q_j')]]][z3.Const('q_n', Obj)] != NONE)))],
    modifies=['$dict', '$alloc'], ensures=_nad_post, loops={'L0': Loop(_nad_loop)},
))

# ------------------------------------------------------------------ tagged values
def dtag(c, J, tag, default, now=True):
    h = c.h if now else c.h0
    tv = h('_Element__tagged_values')[J]
    v = h('$dict')[tv][tag]
    return z3.If(z3.And(tv != NONE, v != ABSENT), v, default)


reg.add(Proc(I + 'Element.queryTaggedValue', [('self', OBJ), ('tag', OBJ), ('default', OBJ)],
             source='interface.py:Element.queryTaggedValue', classname='Element', result=OBJ, defaults={'default': VNONE},
             ensures=lambda c: [('direct-tag-or-default', c.res == dtag(c, c.a.self, c.a.tag, c.a.default))]))

ft = z3.Function('first_tagged_from', DS, FS, SeqO, Obj, Int, Int)
T_ = z3.Const('T_', FS)


def hastag(D, T, iro, tag, j):
    tv = z3.Select(T, iro[j])
    return z3.And(tv != NONE, z3.Select(z3.Select(D, tv), tag) != ABSENT)


_g = ft(D_, T_, iro_, n_, lo_)
reg.axiom('ft-range', z3.ForAll([D_, T_, iro_, n_, lo_], z3.Implies(z3.And(0 <= lo_, lo_ <= L(iro_)),
                                                                     z3.And(lo_ <= _g, _g <= L(iro_))), patterns=[_g]))
reg.axiom('ft-hit', z3.ForAll([D_, T_, iro_, n_, lo_], z3.Implies(z3.And(0 <= lo_, _g < L(iro_)), hastag(D_, T_, iro_, n_, _g)),
                              patterns=[_g]))
reg.axiom('ft-least', z3.ForAll([D_, T_, iro_, n_, lo_, j_], z3.Implies(
    z3.And(0 <= lo_, lo_ <= j_, j_ < _g), z3.Not(hastag(D_, T_, iro_, n_, j_))), patterns=[z3.MultiPattern(_g, iro_[j_])]))


def first_tag(c, Iface, tag, default):
    D, T = c.h0('$dict'), c.h0('_Element__tagged_values')
    iro = c.h0('__iro__')[Iface]
    k = ft(D, T, iro, tag, 0)
    return z3.If(k < L(iro), D[T[iro[k]]][tag], default)


def no_marker_values(c):
    j = z3.Int('nm_j')
    t = z3.Const('nm_t', Obj)
    iro = c.h('__iro__')[c.a.self]
    T = c.h('_Element__tagged_values')
    return z3.ForAll([j, t], z3.Implies(z3.And(0 <= j, j < L(iro)), z3.And(iro[j] != NONE, c.h('$dict')[T[iro[j]]][t] != MARKER)))


reg.add(Proc(
    I + 'InterfaceClass.queryTaggedValue', [('self', OBJ), ('tag', OBJ), ('default', OBJ)],
    source='interface.py:InterfaceClass.queryTaggedValue', result=OBJ, globals={'_marker': V(OBJ, MARKER)}, defaults={'default': VNONE},
    calls={'iface.queryDirectTaggedValue': I + 'Element.queryTaggedValue'},
    requires=lambda c: [('marker-is-private', no_marker_values(c))],
    ensures=lambda c: [('nearest-interface-in-iro-wins', c.res == first_tag(c, c.a.self, c.a.tag, c.a.default))],
    loops={'L0': Loop(lambda c: [('no-earlier-interface-has-the-tag', z3.ForAll([z3.Int('tq_j')], z3.Implies(
        z3.And(0 <= z3.Int('tq_j'), z3.Int('tq_j') < c.i),
        z3.Not(hastag(c.h('$dict'), c.h('_Element__tagged_values'), c.h('__iro__')[c.a.self], c.a.tag, z3.Int('tq_j'))))))])},
))
reg.add(Proc(
    I + 'InterfaceClass.getTaggedValue', [('self', OBJ), ('tag', OBJ)], source='interface.py:InterfaceClass.getTaggedValue',
    result=OBJ, globals={'_marker': V(OBJ, MARKER)}, calls={'self.queryTaggedValue': I + 'InterfaceClass.queryTaggedValue'},
    requires=lambda c: [('marker-is-private', no_marker_values(c))],
    raises={'KeyError': (lambda c: first_tag(c, c.a.self, c.a.tag, MARKER) == MARKER, lambda c: [])},
    ensures=lambda c: [('nearest-interface-in-iro-wins', c.res == first_tag(c, c.a.self, c.a.tag, MARKER))]))
