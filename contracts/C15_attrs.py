"""Contracts for attribute / tagged-value resolution along __iro__ (property C15).

direct(J, n)   the description J defines directly (entry of its own attribute table), None if it has none
first(I, n)    direct(J, n) of the first J in I.__iro__ that defines n, None if no such J
"""
import z3

from zivc.core import *  # noqa
from zivc.spec import Loop, Proc, Registry

FIELDS = {'__iro__': SEQO, '_v_attrs': DICT, '_InterfaceClass__attrs': DICT, '_Element__tagged_values': DICT}
reg = Registry(FIELDS)
L = Length
I = 'interface.py:'
DS = z3.ArraySort(Obj, ObjMap)
FS = z3.ArraySort(Obj, Obj)
Int = z3.IntSort()
MARKER = z3.Const('_marker', Obj)
reg.axiom('marker', z3.And(MARKER != NONE, MARKER != ABSENT))


def gd(D, d, k):
    v = z3.Select(z3.Select(D, d), k)
    return z3.If(v == ABSENT, NONE, v)


def direct(c, J, n, now=True):
    D = c.h('$dict') if now else c.h0('$dict')
    A = c.h('_InterfaceClass__attrs') if now else c.h0('_InterfaceClass__attrs')
    return gd(D, A[J], n)


# least index >= lo in iro whose interface defines n directly (len(iro) if none)
fd = z3.Function('first_definer_from', DS, FS, SeqO, Obj, Int, Int)
D_, A_ = z3.Const('D_', DS), z3.Const('A_', FS)
iro_, n_ = z3.Const('iro_', SeqO), z3.Const('n_', Obj)
lo_, j_ = z3.Ints('lo_ j_')


def defines(D, A, iro, n, j):
    return gd(D, z3.Select(A, iro[j]), n) != NONE


_f = fd(D_, A_, iro_, n_, lo_)
reg.axiom('fd-range', z3.ForAll([D_, A_, iro_, n_, lo_], z3.Implies(z3.And(0 <= lo_, lo_ <= L(iro_)),
                                                                     z3.And(lo_ <= _f, _f <= L(iro_))), patterns=[_f]))
reg.axiom('fd-hit', z3.ForAll([D_, A_, iro_, n_, lo_], z3.Implies(z3.And(0 <= lo_, _f < L(iro_)), defines(D_, A_, iro_, n_, _f)),
                              patterns=[_f]))
reg.axiom('fd-least', z3.ForAll([D_, A_, iro_, n_, lo_, j_], z3.Implies(
    z3.And(0 <= lo_, lo_ <= j_, j_ < _f), z3.Not(defines(D_, A_, iro_, n_, j_))), patterns=[z3.MultiPattern(_f, iro_[j_])]))


def first(c, Iface, n, now=True):
    D = c.h('$dict') if now else c.h0('$dict')
    A = c.h('_InterfaceClass__attrs') if now else c.h0('_InterfaceClass__attrs')
    iro = (c.h('__iro__') if now else c.h0('__iro__'))[Iface]
    k = fd(D, A, iro, n, 0)
    return z3.If(k < L(iro), gd(D, A[iro[k]], n), NONE)


def tables_ok(c, Iface):
    """the attribute tables along __iro__ are dict objects distinct from the memo of Iface"""
    j = z3.Int('tk_j')
    iro = c.h('__iro__')[Iface]
    A = c.h('_InterfaceClass__attrs')
    return z3.ForAll([j], z3.Implies(z3.And(0 <= j, j < L(iro)), z3.And(
        iro[j] != NONE, A[iro[j]] != NONE, A[iro[j]] != c.h('_v_attrs')[Iface], c.h('$alloc')[A[iro[j]]])))


def memo_ok(c, Iface, now=True):
    h = c.h if now else c.h0
    m = h('_v_attrs')[Iface]
    n = z3.Const('mo_n', Obj)
    return z3.Implies(m != NONE, z3.ForAll([n], z3.Implies(
        h('$dict')[m][n] != ABSENT, z3.And(h('$dict')[m][n] == first(c, Iface, n, now), h('$dict')[m][n] != NONE))))


reg.add(Proc(I + 'InterfaceClass.direct', [('self', OBJ), ('name', OBJ)], source='interface.py:InterfaceClass.direct',
             classname='InterfaceClass', result=OBJ,
             requires=lambda c: [c.h('_InterfaceClass__attrs')[c.a.self] != NONE],
             ensures=lambda c: [('own-table-entry', c.res == direct(c, c.a.self, c.a.name))]))


def only_memo_changed(c):
    o = z3.Const('om_o', Obj)
    return [
        ('memo-field-only-of-self', z3.ForAll([o], z3.Implies(o != c.a.self, c.h('_v_attrs')[o] == c.h0('_v_attrs')[o]))),
        ('dicts-only-the-memo', z3.ForAll([o], z3.Implies(z3.And(o != c.h('_v_attrs')[c.a.self], c.h0('$alloc')[o]),
                                                         c.h('$dict')[o] == c.h0('$dict')[o]))),
        ('memo-is-own-or-fresh', z3.Or(c.h('_v_attrs')[c.a.self] == c.h0('_v_attrs')[c.a.self],
                                       z3.Not(c.h0('$alloc')[c.h('_v_attrs')[c.a.self]]))),
    ]


def _get_loop(c):
    j = z3.Int('gl_j')
    D, A = c.h('$dict'), c.h('_InterfaceClass__attrs')
    iro = c.h('__iro__')[c.a.self]
    return [('no-earlier-definer', z3.ForAll([j], z3.Implies(z3.And(0 <= j, j < c.i), z3.Not(defines(D, A, iro, c.a.name, j))))),
            ('nothing-changed-yet', z3.And(c.h('$dict') == c.hL('$dict'), c.h('_v_attrs') == c.hL('_v_attrs'))),
            ('not-found-yet', c.l.attr == NONE)]


reg.add(Proc(
    I + 'Specification.get', [('self', OBJ), ('name', OBJ), ('default', OBJ)], source='interface.py:Specification.get',
    result=OBJ, calls={'iface.direct': I + 'InterfaceClass.direct'},
    requires=lambda c: [('tables', tables_ok(c, c.a.self)), ('memo-valid', memo_ok(c, c.a.self)),
                        ('memo-allocated', z3.Implies(c.h('_v_attrs')[c.a.self] != NONE, c.h('$alloc')[c.h('_v_attrs')[c.a.self]]))],
    modifies=['_v_attrs', '$dict', '$alloc'],
    ensures=lambda c: [('first-definer-along-iro', c.res == z3.If(first(c, c.a.self, c.a.name, False) == NONE, c.a.default,
                                                                  first(c, c.a.self, c.a.name, False))),
                       ('memo-valid', memo_ok(c, c.a.self))] + only_memo_changed(c),
    loops={'L0': Loop(_get_loop)},
))

# accessors defined through get(): verified as callers of its contract
_get_key = I + 'Specification.get'


def via_get(name, src, params, ens, raises=None, extra_calls=None):
    reg.add(Proc(I + 'InterfaceClass.' + name, params, source='interface.py:InterfaceClass.' + src, result=OBJ,
                 calls=dict({'self.get': _get_key}, **(extra_calls or {})),
                 requires=reg.procs[_get_key].requires, modifies=['_v_attrs', '$dict', '$alloc'],
                 raises=raises or {}, ensures=ens))


reg.procs[_get_key].defaults = {'default': VNONE}
via_get('getDescriptionFor', 'getDescriptionFor', [('self', OBJ), ('name', OBJ)],
        lambda c: [('first-definer', c.res == first(c, c.a.self, c.a.name, False)), ('memo-valid', memo_ok(c, c.a.self))],
        raises={'KeyError': (lambda c: first(c, c.a.self, c.a.name, False) == NONE, lambda c: [])})
reg.add(Proc(I + 'InterfaceClass.__contains__', [('self', OBJ), ('name', OBJ)], source='interface.py:InterfaceClass.__contains__',
             result=BOOL, calls={'self.get': _get_key}, requires=reg.procs[_get_key].requires,
             modifies=['_v_attrs', '$dict', '$alloc'],
             ensures=lambda c: [('present-iff-some-definer', c.res == (first(c, c.a.self, c.a.name, False) != NONE))]))
via_get('queryDescriptionFor', 'queryDescriptionFor', [('self', OBJ), ('name', OBJ), ('default', OBJ)],
        lambda c: [('first-definer-or-default', c.res == z3.If(first(c, c.a.self, c.a.name, False) == NONE, c.a.default,
                                                               first(c, c.a.self, c.a.name, False)))])

# ------------------------------------------------------------------ namesAndDescriptions(all=True)
reg.add(Proc(I + 'virtual.namesAndDescriptions', [('self', OBJ)], result=DICT, trusted=True,
             ensures=lambda c: [c.res == c.h('_InterfaceClass__attrs')[c.a.self]],
             note='namesAndDescriptions() without all: the items of the own attribute table (same function, first branch)'))


def _nad_loop(c):
    n = z3.Const('nl_n', Obj)
    D0, A = c.h0('$dict'), c.h('_InterfaceClass__attrs')
    iro = c.h('__iro__')[c.a.self]
    ln = L(iro)
    lo = ln - c.i
    k = fd(D0, A, iro, n, lo)
    r = c.h('$dict')[c.l.r]
    o = z3.Const('nl_o', Obj)
    return [('latest-processed-definer-wins', z3.ForAll([n], r[n] == z3.If(k < ln, D0[A[iro[k]]][n], ABSENT))),
            ('r-fresh', z3.Not(c.h0('$alloc')[c.l.r])),
            ('tables-untouched', z3.ForAll([o], z3.Implies(c.h0('$alloc')[o], c.h('$dict')[o] == c.h0('$dict')[o])))]


def _nad_post(c):
    n = z3.Const('np_n', Obj)
    f = first(c, c.a.self, n, False)
    return [('description-of-first-definer-along-iro', z3.Implies(c.a.all, z3.ForAll([n], z3.If(
        f != NONE, c.res[n] == f, c.res[n] == ABSENT))))]


def _dict_of(ex, node, st):
    """dict(x.namesAndDescriptions()): a copy of the callee's table"""
    out = []
    for s, v in ex.ev(node.args[0], st):
        r = ex.fresh_ref(s, 'dict')
        ex.set_dictval(s, r, ex.dictval(s, v.t))
        out.append((s, V(DICT, r)))
    return out


reg.add(Proc(
    I + 'InterfaceClass.namesAndDescriptions', [('self', OBJ), ('all', BOOL)],
    source='interface.py:InterfaceClass.namesAndDescriptions', classname='InterfaceClass', result=Ty('items'),
    calls={'iface.namesAndDescriptions': I + 'virtual.namesAndDescriptions', 'dict': _dict_of},
    requires=lambda c: [('tables', tables_ok(c, c.a.self)),
                        ('no-None-descriptions', z3.ForAll([z3.Int('q_j'), z3.Const('q_n', Obj)], z3.Implies(
                            z3.And(0 <= z3.Int('q_j'), z3.Int('q_j') < L(c.h('__iro__')[c.a.self])),
                            c.h('$dict')[c.h('_InterfaceClass__attrs')[c.h('__iro__')[c.a.self][z3.Int('q_j')]]][z3.Const('q_n', Obj)] != NONE)))],
    modifies=['$dict', '$alloc'], ensures=_nad_post, loops={'L0': Loop(_nad_loop)},
))

# ------------------------------------------------------------------ tagged values
def dtag(c, J, tag, default, now=True):
    h = c.h if now else c.h0
    tv = h('_Element__tagged_values')[J]
    v = h('$dict')[tv][tag]
    return z3.If(z3.And(tv != NONE, v != ABSENT), v, default)


reg.add(Proc(I + 'Element.queryTaggedValue', [('self', OBJ), ('tag', OBJ), ('default', OBJ)],
             source='interface.py:Element.queryTaggedValue', classname='Element', result=OBJ, defaults={'default': VNONE},
             ensures=lambda c: [('direct-tag-or-default', c.res == dtag(c, c.a.self, c.a.tag, c.a.default))]))

ft = z3.Function('first_tagged_from', DS, FS, SeqO, Obj, Int, Int)
T_ = z3.Const('T_', FS)


def hastag(D, T, iro, tag, j):
    tv = z3.Select(T, iro[j])
    return z3.And(tv != NONE, z3.Select(z3.Select(D, tv), tag) != ABSENT)


_g = ft(D_, T_, iro_, n_, lo_)
reg.axiom('ft-range', z3.ForAll([D_, T_, iro_, n_, lo_], z3.Implies(z3.And(0 <= lo_, lo_ <= L(iro_)),
                                                                     z3.And(lo_ <= _g, _g <= L(iro_))), patterns=[_g]))
reg.axiom('ft-hit', z3.ForAll([D_, T_, iro_, n_, lo_], z3.Implies(z3.And(0 <= lo_, _g < L(iro_)), hastag(D_, T_, iro_, n_, _g)),
                              patterns=[_g]))
reg.axiom('ft-least', z3.ForAll([D_, T_, iro_, n_, lo_, j_], z3.Implies(
    z3.And(0 <= lo_, lo_ <= j_, j_ < _g), z3.Not(hastag(D_, T_, iro_, n_, j_))), patterns=[z3.MultiPattern(_g, iro_[j_])]))


def first_tag(c, Iface, tag, default):
    D, T = c.h0('$dict'), c.h0('_Element__tagged_values')
    iro = c.h0('__iro__')[Iface]
    k = ft(D, T, iro, tag, 0)
    return z3.If(k < L(iro), D[T[iro[k]]][tag], default)


def no_marker_values(c):
    j = z3.Int('nm_j')
    t = z3.Const('nm_t', Obj)
    iro = c.h('__iro__')[c.a.self]
    T = c.h('_Element__tagged_values')
    return z3.ForAll([j, t], z3.Implies(z3.And(0 <= j, j < L(iro)), z3.And(iro[j] != NONE, c.h('$dict')[T[iro[j]]][t] != MARKER)))


reg.add(Proc(
    I + 'InterfaceClass.queryTaggedValue', [('self', OBJ), ('tag', OBJ), ('default', OBJ)],
    source='interface.py:InterfaceClass.queryTaggedValue', result=OBJ, globals={'_marker': V(OBJ, MARKER)}, defaults={'default': VNONE},
    calls={'iface.queryDirectTaggedValue': I + 'Element.queryTaggedValue'},
    requires=lambda c: [('marker-is-private', no_marker_values(c))],
    ensures=lambda c: [('nearest-interface-in-iro-wins', c.res == first_tag(c, c.a.self, c.a.tag, c.a.default))],
    loops={'L0': Loop(lambda c: [('no-earlier-interface-has-the-tag', z3.ForAll([z3.Int('tq_j')], z3.Implies(
        z3.And(0 <= z3.Int('tq_j'), z3.Int('tq_j') < c.i),
        z3.Not(hastag(c.h('$dict'), c.h('_Element__tagged_values'), c.h('__iro__')[c.a.self], c.a.tag, z3.Int('tq_j'))))))])},
))
reg.add(Proc(
    I + 'InterfaceClass.getTaggedValue', [('self', OBJ), ('tag', OBJ)], source='interface.py:InterfaceClass.getTaggedValue',
    result=OBJ, globals={'_marker': V(OBJ, MARKER)}, calls={'self.queryTaggedValue': I + 'InterfaceClass.queryTaggedValue'},
    requires=lambda c: [('marker-is-private', no_marker_values(c))],
    raises={'KeyError': (lambda c: first_tag(c, c.a.self, c.a.tag, MARKER) == MARKER, lambda c: [])},
    ensures=lambda c: [('nearest-interface-in-iro-wins', c.res == first_tag(c, c.a.self, c.a.tag, MARKER))]))


# ------------------------------------------------------------------ invariants: every invariant of every interface of __iro__, in order
reg.fields['$calls'] = SeqO
INVS = z3.Function('direct_invariants', Obj, SeqO)              # iface.queryDirectTaggedValue('invariants', ())
FAILS = z3.Function('invariant_raises_Invalid', Obj, Obj, z3.BoolSort())
ERR = z3.Function('invariant_error', Obj, Obj, Obj)
inv_ev = z3.Function('invariant_call', Obj, Obj, Obj)
reg.assumptions.append('invariants are external calls that either return or raise Invalid (oracle per (invariant, object)); they do not '
                       'change __iro__ or the tagged values')
# all_calls(iro, obj, k): the calls of every invariant of iro[:k], in order;  calls_of(s, obj, k): of the first k invariants of one list
calls_of = z3.Function('calls_of_first_invariants', SeqO, Obj, Int, SeqO)
all_calls = z3.Function('calls_of_invariants_of_first_interfaces', SeqO, Obj, Int, SeqO)
errs_of = z3.Function('errors_of_first_invariants', SeqO, Obj, Int, SeqO)
all_errs = z3.Function('errors_of_invariants_of_first_interfaces', SeqO, Obj, Int, SeqO)
_vs, _vo = z3.Const('vi_s', SeqO), z3.Const('vi_o', Obj)
_vk = z3.Int('vi_k')
reg.axiom('calls_of-0', z3.ForAll([_vs, _vo], calls_of(_vs, _vo, 0) == Empty(SeqO), patterns=[calls_of(_vs, _vo, 0)]))
reg.axiom('calls_of-step', z3.ForAll([_vs, _vo, _vk], z3.Implies(z3.And(0 <= _vk, _vk < L(_vs)), calls_of(_vs, _vo, _vk + 1) == Concat(
    calls_of(_vs, _vo, _vk), Unit(inv_ev(_vs[_vk], _vo)))), patterns=[calls_of(_vs, _vo, _vk + 1)]))
reg.axiom('errs_of-0', z3.ForAll([_vs, _vo], errs_of(_vs, _vo, 0) == Empty(SeqO), patterns=[errs_of(_vs, _vo, 0)]))
reg.axiom('errs_of-step', z3.ForAll([_vs, _vo, _vk], z3.Implies(z3.And(0 <= _vk, _vk < L(_vs)), errs_of(_vs, _vo, _vk + 1) == z3.If(
    FAILS(_vs[_vk], _vo), Concat(errs_of(_vs, _vo, _vk), Unit(ERR(_vs[_vk], _vo))), errs_of(_vs, _vo, _vk))), patterns=[errs_of(_vs, _vo, _vk + 1)]))
reg.axiom('all_calls-0', z3.ForAll([_vs, _vo], all_calls(_vs, _vo, 0) == Empty(SeqO), patterns=[all_calls(_vs, _vo, 0)]))
reg.axiom('all_calls-step', z3.ForAll([_vs, _vo, _vk], z3.Implies(z3.And(0 <= _vk, _vk < L(_vs)), all_calls(_vs, _vo, _vk + 1) == Concat(
    all_calls(_vs, _vo, _vk), calls_of(INVS(_vs[_vk]), _vo, L(INVS(_vs[_vk]))))), patterns=[all_calls(_vs, _vo, _vk + 1)]))
reg.axiom('all_errs-0', z3.ForAll([_vs, _vo], all_errs(_vs, _vo, 0) == Empty(SeqO), patterns=[all_errs(_vs, _vo, 0)]))
reg.axiom('all_errs-step', z3.ForAll([_vs, _vo, _vk], z3.Implies(z3.And(0 <= _vk, _vk < L(_vs)), all_errs(_vs, _vo, _vk + 1) == Concat(
    all_errs(_vs, _vo, _vk), errs_of(INVS(_vs[_vk]), _vo, L(INVS(_vs[_vk]))))), patterns=[all_errs(_vs, _vo, _vk + 1)]))


_vi = z3.Int('vi_i')
reg.induct('a-failing-invariant-shows-in-the-errors-of-its-interface', [_vs, _vo], _vk,
           lambda k: z3.Implies(k <= L(_vs), z3.ForAll([_vi], z3.Implies(z3.And(0 <= _vi, _vi < k, FAILS(_vs[_vi], _vo)),
                                                                       L(errs_of(_vs, _vo, k)) > 0))),
           patterns=[errs_of(_vs, _vo, _vk)])
reg.induct('errors-of-an-interface-show-in-the-errors-of-the-order', [_vs, _vo], _vk,
           lambda k: z3.Implies(k <= L(_vs), z3.ForAll([_vi], z3.Implies(
               z3.And(0 <= _vi, _vi < k, L(errs_of(INVS(_vs[_vi]), _vo, L(INVS(_vs[_vi])))) > 0), L(all_errs(_vs, _vo, k)) > 0))),
           patterns=[all_errs(_vs, _vo, _vk)])


def _direct_invs(ex, node, st, vals):
    return [(st, V(SEQO, INVS(vals[0].t)))]


def _call_invariant(ex, node, st, vals):
    f, o = vals[0].t, box(vals[1])
    st.heap.set('$calls', Concat(st.heap.get('$calls'), Unit(inv_ev(f, o))))
    bad = st.clone()
    bad.assume(FAILS(f, o))
    ex.raise_(bad, 'Invalid', vobj(ERR(f, o)))
    st.assume(z3.Not(FAILS(f, o)))
    return [(st, VNONE)]


def _new_invalid(ex, node, st, vals):
    return [(st, vobj(z3.Function('Invalid_of', Obj, Obj)(box(vals[0]))))]


def _vi_outer(c):
    iro = c.h('__iro__')[c.a.self]
    out = [('index-in-range', c.i <= L(iro)),
           ('every-invariant-of-the-interfaces-visited-was-called-in-order', SeqEq(c.h('$calls'), Concat(c.h0('$calls'), all_calls(iro, c.a.obj, c.i))))]
    return out + _vi_errs(c, all_errs(iro, c.a.obj, c.i))


def _vi_errs(c, sofar):
    return [('failures-collected-so-far', z3.Implies(c.a.errors != NONE, SeqEq(c.h('$list')[c.a.errors], Concat(c.h0('$list')[c.a.errors], sofar)))),
            ('without-a-list-nothing-failed-so-far', z3.Implies(c.a.errors == NONE, L(sofar) == 0)),
            ('other-lists-untouched', ForAllP([z3.Const('ve_o', Obj)], z3.Implies(z3.Const('ve_o', Obj) != c.a.errors,
                                      c.h('$list')[z3.Const('ve_o', Obj)] == c.h0('$list')[z3.Const('ve_o', Obj)]), []))]


def _vi_inner(c):
    iro = c.h('__iro__')[c.a.self]
    k = c.l['$i_L0']
    invs = INVS(iro[k])
    return [('index-in-range', z3.And(c.i <= L(invs), k < L(iro), 0 <= k)),
            ('calls-so-far', SeqEq(c.h('$calls'), Concat(c.h0('$calls'), all_calls(iro, c.a.obj, k), calls_of(invs, c.a.obj, c.i))))] + \
        _vi_errs(c, Concat(all_errs(iro, c.a.obj, k), errs_of(invs, c.a.obj, c.i)))


def _vi_post(c):
    iro = c.h0('__iro__')[c.a.self]
    return [('every-invariant-of-every-interface-in-__iro__-ran-in-order', SeqEq(c.h('$calls'), Concat(c.h0('$calls'), all_calls(iro, c.a.obj, L(iro))))),
            ('nothing-failed', z3.And(L(all_errs(iro, c.a.obj, L(iro))) == 0,
                                      z3.Implies(c.a.errors != NONE, L(c.h0('$list')[c.a.errors]) == 0)))]


def _vi_raises(c):
    iro = c.h0('__iro__')[c.a.self]
    return z3.Or(L(all_errs(iro, c.a.obj, L(iro))) > 0, z3.And(c.a.errors != NONE, L(c.h0('$list')[c.a.errors]) > 0))


def _vi_rpost(c):
    iro = c.h0('__iro__')[c.a.self]
    return [('given-a-list-every-invariant-still-ran-and-all-failures-were-collected', z3.Implies(c.a.errors != NONE, z3.And(
        SeqEq(c.h('$calls'), Concat(c.h0('$calls'), all_calls(iro, c.a.obj, L(iro)))),
        SeqEq(c.h('$list')[c.a.errors], Concat(c.h0('$list')[c.a.errors], all_errs(iro, c.a.obj, L(iro)))))))]


reg.add(Proc(I + 'InterfaceClass.validateInvariants', [('self', OBJ), ('obj', OBJ), ('errors', LISTO)],
             source='interface.py:InterfaceClass.validateInvariants', defaults={'errors': VNONE},
             opaque_calls={'.queryDirectTaggedValue': lambda ex, node, st, vals: _direct_invs(ex, node, st, vals), 'invariant': _call_invariant,
                           'Invalid': _new_invalid},
             locals={'$nomerge': True}, modifies=['$calls', '$list'],
             raises={'Invalid': (_vi_raises, _vi_rpost)}, ensures=_vi_post,
             loops={'L0': Loop(_vi_outer), 'L0.0': Loop(_vi_inner)}))


# ------------------------------------------------------------------ getTaggedValueTags: the union of the direct tags along __iro__
def has_direct_tag(c, J, t, now=True):
    h = c.h if now else c.h0
    tv = h('_Element__tagged_values')[J]
    return z3.And(tv != NONE, h('$dict')[tv][t] != ABSENT)


def _direct_tags(ex, node, st, vals):
    """base.getDirectTaggedValueTags(): the keys of the element's own tagged values (Element.getTaggedValueTags), as a set view"""
    J = vals[0].t
    tv = ex.read_field(st, J, '_Element__tagged_values').t
    m = fresh('direct_tags', ObjMap)
    k = z3.Const('dt_k', Obj)
    st.assume(z3.ForAll([k], (z3.Select(m, k) != ABSENT) == z3.And(tv != NONE, z3.Select(z3.Select(st.heap.get('$dict'), tv), k) != ABSENT),
                        patterns=[z3.Select(m, k)]))
    return [(st, V(Ty('items'), m))]


def _tags_inv(c):
    iro = c.h('__iro__')[c.a.self]
    t = z3.Const('ti_t', Obj)
    j = z3.Int('ti_j')
    keys = c.h('$dict')[c.l['keys']]
    return [('tags-of-the-interfaces-visited', ForAllP([t], (keys[t] != ABSENT) == z3.Exists([j], z3.And(0 <= j, j < c.i, has_direct_tag(c, iro[j], t))), [])),
            ('nothing-else-changes', ForAllP([z3.Const('ti_o', Obj)], z3.Implies(c.h0('$alloc')[z3.Const('ti_o', Obj)],
                                     c.h('$dict')[z3.Const('ti_o', Obj)] == c.h0('$dict')[z3.Const('ti_o', Obj)]), [])),
            ('keys-is-new', z3.Not(c.h0('$alloc')[c.l['keys']]))]


reg.add(Proc(I + 'InterfaceClass.getTaggedValueTags', [('self', OBJ)], source='interface.py:InterfaceClass.getTaggedValueTags',
             result=DICT, opaque_calls={'.getDirectTaggedValueTags': _direct_tags}, locals={'keys': DICT},
             modifies=['$dict', '$alloc'],
             requires=lambda c: [('tagged-value-tables-are-allocated', ForAllP([z3.Const('tt_o', Obj)], z3.Implies(
                 c.h('_Element__tagged_values')[z3.Const('tt_o', Obj)] != NONE, c.h('$alloc')[c.h('_Element__tagged_values')[z3.Const('tt_o', Obj)]]), []))],
             ensures=lambda c: [('exactly-the-tags-some-interface-of-__iro__-carries-directly', ForAllP([z3.Const('tp_t', Obj)], (
                 c.h('$dict')[c.res][z3.Const('tp_t', Obj)] != ABSENT) == z3.Exists([z3.Int('tp_j')], z3.And(
                     0 <= z3.Int('tp_j'), z3.Int('tp_j') < L(c.h('__iro__')[c.a.self]),
                     has_direct_tag(c, c.h('__iro__')[c.a.self][z3.Int('tp_j')], z3.Const('tp_t', Obj), False))), []))],
             loops={'L0': Loop(_tags_inv)}))


# ------------------------------------------------------------------ names(all=True) / iter: own names plus the names of every base (recursion by contract)
NA = z3.Function('names_all', Obj, ObjMap)             # names(all=True) of a base, as a set (the recursive call, by its own contract)
reg.fields['_bases'] = SEQO


def _base_names(ex, node, st, vals):
    """base.names(all): by this very contract, the set NA(base) when all is true"""
    return [(st, V(Ty('items'), NA(vals[0].t)))]


def _fromkeys(ex, node, st):
    out = []
    for s, vs in ex.ev_list(node.args, st):
        r = ex.fresh_ref(s, 'dict')
        src = vs[0].t
        m = fresh('fromkeys', ObjMap)
        k = z3.Const('fk_k', Obj)
        s.assume(z3.ForAll([k], (z3.Select(m, k) != ABSENT) == (z3.Select(src, k) != ABSENT), patterns=[z3.Select(m, k)]))
        ex.set_dictval(s, r, m)
        out.append((s, V(DICT, r)))
    return out


def own_names(c, now=True):
    h = c.h if now else c.h0
    return h('$dict')[h('_InterfaceClass__attrs')[c.a.self]]


def _names_inv(c):
    n = z3.Const('ni_n', Obj)
    j = z3.Int('ni_j')
    bases = c.h('_bases')[c.a.self]
    r = c.h('$dict')[c.l['r']]
    return [('own-names-and-those-of-the-bases-visited', ForAllP([n], (r[n] != ABSENT) == z3.Or(
        own_names(c, False)[n] != ABSENT, z3.Exists([j], z3.And(0 <= j, j < c.i, NA(bases[j])[n] != ABSENT))), [])),
        ('nothing-else-changes', ForAllP([z3.Const('ni_o', Obj)], z3.Implies(c.h0('$alloc')[z3.Const('ni_o', Obj)],
                                 c.h('$dict')[z3.Const('ni_o', Obj)] == c.h0('$dict')[z3.Const('ni_o', Obj)]), [])),
        ('r-is-new', z3.And(z3.Not(c.h0('$alloc')[c.l['r']]), c.h('$alloc')[c.l['r']])),
        ('allocation-only-grows', ForAllP([z3.Const('ni_o', Obj)], z3.Implies(c.h0('$alloc')[z3.Const('ni_o', Obj)], c.h('$alloc')[z3.Const('ni_o', Obj)]), []))]


def _names_post(c):
    n = z3.Const('np_n', Obj)
    j = z3.Int('np_j')
    bases = c.h('_bases')[c.a.self]
    return [('own-names-only-unless-all', z3.Implies(z3.Not(c.a.all), ForAllP([n], Contains(c.res, n) == (own_names(c, False)[n] != ABSENT), []))),
            ('with-all-the-own-names-and-the-names-of-every-base', z3.Implies(c.a.all, ForAllP([n], Contains(c.res, n) == z3.Or(
                own_names(c, False)[n] != ABSENT, z3.Exists([j], z3.And(0 <= j, j < L(bases), NA(bases[j])[n] != ABSENT))), []))),
            ('the-attribute-table-is-untouched', own_names(c) == own_names(c, False))]


reg.add(Proc(I + 'InterfaceClass.names', [('self', OBJ), ('all', BOOL)], source='interface.py:InterfaceClass.names', result=SEQO,
             classname='InterfaceClass', attr_alias={'__bases__': '_bases'},
             calls={'dict.fromkeys': _fromkeys}, opaque_calls={'.names': _base_names}, locals={'r': DICT},
             modifies=['$dict', '$alloc'],
             requires=lambda c: [('the-attribute-table-exists', z3.And(c.h('_InterfaceClass__attrs')[c.a.self] != NONE,
                                                                       c.h('$alloc')[c.h('_InterfaceClass__attrs')[c.a.self]]))],
             ensures=_names_post, loops={'L0': Loop(_names_inv)}))
