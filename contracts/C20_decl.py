"""Contracts for the declaration algebra (property C20): iteration, membership, -.

ifs(S)      the interfaces a specification lists, in declaration order without duplicates:
              an interface lists itself, the empty declaration nothing, a declaration the
              de-duplicated concatenation of what its bases list (class specifications: declared then inherited)
"""
import z3

from zivc.core import *  # noqa
from zivc.spec import Loop, Proc, Registry
from zivc import symex

FIELDS = {'_bases': SEQO, '_implied': DICT}
symex.FIELD_ALIAS['__bases__'] = '_bases'
reg = Registry(FIELDS)
L = Length
Int = z3.IntSort()
B = z3.BoolSort()
SS = z3.ArraySort(Obj, SeqO)
D = 'declarations.py:'
I = 'interface.py:'

K_IFACE, K_EMPTY, K_DECL = 1, 2, 3
kind = z3.Function('spec_kind', Obj, Int)
ifs = z3.Function('ifs', SS, Obj, SeqO)
acc = z3.Function('ifs_acc', SS, Obj, Int, Int, SeqO)       # yielded after k whole bases and j elements of base k
Bs = z3.Const('Bs', SS)
X_ = z3.Const('X_', Obj)
k_, j_ = z3.Ints('k_ j_')


def bases_of(Bs, X):
    return z3.Select(Bs, X)


_bk = bases_of(Bs, X_)[k_]
_e = ifs(Bs, _bk)[j_]
reg.axiom('ifs-interface', z3.ForAll([Bs, X_], z3.Implies(kind(X_) == K_IFACE, ifs(Bs, X_) == Unit(X_)), patterns=[ifs(Bs, X_)]))
reg.axiom('ifs-empty', z3.ForAll([Bs, X_], z3.Implies(kind(X_) == K_EMPTY, ifs(Bs, X_) == Empty(SeqO)), patterns=[ifs(Bs, X_)]))
reg.axiom('ifs-declaration', z3.ForAll([Bs, X_], z3.Implies(kind(X_) == K_DECL,
          ifs(Bs, X_) == acc(Bs, X_, L(bases_of(Bs, X_)), 0)), patterns=[ifs(Bs, X_)]))
reg.axiom('acc-0', z3.ForAll([Bs, X_], acc(Bs, X_, 0, 0) == Empty(SeqO), patterns=[acc(Bs, X_, 0, 0)]))
reg.axiom('acc-element', z3.ForAll([Bs, X_, k_, j_], z3.Implies(
    z3.And(0 <= k_, k_ < L(bases_of(Bs, X_)), 0 <= j_, j_ < L(ifs(Bs, _bk))),
    acc(Bs, X_, k_, j_ + 1) == z3.If(Contains(acc(Bs, X_, k_, j_), _e), acc(Bs, X_, k_, j_),
                                     Concat(acc(Bs, X_, k_, j_), Unit(_e)))), patterns=[acc(Bs, X_, k_, j_ + 1)]))
reg.axiom('acc-next-base', z3.ForAll([Bs, X_, k_], z3.Implies(
    z3.And(0 <= k_, k_ < L(bases_of(Bs, X_))),
    acc(Bs, X_, k_ + 1, 0) == acc(Bs, X_, k_, L(ifs(Bs, _bk)))), patterns=[acc(Bs, X_, k_ + 1, 0)]))
reg.assumptions.append('interfaces used as members of one declaration are pairwise unequal unless identical (dict keys / `in` by identity)')

# the virtual interfaces(): every override present in /repo is verified against ifs()
reg.add(Proc(I + 'virtual.interfaces', [('self', OBJ)], result=SEQO,
             ensures=lambda c: [c.res == ifs(c.h('_bases'), c.a.self)],
             note='virtual: InterfaceClass.interfaces, Specification.interfaces, _ImmutableDeclaration.interfaces verified below'))
reg.add(Proc(I + 'InterfaceClass.interfaces', [('self', OBJ)], source='interface.py:InterfaceClass.interfaces', result=SEQO,
             requires=lambda c: [kind(c.a.self) == K_IFACE],
             ensures=lambda c: [('lists-itself', SeqEq(c.res, ifs(c.h('_bases'), c.a.self)))]))


def _iter_empty(ex, node, st):
    return [(st, V(SEQO, Empty(SeqO)))]


reg.add(Proc(D + '_ImmutableDeclaration.interfaces', [('self', OBJ)], source='declarations.py:_ImmutableDeclaration.interfaces',
             result=SEQO, calls={'iter': _iter_empty}, requires=lambda c: [kind(c.a.self) == K_EMPTY],
             ensures=lambda c: [('lists-nothing', SeqEq(c.res, ifs(c.h('_bases'), c.a.self)))]))


def seen_is(c, seq):
    x = z3.Const('sn_x', Obj)
    m = c.h('$dict')[c.l.seen]
    return z3.ForAll([x], (m[x] != ABSENT) == Contains(seq, x))


def _sp_L0(c):
    y = c.l['$yield']
    return [('yielded-after-k-bases', y == acc(c.h('_bases'), c.a.self, c.i, 0)), ('seen-is-yielded', seen_is(c, y)),
            ('seen-fresh', z3.Not(c.h0('$alloc')[c.l.seen])),
            ('older-dicts', z3.ForAll([z3.Const('o', Obj)], z3.Implies(c.h0('$alloc')[z3.Const('o', Obj)],
                            c.h('$dict')[z3.Const('o', Obj)] == c.h0('$dict')[z3.Const('o', Obj)])))]


def _sp_L00(c):
    y = c.l['$yield']
    return [('yielded-after-j-elements', y == acc(c.h('_bases'), c.a.self, OUTER(c), c.i)), ('seen-is-yielded', seen_is(c, y)),
            ('seen-fresh', z3.Not(c.h0('$alloc')[c.l.seen])),
            ('older-dicts', z3.ForAll([z3.Const('o', Obj)], z3.Implies(c.h0('$alloc')[z3.Const('o', Obj)],
                            c.h('$dict')[z3.Const('o', Obj)] == c.h0('$dict')[z3.Const('o', Obj)])))]


def OUTER(c):
    """index of the outer loop: position of `base` among the bases -- recovered from the invariant variable"""
    return c.l['$i_L0']


reg.add(Proc(
    I + 'Specification.interfaces', [('self', OBJ)], source='interface.py:Specification.interfaces', result=SEQO,
    calls={'base.interfaces': I + 'virtual.interfaces'}, modifies=['$dict', '$alloc'],
    requires=lambda c: [kind(c.a.self) == K_DECL],
    ensures=lambda c: [('declaration-order-without-duplicates', SeqEq(c.res, ifs(c.h('_bases'), c.a.self)))],
    loops={'L0': Loop(_sp_L0), 'L0.0': Loop(_sp_L00)},
))

# ------------------------------------------------------------------ extends, __contains__, flattened, __sub__
def implied_has(c, S, x, now=True):
    h = c.h if now else c.h0
    return h('$dict')[h('_implied')[S]][x] != ABSENT


def ext_(c, S, x, strict, now=True):
    return z3.And(implied_has(c, S, x, now), z3.Or(z3.Not(strict), z3.Not(py_eq(S, x))))


reg.add(Proc(I + 'Specification.extends', [('self', OBJ), ('interface', OBJ), ('strict', BOOL)],
             source='interface.py:Specification.extends', result=BOOL, defaults={'strict': vbool(True)},
             pure_fn=lambda c: ext_(c, c.a.self, c.a.interface, c.a.strict),
             ensures=lambda c: [('implied-and-not-itself-when-strict', c.res == ext_(c, c.a.self, c.a.interface, c.a.strict))]))


def decl_inv(c, S):
    """what changed() establishes for a declaration: everything it lists is implied, and it equals none of them"""
    x = z3.Const('di_x', Obj)
    return z3.ForAll([x], z3.Implies(Contains(ifs(c.h('_bases'), S), x), z3.And(implied_has(c, S, x), z3.Not(py_eq(S, x)))))


reg.add(Proc(D + 'Declaration.__contains__', [('self', OBJ), ('interface', OBJ)], source='declarations.py:Declaration.__contains__',
             result=BOOL, calls={'self.extends': I + 'Specification.extends', 'self.interfaces': I + 'virtual.interfaces'},
             requires=lambda c: [('listed-interfaces-are-implied', decl_inv(c, c.a.self))],
             ensures=lambda c: [('member-iff-listed', c.res == Contains(ifs(c.h('_bases'), c.a.self), c.a.interface))]))

subf = z3.Function('sub_prefix', Obj, SeqO, SeqO, Int, SeqO)        # kept interfaces among the first k of A (heap token, A, B, k)
keeps = z3.Function('sub_keeps', Obj, Obj, SeqO, B)                 # i neither is nor extends an interface of B


def normal_(c, seq):
    """what Declaration(*bases) makes of its arguments: the leaves of the argument tree (bases,) in order -- the specification
    function `flat` of _normalizeargs (verified below), evaluated in the heap at entry"""
    return flat(c.h0('_bases'), box_seq(seq))

HT = z3.Const('heap_token', Obj)


def keeps_def(c, i, Bseq):
    j = z3.Int('kd_j')
    return z3.Not(z3.Exists([j], z3.And(0 <= j, j < L(Bseq), ext_(c, i, Bseq[j], z3.BoolVal(False)))))


_A, _Bq = z3.Consts('sf_A sf_B', SeqO)
reg.axiom('subf-0', z3.ForAll([_A, _Bq], subf(HT, _A, _Bq, 0) == Empty(SeqO), patterns=[subf(HT, _A, _Bq, 0)]))
reg.axiom('subf-step', z3.ForAll([_A, _Bq, k_], z3.Implies(z3.And(0 <= k_, k_ < L(_A)), subf(HT, _A, _Bq, k_ + 1) == z3.If(
    keeps(HT, _A[k_], _Bq), Concat(subf(HT, _A, _Bq, k_), Unit(_A[k_])), subf(HT, _A, _Bq, k_))), patterns=[subf(HT, _A, _Bq, k_ + 1)]))

reg.add(Proc(D + 'Declaration', [], varargs='bases', result=OBJ, trusted=True, modifies=['$alloc', '_bases', '_implied', '$dict'],
             ensures=lambda c: [z3.Not(c.h0('$alloc')[c.res]), c.res != NONE, kind(c.res) == K_DECL,
                                c.h('_bases') == z3.Store(c.h0('_bases'), c.res, normal_(c, c.a.bases)),
                                z3.ForAll([z3.Const('o', Obj)], z3.Implies(c.h0('$alloc')[z3.Const('o', Obj)], z3.And(
                                    c.h('$dict')[z3.Const('o', Obj)] == c.h0('$dict')[z3.Const('o', Obj)],
                                    c.h('_implied')[z3.Const('o', Obj)] == c.h0('_implied')[z3.Const('o', Obj)])))],
             note='Declaration(*bases): a fresh declaration whose bases are the normalised arguments (Declaration.__init__ verified below: _normalizeargs + Specification.__init__; __setBases, C02)'))


def _sub_K0(c):
    A, Bq = ifs(c.h0('_bases'), c.a.self), ifs(c.h0('_bases'), c.a.other)
    return [('kept-prefix', c.acc == subf(HT, A, Bq, c.i))]


def _sub_K1(c):
    Bq = ifs(c.h0('_bases'), c.a.other)
    j = z3.Int('k1_j')
    return [('nonempty-iff-some-extended', (L(c.acc) > 0) == z3.Exists([j], z3.And(
        0 <= j, j < c.i, ext_(c, c.l.i, Bq[j], z3.BoolVal(False)))))]


def _sub_ghost(c):
    """the definition of `keeps` for the heap at entry (heap token)"""
    i = z3.Const('sg_i', Obj)
    Bq = ifs(c.h('_bases'), c.a.other)
    return [z3.ForAll([i], keeps(HT, i, Bq) == keeps_def(c, i, Bq), patterns=[keeps(HT, i, Bq)])]


reg.add(Proc(
    D + 'Declaration.__sub__', [('self', OBJ), ('other', OBJ)], source='declarations.py:Declaration.__sub__', result=OBJ,
    calls={'self.interfaces': I + 'virtual.interfaces', 'other.interfaces': I + 'virtual.interfaces',
           'i.extends': I + 'Specification.extends', 'Declaration': D + 'Declaration'},
    locals={'$elt_K0': OBJ, '$elt_K1': OBJ}, ghost_pre=_sub_ghost,
    requires=lambda c: [('operands-exist', z3.And(c.h('$alloc')[c.a.self], c.h('$alloc')[c.a.other]))],
    modifies=['$alloc', '_bases', '_implied', '$dict'],
    ensures=lambda c: [
        ('keeps-in-order-exactly-what-neither-is-nor-extends-an-interface-of-B',
         c.h('_bases')[c.res] == normal_(c, subf(HT, ifs(c.h0('_bases'), c.a.self), ifs(c.h0('_bases'), c.a.other),
                                             L(ifs(c.h0('_bases'), c.a.self))))),
        ('fresh-result', z3.And(z3.Not(c.h0('$alloc')[c.res]), kind(c.res) == K_DECL)),
        ('operands-unchanged', z3.And(c.h('_bases')[c.a.self] == c.h0('_bases')[c.a.self],
                                      c.h('_bases')[c.a.other] == c.h0('_bases')[c.a.other]))],
    loops={'K0': Loop(_sub_K0), 'K1': Loop(_sub_K1)},
))

# ------------------------------------------------------------------ __add__
fr = z3.Function('extends_something_of_A', Obj, Obj, SeqO, B)       # (heap token, i, A): i strictly extends an interface of A
frontL = z3.Function('add_front', Obj, SeqO, SeqO, Int, SeqO)      # literal rule: new interfaces among B[:k] that extend something of A
backL = z3.Function('add_back', Obj, SeqO, SeqO, Int, SeqO)        # ... the other new interfaces among B[:k]
reg.axiom('front-0', z3.ForAll([_A, _Bq], z3.And(frontL(HT, _A, _Bq, 0) == Empty(SeqO), backL(HT, _A, _Bq, 0) == Empty(SeqO)),
                               patterns=[frontL(HT, _A, _Bq, 0)]))
_bk2 = _Bq[k_]
_new = z3.Not(Contains(_A, _bk2))
reg.axiom('front-step', z3.ForAll([_A, _Bq, k_], z3.Implies(z3.And(0 <= k_, k_ < L(_Bq)), z3.And(
    frontL(HT, _A, _Bq, k_ + 1) == z3.If(z3.And(_new, fr(HT, _bk2, _A)), Concat(frontL(HT, _A, _Bq, k_), Unit(_bk2)), frontL(HT, _A, _Bq, k_)),
    backL(HT, _A, _Bq, k_ + 1) == z3.If(z3.And(_new, z3.Not(fr(HT, _bk2, _A))), Concat(backL(HT, _A, _Bq, k_), Unit(_bk2)), backL(HT, _A, _Bq, k_)))),
    patterns=[frontL(HT, _A, _Bq, k_ + 1)]))
reg.axiom('back-step-trigger', z3.ForAll([_A, _Bq, k_], z3.Implies(z3.And(0 <= k_, k_ < L(_Bq)),
          backL(HT, _A, _Bq, k_ + 1) == z3.If(z3.And(_new, z3.Not(fr(HT, _bk2, _A))), Concat(backL(HT, _A, _Bq, k_), Unit(_bk2)), backL(HT, _A, _Bq, k_))),
          patterns=[backL(HT, _A, _Bq, k_ + 1)]))
# everything in the back part is a new interface of B (induction on k)
_y = z3.Const('ad_y', Obj)
reg.induct('back-from-B-not-in-A', [_A, _Bq], k_,
           lambda k: z3.ForAll([_y], z3.Implies(Contains(backL(HT, _A, _Bq, k), _y), z3.And(Contains(_Bq, _y), z3.Not(Contains(_A, _y)))),
                               patterns=[Contains(backL(HT, _A, _Bq, k), _y)]),
           side=lambda k: k <= L(_Bq), patterns=[backL(HT, _A, _Bq, k_)])


def fr_def(c, i, A):
    x = z3.Const('fd_x', Obj)
    return z3.Exists([x], z3.And(Contains(A, x), ext_(c, i, x, z3.BoolVal(True))))


def outside_region(c):
    """no new interface of B extends another new interface of B without also extending something of A"""
    i, x = z3.Consts('rg_i rg_x', Obj)
    A, Bq = ifs(c.h0('_bases'), c.a.self), ifs(c.h0('_bases'), c.a.other)
    return z3.ForAll([i, x], z3.Implies(z3.And(Contains(Bq, i), Contains(Bq, x), z3.Not(Contains(A, x)), z3.Not(Contains(A, i)),
                                               ext_(c, i, x, z3.BoolVal(True), False)), fr(HT, i, A)))


def _add_ghost(c):
    i = z3.Const('ag_i', Obj)
    A = ifs(c.h('_bases'), c.a.self)
    return [z3.ForAll([i], fr(HT, i, A) == fr_def(c, i, A), patterns=[fr(HT, i, A)])]


def _add_L0(c):
    A, Bq = ifs(c.h0('_bases'), c.a.self), ifs(c.h0('_bases'), c.a.other)
    x = z3.Const('al_x', Obj)
    o = z3.Const('al_o', Obj)
    return [('front-so-far-outside-region', z3.Implies(outside_region(c), SeqEq(c.h('$list')[c.l.before], frontL(HT, A, Bq, c.i)))),
            ('back-so-far-outside-region', z3.Implies(outside_region(c), SeqEq(c.h('$list')[c.l.result], Concat(A, backL(HT, A, Bq, c.i))))),
            ('seen-is-A-plus-prefix', z3.ForAll([x], (c.h('$dict')[c.l.seen][x] != ABSENT) == z3.Or(
                Contains(A, x), z3.Exists([z3.Int('al_j')], z3.And(0 <= z3.Int('al_j'), z3.Int('al_j') < c.i, Bq[z3.Int('al_j')] == x))))),
            ('locals-fresh', z3.And(z3.Not(c.h0('$alloc')[c.l.before]), z3.Not(c.h0('$alloc')[c.l.result]), z3.Not(c.h0('$alloc')[c.l.seen]),
                                    c.l.before != c.l.result)),
            ('older-heap', z3.ForAll([o], z3.Implies(c.h0('$alloc')[o], z3.And(c.h('$dict')[o] == c.h0('$dict')[o], c.h('$list')[o] == c.h0('$list')[o])))),
            ('bases-untouched', z3.And(c.h('_bases') == c.h0('_bases'), c.h('_implied') == c.h0('_implied')))]


def B_dedup(c):
    """interfaces() never yields an interface twice (postcondition of the de-duplicating generator)"""
    j, j2 = z3.Ints('bd_j bd_j2')
    Bq = ifs(c.h('_bases'), c.a.other)
    return z3.ForAll([j, j2], z3.Implies(z3.And(0 <= j, j < j2, j2 < L(Bq)), Bq[j] != Bq[j2]))


reg.add(Proc(
    D + 'Declaration.__add__', [('self', OBJ), ('other', OBJ)], source='declarations.py:Declaration.__add__', result=OBJ,
    calls={'self.interfaces': I + 'virtual.interfaces', 'other.interfaces': I + 'virtual.interfaces',
           'i.extends': I + 'Specification.extends', 'Declaration': D + 'Declaration'},
    ghost_pre=_add_ghost,
    requires=lambda c: [('operands-exist', z3.And(c.h('$alloc')[c.a.self], c.h('$alloc')[c.a.other])),
                        ('B-lists-nothing-twice', B_dedup(c)),
                        ('implied-mappings-exist', z3.ForAll([z3.Const('im_x', Obj)], c.h('$alloc')[c.h('_implied')[z3.Const('im_x', Obj)]]))],
    modifies=['$alloc', '_bases', '_implied', '$dict', '$list'],
    ensures=lambda c: [
        ('placement-literal-outside-the-recorded-region', z3.Implies(outside_region(c), c.h('_bases')[c.res] == normal_(c, Concat(
            frontL(HT, ifs(c.h0('_bases'), c.a.self), ifs(c.h0('_bases'), c.a.other), L(ifs(c.h0('_bases'), c.a.other))),
            Concat(ifs(c.h0('_bases'), c.a.self),
                   backL(HT, ifs(c.h0('_bases'), c.a.self), ifs(c.h0('_bases'), c.a.other), L(ifs(c.h0('_bases'), c.a.other)))))))),
        ('placement-literal', c.h('_bases')[c.res] == normal_(c, Concat(
            frontL(HT, ifs(c.h0('_bases'), c.a.self), ifs(c.h0('_bases'), c.a.other), L(ifs(c.h0('_bases'), c.a.other))),
            Concat(ifs(c.h0('_bases'), c.a.self),
                   backL(HT, ifs(c.h0('_bases'), c.a.self), ifs(c.h0('_bases'), c.a.other), L(ifs(c.h0('_bases'), c.a.other))))))),
        ('operands-unchanged', z3.And(c.h('_bases')[c.a.self] == c.h0('_bases')[c.a.self],
                                      c.h('_bases')[c.a.other] == c.h0('_bases')[c.a.other]))],
    loops={'L0': Loop(lambda c: _add_L0(c) + [('assume-region', z3.BoolVal(True))])},
))


# ------------------------------------------------------------------ _normalizeargs: the argument trees of the declaration calls
# leafy(x)       x is an interface or a class specification (InterfaceClass / Implements in the MRO of its class): kept as it is
# it(Bs, x)      what `for v in x` yields for the other arguments of the modelled shapes: the elements of a tuple, the
#                interfaces of a declaration (its __iter__ is interfaces(), contract above)
# flat(Bs, x)    the leaves of the argument tree in order:  [x] for a leaf, else the concatenation of flat(v) for v in it(x)
leafy = z3.Function('is_interface_or_class_specification', Obj, B)
mro_of = z3.Function('mro_of_class', Obj, SeqO)
IC_CLS, IMPL_CLS = classconst('InterfaceClass'), classconst('Implements')
flat = z3.Function('flattened_arguments', SS, Obj, SeqO)
flatk = z3.Function('flattened_arguments_of_first_elements', SS, Obj, Int, SeqO)
argrank = z3.Function('argument_tree_rank', Obj, Int)
_x2 = z3.Const('na_x', Obj)
_k2 = z3.Int('na_k')


def it(Bs_, x):
    return z3.If(is_seq(x), unbox_seq(x), ifs(Bs_, x))


reg.axiom('leafy-def', z3.ForAll([_x2], leafy(_x2) == z3.Or(Contains(mro_of(typeof(_x2)), IC_CLS), Contains(mro_of(typeof(_x2)), IMPL_CLS)),
                                 patterns=[leafy(_x2)]))
reg.axiom('flat-leaf', z3.ForAll([Bs, _x2], z3.Implies(leafy(_x2), flat(Bs, _x2) == Unit(_x2)), patterns=[flat(Bs, _x2)]))
reg.axiom('flat-inner', z3.ForAll([Bs, _x2], z3.Implies(z3.Not(leafy(_x2)), flat(Bs, _x2) == flatk(Bs, _x2, L(it(Bs, _x2)))),
                                  patterns=[flat(Bs, _x2)]))
reg.axiom('flatk-0', z3.ForAll([Bs, _x2], flatk(Bs, _x2, 0) == Empty(SeqO), patterns=[flatk(Bs, _x2, 0)]))
reg.axiom('flatk-step', z3.ForAll([Bs, _x2, _k2], z3.Implies(z3.And(0 <= _k2, _k2 < L(it(Bs, _x2))),
          flatk(Bs, _x2, _k2 + 1) == Concat(flatk(Bs, _x2, _k2), flat(Bs, it(Bs, _x2)[_k2]))), patterns=[flatk(Bs, _x2, _k2 + 1)]))
reg.assumptions.append('_normalizeargs: the arguments are interfaces, class specifications, tuples and declarations, arbitrarily nested and finite '
                       '(ghost rank); iterating a declaration yields its interfaces (contract of interfaces())')


def _na_iter(ex, st, term):
    return it(st.heap.get('_bases'), term)


def _na_out0(c):
    return z3.If(c.a.output == NONE, Empty(SeqO), c.h0('$list')[c.a.output])


def _na_L0(c):
    out = c.l.output
    o = z3.Const('na_o', Obj)
    return [('output-is-the-old-content-plus-the-leaves-of-the-first-k-elements', SeqEq(
        c.h('$list')[out], Concat(_na_out0(c), flatk(c.h0('_bases'), c.a.sequence, c.i)))),
        ('output-is-the-given-list-or-a-fresh-one', z3.If(c.a.output == NONE, z3.Not(c.h0('$alloc')[out]), out == c.a.output)),
        ('other-lists-untouched', ForAllP([o], z3.Implies(z3.And(c.h0('$alloc')[o], o != c.a.output), c.h('$list')[o] == c.h0('$list')[o]),
                                          patterns=[c.h('$list')[o]])),
        ('output-is-a-live-list', z3.And(c.h('$alloc')[out], is_list(out), out != NONE)),
        ('allocation-only-grows', ForAllP([o], z3.Implies(c.h0('$alloc')[o], c.h('$alloc')[o]), patterns=[c.h('$alloc')[o]])),
        ('declarations-untouched', c.h('_bases') == c.h0('_bases'))]


def _finite_trees(c):
    x = z3.Const('ft_x', Obj)
    k = z3.Int('ft_k')
    Bs_ = c.h('_bases')
    return ForAllP([x, k], z3.Implies(z3.And(z3.Not(leafy(x)), 0 <= k, k < L(it(Bs_, x))), argrank(it(Bs_, x)[k]) < argrank(x)),
                   patterns=[it(Bs_, x)[k]])


_na = Proc(
    D + '_normalizeargs', [('sequence', OBJ), ('output', LISTO)], source='declarations.py:_normalizeargs', result=LISTO,
    defaults={'output': V(LISTO, NONE)}, calls={'_normalizeargs': D + '_normalizeargs'},
    globals={'InterfaceClass': V(OBJ, IC_CLS), 'Implements': V(OBJ, IMPL_CLS)},
    dynattr={'__class__': lambda ex, node, st, recv: [(st, vobj(typeof(recv.t)))],
             '__mro__': lambda ex, node, st, recv: [(st, V(SEQO, mro_of(recv.t)))]},
    locals={'output': LISTO}, modifies=['$list', '$alloc'],
    requires=lambda c: [('output-is-a-list-of-its-own', z3.Or(c.a.output == NONE, z3.And(c.h('$alloc')[c.a.output], is_list(c.a.output)))),
                        ('finite-argument-trees', _finite_trees(c))],
    ensures=lambda c: [('appends-the-leaves-of-the-argument-tree-in-order', SeqEq(
        c.h('$list')[c.res], Concat(_na_out0(c), flat(c.h0('_bases'), c.a.sequence)))),
        ('returns-the-given-list-or-a-fresh-one', z3.If(c.a.output == NONE, z3.Not(c.h0('$alloc')[c.res]), c.res == c.a.output)),
        ('other-lists-untouched', ForAllP([z3.Const('na_o2', Obj)], z3.Implies(
            z3.And(c.h0('$alloc')[z3.Const('na_o2', Obj)], z3.Const('na_o2', Obj) != c.a.output),
            c.h('$list')[z3.Const('na_o2', Obj)] == c.h0('$list')[z3.Const('na_o2', Obj)]), patterns=[c.h('$list')[z3.Const('na_o2', Obj)]])),
        ('allocation-only-grows', ForAllP([z3.Const('na_o3', Obj)], z3.Implies(c.h0('$alloc')[z3.Const('na_o3', Obj)], c.h('$alloc')[z3.Const('na_o3', Obj)]),
                                          patterns=[c.h('$alloc')[z3.Const('na_o3', Obj)]])),
        ('the-result-is-a-live-list', z3.And(c.h('$alloc')[c.res], is_list(c.res), c.res != NONE)),
        ('declarations-untouched', c.h('_bases') == c.h0('_bases'))],
    loops={'L0': Loop(_na_L0)},
)
_na.iter_obj = _na_iter
reg.add(_na)


reg.axiom('a-tuple-is-no-interface', z3.ForAll([_x2], z3.Implies(is_seq(_x2), z3.Not(leafy(_x2))), patterns=[is_seq(_x2), leafy(_x2)]))


def _spec_init(ex, node, st):
    """Specification.__init__(self, bases): records tuple(bases) as the bases of the (new) specification (C02: __setBases,
    changed) -- assumed here"""
    out = []
    for s, vs in ex.ev_list(node.args, st):
        sq, _ = ex.seqterm(s, vs[1], node)
        ex.write_field(s, vs[0].t, '_bases', V(SEQO, sq))
        out.append((s, VNONE))
    return out


reg.add(Proc(
    D + 'Declaration.__init__', [('self', OBJ)], varargs='bases', source='declarations.py:Declaration.__init__',
    calls={'Specification.__init__': _spec_init, '_normalizeargs': D + '_normalizeargs'}, modifies=['_bases', '$list', '$alloc'],
    requires=lambda c: [('finite-argument-trees', _finite_trees(c))],
    ensures=lambda c: [('the-bases-are-the-leaves-of-the-argument-tree-in-order', SeqEq(c.h('_bases')[c.a.self], normal_(c, c.a.bases))),
                       ('other-declarations-untouched', ForAllP([z3.Const('di_o', Obj)], z3.Implies(
                           z3.Const('di_o', Obj) != c.a.self, c.h('_bases')[z3.Const('di_o', Obj)] == c.h0('_bases')[z3.Const('di_o', Obj)]),
                           patterns=[c.h('_bases')[z3.Const('di_o', Obj)]]))],
))
