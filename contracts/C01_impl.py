"""Contract for the Python implementedBy (property C01, also the fallback behind the C fast path of C10/C19).

Domain: classes of the modelled shapes (DESIGN 1.3) -- the class dictionary can be read, the class carries no old-style
``__implemented__`` declaration (tuple / single interface), attribute protocol faults other than the ones named are absent.
Super proxies are handed to _implementedBy_super (verified under C19).

stored(H, k)   the class specification on record for class k in heap H: the Implements in k's own dictionary, else the entry of
               BuiltinImplementationSpecifications, else nothing
implementedBy(k) returns stored(k) when there is one, and otherwise creates, RECORDS and returns a fresh class specification that
inherits from k and whose bases are the recorded specifications of k's base classes (created on the way, recursively).  It never
replaces a recorded specification and never touches an existing one.
"""
import ast

import z3

from zivc.core import *  # noqa
from zivc.spec import Loop, Proc, Registry
from zivc import symex

FIELDS = {'__dict__': DICT, '__bases__cls': SEQO, '_bases': SEQO, 'inherit': OBJ, 'declared': SEQO, '__implemented__': OBJ,
          '__class__': OBJ, '__name__': OBJ}
reg = Registry(FIELDS)
L = Length
D = 'declarations.py:'
B = z3.BoolSort()
Int = z3.IntSort()
IMPLCLS = classconst('Implements')
SUPERCLS = classconst('super')
TYPECLS = classconst('type')
BIS = z3.Const('BuiltinImplementationSpecifications', Obj)
EMPTYDECL = z3.Const('declarations_empty', Obj)
OSD = z3.Const('objectSpecificationDescriptor', Obj)
KEY = box_name(strlit('__implemented__'))
dict_raises = z3.Function('class_dict_access_raises_AttributeError', Obj, B)
has_bases = z3.Function('hasattr___bases__', Obj, B)
rejects = z3.Function('setting_attributes_raises_TypeError', Obj, B)      # builtin types and the like
clsrank = z3.Function('class_rank', Obj, Int)                              # ghost: base classes have a smaller rank
SUPER_RES = z3.Function('implementedBy_super_result', Obj, Obj)
reg.axiom('constants', z3.And(BIS != NONE, EMPTYDECL != NONE, is_dict(BIS), z3.Not(subtype(typeof(NONE), IMPLCLS))))
reg.assumptions.append('implementedBy (Python): classes of the modelled shapes -- readable class dictionary, no old-style __implemented__ '
                       'declaration, setting an attribute either works or raises TypeError at the first attempt (builtin types); '
                       'ClassProvides(...) and _implements_name by assumed contracts; class hierarchies are finite and the metaclass of a class that takes attributes ranks below it (ghost rank: no class is asked about while its own specification is being built)')


def is_impl(x):
    return z3.And(x != NONE, x != ABSENT, subtype(typeof(x), IMPLCLS))


def own(Dh, DD, k):
    """the entry '__implemented__' of the class's own dictionary (ABSENT if none)"""
    return z3.Select(z3.Select(Dh, z3.Select(DD, k)), KEY)


def stored(Dh, DD, k):
    o = own(Dh, DD, k)
    b = z3.Select(z3.Select(Dh, BIS), k)
    return z3.If(is_impl(o), o, z3.If(z3.And(o == ABSENT, b != ABSENT, b != NONE), b, ABSENT))


def st_now(c, k):
    return stored(c.h('$dict'), c.h('__dict__'), k)


def st_old(c, k):
    return stored(c.h0('$dict'), c.h0('__dict__'), k)


def domain(c, now=True):
    """every class of the hierarchy is of the modelled shape (checked again at every recursive call)"""
    h = c.h if now else c.h0
    k = z3.Const('dm_k', Obj)
    o = own(h('$dict'), h('__dict__'), k)
    return ForAllP([k], z3.And(
        z3.Not(dict_raises(k)), z3.Or(o == ABSENT, is_impl(o)), h('__dict__')[k] != BIS, h('__dict__')[k] != NONE,
        z3.Implies(z3.Select(z3.Select(h('$dict'), BIS), k) != ABSENT, is_impl(z3.Select(z3.Select(h('$dict'), BIS), k)))),
        patterns=[h('__dict__')[k]])


def class_dicts_distinct(c, now=True):
    h = c.h if now else c.h0
    a, b = z3.Consts('cd_a cd_b', Obj)
    return ForAllP([a, b], z3.Implies(a != b, h('__dict__')[a] != h('__dict__')[b]),
                   patterns=[z3.MultiPattern(h('__dict__')[a], h('__dict__')[b])])


def only_below(c, top):
    """specifications are only recorded for classes at or below the class that was asked for (ghost rank)"""
    k = z3.Const('ob_k', Obj)
    return ForAllP([k], z3.Implies(z3.And(st_old(c, k) == ABSENT, st_now(c, k) != ABSENT), clsrank(k) <= clsrank(top)),
                   patterns=[c.h('__dict__')[k]])


def mono(c):
    """a recorded specification is never replaced, existing specifications are never touched, class dictionaries stay where they are"""
    k = z3.Const('mo_k', Obj)
    s = z3.Const('mo_s', Obj)
    return z3.And(
        ForAllP([k], z3.Implies(st_old(c, k) != ABSENT, st_now(c, k) == st_old(c, k)), patterns=[c.h('__dict__')[k]]),
        ForAllP([s], z3.Implies(c.h0('$alloc')[s], z3.And(c.h('_bases')[s] == c.h0('_bases')[s], c.h('inherit')[s] == c.h0('inherit')[s],
                                                        c.h('declared')[s] == c.h0('declared')[s])), patterns=[c.h('_bases')[s]]),
        c.h('__dict__') == c.h0('__dict__'), c.h('__bases__cls') == c.h0('__bases__cls'),
        ForAllP([s], z3.Implies(c.h0('$alloc')[s], c.h('$alloc')[s]), patterns=[c.h('$alloc')[s]]))


# ------------------------------------------------------------------ models of the dynamic pieces
def _dict_attr(ex, node, st, recv):
    a = st.clone()
    a.assume(dict_raises(recv.t))
    ex.raise_(a, 'AttributeError')
    st.assume(z3.Not(dict_raises(recv.t)))
    return [(st, V(DICT, st.heap.get('__dict__')[recv.t]))]


def _bases_attr(ex, node, st, recv):
    a = st.clone()
    a.assume(z3.Not(has_bases(recv.t)))
    ex.raise_(a, 'AttributeError')
    st.assume(has_bases(recv.t))
    return [(st, V(SEQO, st.heap.get('__bases__cls')[recv.t]))]


def _set_implemented(ex, tgt, st, recv, v):
    """cls.__implemented__ = spec: TypeError for classes that take no attributes, else the entry of the class dictionary"""
    bad = st.clone()
    bad.assume(rejects(recv.t))
    ex.raise_(bad, 'TypeError')
    st.assume(z3.Not(rejects(recv.t)))
    d = st.heap.get('__dict__')[recv.t]
    ex.set_dictval(st, d, z3.Store(ex.dictval(st, d), KEY, box(v)))


def _set_ignored(ex, tgt, st, recv, v):
    """cls.__providedBy__ = ... / cls.__provides__ = ...: no effect on what implementedBy records"""
    return None


def _del_implemented(ex, stmt, st, recv):
    d = st.heap.get('__dict__')[recv.t]
    ex.set_dictval(st, d, z3.Store(ex.dictval(st, d), KEY, ABSENT))
    return [(st, symex.Out(symex.FALL))]


symex.DELATTR.setdefault('__implemented__', _del_implemented)


def _named(ex, node, st):
    """Implements.named(name, *bases): a fresh class specification with exactly those bases (all of them class specifications
    here, which _normalizeargs keeps as they are -- C20), nothing declared, inheritance not yet set"""
    out = []
    star = node.args[1].value
    for s, (nm, bs) in ex.ev_list([node.args[0], star], st):
        sq, _ = ex.seqterm(s, bs, node)
        r = ex.fresh_ref(s, 'implements')
        s.assume(z3.And(typeof(r) == IMPLCLS, subtype(IMPLCLS, IMPLCLS)))
        ex.write_field(s, r, '_bases', V(SEQO, sq))
        ex.write_field(s, r, 'declared', V(SEQO, Empty(SeqO)))
        ex.write_field(s, r, 'inherit', vobj(NONE))
        out.append((s, vobj(r)))
    return out


reg.axiom('subtype-reflexive-Implements', subtype(IMPLCLS, IMPLCLS))
reg.add(Proc(D + '_implementedBy_super', [('sup', OBJ)], result=OBJ, trusted=True, pure_fn=lambda c: SUPER_RES(c.a.sup),
             note='verified under C19'))
reg.add(Proc(D + '_implements_name', [('ob', OBJ)], result=OBJ, trusted=True, ensures=lambda c: [c.res != NONE],
             note='a name for the specification (module + qualified name)'))
reg.add(Proc(D + 'Declaration', [], varargs='bases', result=OBJ, trusted=True, ensures=lambda c: [c.res != NONE],
             note='old-style declarations: outside the domain, only the call is executed'))
reg.add(Proc(D + '_normalizeargs', [('sequence', OBJ)], result=SEQO, trusted=True, note='C20'))
reg.add(Proc(D + 'ClassProvides', [('cls', OBJ), ('metacls', OBJ)], result=OBJ, trusted=True,
             modifies=['$dict', '$alloc', '_bases', 'inherit', 'declared'],
             requires=lambda c: [('modelled-classes', domain(c))],
             ensures=lambda c: [c.res != NONE, mono(c), domain(c), class_dicts_distinct(c), only_below(c, c.a.metacls),
                                z3.Not(c.h0('$alloc')[c.res])],
             note='ClassProvides(cls, metacls): asks implementedBy(metacls) on the way -- may record specifications for classes that had '
                  'none, replaces and touches nothing (ClassProvides.__init__ itself: contracts/C01_decl.py)'))


def _impl_K(c):
    """[implementedBy(c) for c in bases]"""
    j = z3.Int('ik_j')
    bs = c.h0('__bases__cls')[c.a.cls]
    k = z3.Const('ik_k', Obj)
    return [('recorded-so-far-only-below-the-class', ForAllP([k], z3.Implies(z3.And(st_old(c, k) == ABSENT, st_now(c, k) != ABSENT),
                                                                         clsrank(k) < clsrank(c.a.cls)), patterns=[c.h('__dict__')[k]])),
            ('each-is-the-specification-on-record-for-that-base', z3.And(L(c.acc) == c.i, ForAllP([j], z3.Implies(
        z3.And(0 <= j, j < c.i), z3.And(c.acc[j] == st_now(c, bs[j]), is_impl(c.acc[j]))), patterns=[c.acc[j]]))),
        ('nothing-recorded-is-replaced-or-touched', mono(c)),
        ('modelled-classes', domain(c)), ('class-dictionaries-are-distinct', class_dicts_distinct(c)),
        ('still-nothing-on-record-for-the-class-itself', st_now(c, c.a.cls) == ABSENT)]


def _impl_pre(c):
    k = z3.Const('ip_k', Obj)
    j = z3.Int('ip_j')
    bs = c.h('__bases__cls')
    return [('modelled-classes', domain(c)), ('class-dictionaries-are-distinct', class_dicts_distinct(c)),
            ('finite-hierarchy', ForAllP([k, j], z3.Implies(z3.And(0 <= j, j < L(bs[k])), z3.And(
                clsrank(bs[k][j]) < clsrank(k), clsrank(k) >= 0, z3.Not(subtype(typeof(bs[k][j]), SUPERCLS)), has_bases(bs[k][j]))),
                patterns=[bs[k][j]])),
            ('metaclasses-rank-below-their-classes', ForAllP([k], z3.Implies(z3.Not(rejects(k)), z3.And(
                clsrank(typeof(k)) < clsrank(k), clsrank(c.h('__class__')[k]) < clsrank(k))), patterns=[rejects(k)])),
            ('the-table-of-builtin-specifications-is-allocated', c.h('$alloc')[BIS])]


def _impl_post(c):
    cls = c.a.cls
    is_super = subtype(typeof(cls), SUPERCLS)
    j = z3.Int('iq_j')
    bs = z3.If(has_bases(cls), c.h0('__bases__cls')[cls], Empty(SeqO))      # a factory without __bases__ has none
    new = z3.And(z3.Not(is_super), st_old(c, cls) == ABSENT)
    return [
        ('a-super-proxy-goes-to-_implementedBy_super', z3.Implies(is_super, c.res == SUPER_RES(cls))),
        ('the-specification-on-record-is-returned-as-it-is', z3.Implies(z3.And(z3.Not(is_super), st_old(c, cls) != ABSENT), z3.And(
            c.res == st_old(c, cls), c.h('$dict') == c.h0('$dict'), c.h('_bases') == c.h0('_bases')))),
        ('a-new-specification-is-recorded-for-the-class', z3.Implies(new, z3.And(
            c.res == st_now(c, cls), is_impl(c.res), z3.Not(c.h0('$alloc')[c.res])))),
        ('it-inherits-from-the-class-and-its-bases-are-the-specifications-of-the-base-classes', z3.Implies(new, z3.And(
            c.h('inherit')[c.res] == cls, L(c.h('_bases')[c.res]) == L(bs), L(c.h('declared')[c.res]) == 0,
            ForAllP([j], z3.Implies(z3.And(0 <= j, j < L(bs)), z3.And(
                c.h('_bases')[c.res][j] == st_now(c, bs[j]), is_impl(c.h('_bases')[c.res][j]))), patterns=[bs[j]])))),
        ('nothing-recorded-is-replaced-or-touched', z3.Implies(z3.Not(is_super), mono(c))),
        ('specifications-are-only-recorded-at-or-below-the-class', z3.Implies(z3.Not(is_super), only_below(c, cls))),
        ('modelled-classes', z3.Implies(z3.Not(is_super), z3.And(domain(c), class_dicts_distinct(c)))),
    ]


reg.add(Proc(
    D + 'implementedBy', [('cls', OBJ)], source='declarations.py:implementedBy', result=OBJ,
    globals={'BuiltinImplementationSpecifications': V(DICT, BIS), '_empty': vobj(EMPTYDECL), 'objectSpecificationDescriptor': vobj(OSD),
             'Implements': vobj(IMPLCLS)},
    dynattr={'__dict__': _dict_attr, '__bases__': _bases_attr, '__class__': lambda ex, node, st, recv: [(st, vobj(typeof(recv.t)))]},
    setattr_={'__implemented__': _set_implemented, '__providedBy__': _set_ignored, '__provides__': _set_ignored},
    calls={'_implementedBy_super': D + '_implementedBy_super', '_implements_name': D + '_implements_name',
           'Implements.named': _named, 'implementedBy': D + 'implementedBy', 'ClassProvides': D + 'ClassProvides',
           'Declaration': D + 'Declaration', '_normalizeargs': D + '_normalizeargs'},
    locals={'$elt_K0': OBJ, '$nomerge': True}, modifies=['$dict', '$alloc', '_bases', 'inherit', 'declared'],
    requires=_impl_pre, ensures=_impl_post, may_raise=['TypeError'],
    raises={'AttributeError': (lambda c: z3.BoolVal(False), None)},
    loops={'K0': Loop(_impl_K)},
))
