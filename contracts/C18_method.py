"""Contracts for fromFunction / fromMethod / Method (property C18).

Precondition = CPython's documented code-object layout (>= 3.8):
  co_varnames = positional(co_argcount) + kwonly(co_kwonlyargcount) + [*name if CO_VARARGS] + [**name if CO_VARKEYWORDS] + locals
"""
import z3

from zivc.core import *  # noqa
from zivc.spec import Loop, Proc, Registry
from zivc import symex

FIELDS = {
    '__name__': OBJ, '__doc__': OBJ, '__defaults__': OBJ, '__code__': OBJ, '__dict__': DICT,
    'co_argcount': INT, 'co_varnames': SEQN, 'co_flags': INT, 'co_kwonlyargcount': INT,
    'positional': SEQN, 'required': SEQN, '_optional': OBJ, 'varargs': OBJ, 'kwargs': OBJ,
    'interface': OBJ, '_Element__tagged_values': DICT, '__defaults_count__': INT, '__func__': OBJ,
}
symex.FIELD_ALIAS['optional'] = '_optional'     # Method.optional is a property forwarding to _optional

reg = Registry(FIELDS)
L = Length
F = 'interface.py:'
has_defaults_attr = z3.Function('hasattr___defaults__', Obj, z3.BoolSort())
has_defaults_count = z3.Function('hasattr___defaults_count__', Obj, z3.BoolSort())
bit_and = symex.bit_and
CO_VARARGS, CO_VARKEYWORDS = 4, 8
GLOB = {'CO_VARARGS': vint(CO_VARARGS), 'CO_VARKEYWORDS': vint(CO_VARKEYWORDS)}


def code(c):
    return c.h0('__code__')[c.a.func]


def layout(c):
    """Derived quantities of the statement, from the code object at entry."""
    co = code(c)
    argc = c.h0('co_argcount')[co]
    kwonly = c.h0('co_kwonlyargcount')[co]
    varnames = c.h0('co_varnames')[co]
    flags = c.h0('co_flags')[co]
    has_va = bit_and(flags, CO_VARARGS) != 0
    has_kw = bit_and(flags, CO_VARKEYWORDS) != 0
    d = c.h0('__defaults__')[c.a.func]
    ndef = z3.If(d == NONE, 0, L(unbox_seq(d)))
    return co, argc, kwonly, varnames, has_va, has_kw, d, ndef


def wf(c):
    co, argc, kwonly, varnames, has_va, has_kw, d, ndef = layout(c)
    j, j2 = z3.Ints('wf_j wf_j2')
    return [
        # imlevel may exceed co_argcount: `def m(*args)` used as a method -- the implied self is taken by *args
        ('counts', z3.And(argc >= 0, kwonly >= 0, 0 <= c.a.imlevel)),
        ('defaults-shape', z3.And(has_defaults_attr(c.a.func), z3.Or(d == NONE, z3.And(is_seq(d), d == box_seq(unbox_seq(d)))), ndef <= argc)),
        ('layout', L(varnames) >= argc + kwonly + z3.If(has_va, 1, 0) + z3.If(has_kw, 1, 0)),
        ('names-distinct', z3.ForAll([j, j2], z3.Implies(z3.And(0 <= j, j < j2, j2 < L(varnames)), varnames[j] != varnames[j2]))),
        ('cpython', z3.And(z3.Not(has_defaults_count(c.a.func)), z3.Function('hasattr_co_kwonlyargcount', Obj, z3.BoolSort())(co))),
        ('func-is-object', c.a.func != NONE),
    ]


def fromFunction_post(c):
    co, argc, kwonly, varnames, has_va, has_kw, d, ndef = layout(c)
    m = c.res
    im = z3.If(c.a.imlevel <= argc, c.a.imlevel, 0)     # nothing is skipped when *args absorbs the implied self
    na = argc - im
    nr = z3.If(na - ndef < 0, 0, na - ndef)
    opt = c.h('$dict')[c.h('_optional')[m]]
    p = z3.Int('p')
    k = z3.Const('tv_k', Obj)
    tv = c.h('$dict')[c.h('_Element__tagged_values')[m]]
    fd = c.h0('$dict')[c.h0('__dict__')[c.a.func]]
    return [
        ('positional', SeqEq(c.h('positional')[m], Slice(varnames, im, argc))),
        ('required', SeqEq(c.h('required')[m], Slice(varnames, im, im + nr))),
        ('optional-defaults', z3.ForAll([p], z3.Implies(
            z3.And(im + nr <= p, p < argc),
            opt[box_name(varnames[p])] == unbox_seq(d)[ndef - (argc - p)]))),
        ('optional-only-those', z3.ForAll([p], z3.Implies(
            z3.And(0 <= p, p < L(varnames), z3.Not(z3.And(im + nr <= p, p < argc))),
            opt[box_name(varnames[p])] == ABSENT))),
        ('varargs', c.h('varargs')[m] == z3.If(has_va, box_name(varnames[argc + kwonly]), NONE)),
        ('kwargs', c.h('kwargs')[m] == z3.If(has_kw, box_name(varnames[argc + kwonly + z3.If(has_va, 1, 0)]), NONE)),
        ('interface', c.h('interface')[m] == c.a.interface),
        ('name', c.h('__name__')[m] == z3.If(truthy(c.a.name), c.a.name, c.h0('__name__')[c.a.func])),
        ('tagged-values', z3.ForAll([k], z3.Implies(fd[k] != ABSENT, z3.And(
            c.h('_Element__tagged_values')[m] != NONE, tv[k] == fd[k])))),
        ('fresh', z3.Not(c.h0('$alloc')[m])),
    ]


# Method(name, doc): Element.__init__ -- assumed contract of the constructor (fresh object, class defaults)
reg.add(Proc(F + 'Method', [('__name__', OBJ), ('__doc__', OBJ)], trusted=True, result=OBJ,
             modifies=['$alloc', '__name__', '__doc__', '_Element__tagged_values'],
             ensures=lambda c: [
                 z3.Not(c.h0('$alloc')[c.res]), c.h('$alloc') == z3.Store(c.h0('$alloc'), c.res, True), c.res != NONE,
                 c.h('__name__') == z3.Store(c.h0('__name__'), c.res, c.a['__name__']),
                 c.h('__doc__') == z3.Store(c.h0('__doc__'), c.res, c.a['__doc__']),
                 c.h('_Element__tagged_values') == z3.Store(c.h0('_Element__tagged_values'), c.res, NONE),
             ],
             note='Element.__init__ for a name without blanks: stores name/doc, no tagged values (class defaults for the rest)'))

reg.add(Proc(
    F + 'Element.setTaggedValue', [('self', OBJ), ('tag', OBJ), ('value', OBJ)], source='interface.py:Element.setTaggedValue',
    classname='Element', modifies=['_Element__tagged_values', '$dict', '$alloc'],
    requires=lambda c: [z3.Implies(c.h('_Element__tagged_values')[c.a.self] != NONE,
                                   c.h('$alloc')[c.h('_Element__tagged_values')[c.a.self]])],
    ensures=lambda c: [
        ('has-dict', c.h('_Element__tagged_values')[c.a.self] != NONE),
        ('stored', c.h('$dict')[c.h('_Element__tagged_values')[c.a.self]] == z3.Store(
            z3.If(c.h0('_Element__tagged_values')[c.a.self] == NONE, EMPTYMAP,
                  c.h0('$dict')[c.h0('_Element__tagged_values')[c.a.self]]), c.a.tag, c.a.value)),
        ('frame-attr', z3.ForAll([z3.Const('o', Obj)], z3.Implies(z3.Const('o', Obj) != c.a.self,
                       c.h('_Element__tagged_values')[z3.Const('o', Obj)] == c.h0('_Element__tagged_values')[z3.Const('o', Obj)]))),
        ('frame-dicts', z3.ForAll([z3.Const('o', Obj)], z3.Implies(
            z3.And(z3.Const('o', Obj) != c.h('_Element__tagged_values')[c.a.self]),
            c.h('$dict')[z3.Const('o', Obj)] == c.h0('$dict')[z3.Const('o', Obj)]))),
        ('own-dict', z3.Or(c.h('_Element__tagged_values')[c.a.self] == c.h0('_Element__tagged_values')[c.a.self],
                           z3.Not(c.h0('$alloc')[c.h('_Element__tagged_values')[c.a.self]]))),
        ('alloc-grows', z3.ForAll([z3.Const('o', Obj)], z3.Implies(c.h0('$alloc')[z3.Const('o', Obj)], c.h('$alloc')[z3.Const('o', Obj)]))),
        ('dict-allocated', c.h('$alloc')[c.h('_Element__tagged_values')[c.a.self]]),
    ]))


def _ff_loop(c):
    m = c.l.method
    fd = c.h0('$dict')[c.h0('__dict__')[c.a.func]]
    ks = dict_keys(fd)
    j = z3.Int('ff_j')
    tvref = c.h('_Element__tagged_values')[m]
    tv = c.h('$dict')[tvref]
    o = z3.Const('ff_o', Obj)
    return [
        ('copied-so-far', z3.ForAll([j], z3.Implies(z3.And(0 <= j, j < c.i), z3.And(tvref != NONE, tv[ks[j]] == fd[ks[j]])))),
        ('method-fresh', z3.Not(c.h0('$alloc')[m])),
        ('tv-dict-fresh', z3.Implies(tvref != NONE, z3.And(z3.Not(c.h0('$alloc')[tvref]), c.h('$alloc')[tvref]))),
        ('old-dicts-unchanged', z3.ForAll([o], z3.Implies(c.h0('$alloc')[o], c.h('$dict')[o] == c.h0('$dict')[o]))),
        ('old-tv-unchanged', z3.ForAll([o], z3.Implies(o != m, c.h('_Element__tagged_values')[o] == c.h0('_Element__tagged_values')[o]))),
        ('alloc-grows', z3.ForAll([o], z3.Implies(c.h0('$alloc')[o], c.h('$alloc')[o]))),
        ('optional-kept', c.h('$dict')[c.h('_optional')[m]] == c.hL('$dict')[c.h('_optional')[m]]),
        ('optional-is-older-dict', z3.And(c.h('_optional')[m] != tvref, c.hL('$alloc')[c.h('_optional')[m]])),
        ('tv-not-older', z3.Implies(tvref != NONE, z3.Not(c.hL('$alloc')[tvref]))),
        ('alloc-grows-in-loop', z3.ForAll([o], z3.Implies(c.hL('$alloc')[o], c.h('$alloc')[o]))),
    ]


reg.add(Proc(
    F + 'fromFunction', [('func', OBJ), ('interface', OBJ), ('imlevel', INT), ('name', OBJ)],
    source='interface.py:fromFunction', result=OBJ, globals=GLOB, finite={'imlevel': [0, 1]},
    calls={'Method': F + 'Method', 'method.setTaggedValue': F + 'Element.setTaggedValue'},
    requires=wf, ensures=fromFunction_post,
    ghost_pre=lambda c: [c.h('$alloc')[c.a.func], c.h('$alloc')[c.h('__dict__')[c.a.func]]],
    modifies=['$alloc', '$dict', '__name__', '__doc__', '_Element__tagged_values', 'positional', 'required',
              '_optional', 'varargs', 'kwargs', 'interface'],
    loops={'L0': Loop(_ff_loop)},
))

from zivc.spec import Ctx  # noqa


def _as_fromFunction(c):
    """The fromFunction contract instantiated for fromMethod's delegation (imlevel=1)."""
    ismeth = subtype(typeof(c.a.meth), classconst('MethodType'))
    func = z3.If(ismeth, c.h0('__func__')[c.a.meth], c.a.meth)
    args = {'func': V(OBJ, func), 'interface': V(OBJ, c.a.interface), 'imlevel': vint(1), 'name': V(OBJ, c.a.name)}
    return Ctx(args, c._heap, c._heap0, res=c.res)


reg.add(Proc(
    F + 'fromMethod', [('meth', OBJ), ('interface', OBJ), ('name', OBJ)], source='interface.py:fromMethod', result=OBJ,
    calls={'fromFunction': F + 'fromFunction'},
    requires=lambda c: wf(_as_fromFunction(c)) + [
        c.h('$alloc')[_as_fromFunction(c).a.func], c.h('$alloc')[c.h('__dict__')[_as_fromFunction(c).a.func]]],
    ensures=lambda c: fromFunction_post(_as_fromFunction(c)),
    modifies=reg.procs[F + 'fromFunction'].modifies,
))
# fromFunction as a callee: its ghost preconditions are ordinary preconditions for callers
_ff = reg.procs[F + 'fromFunction']
_ff_req = _ff.requires
_ff.requires = lambda c: _ff_req(c) + [('func-allocated', c.h('$alloc')[c.a.func]),
                                       ('func-dict-allocated', c.h('$alloc')[c.h('__dict__')[c.a.func]])]
_ff.ghost_pre = None
