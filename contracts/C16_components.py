"""Contracts for registry.Components (property C16).

Abstract state of a Components object X
  UR(X)  the mapping _utility_registrations      (provided, name)            -> (component, info, factory)
  AR(X)  the mapping _adapter_registrations      (required, provided, name)  -> (factory, info)
  SR(X)  the list _subscription_registrations    [(required, provided, name, factory, info)]
  HR(X)  the list _handler_registrations         [(required, name, factory, info)]
and of the two underlying registries (ghost maps updated by the assumed contracts of
BaseAdapterRegistry.register/unregister/subscribe/unsubscribe, whose bodies are under contract in C09_registry)
  $A[R]  (required, provided, name) -> value        $S[R]  (required, provided) -> sequence of values
Ghost log $events: the objects passed to zope.event.notify, in order.

"Listings list exactly the live registrations" = the generators yield exactly UR/AR/SR/HR; "queries answer as the
underlying registries populated with exactly those registrations" = the mirror clauses: every mutator changes the
listing and the underlying registry under the same key with the same value.  "Exactly one event per registration
actually added or removed" = the $events clauses.  Return values = the result clauses."""
import z3

from zivc.core import *  # noqa
from zivc.spec import Loop, Proc, Registry
from zivc import symex

MAPS = z3.ArraySort(Obj, ObjMap)
FIELDS = {'_utility_registrations': DICT, '_adapter_registrations': DICT, '_subscription_registrations': LISTO,
          '_handler_registrations': LISTO, 'adapters': OBJ, 'utilities': OBJ, '_v_utility_registrations_cache': OBJ,
          '_utilities': OBJ, '_cache': DICT, '_data': LISTO,
          '$events': SeqO, '$A': MAPS, '$S': MAPS, '$calls': SeqO}
reg = Registry(FIELDS)
L = Length
R = 'registry.py:'
B = z3.BoolSort()
Int = z3.IntSort()

# ---------------------------------------------------------------- constructors of registration / event objects (injective)
def _ctor(name, n):
    f = z3.Function(name, *([Obj] * (n + 1)))
    xs = [z3.Const('%s_x%d' % (name, i), Obj) for i in range(n)]
    for i in range(n):
        p = z3.Function('%s_arg%d' % (name, i), Obj, Obj)
        reg.axiom('%s-injective-%d' % (name, i), z3.ForAll(xs, p(f(*xs)) == xs[i], patterns=[f(*xs)]))
    reg.axiom('%s-is-an-object' % name, z3.ForAll(xs, z3.And(f(*xs) != NONE, f(*xs) != ABSENT), patterns=[f(*xs)]))
    return f


UtilityRegistration = _ctor('UtilityRegistration', 6)        # registry, provided, name, component, info, factory
AdapterRegistration = _ctor('AdapterRegistration', 6)        # registry, required, provided, name, factory, info
SubscriptionRegistration = _ctor('SubscriptionRegistration', 6)
HandlerRegistration = _ctor('HandlerRegistration', 5)        # registry, required, name, factory, info
Registered = _ctor('Registered', 1)
Unregistered = _ctor('Unregistered', 1)
_e = z3.Const('ev_e', Obj)
_e2 = z3.Const('ev_e2', Obj)
reg.axiom('Registered-is-not-Unregistered', z3.ForAll([_e, _e2], Registered(_e) != Unregistered(_e2),
                                                       patterns=[z3.MultiPattern(Registered(_e), Unregistered(_e2))]))

# helpers of registry.py that inspect the component (assumed: pure, may raise)
adapter_provided = z3.Function('_getAdapterProvided', Obj, Obj)
adapter_required = z3.Function('_getAdapterRequired', Obj, Obj, Obj)
utility_provided = z3.Function('_getUtilityProvided', Obj, Obj)
get_name = z3.Function('_getName', Obj, Name)
prov_fails = z3.Function('_getAdapterProvided_raises', Obj, B)
req_fails = z3.Function('_getAdapterRequired_raises', Obj, Obj, B)
uprov_fails = z3.Function('_getUtilityProvided_raises', Obj, B)
_f, _r = z3.Consts('h_f h_r', Obj)
reg.axiom('helpers-return-objects', z3.And(
    z3.ForAll([_f], z3.And(adapter_provided(_f) != NONE, adapter_provided(_f) != ABSENT), patterns=[adapter_provided(_f)]),
    z3.ForAll([_f], z3.And(utility_provided(_f) != NONE, utility_provided(_f) != ABSENT), patterns=[utility_provided(_f)]),
    z3.ForAll([_f, _r], z3.And(adapter_required(_f, _r) != NONE, adapter_required(_f, _r) != ABSENT, is_seq(adapter_required(_f, _r))),
              patterns=[adapter_required(_f, _r)])))
reg.assumptions.append('_getAdapterProvided/_getAdapterRequired/_getUtilityProvided/_getName are pure functions of their arguments '
                       'that either raise (oracle) or return a non-None object; _getAdapterRequired returns a tuple')
reg.assumptions.append('registration keys are compared structurally: required specifications, provided interfaces and names of one '
                       'key are compared by identity/str equality (DESIGN 1.3: no two distinct live specifications with equal name and module)')

reg.add(Proc(R + '_getAdapterProvided', [('factory', OBJ)], result=OBJ, trusted=True,
             raises={'OtherError': (lambda c: prov_fails(c.a.factory), None)},
             ensures=lambda c: [c.res == adapter_provided(c.a.factory)]))
reg.add(Proc(R + '_getAdapterRequired', [('factory', OBJ), ('required', OBJ)], result=OBJ, trusted=True,
             raises={'OtherError': (lambda c: req_fails(c.a.factory, c.a.required), None)},
             ensures=lambda c: [c.res == adapter_required(c.a.factory, c.a.required)]))
reg.add(Proc(R + '_getUtilityProvided', [('component', OBJ)], result=OBJ, trusted=True,
             raises={'OtherError': (lambda c: uprov_fails(c.a.component), None)},
             ensures=lambda c: [c.res == utility_provided(c.a.component)]))
reg.add(Proc(R + '_getName', [('component', OBJ)], result=NAME, trusted=True, pure_fn=lambda c: get_name(c.a.component)))


def _notify(ex, node, st, vals):
    st.heap.set('$events', Concat(st.heap.get('$events'), Unit(box(vals[0]))))
    return [(st, VNONE)]


def _mk(f, n):
    def handler(ex, node, st, vals):
        vals = list(vals)
        if vals and vals[-1].ty.kind == 'star':          # F(a, b, *rest): rest must supply exactly the missing arguments
            rest = vals.pop().t
            k = n - len(vals)
            ex.oblige(st, 'constructor-arity@%s' % node.lineno, L(rest) == k, 'safety', node)
            st.assume(L(rest) == k)
            terms = [box(v) for v in vals] + [rest[i] for i in range(k)]
        else:
            assert len(vals) == n, (f, len(vals))
            terms = [box(v) for v in vals]
        return [(st, vobj(f(*terms)))]
    return handler


OPAQUE = {'notify': _notify, 'Registered': _mk(Registered, 1), 'Unregistered': _mk(Unregistered, 1),
          'UtilityRegistration': _mk(UtilityRegistration, 6), 'AdapterRegistration': _mk(AdapterRegistration, 6),
          'SubscriptionRegistration': _mk(SubscriptionRegistration, 6), 'HandlerRegistration': _mk(HandlerRegistration, 5)}

# ---------------------------------------------------------------- the underlying registries (contract of C09's mutators, abstract)
def key3(r, p, n):
    return box_seq(Concat(Unit(r), Unit(p), Unit(box_name(n))))


def key2(r, p):
    return box_seq(Concat(Unit(r), Unit(p)))


rmeq = z3.Function('without_equal16', SeqO, Obj, Int, SeqO)       # elements of the first k that are not == x, in order
_s, _x = z3.Const('rm_s', SeqO), z3.Const('rm_x', Obj)
_k = z3.Int('rm_k')
reg.axiom('rmeq-0', z3.ForAll([_s, _x], rmeq(_s, _x, 0) == Empty(SeqO), patterns=[rmeq(_s, _x, 0)]))
reg.axiom('rmeq-step', z3.ForAll([_s, _x, _k], z3.Implies(z3.And(0 <= _k, _k < L(_s)), rmeq(_s, _x, _k + 1) == z3.If(
    py_eq(_s[_k], _x), rmeq(_s, _x, _k), Concat(rmeq(_s, _x, _k), Unit(_s[_k])))), patterns=[rmeq(_s, _x, _k + 1)]))


def subs_of(m, k):
    """the subscription sequence stored under key k in the abstract map m (absent = empty)"""
    return z3.If(m[k] == ABSENT, Empty(SeqO), unbox_seq(m[k]))


def _only(c, fld, Rg, newmap):
    return c.h(fld) == z3.Store(c.h0(fld), Rg, newmap)


A = 'adapter.py:'
reg.add(Proc(A + 'BaseAdapterRegistry.register', [('self', OBJ), ('required', OBJ), ('provided', OBJ), ('name', NAME), ('value', OBJ)],
             trusted=True, modifies=['$A', '$calls'],
             ensures=lambda c: [_only(c, '$A', c.a.self, z3.Store(c.h0('$A')[c.a.self], key3(c.a.required, c.a.provided, c.a.name),
                                                                  z3.If(c.a.value == NONE, ABSENT, c.a.value))),
                                c.h('$calls') == Concat(c.h0('$calls'), Unit(c.a.self))],
             note='abstract effect of register() on the registry (C09): the key maps to the value, None unregisters; nothing else'))
reg.add(Proc(A + 'BaseAdapterRegistry.unregister', [('self', OBJ), ('required', OBJ), ('provided', OBJ), ('name', NAME), ('value', OBJ)],
             trusted=True, modifies=['$A', '$calls'], defaults={'value': VNONE},
             ensures=lambda c: [_only(c, '$A', c.a.self, z3.If(
                 z3.Or(c.a.value == NONE, c.h0('$A')[c.a.self][key3(c.a.required, c.a.provided, c.a.name)] == c.a.value),
                 z3.Store(c.h0('$A')[c.a.self], key3(c.a.required, c.a.provided, c.a.name), ABSENT), c.h0('$A')[c.a.self])),
                 c.h('$calls') == Concat(c.h0('$calls'), Unit(c.a.self))],
             note='abstract effect of unregister() (C09): removes the key (given a value: only if that very object is registered)'))
reg.add(Proc(A + 'BaseAdapterRegistry.subscribe', [('self', OBJ), ('required', OBJ), ('provided', OBJ), ('value', OBJ)],
             trusted=True, modifies=['$S', '$calls'],
             ensures=lambda c: [_only(c, '$S', c.a.self, z3.Store(c.h0('$S')[c.a.self], key2(c.a.required, c.a.provided), box_seq(Concat(
                 subs_of(c.h0('$S')[c.a.self], key2(c.a.required, c.a.provided)), Unit(c.a.value))))),
                 c.h('$calls') == Concat(c.h0('$calls'), Unit(c.a.self))],
             note='abstract effect of subscribe() (C07/C09): the value is appended under (required, provided)'))
reg.add(Proc(A + 'BaseAdapterRegistry.unsubscribe', [('self', OBJ), ('required', OBJ), ('provided', OBJ), ('value', OBJ)],
             trusted=True, modifies=['$S', '$calls'], defaults={'value': VNONE},
             ensures=lambda c: [_only(c, '$S', c.a.self, z3.Store(
                 c.h0('$S')[c.a.self], key2(c.a.required, c.a.provided),
                 z3.If(c.a.value == NONE, ABSENT, box_seq(rmeq(subs_of(c.h0('$S')[c.a.self], key2(c.a.required, c.a.provided)), c.a.value,
                                                              L(subs_of(c.h0('$S')[c.a.self], key2(c.a.required, c.a.provided)))))))),
                 c.h('$calls') == Concat(c.h0('$calls'), Unit(c.a.self))],
             note='abstract effect of unsubscribe() (C07/C09): without a value every entry under the key goes, with one all equal entries'))

REGCALLS = {'self.adapters.register': A + 'BaseAdapterRegistry.register', 'self.adapters.unregister': A + 'BaseAdapterRegistry.unregister',
            'self.adapters.subscribe': A + 'BaseAdapterRegistry.subscribe', 'self.adapters.unsubscribe': A + 'BaseAdapterRegistry.unsubscribe',
            'self._utilities.register': A + 'BaseAdapterRegistry.register', 'self._utilities.unregister': A + 'BaseAdapterRegistry.unregister',
            'self._utilities.subscribe': A + 'BaseAdapterRegistry.subscribe', 'self._utilities.unsubscribe': A + 'BaseAdapterRegistry.unsubscribe',
            '_getAdapterProvided': R + '_getAdapterProvided', '_getAdapterRequired': R + '_getAdapterRequired',
            '_getUtilityProvided': R + '_getUtilityProvided', '_getName': R + '_getName'}


# ---------------------------------------------------------------- shared clauses
def wf(c):
    s = c.a.self
    return [('containers-exist', z3.And(c.h('_adapter_registrations')[s] != NONE, c.h('_utility_registrations')[s] != NONE,
                                        c.h('_subscription_registrations')[s] != NONE, c.h('_handler_registrations')[s] != NONE,
                                        c.h('adapters')[s] != NONE, c.h('utilities')[s] != NONE,
                                        c.h('adapters')[s] != c.h('utilities')[s])),
            ('containers-distinct', z3.Distinct(c.h('_adapter_registrations')[s], c.h('_utility_registrations')[s])),
            ('lists-distinct', c.h('_subscription_registrations')[s] != c.h('_handler_registrations')[s])]


def unchanged(c, *flds):
    return z3.And(*[c.h(f) == c.h0(f) for f in flds])


def dict_of(c, fld, now=True):
    h = c.h if now else c.h0
    return h('$dict')[h(fld)[c.a.self]]


def only_dict(c, fld, newmap):
    """the heap of dicts changed exactly at self.<fld>"""
    return c.h('$dict') == z3.Store(c.h0('$dict'), c.h0(fld)[c.a.self], newmap)


def only_list(c, fld, newseq):
    return c.h('$list') == z3.Store(c.h0('$list'), c.h0(fld)[c.a.self], newseq)


def pair(a, b):
    return box_seq(Concat(Unit(a), Unit(b)))


ALLGHOST = ['$events', '$A', '$S', '$calls']


def nothing_changed(c):
    return [('nothing-changed', z3.And(unchanged(c, '$dict', '$list', '$events', '$A', '$S', '$calls')))]


# ---------------------------------------------------------------- registerAdapter / unregisterAdapter / registeredAdapters
def _ra_vals(c):
    factory = c.a.factory
    provided = z3.If(c.a.provided == NONE, adapter_provided(factory), c.a.provided)
    required = adapter_required(factory, c.a.required)
    name = z3.If(c.a.name == EMPTYNAME, get_name(factory), c.a.name)
    return factory, required, provided, name


def _ra_fail(c):
    factory = c.a.factory
    return z3.Or(z3.And(c.a.provided == NONE, prov_fails(factory)), req_fails(factory, c.a.required))


def _ra_post(c):
    s = c.a.self
    factory, required, provided, name = _ra_vals(c)
    k = key3(required, provided, name)
    ad = c.h0('adapters')[s]
    present = dict_of(c, '_adapter_registrations', False)[k] != ABSENT
    ev = Registered(AdapterRegistration(s, required, provided, box_name(name), factory, c.a.info))
    return [
        ('listing-maps-the-key-to-factory-and-info', only_dict(c, '_adapter_registrations', z3.Store(
            dict_of(c, '_adapter_registrations', False), k, pair(factory, c.a.info)))),
        ('underlying-registry-gets-the-same-key-and-factory', z3.And(
            c.h('$A') == z3.Store(c.h0('$A'), ad, z3.Store(c.h0('$A')[ad], k, z3.If(factory == NONE, ABSENT, factory))),
            c.h('$S') == c.h0('$S'))),
        ('lists-untouched', c.h('$list') == c.h0('$list')),
        ('no-event-when-asked-not-to', z3.Implies(z3.Not(c.a.event), c.h('$events') == c.h0('$events'))),
        ('events-outside-the-recorded-region', z3.Implies(z3.And(c.a.event, z3.Not(present)),
                                                          c.h('$events') == Concat(c.h0('$events'), Unit(ev)))),
        ('events-literal', z3.Implies(c.a.event, c.h('$events') == z3.If(
            z3.Not(present), Concat(c.h0('$events'), Unit(ev)),
            z3.If(dict_of(c, '_adapter_registrations', False)[k] == pair(factory, c.a.info), c.h0('$events'),
                  Concat(c.h0('$events'), Concat(Unit(Unregistered(AdapterRegistration(
                      s, required, provided, box_name(name),
                      unbox_seq(dict_of(c, '_adapter_registrations', False)[k])[0],
                      unbox_seq(dict_of(c, '_adapter_registrations', False)[k])[1]))), Unit(ev))))))),
    ]


reg.add(Proc(
    R + 'Components.registerAdapter', [('self', OBJ), ('factory', OBJ), ('required', OBJ), ('provided', OBJ), ('name', NAME),
                                       ('info', OBJ), ('event', BOOL)],
    source='registry.py:Components.registerAdapter', calls=REGCALLS, opaque_calls=OPAQUE,
    modifies=['$dict', '$events', '$A', '$calls'], requires=wf,
    raises={'OtherError': (_ra_fail, nothing_changed)}, ensures=_ra_post))


def _ua_post(c):
    s = c.a.self
    factory = c.a.factory
    provided = z3.If(c.a.provided == NONE, adapter_provided(factory), c.a.provided)
    required = adapter_required(factory, c.a.required)
    name = c.a.name
    k = key3(required, provided, name)
    ad = c.h0('adapters')[s]
    old = dict_of(c, '_adapter_registrations', False)[k]
    removes = z3.And(old != ABSENT, z3.Or(factory == NONE, py_eq(factory, unbox_seq(old)[0])))
    ev = Unregistered(AdapterRegistration(s, required, provided, box_name(name), unbox_seq(old)[0], unbox_seq(old)[1]))
    return [
        ('returns-whether-something-was-removed', c.res == removes),
        ('no-op-leaves-everything', z3.Implies(z3.Not(removes), z3.And(unchanged(c, '$dict', '$list', '$events', '$A', '$S')))),
        ('listing-loses-exactly-the-key', z3.Implies(removes, only_dict(c, '_adapter_registrations', z3.Store(
            dict_of(c, '_adapter_registrations', False), k, ABSENT)))),
        ('underlying-registry-loses-the-same-key', z3.Implies(removes, z3.And(
            c.h('$A') == z3.Store(c.h0('$A'), ad, z3.Store(c.h0('$A')[ad], k, ABSENT)), c.h('$S') == c.h0('$S')))),
        ('exactly-one-Unregistered-event-carrying-the-old-registration', z3.Implies(
            removes, c.h('$events') == Concat(c.h0('$events'), Unit(ev)))),
        ('lists-untouched', c.h('$list') == c.h0('$list')),
    ]


def _ua_type_error(c):
    return z3.Or(z3.And(c.a.provided == NONE, c.a.factory == NONE), z3.And(c.a.required == NONE, c.a.factory == NONE))


def _ua_other(c):
    return z3.And(z3.Not(_ua_type_error(c)),
                  z3.Or(z3.And(c.a.provided == NONE, prov_fails(c.a.factory)), req_fails(c.a.factory, c.a.required)))


def listing_values_are_pairs(c, fld, n):
    k = z3.Const('lv_k', Obj)
    m = dict_of(c, fld)
    return z3.ForAll([k], z3.Implies(m[k] != ABSENT, z3.And(is_seq(m[k]), L(unbox_seq(m[k])) == n)), patterns=[m[k]])


reg.add(Proc(
    R + 'Components.unregisterAdapter', [('self', OBJ), ('factory', OBJ), ('required', OBJ), ('provided', OBJ), ('name', NAME)],
    source='registry.py:Components.unregisterAdapter', calls=REGCALLS, opaque_calls=OPAQUE, result=BOOL,
    modifies=['$dict', '$events', '$A', '$calls'],
    requires=lambda c: wf(c) + [('listing-values-are-(factory,info)', listing_values_are_pairs(c, '_adapter_registrations', 2))],
    raises={'TypeError': (_ua_type_error, nothing_changed), 'OtherError': (_ua_other, nothing_changed)}, ensures=_ua_post))


# ---------------------------------------------------------------- listings (generators): exactly the recorded registrations, in order
def entries_wf(c, fld, n):
    """every entry of the list self.<fld> is an n-tuple"""
    j = z3.Int('ew_j')
    s = c.h('$list')[c.h(fld)[c.a.self]]
    return z3.ForAll([j], z3.Implies(z3.And(0 <= j, j < L(s)), z3.And(is_seq(s[j]), L(unbox_seq(s[j])) == n)), patterns=[s[j]])


def keys_wf(c, fld, n):
    k = z3.Const('kw_k', Obj)
    m = dict_of(c, fld)
    return z3.ForAll([k], z3.Implies(m[k] != ABSENT, z3.And(is_seq(k), L(unbox_seq(k)) == n)), patterns=[m[k]])


def _pat(seq, j):
    return [seq[j]] if z3.is_const(seq) and seq.decl().kind() == z3.Z3_OP_UNINTERPRETED else []


def _listing_dict(c, fld, ctor, nk, nv, upto, seq):
    """seq[j] = ctor(self, *key_j, *value_j) for j < upto, keys in the mapping's iteration order"""
    m = dict_of(c, fld, False)
    ks = dict_keys(m)
    j = z3.Int('ld_j')
    kj = unbox_seq(ks[j])
    vj = unbox_seq(m[ks[j]])
    return z3.And(L(seq) == upto, z3.ForAll([j], z3.Implies(z3.And(0 <= j, j < upto), seq[j] == ctor(
        c.a.self, *([kj[i] for i in range(nk)] + [vj[i] for i in range(nv)]))), patterns=_pat(seq, j)))


def _listing_list(c, fld, ctor, n, upto, seq):
    s = c.h0('$list')[c.h0(fld)[c.a.self]]
    j = z3.Int('ll_j')
    ej = unbox_seq(s[j])
    return z3.And(L(seq) == upto, z3.ForAll([j], z3.Implies(z3.And(0 <= j, j < upto), seq[j] == ctor(
        c.a.self, *[ej[i] for i in range(n)])), patterns=_pat(seq, j)))


reg.add(Proc(
    R + 'Components.registeredAdapters', [('self', OBJ)], source='registry.py:Components.registeredAdapters', result=SEQO,
    opaque_calls=OPAQUE,
    requires=lambda c: wf(c) + [('keys-are-triples', keys_wf(c, '_adapter_registrations', 3)),
                                ('values-are-pairs', listing_values_are_pairs(c, '_adapter_registrations', 2))],
    ensures=lambda c: [('one-registration-object-per-recorded-entry-in-order', _listing_dict(
        c, '_adapter_registrations', AdapterRegistration, 3, 2, L(dict_keys(dict_of(c, '_adapter_registrations', False))), c.res)),
        ('nothing-changes', unchanged(c, '$dict', '$list', '$events', '$A', '$S'))],
    loops={'L0': Loop(lambda c: [('yielded-the-first-i', _listing_dict(c, '_adapter_registrations', AdapterRegistration, 3, 2, c.i, c.l['$yield'])),
                                 ('nothing-changes', unchanged(c, '$dict', '$list', '$events'))])}))
reg.add(Proc(
    R + 'Components.registeredUtilities', [('self', OBJ)], source='registry.py:Components.registeredUtilities', result=SEQO,
    opaque_calls=OPAQUE,
    requires=lambda c: wf(c) + [('keys-are-pairs', keys_wf(c, '_utility_registrations', 2)),
                                ('values-are-triples', listing_values_are_pairs(c, '_utility_registrations', 3))],
    ensures=lambda c: [('one-registration-object-per-recorded-entry-in-order', _listing_dict(
        c, '_utility_registrations', UtilityRegistration, 2, 3, L(dict_keys(dict_of(c, '_utility_registrations', False))), c.res)),
        ('nothing-changes', unchanged(c, '$dict', '$list', '$events', '$A', '$S'))],
    loops={'L0': Loop(lambda c: [('yielded-the-first-i', _listing_dict(c, '_utility_registrations', UtilityRegistration, 2, 3, c.i, c.l['$yield'])),
                                 ('nothing-changes', unchanged(c, '$dict', '$list', '$events'))])}))
reg.add(Proc(
    R + 'Components.registeredSubscriptionAdapters', [('self', OBJ)], source='registry.py:Components.registeredSubscriptionAdapters',
    result=SEQO, opaque_calls=OPAQUE,
    requires=lambda c: wf(c) + [('entries-are-5-tuples', entries_wf(c, '_subscription_registrations', 5))],
    ensures=lambda c: [('one-registration-object-per-recorded-entry-in-order', _listing_list(
        c, '_subscription_registrations', SubscriptionRegistration, 5, L(c.h0('$list')[c.h0('_subscription_registrations')[c.a.self]]), c.res)),
        ('nothing-changes', unchanged(c, '$dict', '$list', '$events', '$A', '$S'))],
    loops={'L0': Loop(lambda c: [('index-in-range', c.i <= L(SRl(c, False))),
                                 ('yielded-the-first-i', _listing_list(c, '_subscription_registrations', SubscriptionRegistration, 5, c.i, c.l['$yield'])),
                                 ('nothing-changes', unchanged(c, '$dict', '$list', '$events'))])}))
reg.add(Proc(
    R + 'Components.registeredHandlers', [('self', OBJ)], source='registry.py:Components.registeredHandlers',
    result=SEQO, opaque_calls=OPAQUE,
    requires=lambda c: wf(c) + [('entries-are-4-tuples', entries_wf(c, '_handler_registrations', 4))],
    ensures=lambda c: [('one-registration-object-per-recorded-entry-in-order', _listing_list(
        c, '_handler_registrations', HandlerRegistration, 4, L(c.h0('$list')[c.h0('_handler_registrations')[c.a.self]]), c.res)),
        ('nothing-changes', unchanged(c, '$dict', '$list', '$events', '$A', '$S'))],
    loops={'L0': Loop(lambda c: [('index-in-range', c.i <= L(HRl(c, False))),
                                 ('yielded-the-first-i', _listing_list(c, '_handler_registrations', HandlerRegistration, 4, c.i, c.l['$yield'])),
                                 ('nothing-changes', unchanged(c, '$dict', '$list', '$events'))])}))


# ---------------------------------------------------------------- subscription adapters and handlers
def tup(*xs):
    return box_seq(Concat(*[Unit(x) for x in xs]))


# keepS(s, required, provided, factory, k): the first k entries (r, p, n, f, i) of s that do NOT match
#   r == required and p == provided and (factory is None or f == factory), re-built as tuples, in order
keepS = z3.Function('kept_subscription_registrations', SeqO, Obj, Obj, Obj, Int, SeqO)
keepH = z3.Function('kept_handler_registrations', SeqO, Obj, Obj, Int, SeqO)
_q, _p2, _f2 = z3.Consts('ks_req ks_prov ks_fac', Obj)


def matchS(e, rq, pv, fc):
    u = unbox_seq(e)
    return z3.And(py_eq(u[0], rq), py_eq(u[1], pv), z3.Or(fc == NONE, py_eq(u[3], fc)))


def matchH(e, rq, fc):
    u = unbox_seq(e)
    return z3.And(py_eq(u[0], rq), z3.Or(fc == NONE, py_eq(u[2], fc)))


def retup(e, n):
    u = unbox_seq(e)
    return tup(*[u[i] for i in range(n)])


reg.axiom('keepS-0', z3.ForAll([_s, _q, _p2, _f2], keepS(_s, _q, _p2, _f2, 0) == Empty(SeqO), patterns=[keepS(_s, _q, _p2, _f2, 0)]))
reg.axiom('keepS-step', z3.ForAll([_s, _q, _p2, _f2, _k], z3.Implies(z3.And(0 <= _k, _k < L(_s)), keepS(_s, _q, _p2, _f2, _k + 1) == z3.If(
    matchS(_s[_k], _q, _p2, _f2), keepS(_s, _q, _p2, _f2, _k), Concat(keepS(_s, _q, _p2, _f2, _k), Unit(retup(_s[_k], 5))))),
    patterns=[keepS(_s, _q, _p2, _f2, _k + 1)]))
reg.axiom('keepH-0', z3.ForAll([_s, _q, _f2], keepH(_s, _q, _f2, 0) == Empty(SeqO), patterns=[keepH(_s, _q, _f2, 0)]))
reg.axiom('keepH-step', z3.ForAll([_s, _q, _f2, _k], z3.Implies(z3.And(0 <= _k, _k < L(_s)), keepH(_s, _q, _f2, _k + 1) == z3.If(
    matchH(_s[_k], _q, _f2), keepH(_s, _q, _f2, _k), Concat(keepH(_s, _q, _f2, _k), Unit(retup(_s[_k], 4))))),
    patterns=[keepH(_s, _q, _f2, _k + 1)]))
# kept entries never outnumber the entries looked at (induction on k)
_kl = z3.Int('kl_k')
reg.induct('keepS-length', [_s, _q, _p2, _f2], _kl, lambda k: z3.Implies(k <= L(_s), L(keepS(_s, _q, _p2, _f2, k)) <= k),
           patterns=[keepS(_s, _q, _p2, _f2, _kl)])
reg.induct('keepH-length', [_s, _q, _f2], _kl, lambda k: z3.Implies(k <= L(_s), L(keepH(_s, _q, _f2, k)) <= k),
           patterns=[keepH(_s, _q, _f2, _kl)])


def SRl(c, now=True):
    h = c.h if now else c.h0
    return h('$list')[h('_subscription_registrations')[c.a.self]]


def HRl(c, now=True):
    h = c.h if now else c.h0
    return h('$list')[h('_handler_registrations')[c.a.self]]


def subscribe_effect(c, ad, k, value):
    return c.h('$S') == z3.Store(c.h0('$S'), ad, z3.Store(c.h0('$S')[ad], k, box_seq(Concat(subs_of(c.h0('$S')[ad], k), Unit(value)))))


def unsubscribe_effect(c, ad, k, value):
    old = subs_of(c.h0('$S')[ad], k)
    return c.h('$S') == z3.Store(c.h0('$S'), ad, z3.Store(c.h0('$S')[ad], k, z3.If(value == NONE, ABSENT, box_seq(rmeq(old, value, L(old))))))


def _rs_post(c):
    s = c.a.self
    factory = c.a.factory
    provided = z3.If(c.a.provided == NONE, adapter_provided(factory), c.a.provided)
    required = adapter_required(factory, c.a.required)
    nm = box_name(c.a.name)
    ad = c.h0('adapters')[s]
    ev = Registered(SubscriptionRegistration(s, required, provided, nm, factory, c.a.info))
    return [
        ('listing-gains-exactly-this-registration-at-the-end', only_list(c, '_subscription_registrations', Concat(
            SRl(c, False), Unit(tup(required, provided, nm, factory, c.a.info))))),
        ('underlying-registry-subscribes-the-same-factory-under-the-same-key', z3.And(
            subscribe_effect(c, ad, key2(required, provided), factory), c.h('$A') == c.h0('$A'))),
        ('mappings-untouched', c.h('$dict') == c.h0('$dict')),
        ('exactly-one-Registered-event-iff-asked', c.h('$events') == z3.If(c.a.event, Concat(c.h0('$events'), Unit(ev)), c.h0('$events'))),
    ]


reg.add(Proc(
    R + 'Components.registerSubscriptionAdapter', [('self', OBJ), ('factory', OBJ), ('required', OBJ), ('provided', OBJ), ('name', NAME),
                                                   ('info', OBJ), ('event', BOOL)],
    source='registry.py:Components.registerSubscriptionAdapter', calls=REGCALLS, opaque_calls=OPAQUE,
    modifies=['$list', '$events', '$S', '$calls'], requires=wf,
    raises={'TypeError': (lambda c: c.a.name != EMPTYNAME, nothing_changed),
            'OtherError': (lambda c: z3.And(c.a.name == EMPTYNAME, _ra_fail(c)), nothing_changed)},
    ensures=_rs_post))


def _rh_post(c):
    s = c.a.self
    factory = c.a.factory
    required = adapter_required(factory, c.a.required)
    nm = box_name(c.a.name)
    ad = c.h0('adapters')[s]
    ev = Registered(HandlerRegistration(s, required, nm, factory, c.a.info))
    return [
        ('listing-gains-exactly-this-registration-at-the-end', only_list(c, '_handler_registrations', Concat(
            HRl(c, False), Unit(tup(required, nm, factory, c.a.info))))),
        ('underlying-registry-subscribes-the-handler-under-(required,None)', z3.And(
            subscribe_effect(c, ad, key2(required, NONE), factory), c.h('$A') == c.h0('$A'))),
        ('mappings-untouched', c.h('$dict') == c.h0('$dict')),
        ('exactly-one-Registered-event-iff-asked', c.h('$events') == z3.If(c.a.event, Concat(c.h0('$events'), Unit(ev)), c.h0('$events'))),
    ]


reg.add(Proc(
    R + 'Components.registerHandler', [('self', OBJ), ('factory', OBJ), ('required', OBJ), ('name', NAME), ('info', OBJ), ('event', BOOL)],
    source='registry.py:Components.registerHandler', calls=REGCALLS, opaque_calls=OPAQUE,
    modifies=['$list', '$events', '$S', '$calls'], requires=wf,
    raises={'TypeError': (lambda c: c.a.name != EMPTYNAME, nothing_changed),
            'OtherError': (lambda c: z3.And(c.a.name == EMPTYNAME, req_fails(c.a.factory, c.a.required)), nothing_changed)},
    ensures=_rh_post))


def _us_post(c):
    s = c.a.self
    factory = c.a.factory
    provided = z3.If(c.a.provided == NONE, adapter_provided(factory), c.a.provided)
    required = adapter_required(factory, c.a.required)
    ad = c.h0('adapters')[s]
    old = SRl(c, False)
    kept = keepS(old, required, provided, factory, L(old))
    removed = L(old) - L(kept)
    ev = Unregistered(SubscriptionRegistration(s, required, provided, box_name(c.a.name), factory, box_name(EMPTYNAME)))
    return [
        ('returns-whether-something-was-removed', c.res == (removed > 0)),
        ('no-op-leaves-everything', z3.Implies(removed == 0, unchanged(c, '$dict', '$list', '$events', '$A', '$S'))),
        ('listing-keeps-exactly-the-non-matching-entries-in-order', z3.Implies(removed > 0, only_list(c, '_subscription_registrations', kept))),
        ('underlying-registry-unsubscribes-the-same-key-and-factory', z3.Implies(removed > 0, z3.And(
            unsubscribe_effect(c, ad, key2(required, provided), factory), c.h('$A') == c.h0('$A')))),
        ('mappings-untouched', c.h('$dict') == c.h0('$dict')),
        ('events-outside-the-recorded-region', z3.Implies(removed == 1, c.h('$events') == Concat(c.h0('$events'), Unit(ev)))),
        ('events-literal', z3.Implies(removed > 0, L(c.h('$events')) == L(c.h0('$events')) + removed)),
    ]


def _us_type_error(c):
    return z3.Or(c.a.name != EMPTYNAME, z3.And(c.a.provided == NONE, c.a.factory == NONE), z3.And(c.a.required == NONE, c.a.factory == NONE))


def _comp_inv_S(c):
    s = c.a.self
    provided = c.l.provided
    required = c.l.required
    return [('index-in-range', c.i <= L(SRl(c, False))),
            ('kept-so-far', c.acc == keepS(SRl(c, False), required, provided, c.a.factory, c.i)),
            ('nothing-changes', unchanged(c, '$dict', '$list', '$events', '$A', '$S'))]


reg.add(Proc(
    R + 'Components.unregisterSubscriptionAdapter', [('self', OBJ), ('factory', OBJ), ('required', OBJ), ('provided', OBJ), ('name', NAME)],
    source='registry.py:Components.unregisterSubscriptionAdapter', calls=REGCALLS, opaque_calls=OPAQUE, result=BOOL,
    modifies=['$list', '$events', '$S', '$calls'], locals={'$elt_K0': OBJ, '$elt_K1': OBJ},
    requires=lambda c: wf(c) + [('entries-are-5-tuples', entries_wf(c, '_subscription_registrations', 5))],
    raises={'TypeError': (_us_type_error, nothing_changed),
            'OtherError': (lambda c: z3.And(z3.Not(_us_type_error(c)), _ra_fail(c)), nothing_changed)},
    ensures=_us_post, loops={'K0': Loop(_comp_inv_S), 'K1': Loop(_comp_inv_S)}))


def _uh_post(c):
    s = c.a.self
    factory = c.a.factory
    required = adapter_required(factory, c.a.required)
    ad = c.h0('adapters')[s]
    old = HRl(c, False)
    kept = keepH(old, required, factory, L(old))
    removed = L(old) - L(kept)
    ev = Unregistered(HandlerRegistration(s, required, box_name(c.a.name), factory, box_name(EMPTYNAME)))
    return [
        ('returns-whether-something-was-removed', c.res == (removed > 0)),
        ('no-op-leaves-everything', z3.Implies(removed == 0, unchanged(c, '$dict', '$list', '$events', '$A', '$S'))),
        ('listing-keeps-exactly-the-non-matching-entries-in-order', z3.Implies(removed > 0, only_list(c, '_handler_registrations', kept))),
        ('underlying-registry-unsubscribes-the-same-key-and-factory', z3.Implies(removed > 0, z3.And(
            unsubscribe_effect(c, ad, key2(required, NONE), factory), c.h('$A') == c.h0('$A')))),
        ('mappings-untouched', c.h('$dict') == c.h0('$dict')),
        ('events-outside-the-recorded-region', z3.Implies(removed == 1, c.h('$events') == Concat(c.h0('$events'), Unit(ev)))),
        ('events-literal', z3.Implies(removed > 0, L(c.h('$events')) == L(c.h0('$events')) + removed)),
    ]


def _uh_type_error(c):
    return z3.Or(c.a.name != EMPTYNAME, z3.And(c.a.required == NONE, c.a.factory == NONE))


def _comp_inv_H(c):
    return [('index-in-range', c.i <= L(HRl(c, False))),
            ('kept-so-far', c.acc == keepH(HRl(c, False), c.l.required, c.a.factory, c.i)),
            ('nothing-changes', unchanged(c, '$dict', '$list', '$events', '$A', '$S'))]


reg.add(Proc(
    R + 'Components.unregisterHandler', [('self', OBJ), ('factory', OBJ), ('required', OBJ), ('name', NAME)],
    source='registry.py:Components.unregisterHandler', calls=REGCALLS, opaque_calls=OPAQUE, result=BOOL,
    modifies=['$list', '$events', '$S', '$calls'], locals={'$elt_K0': OBJ, '$elt_K1': OBJ},
    requires=lambda c: wf(c) + [('entries-are-4-tuples', entries_wf(c, '_handler_registrations', 4))],
    raises={'TypeError': (_uh_type_error, nothing_changed),
            'OtherError': (lambda c: z3.And(z3.Not(_uh_type_error(c)), req_fails(c.a.factory, c.a.required)), nothing_changed)},
    ensures=_uh_post, loops={'K0': Loop(_comp_inv_H), 'K1': Loop(_comp_inv_H)}))


# ---------------------------------------------------------------- utilities
# $cnt[cache][provided][component]: how many registrations of `component` (up to ==) for `provided` the counter cache of a
# _UtilityRegistrations object records; the three private helpers that maintain it are assumed contracts (bounded check)
CNT = z3.ArraySort(Obj, z3.ArraySort(Obj, z3.ArraySort(Obj, Int)))
reg.fields['$cnt'] = CNT
call0 = z3.Function('result_of_calling', Obj, Obj)             # factory()
call0_raises = z3.Function('calling_raises', Obj, B)
EMPTYTUP = box_seq(Empty(SeqO))


def _call_factory(ex, node, st, vals):
    f = vals[0].t
    bad = st.clone()
    bad.assume(call0_raises(f))
    ex.raise_(bad, 'OtherError')
    st.assume(z3.Not(call0_raises(f)))
    return [(st, vobj(call0(f)))]


def cnt(c, cache, p, comp, now=True):
    return (c.h('$cnt') if now else c.h0('$cnt'))[cache][p][comp]


U = R + '_UtilityRegistrations.'
reg.add(Proc(U + '_is_utility_subscribed', [('self', OBJ), ('provided', OBJ), ('component', OBJ)], result=BOOL, trusted=True,
             pure_fn=lambda c: cnt(c, c.a.self, c.a.provided, c.a.component) > 0,
             note='counter cache query (assumed; the unhashable counter underneath is verified separately, the dict flavour is bounded)'))


def _cnt_update(c, delta):
    x = z3.Const('cu_x', Obj)
    p = z3.Const('cu_p', Obj)
    k = z3.Const('cu_k', Obj)
    return z3.ForAll([k, p, x], c.h('$cnt')[k][p][x] == c.h0('$cnt')[k][p][x] + z3.If(
        z3.And(k == c.a.self, p == c.a.provided, py_eq(x, c.a.component)), delta, 0))


reg.add(Proc(U + '_UtilityRegistrations__cache_utility', [('self', OBJ), ('provided', OBJ), ('component', OBJ)], trusted=True,
             modifies=['$cnt'], ensures=lambda c: [_cnt_update(c, 1)],
             note='counter cache increment for every component equal to the argument (assumed)'))
reg.add(Proc(U + '_UtilityRegistrations__uncache_utility', [('self', OBJ), ('provided', OBJ), ('component', OBJ)], trusted=True,
             result=BOOL, modifies=['$cnt'],
             ensures=lambda c: [_cnt_update(c, -1), c.res == (cnt(c, c.a.self, c.a.provided, c.a.component, False) - 1 > 0)],
             note='counter cache decrement; returns whether registrations of an equal component remain (assumed)'))

UCALLS = dict(REGCALLS, **{'self._is_utility_subscribed': U + '_is_utility_subscribed',
                           'self.__cache_utility': U + '_UtilityRegistrations__cache_utility',
                           'self.__uncache_utility': U + '_UtilityRegistrations__uncache_utility'})


def ur_wf(c):
    s = c.a.self
    return [('parts-exist', z3.And(c.h('_utility_registrations')[s] != NONE, c.h('_utilities')[s] != NONE))]


def ur_dict(c, now=True):
    h = c.h if now else c.h0
    return h('$dict')[h('_utility_registrations')[c.a.self]]


def _ur_register_post(c):
    s = c.a.self
    ut = c.h0('_utilities')[s]
    k2 = pair(c.a.provided, box_name(c.a.name))
    k3 = key3(EMPTYTUP, c.a.provided, c.a.name)
    was = cnt(c, s, c.a.provided, c.a.component, False) > 0
    return [
        ('listing-maps-the-key-to-(component,info,factory)', c.h('$dict') == z3.Store(
            c.h0('$dict'), c.h0('_utility_registrations')[s], z3.Store(ur_dict(c, False), k2, tup(c.a.component, c.a.info, c.a.factory)))),
        ('underlying-registry-gets-the-component-under-((),provided,name)', c.h('$A') == z3.Store(
            c.h0('$A'), ut, z3.Store(c.h0('$A')[ut], k3, z3.If(c.a.component == NONE, ABSENT, c.a.component)))),
        ('subscribed-once-per-distinct-component', z3.If(was, c.h('$S') == c.h0('$S'),
                                                         subscribe_effect(c, ut, key2(EMPTYTUP, c.a.provided), c.a.component))),
        ('counted', _cnt_update(c, 1)),
        ('no-events-here', c.h('$events') == c.h0('$events')),
    ]


reg.add(Proc(U + 'registerUtility', [('self', OBJ), ('provided', OBJ), ('name', NAME), ('component', OBJ), ('info', OBJ), ('factory', OBJ)],
             source='registry.py:_UtilityRegistrations.registerUtility', calls=UCALLS, classname='_UtilityRegistrations',
             modifies=['$dict', '$A', '$S', '$cnt', '$calls'], requires=ur_wf, ensures=_ur_register_post))


def _ur_unregister_post(c):
    s = c.a.self
    ut = c.h0('_utilities')[s]
    k2 = pair(c.a.provided, box_name(c.a.name))
    k3 = key3(EMPTYTUP, c.a.provided, c.a.name)
    remain = cnt(c, s, c.a.provided, c.a.component, False) - 1 > 0
    return [
        ('listing-loses-exactly-the-key', c.h('$dict') == z3.Store(
            c.h0('$dict'), c.h0('_utility_registrations')[s], z3.Store(ur_dict(c, False), k2, ABSENT))),
        ('underlying-registry-loses-((),provided,name)', c.h('$A') == z3.Store(c.h0('$A'), ut, z3.Store(c.h0('$A')[ut], k3, ABSENT))),
        ('unsubscribed-only-when-no-equal-component-remains', z3.If(remain, c.h('$S') == c.h0('$S'),
                                                                    unsubscribe_effect(c, ut, key2(EMPTYTUP, c.a.provided), c.a.component))),
        ('counted', _cnt_update(c, -1)),
        ('no-events-here', c.h('$events') == c.h0('$events')),
    ]


reg.add(Proc(U + 'unregisterUtility', [('self', OBJ), ('provided', OBJ), ('name', NAME), ('component', OBJ)],
             source='registry.py:_UtilityRegistrations.unregisterUtility', calls=UCALLS, classname='_UtilityRegistrations',
             modifies=['$dict', '$A', '$S', '$cnt', '$calls'],
             requires=lambda c: ur_wf(c) + [('component-is-given', c.a.component != NONE)],
             raises={'KeyError': (lambda c: ur_dict(c, False)[pair(c.a.provided, box_name(c.a.name))] == ABSENT, nothing_changed)},
             ensures=_ur_unregister_post))


# the property Components._utility_registrations_cache: an object bound to the current registry and the current listing
def _cache_post(c):
    s = c.a.self
    return [('bound-to-the-current-utilities-registry', c.h('_utilities')[c.res] == c.h('utilities')[s]),
            ('bound-to-the-current-listing', c.h('_utility_registrations')[c.res] == c.h('_utility_registrations')[s]),
            ('is-an-object', c.res != NONE),
            ('registrations-untouched', unchanged(c, '$dict', '$list', '$events', '$A', '$S', 'utilities', 'adapters',
                                                  '_adapter_registrations', '_subscription_registrations', '_handler_registrations'))]


def _new_cache(ex, node, st):
    """_UtilityRegistrations(utilities, registrations): a fresh object holding the two references (its counter cache is
    populated from the listing; the counts are the assumed part)"""
    out = []
    for s, vs in ex.ev_list(node.args, st):
        r = ex.fresh_ref(s, 'urcache')
        s.assume(z3.And(r != NONE, r != ABSENT))
        ex.write_field(s, r, '_utilities', vs[0])
        ex.write_field(s, r, '_utility_registrations', vs[1])
        out.append((s, vobj(r)))
    return out


reg.add(Proc(R + 'Components._utility_registrations_cache', [('self', OBJ)], source='registry.py:Components._utility_registrations_cache',
             result=OBJ, calls={'_UtilityRegistrations': _new_cache},
             modifies=['_v_utility_registrations_cache', '_utilities', '_utility_registrations', '$alloc'],
             requires=lambda c: wf(c) + [('a-recorded-cache-is-an-allocated-object', z3.Implies(
                 c.h('_v_utility_registrations_cache')[c.a.self] != NONE, c.h('$alloc')[c.h('_v_utility_registrations_cache')[c.a.self]]))],
             ensures=_cache_post))
reg.add(Proc(R + 'Components.@_utility_registrations_cache', [('self', OBJ)], result=OBJ,
             modifies=['_v_utility_registrations_cache', '$alloc', '$cnt'],
             ensures=lambda c: [c.h('_utilities')[c.res] == c.h('utilities')[c.a.self],
                                c.h('_utility_registrations')[c.res] == c.h('_utility_registrations')[c.a.self],
                                c.res != NONE],
             note='the property verified above, as seen by its callers (the counter cache may be rebuilt: $cnt is havocked)'))


def _ru_vals(c):
    comp = z3.If(truthy(c.a.factory), call0(c.a.factory), c.a.component)
    provided = z3.If(c.a.provided == NONE, utility_provided(comp), c.a.provided)
    name = z3.If(c.a.name == EMPTYNAME, get_name(comp), c.a.name)
    return comp, provided, name


def _ru_type_error(c):
    return z3.And(truthy(c.a.factory), truthy(c.a.component))


def _ru_other(c):
    comp, provided, name = _ru_vals(c)
    return z3.And(z3.Not(_ru_type_error(c)), z3.Or(z3.And(truthy(c.a.factory), call0_raises(c.a.factory)),
                                                   z3.And(c.a.provided == NONE, uprov_fails(comp))))


def UR(c, now=True):
    return dict_of(c, '_utility_registrations', now)


def _ru_post(c):
    s = c.a.self
    comp, provided, name = _ru_vals(c)
    k2 = pair(provided, box_name(name))
    k3 = key3(EMPTYTUP, provided, name)
    ut = c.h0('utilities')[s]
    old = UR(c, False)[k2]
    o = unbox_seq(old)
    noop = z3.And(old != ABSENT, py_eq(o[0], comp), py_eq(o[1], c.a.info))
    ev_new = Registered(UtilityRegistration(s, provided, box_name(name), comp, c.a.info, c.a.factory))
    ev_old = Unregistered(UtilityRegistration(s, provided, box_name(name), o[0], o[1], o[2]))
    base = z3.If(old != ABSENT, Concat(c.h0('$events'), Unit(ev_old)), c.h0('$events'))
    return [
        ('re-registering-the-same-component-and-info-is-a-no-op', z3.Implies(noop, unchanged(c, '$dict', '$list', '$events', '$A', '$S'))),
        ('listing-maps-the-key-to-(component,info,factory)', z3.Implies(z3.Not(noop), only_dict(c, '_utility_registrations', z3.Store(
            UR(c, False), k2, tup(comp, c.a.info, c.a.factory))))),
        ('underlying-registry-gets-the-component-under-((),provided,name)', z3.Implies(z3.Not(noop), c.h('$A') == z3.Store(
            c.h0('$A'), ut, z3.Store(c.h0('$A')[ut], k3, z3.If(comp == NONE, ABSENT, comp))))),
        ('a-replaced-utility-yields-Unregistered-then-Registered', z3.Implies(z3.And(z3.Not(noop), c.a.event), c.h('$events') == Concat(base, Unit(ev_new)))),
        ('without-event-only-the-replacement-is-announced', z3.Implies(z3.And(z3.Not(noop), z3.Not(c.a.event)), c.h('$events') == base)),
        ('lists-untouched', c.h('$list') == c.h0('$list')),
    ]


def ur_listing_wf(c):
    return [('listing-keys-are-(provided,name)', keys_wf(c, '_utility_registrations', 2)),
            ('listing-values-are-(component,info,factory)', listing_values_are_pairs(c, '_utility_registrations', 3)),
            ('listed-components-are-objects', z3.ForAll([z3.Const('lc_k', Obj)], z3.Implies(
                UR(c)[z3.Const('lc_k', Obj)] != ABSENT, unbox_seq(UR(c)[z3.Const('lc_k', Obj)])[0] != NONE),
                patterns=[UR(c)[z3.Const('lc_k', Obj)]]))]


UTILCALLS = dict(REGCALLS, **{'@self._utility_registrations_cache': R + 'Components.@_utility_registrations_cache',
                              'self._utility_registrations_cache.registerUtility': U + 'registerUtility',
                              'self._utility_registrations_cache.unregisterUtility': U + 'unregisterUtility',
                              'self.unregisterUtility': R + 'Components.unregisterUtility'})
UTILOPQ = dict(OPAQUE, **{'factory': _call_factory})


def _uu_vals(c):
    comp = z3.If(truthy(c.a.factory), call0(c.a.factory), c.a.component)
    provided = z3.If(c.a.provided == NONE, utility_provided(comp), c.a.provided)
    return comp, provided


def _uu_type_error(c):
    comp, provided = _uu_vals(c)
    return z3.Or(z3.And(truthy(c.a.factory), truthy(c.a.component)),
                 z3.And(z3.Not(z3.And(truthy(c.a.factory), call0_raises(c.a.factory))), c.a.provided == NONE, comp == NONE))


def _uu_other(c):
    comp, provided = _uu_vals(c)
    return z3.And(z3.Not(z3.And(truthy(c.a.factory), truthy(c.a.component))), z3.Or(
        z3.And(truthy(c.a.factory), call0_raises(c.a.factory)),
        z3.And(c.a.provided == NONE, comp != NONE, uprov_fails(comp))))


def _uu_post(c):
    s = c.a.self
    comp, provided = _uu_vals(c)
    name = c.a.name
    k2 = pair(provided, box_name(name))
    k3 = key3(EMPTYTUP, provided, name)
    ut = c.h0('utilities')[s]
    old = UR(c, False)[k2]
    o = unbox_seq(old)
    removes = z3.And(old != ABSENT, z3.Or(comp == NONE, py_eq(comp, o[0])))
    gone = z3.If(comp == NONE, o[0], comp)
    ev = Unregistered(UtilityRegistration(s, provided, box_name(name), gone, o[1], o[2]))
    return [
        ('returns-whether-something-was-removed', c.res == removes),
        ('no-op-leaves-everything', z3.Implies(z3.Not(removes), unchanged(c, '$dict', '$list', '$events', '$A', '$S'))),
        ('listing-loses-exactly-the-key', z3.Implies(removes, only_dict(c, '_utility_registrations', z3.Store(UR(c, False), k2, ABSENT)))),
        ('underlying-registry-loses-((),provided,name)', z3.Implies(removes, c.h('$A') == z3.Store(
            c.h0('$A'), ut, z3.Store(c.h0('$A')[ut], k3, ABSENT)))),
        ('exactly-one-Unregistered-event-carrying-the-old-info-and-factory', z3.Implies(
            removes, c.h('$events') == Concat(c.h0('$events'), Unit(ev)))),
        ('lists-untouched', c.h('$list') == c.h0('$list')),
    ]


reg.add(Proc(
    R + 'Components.unregisterUtility', [('self', OBJ), ('component', OBJ), ('provided', OBJ), ('name', NAME), ('factory', OBJ)],
    source='registry.py:Components.unregisterUtility', calls=UTILCALLS, opaque_calls=UTILOPQ, result=BOOL,
    defaults={'factory': VNONE},
    modifies=['$dict', '$events', '$A', '$S', '$cnt', '$calls', '_v_utility_registrations_cache', '$alloc'],
    requires=lambda c: wf(c) + ur_listing_wf(c),
    raises={'TypeError': (_uu_type_error, nothing_changed), 'OtherError': (_uu_other, nothing_changed)}, ensures=_uu_post))

reg.add(Proc(
    R + 'Components.registerUtility', [('self', OBJ), ('component', OBJ), ('provided', OBJ), ('name', NAME), ('info', OBJ),
                                       ('event', BOOL), ('factory', OBJ)],
    source='registry.py:Components.registerUtility', calls=UTILCALLS, opaque_calls=UTILOPQ,
    modifies=['$dict', '$events', '$A', '$S', '$cnt', '$calls', '_v_utility_registrations_cache', '$alloc'],
    locals={'$seq_eq_pyeq': True},
    requires=lambda c: wf(c) + ur_listing_wf(c),
    raises={'TypeError': (_ru_type_error, nothing_changed), 'OtherError': (_ru_other, nothing_changed)}, ensures=_ru_post))


# ---------------------------------------------------------------- _UnhashableComponentCounter: a list of (component, count) searched with ==
UC = R + '_UnhashableComponentCounter.'


def uc_data(c, now=True):
    h = c.h if now else c.h0
    return h('$list')[h('_data')[c.a.self]]


def uc_wf(c):
    j = z3.Int('uw_j')
    d = uc_data(c)
    return [('data-exists', c.h('_data')[c.a.self] != NONE),
            ('entries-are-pairs', z3.ForAll([j], z3.Implies(z3.And(0 <= j, j < L(d)), z3.And(is_seq(d[j]), L(unbox_seq(d[j])) == 2)), patterns=[d[j]]))]


def uc_match(d, j, key):
    return py_eq(unbox_seq(d[j])[0], key)


def uc_none_before(d, i, key):
    j = z3.Int('un_j')
    return z3.ForAll([j], z3.Implies(z3.And(0 <= j, j < i), z3.Not(uc_match(d, j, key))))


def uc_first(d, j, key):
    return z3.And(0 <= j, j < L(d), uc_match(d, j, key), uc_none_before(d, j, key))


def _uc_get_post(c):
    d = uc_data(c, False)
    j = z3.Int('ug_j')
    return [('count-of-the-first-equal-component', z3.ForAll([j], z3.Implies(uc_first(d, j, c.a.key), c.res == unbox_seq(d[j])[1]))),
            ('zero-when-no-component-is-equal', z3.Implies(uc_none_before(d, L(d), c.a.key), c.res == box_int(0))),
            ('nothing-changes', c.h('$list') == c.h0('$list'))]


reg.add(Proc(UC + '__getitem__', [('self', OBJ), ('key', OBJ)], source='registry.py:_UnhashableComponentCounter.__getitem__',
             result=OBJ, requires=uc_wf, ensures=_uc_get_post,
             loops={'L0': Loop(lambda c: [('index-in-range', c.i <= L(uc_data(c, False))), ('no-equal-component-so-far', uc_none_before(uc_data(c, False), c.i, c.a.key)),
                                          ('nothing-changes', c.h('$list') == c.h0('$list'))])}))


def _uc_set_post(c):
    d = uc_data(c, False)
    j = z3.Int('us_j')
    new = tup(c.a.component, c.a.count)
    return [('first-equal-entry-replaced-in-place', z3.ForAll([j], z3.Implies(uc_first(d, j, c.a.component), SeqEq(
        uc_data(c), Concat(SubSeq(d, 0, j), Unit(new), SubSeq(d, j + 1, L(d) - j - 1)))))),
        ('appended-when-no-component-is-equal', z3.Implies(uc_none_before(d, L(d), c.a.component), SeqEq(uc_data(c), Concat(d, Unit(new))))),
        ('only-this-list-changes', z3.ForAll([z3.Const('us_o', Obj)], z3.Implies(z3.Const('us_o', Obj) != c.h0('_data')[c.a.self],
                                                                             c.h('$list')[z3.Const('us_o', Obj)] == c.h0('$list')[z3.Const('us_o', Obj)])))]


_uc_loop = Loop(lambda c: [('index-in-range', c.i <= L(uc_data(c, False))),
                           ('no-equal-component-so-far', uc_none_before(uc_data(c, False), c.i, c.a.component)),
                           ('nothing-changes-yet', z3.And(c.h('$list') == c.h0('$list'), c.h('$dict') == c.h0('$dict')))])
reg.add(Proc(UC + '__setitem__', [('self', OBJ), ('component', OBJ), ('count', OBJ)],
             source='registry.py:_UnhashableComponentCounter.__setitem__', modifies=['$list'], requires=uc_wf, ensures=_uc_set_post,
             loops={'L0': _uc_loop}))


def _uc_del_post(c):
    d = uc_data(c, False)
    j = z3.Int('ud_j')
    return [('first-equal-entry-removed', z3.ForAll([j], z3.Implies(uc_first(d, j, c.a.component), SeqEq(
        uc_data(c), Concat(SubSeq(d, 0, j), SubSeq(d, j + 1, L(d) - j - 1)))))),
        ('only-this-list-changes', z3.ForAll([z3.Const('us_o', Obj)], z3.Implies(z3.Const('us_o', Obj) != c.h0('_data')[c.a.self],
                                                                             c.h('$list')[z3.Const('us_o', Obj)] == c.h0('$list')[z3.Const('us_o', Obj)])))]


reg.add(Proc(UC + '__delitem__', [('self', OBJ), ('component', OBJ)],
             source='registry.py:_UnhashableComponentCounter.__delitem__', modifies=['$list'], requires=uc_wf, ensures=_uc_del_post,
             raises={'KeyError': (lambda c: uc_none_before(uc_data(c, False), L(uc_data(c, False)), c.a.component),
                                  lambda c: [('nothing-changes', c.h('$list') == c.h0('$list'))])},
             loops={'L0': _uc_loop}))


# ------------------------------------------------------------------ (re-)initialisation: __init__ is also used to wipe a live object
def _new_registry(ex, node, st):
    """AdapterRegistry(): a fresh registry that holds nothing (its ghost maps are empty)"""
    r = ex.fresh_ref(st, 'registry')
    st.heap.set('$A', z3.Store(st.heap.get('$A'), r, EMPTYMAP))
    st.heap.set('$S', z3.Store(st.heap.get('$S'), r, EMPTYMAP))
    return [(st, vobj(r))]


def _assign_components_bases(ex, tgt, st, recv, v):
    """self.__bases__ = tuple(bases): the property setter re-bases the two underlying registries on those of the bases and
    records the tuple -- no effect on listings, registries' contents or events (C06 covers the chain)"""
    return None


def _fresh_empty(c, fld, kind):
    ref = c.h(fld)[c.a.self]
    content = (c.h('$dict')[ref] == EMPTYMAP) if kind == 'dict' else (L(c.h('$list')[ref]) == 0)
    return z3.And(z3.Not(c.h0('$alloc')[ref]), ref != NONE, content)


def _old_untouched(c):
    o = z3.Const('iu_o', Obj)
    return z3.ForAll([o], z3.Implies(c.h0('$alloc')[o], z3.And(c.h('$alloc')[o],
        c.h('$dict')[o] == c.h0('$dict')[o], c.h('$list')[o] == c.h0('$list')[o], c.h('$A')[o] == c.h0('$A')[o], c.h('$S')[o] == c.h0('$S')[o])))


reg.add(Proc(R + 'Components._init_registries', [('self', OBJ)], source='registry.py:Components._init_registries',
             calls={'AdapterRegistry': _new_registry}, modifies=['adapters', 'utilities', '$A', '$S', '$alloc'],
             ensures=lambda c: [('two-fresh-distinct-registries-that-hold-nothing', z3.And(
                 z3.Not(c.h0('$alloc')[c.h('adapters')[c.a.self]]), z3.Not(c.h0('$alloc')[c.h('utilities')[c.a.self]]),
                 c.h('adapters')[c.a.self] != c.h('utilities')[c.a.self],
                 c.h('$A')[c.h('adapters')[c.a.self]] == EMPTYMAP, c.h('$S')[c.h('adapters')[c.a.self]] == EMPTYMAP,
                 c.h('$A')[c.h('utilities')[c.a.self]] == EMPTYMAP, c.h('$S')[c.h('utilities')[c.a.self]] == EMPTYMAP)),
                 ('older-registries-untouched', _old_untouched(c))]))
reg.add(Proc(R + 'Components._init_registrations', [('self', OBJ)], source='registry.py:Components._init_registrations',
             modifies=['_utility_registrations', '_adapter_registrations', '_subscription_registrations', '_handler_registrations',
                       '$dict', '$list', '$alloc'],
             ensures=lambda c: [('four-fresh-empty-listings', z3.And(
                 _fresh_empty(c, '_utility_registrations', 'dict'), _fresh_empty(c, '_adapter_registrations', 'dict'),
                 _fresh_empty(c, '_subscription_registrations', 'list'), _fresh_empty(c, '_handler_registrations', 'list'))),
                 ('older-containers-untouched', _old_untouched(c))]))
reg.add(Proc(R + 'Components.__init__', [('self', OBJ), ('name', OBJ), ('bases', SEQO)], source='registry.py:Components.__init__',
             defaults={'name': V(OBJ, box_name(EMPTYNAME)), 'bases': V(SEQO, Empty(SeqO))},
             calls={'self._init_registries': R + 'Components._init_registries', 'self._init_registrations': R + 'Components._init_registrations'},
             setattr_={'__bases__': _assign_components_bases, '__name__': lambda ex, tgt, st, recv, v: None},
             modifies=['adapters', 'utilities', '$A', '$S', '$alloc', '_utility_registrations', '_adapter_registrations',
                       '_subscription_registrations', '_handler_registrations', '$dict', '$list', '_v_utility_registrations_cache'],
             requires=lambda c: [('the-name-is-a-str', is_name(c.a.name))],
             ensures=lambda c: [
                 ('listings-and-registries-are-empty-together', z3.And(
                     _fresh_empty(c, '_utility_registrations', 'dict'), _fresh_empty(c, '_adapter_registrations', 'dict'),
                     _fresh_empty(c, '_subscription_registrations', 'list'), _fresh_empty(c, '_handler_registrations', 'list'),
                     c.h('$A')[c.h('adapters')[c.a.self]] == EMPTYMAP, c.h('$S')[c.h('adapters')[c.a.self]] == EMPTYMAP,
                     c.h('$A')[c.h('utilities')[c.a.self]] == EMPTYMAP, c.h('$S')[c.h('utilities')[c.a.self]] == EMPTYMAP)),
                 ('the-volatile-utility-bookkeeping-is-dropped', c.h('_v_utility_registrations_cache')[c.a.self] == NONE),
                 ('no-event-is-emitted', c.h('$events') == c.h0('$events')),
                 ('older-containers-and-registries-untouched', _old_untouched(c))]))
