"""Contracts for super() support in declarations.py (property C19) and the by-reference reductions (C13).

For s = super(C, ob), T = type(ob):  rest(s) = T.__mro__[index(C)+1:]  and the specification returned for s has
exactly the bases [implementedBy(c) for c in rest(s)]."""
import z3

from zivc.core import *  # noqa
from zivc.spec import Loop, Proc, Registry
from zivc import symex

FIELDS = {'__self_class__': OBJ, '__thisclass__': OBJ, '__mro__': SEQO, '_super_cache': DICT, '_bases': SEQO,
          '__name__': NAME, 'inherit': OBJ, 'declared': OBJ, '_v_only_for': OBJ, '_Provides__args': OBJ,
          '_ClassProvides__args': OBJ, '__class__': OBJ}
reg = Registry(FIELDS)
L = Length
D = 'declarations.py:'
Int = z3.IntSort()
impl = z3.Function('implementedBy_of', Obj, Obj)          # the class specification of a class (contract of C01)
reg.assumptions.append('implementedBy(cls) returns the class specification stored for cls (C01); class __mro__ tuples are immutable')


def mro_ok(c, sup):
    sc = c.h('__self_class__')[sup]
    tc = c.h('__thisclass__')[sup]
    mro = c.h('__mro__')[sc]
    return z3.And(Contains(mro, tc), IndexOf(mro, tc) + 1 < L(mro))        # C is in the MRO and is not `object`


def rest(c, sup, now=True):
    h = c.h if now else c.h0
    mro = h('__mro__')[h('__self_class__')[sup]]
    k = IndexOf(mro, h('__thisclass__')[sup])
    return Slice(mro, k + 1, L(mro))


reg.add(Proc(D + '_next_super_class', [('ob', OBJ)], source='declarations.py:_next_super_class', result=OBJ,
             requires=lambda c: [('C-in-mro-and-not-last', mro_ok(c, c.a.ob))],
             ensures=lambda c: [('the-class-after-C', c.res == rest(c, c.a.ob)[0])]))

reg.axiom('impl-not-none', z3.ForAll([z3.Const('in_c', Obj)], z3.And(impl(z3.Const('in_c', Obj)) != NONE, impl(z3.Const('in_c', Obj)) != ABSENT),
                                     patterns=[impl(z3.Const('in_c', Obj))]))
reg.add(Proc(D + 'implementedBy', [('cls', OBJ)], result=OBJ, trusted=True, pure_fn=lambda c: impl(c.a.cls),
             ensures=lambda c: [c.res == impl(c.a.cls), c.res != NONE],
             note='contract of C01 restricted to plain classes: the stored class specification; no effect on the super cache'))


def expected_bases(c, sup, now=False):
    """[implementedBy(c) for c in rest]"""
    r = rest(c, sup, now)
    return r


def bases_are_impl_of(c, N, r, now=True):
    h = c.h if now else c.h0
    j = z3.Int('bi_j')
    b = h('_bases')[N]
    return z3.And(L(b) == L(r), z3.ForAll([j], z3.Implies(z3.And(0 <= j, j < L(r)), b[j] == impl(r[j]))))


def cache_inv(c, now=True):
    """every cached super specification of a class T for key C has the bases of T.__mro__ after C"""
    h = c.h if now else c.h0
    T, C = z3.Consts('ci_T ci_C', Obj)
    cache = h('_super_cache')[impl(T)]
    N = h('$dict')[cache][C]
    mro = h('__mro__')[T]
    k = IndexOf(mro, C)
    return z3.ForAll([T, C], z3.Implies(z3.And(cache != NONE, N != ABSENT),
                                        bases_are_impl_of(c, N, Slice(mro, k + 1, L(mro)), now)))


def _weakdict(ex, node, st):
    r = ex.fresh_ref(st, 'weakdict')
    ex.set_dictval(st, r, EMPTYMAP)
    return [(st, V(DICT, r))]


reg.add(Proc(D + 'Implements.named', [('cls', OBJ), ('name', NAME)], varargs='bases', result=OBJ, trusted=True,
             modifies=['$alloc', '_bases', '__name__', 'inherit', 'declared', '_super_cache'],
             ensures=lambda c: [z3.Not(c.h0('$alloc')[c.res]), c.res != NONE,
                                c.h('_bases') == z3.Store(c.h0('_bases'), c.res, c.a.bases),
                                c.h('_super_cache') == z3.Store(c.h0('_super_cache'), c.res, NONE),
                                z3.ForAll([z3.Const('o', Obj)], z3.Implies(z3.Const('o', Obj) != c.res, z3.And(
                                    c.h('inherit')[z3.Const('o', Obj)] == c.h0('inherit')[z3.Const('o', Obj)],
                                    c.h('declared')[z3.Const('o', Obj)] == c.h0('declared')[z3.Const('o', Obj)])))],
             note='Implements.named(name, *bases): a fresh class specification whose __bases__ are the arguments (constructor + __setBases, C02)'))


def _sup_post(c):
    sup = c.a.sup
    r = rest(c, sup, False)
    return [('bases-are-the-remaining-mro', bases_are_impl_of(c, c.res, r)),
            ('cache-stays-sound', cache_inv(c))]


reg.add(Proc(
    D + '_implementedBy_super', [('sup', OBJ)], source='declarations.py:_implementedBy_super', result=OBJ,
    calls={'implementedBy': D + 'implementedBy', '_next_super_class': D + '_next_super_class', 'Implements.named': D + 'Implements.named',
           'weakref.WeakKeyDictionary': _weakdict},
    globals={'Implements': V(OBJ, classconst('Implements'))},
    locals={'$comp_K0': 'obj'},
    requires=lambda c: [('C-in-mro-and-not-last', mro_ok(c, c.a.sup)), ('cache-sound', cache_inv(c)),
                        ('caches-allocated', z3.ForAll([z3.Const('ca_x', Obj)], z3.Implies(
                            c.h('_super_cache')[z3.Const('ca_x', Obj)] != NONE, c.h('$alloc')[c.h('_super_cache')[z3.Const('ca_x', Obj)]]))),
                        ('caches-not-shared', z3.ForAll([z3.Const('cs_a', Obj), z3.Const('cs_b', Obj)], z3.Implies(
                            z3.And(z3.Const('cs_a', Obj) != z3.Const('cs_b', Obj), c.h('_super_cache')[z3.Const('cs_a', Obj)] != NONE),
                            c.h('_super_cache')[z3.Const('cs_a', Obj)] != c.h('_super_cache')[z3.Const('cs_b', Obj)]))),
                        ('class-specs-distinct', z3.ForAll([z3.Const('cd_a', Obj), z3.Const('cd_b', Obj)], z3.Implies(
                            z3.Const('cd_a', Obj) != z3.Const('cd_b', Obj), impl(z3.Const('cd_a', Obj)) != impl(z3.Const('cd_b', Obj))))),
                        ('mro-lists-each-class-once', z3.ForAll([z3.Int('md_i'), z3.Int('md_j')], z3.Implies(
                            z3.And(0 <= z3.Int('md_i'), z3.Int('md_i') < z3.Int('md_j'),
                                   z3.Int('md_j') < L(c.h('__mro__')[c.h('__self_class__')[c.a.sup]])),
                            c.h('__mro__')[c.h('__self_class__')[c.a.sup]][z3.Int('md_i')] !=
                            c.h('__mro__')[c.h('__self_class__')[c.a.sup]][z3.Int('md_j')]))),
                        ('cached-specs-allocated', z3.ForAll([z3.Const('cv_t', Obj), z3.Const('cv_c', Obj)], z3.Implies(
                            z3.And(c.h('_super_cache')[impl(z3.Const('cv_t', Obj))] != NONE,
                                   c.h('$dict')[c.h('_super_cache')[impl(z3.Const('cv_t', Obj))]][z3.Const('cv_c', Obj)] != ABSENT),
                            c.h('$alloc')[c.h('$dict')[c.h('_super_cache')[impl(z3.Const('cv_t', Obj))]][z3.Const('cv_c', Obj)]]))),
                        ('class-specs-allocated', z3.ForAll([z3.Const('al_a', Obj)], c.h('$alloc')[impl(z3.Const('al_a', Obj))]))],
    modifies=['$alloc', '$dict', '_bases', '__name__', 'inherit', 'declared', '_super_cache'],
    ensures=_sup_post,
))


# ------------------------------------------------------------------ later declaration changes: the per-class super cache is dropped
reg.fields['$changed_log'] = SeqO


def _del_super_cache(ex, stmt, st, recv):
    """del self._super_cache: removes the instance attribute (the class-level default None shows again); AttributeError when absent"""
    cur = ex.read_field(st, recv.t, '_super_cache')
    miss = st.clone()
    miss.assume(cur.t == NONE)
    ex.raise_(miss, 'AttributeError')
    st.assume(cur.t != NONE)
    ex.write_field(st, recv.t, '_super_cache', VNONE)
    return [(st, symex.Out(symex.FALL))]


symex.DELATTR['_super_cache'] = _del_super_cache


def _spec_changed(ex, node, st):
    """super().changed(originally_changed): Specification.changed (C02): recomputation and cascade"""
    out = []
    for s, vs in ex.ev_list(node.args, st):
        s.heap.set('$changed_log', Concat(s.heap.get('$changed_log'), Unit(ex.args['self'].t)))
        out.append((s, VNONE))
    return out


reg.add(Proc(D + 'Implements.changed', [('self', OBJ), ('originally_changed', OBJ)], source='declarations.py:Implements.changed',
             calls={'super().changed': _spec_changed}, modifies=['_super_cache', '$changed_log'],
             ensures=lambda c: [('the-cached-super-specifications-of-this-class-are-dropped', c.h('_super_cache')[c.a.self] == NONE),
                                ('then-the-specification-is-recomputed-and-dependents-notified', c.h('$changed_log') == Concat(c.h0('$changed_log'), Unit(c.a.self))),
                                ('caches-of-other-classes-untouched', z3.ForAll([z3.Const('ic_o', Obj)], z3.Implies(
                                    z3.Const('ic_o', Obj) != c.a.self, c.h('_super_cache')[z3.Const('ic_o', Obj)] == c.h0('_super_cache')[z3.Const('ic_o', Obj)])))]))
