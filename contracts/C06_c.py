"""Contracts for the C twin of the generation-checking lookup flavour (properties C05, C06, C08, C10): _generations_tuple,
_verify, verify_changed and the six entry points VB_lookup, VB_lookup1, VB_adapter_hook, VB_queryAdapter, VB_lookupAll,
VB_subscriptions of _zope_interface_coptimizations.c, verified from the clang AST of the real file against the specification
of the Python reference (contracts/C06_verifying.py):

snapshot(L)   L._verify_ro (the registry's resolution order without the registry itself, as of the last changed()) and
              L._verify_generations (their generation counters at that time); in C both are tuples or NULL (never taken)
GenFresh(L)   both are present and every registry of the snapshot still has the recorded generation
_verify()     leaves GenFresh established or fails with an exception; a current snapshot means nothing happens
entry points  parse their arguments, establish GenFresh by _verify() and ONLY THEN let the cache layer (contracts/C05_c.py)
              answer; the cache layer is represented here by stubs whose precondition is GenFresh, so an entry point that
              reads the caches without verifying fails the call-site obligation "the-generation-snapshot-is-verified-first".

Tuples are built item by item in this part of the file, so a tuple object is related to its items by the heap map $tuple."""
import z3

from zivc.core import *  # noqa
from zivc.spec import Ctx, Loop
from zivc import cfun
from zivc.cfun import CProc, C_NULL, fail

B = z3.BoolSort()
Int = z3.IntSort()
L = Length
FIELDS = {'_verify_ro': OBJ, '_verify_generations': OBJ, '_registry': OBJ, 'ro': OBJ, '_generation': INT,
          '_cache': OBJ, '_mcache': OBJ, '_scache': OBJ, '$tuple': z3.ArraySort(Obj, SeqO), '$log': SeqO,
          '$changed_calls': z3.ArraySort(Obj, Int)}
ASSUMPTIONS = ['CPython API models of contracts/C06_c.py and zivc/cfun.py (A2): PyTuple_New does not fail here (allocation failure of the '
               'small generation tuples is not modelled: _generations_tuple itself does not test for it), PyTuple_SET_ITEM fills a new '
               'tuple in index order, tuple(ro) yields the items of the resolution order, PyTuple_GetSlice clamps its bounds, '
               'PyObject_RichCompareBool(t1, t2, Py_NE) on tuples of int objects compares them item-wise; reading `_generation` of a '
               'registry yields the int object of its counter or fails (oracle); PyArg_ParseTupleAndKeywords either fails or binds '
               'every mandatory output to an object and every optional one to an object or leaves it NULL',
               'self.changed(None) called by _verify is the verified C function verify_changed (subclasses overriding changed() must '
               're-take the snapshot as it does); the cache layer behind the entry points is contracts/C05_c.py']
STR_GEN = z3.Const('str__generation', Obj)
STR_REGISTRY = z3.Const('str__registry', Obj)
STR_RO = z3.Const('str_ro', Obj)
STR_CHANGED = z3.Const('str_changed', Obj)
TUPLE_TYPE = z3.Const('PyTuple_Type_object', Obj)
items_of = z3.Function('items_yielded_by', Obj, SeqO)                # tuple(x): what iterating x yields
gen_fails = z3.Function('getattr__generation_fails', Obj, B)
attr_fails = z3.Function('getattr_fails', Obj, Int, B)
cmp_fails = z3.Function('tuple_comparison_fails', Obj, Obj, B)
parse_fails = z3.Function('argument_parsing_fails', Obj, Obj, B)
BASE = {n: z3.Function('cache_layer_' + n, Obj, Obj, Obj, Obj, Obj, Obj) for n in ('_lookup', '_lookup1', '_adapter_hook')}
BASE2 = {n: z3.Function('cache_layer_' + n, Obj, Obj, Obj, Obj) for n in ('_lookupAll', '_subscriptions')}
call_ev = z3.Function('cache_layer_call', Int, Obj, Obj)             # ghost log entry: (which function, lookup object)
WHICH = {'_lookup': 1, '_lookup1': 2, '_adapter_hook': 3, '_lookupAll': 4, '_subscriptions': 5}
AXIOMS = [z3.Distinct(STR_GEN, STR_REGISTRY, STR_RO, STR_CHANGED, C_NULL), TUPLE_TYPE != C_NULL]
GLOBALS = {'str_generation': vobj(STR_GEN), 'str_registry': vobj(STR_REGISTRY), 'strro': vobj(STR_RO), 'strchanged': vobj(STR_CHANGED)}
cfun.ADDRESS_OF.setdefault('PyTuple_Type', vobj(TUPLE_TYPE))
_counter = [0]


def T(c, now=True):
    return (c.h if now else c.h0)('$tuple')


def tview(st, t):
    return z3.Select(st.heap.get('$tuple'), t)


def gens_match(tup, gens_seq, ro_seq, gen_field, upto):
    """gens_seq[:upto] are the int objects of the generation counters of ro_seq[:upto]"""
    j = z3.Int('gm_j')
    return ForAllP([j], z3.Implies(z3.And(0 <= j, j < upto), gens_seq[j] == box_int(gen_field[ro_seq[j]])), [gens_seq[j]])


def gen_fresh(c, now=True):
    h = c.h if now else c.h0
    s = c.a.self
    ro, gens = h('_verify_ro')[s], h('_verify_generations')[s]
    rs, gs = h('$tuple')[ro], h('$tuple')[gens]
    return z3.And(ro != C_NULL, gens != C_NULL, L(gs) == L(rs), gens_match(h('$tuple'), gs, rs, h('_generation'), L(rs)))


def tail_of(seq):
    """seq[1:]"""
    return z3.If(L(seq) >= 1, SubSeq(seq, 1, L(seq) - 1), SubSeq(seq, 0, 0))


def others_tuples_unchanged(c):
    o = z3.Const('tu_o', Obj)
    return ForAllP([o], z3.Implies(c.h0('$alloc')[o], T(c)[o] == T(c, False)[o]), [T(c)[o]])


def alloc_grows(c):
    o = z3.Const('ag_o', Obj)
    return ForAllP([o], z3.Implies(c.h0('$alloc')[o], c.h('$alloc')[o]), [c.h('$alloc')[o]])


# ---------------------------------------------------------------------- API models
def new_tuple(st, contents=None):
    r = fresh('newtuple', Obj)
    alloc = st.heap.get('$alloc')
    st.assume(z3.And(r != C_NULL, r != NONE, r != ABSENT, z3.Not(z3.Select(alloc, r))))
    st.heap.set('$alloc', z3.Store(alloc, r, z3.BoolVal(True)))
    st.heap.set('$tuple', z3.Store(st.heap.get('$tuple'), r, Empty(SeqO) if contents is None else contents))
    return r


def _tuple_new(ex, st, vs):
    return [(st, vobj(new_tuple(st)))]


def _tuple_set_item(ex, st, vs):
    t, i, v = vs[0].t, ex.as_int(vs[1]), vs[2].t
    cur = z3.Select(st.heap.get('$tuple'), t)
    ex.oblige(st, 'api:PyTuple_SET_ITEM:a-new-tuple-is-filled-in-index-order', i == L(cur), 'pre')
    st.assume(i == L(cur))
    st.heap.set('$tuple', z3.Store(st.heap.get('$tuple'), t, Concat(cur, Unit(v))))
    return [(st, vint(0))]


def _tuple_get_size(ex, st, vs):
    return [(st, vint(L(z3.Select(st.heap.get('$tuple'), vs[0].t))))]


def _tuple_get_slice(ex, st, vs):
    """PyTuple_GetSlice(t, low, high): bounds are clamped to [0, len] and high to at least low"""
    t, lo, hi = vs[0].t, ex.as_int(vs[1]), ex.as_int(vs[2])
    c = z3.Select(st.heap.get('$tuple'), t)
    n = L(c)
    lo_c = z3.If(lo < 0, 0, z3.If(lo > n, n, lo))
    hi_c = z3.If(hi > n, n, hi)
    hi_c = z3.If(hi_c < lo_c, lo_c, hi_c)
    return [(st, vobj(new_tuple(st, SubSeq(c, lo_c, hi_c - lo_c))))]


def _getattr(ex, st, vs):
    o, nm = vs[0].t, vs[1].t
    table = {STR_GEN.get_id(): ('gen', None), STR_REGISTRY.get_id(): ('_registry', 1), STR_RO.get_id(): ('ro', 2)}
    ent = table.get(nm.get_id())
    if ent is None:
        raise cfun.CUnsupported('PyObject_GetAttr of %s' % nm)
    bad = st.clone()
    if ent[0] == 'gen':
        bad.assume(gen_fails(o))
        st.assume(z3.Not(gen_fails(o)))
        val = box_int(z3.Select(st.heap.get('_generation'), o))
        st.assume(val != C_NULL)                      # a successful PyObject_GetAttr never returns NULL
    else:
        bad.assume(attr_fails(o, ent[1]))
        st.assume(z3.Not(attr_fails(o, ent[1])))
        val = z3.Select(st.heap.get(ent[0]), o)
        st.assume(val != C_NULL)
    fail(bad, cfun.EXC_ATTRIBUTE_ERROR)
    return [(bad, vobj(C_NULL)), (st, vobj(val))]


def _call_function(ex, st, vs):
    """tuple(ro)"""
    if vs[0].t.get_id() != TUPLE_TYPE.get_id():
        raise cfun.CUnsupported('call of %s' % vs[0].t)
    x = vs[1].t
    _counter[0] += 1
    bad = st.clone()
    bad.assume(attr_fails(x, 100 + _counter[0]))
    fail(bad, cfun.EXC_TYPE_ERROR)
    st.assume(z3.Not(attr_fails(x, 100 + _counter[0])))
    return [(bad, vobj(C_NULL)), (st, vobj(new_tuple(st, items_of(x))))]


def _rich_compare_bool(ex, st, vs):
    a, b, op = vs[0].t, vs[1].t, z3.simplify(ex.as_int(vs[2]))
    if not (z3.is_int_value(op) and op.as_long() == 3):          # Py_NE
        raise cfun.CUnsupported('PyObject_RichCompareBool with an operator other than Py_NE')
    bad = st.clone()
    bad.assume(cmp_fails(a, b))
    fail(bad, cfun.EXC_OTHER)
    st.assume(z3.Not(cmp_fails(a, b)))
    ta, tb = z3.Select(st.heap.get('$tuple'), a), z3.Select(st.heap.get('$tuple'), b)
    return [(bad, vint(-1)), (st, vint(z3.If(SeqEq(ta, tb), 0, 1)))]


def _parse(ex, st, vs):
    """PyArg_ParseTupleAndKeywords(args, kwds, format, kwlist, &out...): 0 with an exception, or 1 with the outputs bound"""
    fmt = getattr(vs[2], 'lit', None)
    outs = vs[4:]
    if fmt is None or any(not isinstance(o, cfun.VRef) for o in outs):
        raise cfun.CUnsupported('PyArg_ParseTupleAndKeywords with a computed format or output')
    kinds = []
    optional = False
    for ch in fmt.strip('"').split(':')[0]:
        if ch == '|':
            optional = True
        elif ch == 'O':
            kinds.append(optional)
        else:
            raise cfun.CUnsupported('format unit %r' % ch)
    if len(kinds) != len(outs):
        raise cfun.CUnsupported('format %r does not match %d outputs' % (fmt, len(outs)))
    bad = st.clone()
    bad.assume(parse_fails(vs[0].t, vs[1].t))
    fail(bad, cfun.EXC_TYPE_ERROR)
    st.assume(z3.Not(parse_fails(vs[0].t, vs[1].t)))
    for opt, o in zip(kinds, outs):
        if opt:
            # an optional argument that is not given leaves the variable as it is (NULL by initialisation)
            v = fresh('arg_' + o.ref, Obj)
            cur = st.env[o.ref].t
            st.env[o.ref] = vobj(z3.If(z3.Const('given_' + o.ref, B), v, cur))
            st.assume(v != C_NULL)
        else:
            v = fresh('arg_' + o.ref, Obj)
            st.assume(v != C_NULL)
            st.env[o.ref] = vobj(v)
    return [(bad, vint(0)), (st, vint(1))]


def _call_changed(ex, st, vs):
    """self.changed(None) -- the virtual method, by the contract of verify_changed (below)"""
    recv, meth = vs[0].t, vs[1].t
    if meth.get_id() != STR_CHANGED.get_id():
        raise cfun.CUnsupported('method call %s' % meth)
    return cfun.callee_contract(CHANGED)(ex, st, [vobj(recv), vs[2]])


API = {'PyTuple_New': _tuple_new, 'PyTuple_SET_ITEM': _tuple_set_item, 'PyTuple_GET_SIZE': _tuple_get_size,
       'PyTuple_GetSlice': _tuple_get_slice, 'PyObject_GetAttr': _getattr, 'PyObject_CallFunctionObjArgs': _call_function,
       'PyObject_RichCompareBool': _rich_compare_bool, 'PyArg_ParseTupleAndKeywords': _parse,
       'PyObject_CallMethodObjArgs': _call_changed}


# ---------------------------------------------------------------------- _generations_tuple(ro)
def _gt_pre(c):
    return [('ro-is-a-live-tuple', z3.And(c.a.ro != C_NULL, c.h('$alloc')[c.a.ro]))]


def _gt_post(c):
    r = c.res
    rs = T(c, False)[c.a.ro]
    return [('NULL-iff-an-exception-is-set', (r == C_NULL) == (c.exc != C_NULL)),
            ('a-new-tuple-of-the-current-generation-counters', z3.Implies(r != C_NULL, z3.And(
                z3.Not(c.h0('$alloc')[r]), c.h('$alloc')[r], L(T(c)[r]) == L(rs),
                gens_match(T(c), T(c)[r], rs, c.h('_generation'), L(rs))))),
            ('existing-tuples-are-unchanged', others_tuples_unchanged(c)), ('allocation-only-grows', alloc_grows(c))]


def _gt_loop(c):
    g, i, l = c.l['generations'], c.l['i'], c.l['l']
    rs = T(c, False)[c.a.ro]
    return [('index-in-range', z3.And(0 <= i, i <= l, l == L(rs))),
            ('the-new-tuple-holds-the-first-i-counters', z3.And(L(T(c)[g]) == i, gens_match(T(c), T(c)[g], rs, c.h('_generation'), i))),
            ('the-new-tuple-is-new', z3.And(g != C_NULL, z3.Not(c.h0('$alloc')[g]), c.h('$alloc')[g], g != c.a.ro)),
            ('existing-tuples-are-unchanged', others_tuples_unchanged(c)), ('allocation-only-grows', alloc_grows(c)),
            ('no-exception-pending', c.exc == C_NULL)]


GENS = CProc('_generations_tuple', [('ro', OBJ)], result=OBJ, requires=_gt_pre, ensures=_gt_post, modifies=['$tuple', '$alloc'],
             loops={'L0': Loop(_gt_loop, modifies=['$tuple'])}, api=API, globals=GLOBALS, tuple_view=tview)


# ---------------------------------------------------------------------- verify_changed(self, ignored): VerifyingBase.changed
def caches_null(c):
    return z3.And(*[c.h(f)[c.a.self] == C_NULL for f in ('_cache', '_mcache', '_scache')])


def only_self_fields(c):
    o = z3.Const('of_o', Obj)
    return z3.And(*[ForAllP([o], z3.Implies(o != c.a.self, c.h(f)[o] == c.h0(f)[o]), [c.h(f)[o]])
                    for f in ('_cache', '_mcache', '_scache', '_verify_ro', '_verify_generations')])


def _ch_pre(c):
    return [('self-is-an-object', c.a.self != C_NULL)]


def _ch_post(c):
    s = c.a.self
    R = c.h0('_registry')[s]
    ro_items = items_of(c.h0('ro')[R])
    return [('NULL-iff-an-exception-is-set', (c.res == C_NULL) == (c.exc != C_NULL)),
            ('the-three-caches-are-emptied', caches_null(c)),
            ('counted-as-one-invalidation', c.h('$changed_calls')[s] == c.h0('$changed_calls')[s] + 1),
            ('snapshot-is-the-current-resolution-order-without-the-registry-itself', z3.Implies(c.res != C_NULL, z3.And(
                c.res == NONE, SeqEq(T(c)[c.h('_verify_ro')[s]], tail_of(ro_items))))),
            ('generations-recorded-for-exactly-that-order', z3.Implies(c.res != C_NULL, gen_fresh(c))),
            ('a-failed-invalidation-leaves-no-snapshot', z3.Implies(c.res == C_NULL, z3.And(
                c.h('_verify_ro')[s] == C_NULL, c.h('_verify_generations')[s] == C_NULL))),
            ('no-other-lookup-object-is-touched', only_self_fields(c)),
            ('existing-tuples-are-unchanged', others_tuples_unchanged(c)), ('allocation-only-grows', alloc_grows(c))]


def _count_changed(ex, st):
    s = ex.args['self'].t
    cc = st.heap.get('$changed_calls')
    st.heap.set('$changed_calls', z3.Store(cc, s, z3.Select(cc, s) + 1))


CHANGED = CProc('verify_changed', [('self', OBJ), ('ignored', OBJ)], result=OBJ, requires=_ch_pre, ensures=_ch_post,
                modifies=['_cache', '_mcache', '_scache', '_verify_ro', '_verify_generations', '$tuple', '$alloc', '$changed_calls'],
                api=API, globals=GLOBALS, callees={'_generations_tuple': GENS}, tuple_view=tview)
CHANGED.on_entry = _count_changed


# ---------------------------------------------------------------------- _verify(self)
def snapshot_wf(c):
    s = c.a.self
    ro, gens = c.h('_verify_ro')[s], c.h('_verify_generations')[s]
    return [('self-is-an-object', c.a.self != C_NULL),
            ('a-snapshot-consists-of-live-tuples', z3.And(z3.Implies(ro != C_NULL, c.h('$alloc')[ro]), z3.Implies(gens != C_NULL, c.h('$alloc')[gens])))]


def _verify_post(c):
    s = c.a.self
    was = gen_fresh(c, False)
    calls = c.h('$changed_calls')[s] - c.h0('$changed_calls')[s]
    return [('minus-one-iff-an-exception-is-set', z3.And(z3.Or(c.res == 0, c.res == -1), (c.res == -1) == (c.exc != C_NULL))),
            ('snapshot-is-current-afterwards', z3.Implies(c.res == 0, gen_fresh(c))),
            ('a-current-snapshot-means-nothing-happens', z3.Implies(z3.And(was, c.res == 0), z3.And(
                calls == 0, c.h('_verify_ro') == c.h0('_verify_ro'), c.h('_verify_generations') == c.h0('_verify_generations'),
                c.h('_cache') == c.h0('_cache'), c.h('_mcache') == c.h0('_mcache'), c.h('_scache') == c.h0('_scache')))),
            ('a-stale-or-missing-snapshot-empties-the-caches-and-is-re-taken', z3.Implies(z3.And(z3.Not(was), c.res == 0), z3.And(
                calls == 1, caches_null(c),
                SeqEq(T(c)[c.h('_verify_ro')[s]], tail_of(items_of(c.h0('ro')[c.h0('_registry')[s]])))))),
            ('at-most-one-invalidation', z3.And(calls >= 0, calls <= 1)),
            ('no-other-lookup-object-is-touched', only_self_fields(c)),
            ('existing-tuples-are-unchanged', others_tuples_unchanged(c)), ('allocation-only-grows', alloc_grows(c))]


VERIFY = CProc('_verify', [('self', OBJ)], result=INT, requires=snapshot_wf, ensures=_verify_post,
               modifies=['_cache', '_mcache', '_scache', '_verify_ro', '_verify_generations', '$tuple', '$alloc', '$changed_calls'],
               api=API, globals=GLOBALS, callees={'_generations_tuple': GENS}, tuple_view=tview)


# ---------------------------------------------------------------------- the cache layer as seen by the entry points (stubs)
def stub(name, params):
    def pre(c):
        return [('the-generation-snapshot-is-verified-first', gen_fresh(c))]

    def post(c):
        args = [c.a[p] for p, _ in params]
        val = (BASE[name] if name in BASE else BASE2[name])(*args)
        return [('answers-what-the-cache-layer-answers', c.res == val),
                ('logged', c.h('$log') == Concat(c.h0('$log'), Unit(call_ev(WHICH[name], c.a.self))))]
    return CProc(name, params, result=OBJ, requires=pre, ensures=post, modifies=['$log'], note='stub: contracts/C05_c.py verifies the body')


P5 = [('self', OBJ), ('required', OBJ), ('provided', OBJ), ('name', OBJ), ('default_', OBJ)]
H5 = [('self', OBJ), ('provided', OBJ), ('object', OBJ), ('name', OBJ), ('default_', OBJ)]
P3 = [('self', OBJ), ('required', OBJ), ('provided', OBJ)]
STUBS = {'_lookup': stub('_lookup', P5), '_lookup1': stub('_lookup1', P5), '_adapter_hook': stub('_adapter_hook', H5),
         '_lookupAll': stub('_lookupAll', P3), '_subscriptions': stub('_subscriptions', P3)}


def entry(cname, target):
    def post(c):
        s = c.a.self
        log0, log = c.h0('$log'), c.h('$log')
        called = log == Concat(log0, Unit(call_ev(WHICH[target], s)))
        return [('the-cache-layer-is-consulted-at-most-once-and-only-after-a-successful-verification', z3.Or(
            z3.And(log == log0, c.res == C_NULL, c.exc != C_NULL), z3.And(called, gen_fresh(c)))),
                ('no-other-lookup-object-is-touched', only_self_fields(c))]
    callees = dict(STUBS)
    callees['_verify'] = VERIFY
    return CProc(cname, [('self', OBJ), ('args', OBJ), ('kwds', OBJ)], result=OBJ, requires=snapshot_wf, ensures=post,
                 modifies=['_cache', '_mcache', '_scache', '_verify_ro', '_verify_generations', '$tuple', '$alloc', '$changed_calls', '$log'],
                 api=API, globals=GLOBALS, callees=callees, tuple_view=tview)


ENTRIES = [entry('VB_lookup', '_lookup'), entry('VB_lookup1', '_lookup1'), entry('VB_adapter_hook', '_adapter_hook'),
           entry('VB_queryAdapter', '_adapter_hook'), entry('VB_lookupAll', '_lookupAll'), entry('VB_subscriptions', '_subscriptions')]
PROCS = [GENS, CHANGED, VERIFY] + ENTRIES
