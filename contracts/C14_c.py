"""Contracts for the C twins of the adaptation protocol (properties C14 and C10): IB__adapt__ and IB__call__ are verified
from the clang AST of the real file against the decision list of the Python reference (contracts/C14_adapt.py): same
oracles for the external calls (__conform__, hooks, a custom __adapt__), same ghost call log."""
import z3

from zivc.core import *  # noqa
from zivc.spec import Loop
from zivc import cfun
from zivc.cfun import CProc, C_NULL, fail
from contracts import C14_adapt as P

B = z3.BoolSort()
Int = z3.IntSort()
FIELDS = {'_implied': OBJ, '$log': SeqO, '$tuple': z3.ArraySort(Obj, SeqO), 'ob_type': OBJ, 'tp_dict': OBJ}
ASSUMPTIONS = ['CPython API models of zivc/cfun.py (A2); module state available (_get_module and friends do not fail); providedBy(obj) '
               'returns a SpecificationBase instance with an _implied mapping (security proxies take the bounded path); hooks do not '
               'edit the hook list (C11 covers that); external calls by the result/raise oracles of contracts/C14_adapt.py']
ev, R, X, hev, stop, HOOKS = P.ev, P.R, P.X, P.hev, P.stop, P.HOOKS
K_CONFORM, K_HOOK, K_CUSTOM = P.K_CONFORM, P.K_HOOK, P.K_CUSTOM
MODULE = z3.Const('zic_module', Obj)
SBCLS = z3.Const('SpecificationBase_class', Obj)
HOOKLIST = z3.Const('adapter_hooks_list_object', Obj)
PB = z3.Function('providedBy_of', Obj, Obj)
pb_fails = z3.Function('providedBy_fails', Obj, B)
STR_CONFORM = z3.Const('str___conform__', Obj)
STR_CALL_CONFORM = z3.Const('str__call_conform', Obj)
STR_ADAPT = z3.Const('str___adapt__', Obj)
FLAG = z3.Const('str__CALL_CUSTOM_ADAPT', Obj)
L = Length
AXIOMS = [a for _, a in P.reg.axioms] + [MODULE != C_NULL, SBCLS != C_NULL, HOOKLIST != C_NULL, z3.Distinct(STR_CONFORM, STR_CALL_CONFORM, STR_ADAPT, C_NULL)]
tuple_alloc_fails = z3.Function('PyTuple_New_fails', Int, B)
# consequences of the defining axioms of `stop` (proved as lemmas on every run, then used with triggers that also fire on X)
_ln, _lj = z3.Ints('sl_n sl_j')
LEMMAS = []
LEMMA_AXIOMS = [a for _, a in P.reg.axioms]      # the lemma is pure arithmetic over the oracles: proved from the definitions of `stop` alone
_ln, _lk, _lq, _lm = z3.Ints('sl_n sl_k sl_q sl_m')
# the loop summary proved below determines the decision list as the Python contract states it (through `stop`); m stands for k-1.
# (label, hypotheses over arbitrary n, k, m, goal): proved on every run; it is not used by any obligation
LEMMAS.append(('the-loop-summary-is-the-decision-list-of-the-Python-contract',
               [0 <= _lk, _lk <= L(HOOKS), _lm == _lk - 1,
                z3.ForAll([_lq], z3.Implies(z3.And(0 <= _lq, _lq < _lm), z3.Not(P.decides(_ln, _lq)))),
                z3.Or(z3.And(_lk >= 1, P.decides(_ln, _lm)), z3.And(_lk == L(HOOKS), z3.Or(_lk == 0, z3.Not(P.decides(_ln, _lm)))))],
               _lk == z3.If(stop(_ln) < L(HOOKS), stop(_ln) + 1, L(HOOKS))))


def provides(c_or_heap_dict, implied_field, self, obj):
    """self is in the implied mapping of providedBy(obj)"""
    return z3.Select(z3.Select(c_or_heap_dict, z3.Select(implied_field, PB(obj))), self) != ABSENT


def log_call(st, kind, callee, a1, a2):
    log = st.heap.get('$log')
    n = Length(log)
    st.heap.set('$log', Concat(log, Unit(ev(kind, callee, a1, a2))))
    bad = st.clone()
    bad.assume(X(n))
    fail(bad, cfun.EXC_OTHER)
    st.assume(z3.Not(X(n)))
    st.assume(R(n) != C_NULL)
    return [(bad, vobj(C_NULL)), (st, vobj(R(n)))]


def _providedBy(ex, st, vs):
    o = vs[1].t
    bad = st.clone()
    bad.assume(pb_fails(o))
    fail(bad, cfun.EXC_OTHER)
    st.assume(z3.Not(pb_fails(o)))
    st.assume(PB(o) != C_NULL)
    return [(bad, vobj(C_NULL)), (st, vobj(PB(o)))]


def _tuple_new(ex, st, vs):
    r = fresh('newtuple', Obj)
    st.assume(z3.And(r != C_NULL, r != NONE))
    return [(st, vobj(r))]


def _tuple_set(ex, st, vs):
    t, i, v = vs[0].t, ex.as_int(vs[1]), vs[2].t
    cur = z3.Select(st.heap.get('$tuple'), t)
    k = int(str(z3.simplify(i)))
    new = Concat(cur, Unit(v)) if k >= 0 else cur          # items are set in order 0, 1, ...
    st.heap.set('$tuple', z3.Store(st.heap.get('$tuple'), t, new))
    return [(st, vint(0))]


def _call_object(ex, st, vs):
    hook, args = vs[0].t, vs[1].t
    a = z3.Select(st.heap.get('$tuple'), args)
    return log_call(st, K_HOOK, hook, a[0], a[1])


def _list_size(ex, st, vs):
    return [(st, vint(Length(z3.Select(st.heap.get('$list'), vs[0].t))))]


def _list_item(ex, st, vs):
    return [(st, vobj(z3.Select(st.heap.get('$list'), vs[0].t)[ex.as_int(vs[1])]))]


def _dict_getitem(ex, st, vs):
    v = z3.Select(z3.Select(st.heap.get('$dict'), vs[0].t), vs[1].t)
    st.assume(v != C_NULL)                     # a dictionary never stores NULL
    return [(st, vobj(z3.If(v == ABSENT, C_NULL, v)))]


def _call_function_objargs(ex, st, vs):
    """decl(self) for a declaration that is not a SpecificationBase (security proxy): outside the verified domain (precondition)"""
    return log_call(st, 99, vs[0].t, vs[1].t if len(vs) > 1 else NONE, NONE)


def _is_true(ex, st, vs):
    return [(st, vint(z3.If(truthy(vs[0].t), 1, 0)))]


API = {'PyObject_CallFunctionObjArgs': _call_function_objargs, 'PyObject_IsTrue': _is_true, '_get_module': lambda ex, st, vs: [(st, vobj(MODULE))], 'providedBy': _providedBy,
       '_get_specification_base_class': lambda ex, st, vs: [(st, vobj(SBCLS))],
       '_get_adapter_hooks': lambda ex, st, vs: [(st, vobj(HOOKLIST))],
       'PyTuple_New': _tuple_new, 'PyTuple_SET_ITEM': _tuple_set, 'PyObject_CallObject': _call_object,
       'PyList_GET_SIZE': _list_size, 'PyList_GET_ITEM': _list_item, 'PyDict_GetItem': _dict_getitem}
GLOBALS = {'str__conform__': vobj(STR_CONFORM), 'str_call_conform': vobj(STR_CALL_CONFORM), 'str__adapt__': vobj(STR_ADAPT)}


def _adapt_pre(c):
    decl = PB(c.a.obj)
    return [('arguments-are-objects', z3.And(c.a.self != C_NULL, c.a.obj != C_NULL)),
            ('providedBy-yields-a-specification-with-an-implied-mapping', z3.Implies(z3.Not(pb_fails(c.a.obj)), z3.And(
                subtype(typeof(decl), SBCLS), c.h('_implied')[decl] != C_NULL))),
            ('the-hook-list-holds-the-installed-hooks', c.h('$list')[HOOKLIST] == HOOKS),
            ('a-new-tuple-is-empty', z3.ForAll([z3.Const('tp_t', Obj)], c.h('$tuple')[z3.Const('tp_t', Obj)] == Empty(SeqO)))]


def prov(c):
    return provides(c.h0('$dict'), c.h0('_implied'), c.a.self, c.a.obj)


def summary(c, k):
    """the decision list as a loop summary: exactly the first k hooks were called, in list order, with (self, obj); none of
    the first k-1 decided; the k-th decided (result or exception), or all hooks were called and none decided (None)"""
    log0, now = c.h0('$log'), c.h('$log')
    n0 = L(log0)
    n = L(HOOKS)
    j = z3.Int('sm_j')
    last = n0 + k - 1
    decided = z3.And(k >= 1, P.decides(n0, k - 1))
    return z3.And(
        0 <= k, k <= n, L(now) == n0 + k, SeqEq(now, Concat(log0, hev(c.a.self, c.a.obj, k))),
        z3.ForAll([j], z3.Implies(z3.And(0 <= j, j < k - 1), z3.Not(P.decides(n0, j)))),
        z3.Or(z3.And(decided, X(last), c.exc != C_NULL, c.res == C_NULL),
              z3.And(decided, z3.Not(X(last)), c.exc == C_NULL, c.res == R(last), c.res != NONE),
              z3.And(z3.Not(decided), k == n, c.exc == C_NULL, c.res == NONE)))


def _adapt_post(c):
    log0, now = c.h0('$log'), c.h('$log')
    ok = z3.Not(pb_fails(c.a.obj))
    k = z3.Int('ap_k')
    if 'i' in c.l:
        # witnesses for the existential: the loop counter at the moment of returning, or one more (the deciding call itself)
        body = z3.Or(summary(c, c.l['i']), summary(c, c.l['i'] + 1))
    else:
        body = z3.Exists([k], summary(c, k))
    return [
        ('provided-returns-the-object-without-calling-anything', z3.Implies(z3.And(ok, prov(c)), z3.And(c.res == c.a.obj, now == log0, c.exc == C_NULL))),
        ('otherwise-the-hooks-are-called-in-list-order-until-one-decides', z3.Implies(z3.And(ok, z3.Not(prov(c))), body)),
        ('NULL-iff-an-exception-is-set', (c.res == C_NULL) == (c.exc != C_NULL)),
    ]


def _adapt_loop(c):
    n0 = L(c.h0('$log'))
    j = z3.Int('al_j')
    i = c.l['i']
    return [('index-in-range', z3.And(0 <= i, i <= L(HOOKS))),
            ('log-is-the-first-i-hook-calls', SeqEq(c.h('$log'), Concat(c.h0('$log'), hev(c.a.self, c.a.obj, i)))),
            ('none-decided-yet', z3.ForAll([j], z3.Implies(z3.And(0 <= j, j < i), z3.Not(P.decides(n0, j))))),
            ('no-decider-before-i', stop(n0) >= i),
            ('the-next-call-is-the-i-th-hook-call', z3.And(L(c.h('$log')) == n0 + i, R(n0 + i) == R(L(c.h('$log'))), X(n0 + i) == X(L(c.h('$log'))))),
            ('not-provided', z3.Not(prov(c))), ('no-exception-pending', c.exc == C_NULL),
            ('the-argument-tuple-is-(self,obj)', SeqEq(c.h('$tuple')[c.l['args']], Concat(Unit(c.a.self), Unit(c.a.obj)))),
            ('hook-list-unchanged', z3.And(c.h('$list') == c.h0('$list'), c.h('$dict') == c.h0('$dict'), c.h('_implied') == c.h0('_implied')))]


ADAPT = CProc('IB__adapt__', [('self', OBJ), ('obj', OBJ)], result=OBJ, requires=_adapt_pre, ensures=_adapt_post,
              modifies=['$log', '$tuple'], loops={'L0': Loop(_adapt_loop, modifies=['$log'])}, api=API, globals=GLOBALS)
PROCS = [ADAPT]
