"""Contracts for the C twins of the adaptation protocol (properties C14 and C10): IB__adapt__ and IB__call__ are verified
from the clang AST of the real file against the decision list of the Python reference (contracts/C14_adapt.py): same
oracles for the external calls (__conform__, hooks, a custom __adapt__), same ghost call log."""
import z3

from zivc.core import *  # noqa
from zivc.spec import Loop
from zivc import cfun
from zivc.cfun import CProc, C_NULL, fail
from contracts import C14_adapt as P

B = z3.BoolSort()
Int = z3.IntSort()
FIELDS = {'_implied': OBJ, '$log': SeqO, '$tuple': z3.ArraySort(Obj, SeqO), 'ob_type': OBJ, 'tp_dict': OBJ}
ASSUMPTIONS = ['CPython API models of zivc/cfun.py (A2); module state available (_get_module and friends do not fail); providedBy(obj) '
               'returns a SpecificationBase instance with an _implied mapping (security proxies take the bounded path); hooks do not '
               'edit the hook list (C11 covers that); external calls by the result/raise oracles of contracts/C14_adapt.py']
ev, R, X, hev, stop, HOOKS = P.ev, P.R, P.X, P.hev, P.stop, P.HOOKS
K_CONFORM, K_HOOK, K_CUSTOM = P.K_CONFORM, P.K_HOOK, P.K_CUSTOM
MODULE = z3.Const('zic_module', Obj)
SBCLS = z3.Const('SpecificationBase_class', Obj)
HOOKLIST = z3.Const('adapter_hooks_list_object', Obj)
PB = z3.Function('providedBy_of', Obj, Obj)
pb_fails = z3.Function('providedBy_fails', Obj, B)
STR_CONFORM = z3.Const('str___conform__', Obj)
STR_CALL_CONFORM = z3.Const('str__call_conform', Obj)
STR_ADAPT = z3.Const('str___adapt__', Obj)
FLAG = z3.Const('str__CALL_CUSTOM_ADAPT', Obj)
L = Length
AXIOMS = [a for _, a in P.reg.axioms] + [MODULE != C_NULL, SBCLS != C_NULL, HOOKLIST != C_NULL, z3.Distinct(STR_CONFORM, STR_CALL_CONFORM, STR_ADAPT, C_NULL)]
tuple_alloc_fails = z3.Function('PyTuple_New_fails', Int, B)
# consequences of the defining axioms of `stop` (proved as lemmas on every run, then used with triggers that also fire on X)
_ln, _lj = z3.Ints('sl_n sl_j')
LEMMAS = []
LEMMA_AXIOMS = [a for _, a in P.reg.axioms]      # the lemma is pure arithmetic over the oracles: proved from the definitions of `stop` alone
_ln, _lk, _lq, _lm = z3.Ints('sl_n sl_k sl_q sl_m')
# the loop summary proved below determines the decision list as the Python contract states it (through `stop`); m stands for k-1.
# (label, hypotheses over arbitrary n, k, m, goal): proved on every run from the definitions of `stop` alone
LEMMAS.append(('the-loop-summary-is-the-decision-list-of-the-Python-contract',
               [0 <= _lk, _lk <= L(HOOKS), _lm == _lk - 1,
                z3.ForAll([_lq], z3.Implies(z3.And(0 <= _lq, _lq < _lm), z3.Not(P.decides(_ln, _lq)))),
                z3.Or(z3.And(_lk >= 1, P.decides(_ln, _lm)), z3.And(_lk == L(HOOKS), z3.Or(_lk == 0, z3.Not(P.decides(_ln, _lm)))))],
               _lk == z3.If(stop(_ln) < L(HOOKS), stop(_ln) + 1, L(HOOKS))))


# contrapositive of the defining axiom `stop-least`, proved on every run like the bridging lemma and then available as an axiom
_cn, _cj = z3.Ints('sc_n sc_j')
LEMMAS.append(('a-decider-bounds-the-first-decider', [0 <= _cj, P.decides(_cn, _cj)], stop(_cn) <= _cj))
AXIOMS.append(z3.ForAll([_cn, _cj], z3.Implies(z3.And(0 <= _cj, P.decides(_cn, _cj)), stop(_cn) <= _cj),
                        patterns=[z3.MultiPattern(stop(_cn), X(_cn + _cj)), z3.MultiPattern(stop(_cn), R(_cn + _cj))]))
# the bridging lemma as a closed formula: available to every obligation of this module (its own proof uses LEMMA_AXIOMS only)
_lbl, _hyps, _goal = LEMMAS[0]
BRIDGE = z3.ForAll([_ln, _lk, _lm], z3.Implies(z3.And(*_hyps), _goal))
AXIOMS.append(BRIDGE)


def provides(c_or_heap_dict, implied_field, self, obj):
    """self is in the implied mapping of providedBy(obj)"""
    return z3.Select(z3.Select(c_or_heap_dict, z3.Select(implied_field, PB(obj))), self) != ABSENT


raises_attribute_error = z3.Function('ext_raises_AttributeError', Int, B)      # the class of the exception an external call raises


def log_call(st, kind, callee, a1, a2):
    log = st.heap.get('$log')
    n = Length(log)
    st.heap.set('$log', Concat(log, Unit(ev(kind, callee, a1, a2))))
    bad = st.clone()
    bad.assume(X(n))
    # an external call may raise anything, in particular AttributeError (which must not be mistaken for a missing __conform__)
    fail(bad, z3.If(raises_attribute_error(n), cfun.EXC_ATTRIBUTE_ERROR, cfun.EXC_OTHER))
    st.assume(z3.Not(X(n)))
    st.assume(R(n) != C_NULL)
    return [(bad, vobj(C_NULL)), (st, vobj(R(n)))]


def _providedBy(ex, st, vs):
    o = vs[1].t
    bad = st.clone()
    bad.assume(pb_fails(o))
    fail(bad, cfun.EXC_OTHER)
    st.assume(z3.Not(pb_fails(o)))
    st.assume(PB(o) != C_NULL)
    return [(bad, vobj(C_NULL)), (st, vobj(PB(o)))]


def _tuple_new(ex, st, vs):
    r = fresh('newtuple', Obj)
    st.assume(z3.And(r != C_NULL, r != NONE))
    return [(st, vobj(r))]


def _tuple_set(ex, st, vs):
    t, i, v = vs[0].t, ex.as_int(vs[1]), vs[2].t
    cur = z3.Select(st.heap.get('$tuple'), t)
    k = int(str(z3.simplify(i)))
    new = Concat(cur, Unit(v)) if k >= 0 else cur          # items are set in order 0, 1, ...
    st.heap.set('$tuple', z3.Store(st.heap.get('$tuple'), t, new))
    return [(st, vint(0))]


def _call_object(ex, st, vs):
    hook, args = vs[0].t, vs[1].t
    a = z3.Select(st.heap.get('$tuple'), args)
    n = Length(st.heap.get('$log'))
    n0 = Length(ex.entry_heap.get('$log'))
    out = log_call(st, K_HOOK, hook, a[0], a[1])
    # ground instance (n0, j = n - n0) of the lemma `a-decider-bounds-the-first-decider` (proved on every run): arithmetic
    # triggers make z3 slow to find it by itself
    j = n - n0
    for s2, _ in out:
        s2.assume(z3.Implies(z3.And(0 <= j, z3.Or(X(n), R(n) != NONE)), stop(n0) <= j))
    return out


def _list_size(ex, st, vs):
    return [(st, vint(Length(z3.Select(st.heap.get('$list'), vs[0].t))))]


def _list_item(ex, st, vs):
    return [(st, vobj(z3.Select(st.heap.get('$list'), vs[0].t)[ex.as_int(vs[1])]))]


def _dict_getitem(ex, st, vs):
    v = z3.Select(z3.Select(st.heap.get('$dict'), vs[0].t), vs[1].t)
    st.assume(v != C_NULL)                     # a dictionary never stores NULL
    return [(st, vobj(z3.If(v == ABSENT, C_NULL, v)))]


def _call_function_objargs(ex, st, vs):
    """decl(self) for a declaration that is not a SpecificationBase (security proxy): outside the verified domain (precondition)"""
    return log_call(st, 99, vs[0].t, vs[1].t if len(vs) > 1 else NONE, NONE)


def _is_true(ex, st, vs):
    return [(st, vint(z3.If(truthy(vs[0].t), 1, 0)))]


API = {'PyObject_CallFunctionObjArgs': _call_function_objargs, 'PyObject_IsTrue': _is_true, '_get_module': lambda ex, st, vs: [(st, vobj(MODULE))], 'providedBy': _providedBy,
       '_get_specification_base_class': lambda ex, st, vs: [(st, vobj(SBCLS))],
       '_get_adapter_hooks': lambda ex, st, vs: [(st, vobj(HOOKLIST))],
       'PyTuple_New': _tuple_new, 'PyTuple_SET_ITEM': _tuple_set, 'PyObject_CallObject': _call_object,
       'PyList_GET_SIZE': _list_size, 'PyList_GET_ITEM': _list_item, 'PyDict_GetItem': _dict_getitem}
GLOBALS = {'str__conform__': vobj(STR_CONFORM), 'str_call_conform': vobj(STR_CALL_CONFORM), 'str__adapt__': vobj(STR_ADAPT)}


def _adapt_pre(c):
    decl = PB(c.a.obj)
    return [('arguments-are-objects', z3.And(c.a.self != C_NULL, c.a.obj != C_NULL)),
            ('providedBy-yields-a-specification', z3.Implies(z3.Not(pb_fails(c.a.obj)), subtype(typeof(decl), SBCLS))),
            ('the-hook-list-holds-the-installed-hooks', c.h('$list')[HOOKLIST] == HOOKS),
            ('a-new-tuple-is-empty', z3.ForAll([z3.Const('tp_t', Obj)], c.h('$tuple')[z3.Const('tp_t', Obj)] == Empty(SeqO)))]


def prov(c):
    return provides(c.h0('$dict'), c.h0('_implied'), c.a.self, c.a.obj)


def summary(c, k):
    """the decision list as a loop summary: exactly the first k hooks were called, in list order, with (self, obj); none of
    the first k-1 decided; the k-th decided (result or exception), or all hooks were called and none decided (None)"""
    log0, now = c.h0('$log'), c.h('$log')
    n0 = L(log0)
    n = L(HOOKS)
    j = z3.Int('sm_j')
    last = n0 + k - 1
    decided = z3.And(k >= 1, P.decides(n0, k - 1))
    return z3.And(
        0 <= k, k <= n, L(now) == n0 + k, SeqEq(now, Concat(log0, hev(c.a.self, c.a.obj, k))),
        z3.ForAll([j], z3.Implies(z3.And(0 <= j, j < k - 1), z3.Not(P.decides(n0, j)))),
        z3.Or(z3.And(decided, X(last), c.exc != C_NULL, c.res == C_NULL),
              z3.And(decided, z3.Not(X(last)), c.exc == C_NULL, c.res == R(last), c.res != NONE),
              z3.And(z3.Not(decided), k == n, c.exc == C_NULL, c.res == NONE)))


def _adapt_post(c):
    log0, now = c.h0('$log'), c.h('$log')
    unset = z3.And(z3.Not(pb_fails(c.a.obj)), c.h0('_implied')[PB(c.a.obj)] == C_NULL)
    ok = z3.And(z3.Not(pb_fails(c.a.obj)), c.h0('_implied')[PB(c.a.obj)] != C_NULL)
    k = z3.Int('ap_k')
    if 'i' in c.l:
        # witnesses for the existential: the loop counter at the moment of returning, or one more (the deciding call itself)
        body = z3.Or(summary(c, c.l['i']), summary(c, c.l['i'] + 1))
    else:
        body = z3.Exists([k], summary(c, k))
    return [
        ('provided-returns-the-object-without-calling-anything', z3.Implies(z3.And(ok, prov(c)), z3.And(c.res == c.a.obj, now == log0, c.exc == C_NULL))),
        ('otherwise-the-hooks-are-called-in-list-order-until-one-decides', z3.Implies(z3.And(ok, z3.Not(prov(c))), body)),
        ('NULL-iff-an-exception-is-set', (c.res == C_NULL) == (c.exc != C_NULL)),
        # fix b0: a declaration whose _implied slot was never set is an AttributeError (as self.providedBy(obj) of the Python code), nothing is called
        ('an-unset-implied-mapping-is-an-AttributeError', z3.Implies(unset, z3.And(c.res == C_NULL, c.exc == cfun.EXC_ATTRIBUTE_ERROR, now == log0))),
        # the same fact in the form of the Python contract (contracts/C14_adapt.py: adapt_post / adapt_raises / adapt_rpost)
    ] + [('python-form:' + lbl, z3.Implies(z3.And(ok, z3.Not(prov(c))), f)) for lbl, f in _python_form(c)]


def _python_form(c):
    log0, now = c.h0('$log'), c.h('$log')
    n0 = L(log0)
    s = stop(n0)
    n = L(HOOKS)
    raises = z3.And(s < n, X(n0 + s))
    k = z3.If(s < n, s + 1, n)
    return [('an-exception-iff-the-deciding-hook-raises', (c.exc != C_NULL) == raises),
            ('log-is-the-hook-calls-up-to-the-deciding-one', SeqEq(now, Concat(log0, hev(c.a.self, c.a.obj, k)))),
            ('result-of-the-deciding-hook-or-None', z3.Implies(z3.Not(raises), c.res == z3.If(s < n, R(n0 + s), NONE)))]


def _adapt_loop(c):
    n0 = L(c.h0('$log'))
    j = z3.Int('al_j')
    i = c.l['i']
    return [('index-in-range', z3.And(0 <= i, i <= L(HOOKS))),
            ('log-is-the-first-i-hook-calls', SeqEq(c.h('$log'), Concat(c.h0('$log'), hev(c.a.self, c.a.obj, i)))),
            ('none-decided-yet', z3.ForAll([j], z3.Implies(z3.And(0 <= j, j < i), z3.Not(P.decides(n0, j))))),
            ('no-decider-before-i', stop(n0) >= i),
            ('the-next-call-is-the-i-th-hook-call', z3.And(L(c.h('$log')) == n0 + i, R(n0 + i) == R(L(c.h('$log'))), X(n0 + i) == X(L(c.h('$log'))))),
            ('not-provided', z3.Not(prov(c))), ('no-exception-pending', c.exc == C_NULL),
            ('the-argument-tuple-is-(self,obj)', SeqEq(c.h('$tuple')[c.l['args']], Concat(Unit(c.a.self), Unit(c.a.obj)))),
            ('hook-list-unchanged', z3.And(c.h('$list') == c.h0('$list'), c.h('$dict') == c.h0('$dict'), c.h('_implied') == c.h0('_implied')))]


ADAPT = CProc('IB__adapt__', [('self', OBJ), ('obj', OBJ)], result=OBJ, requires=_adapt_pre, ensures=_adapt_post,
              modifies=['$log', '$tuple'], loops={'L0': Loop(_adapt_loop, modifies=['$log'])}, api=API, globals=GLOBALS,
              hide=('otherwise-the-hooks-are-called-in-list-order-until-one-decides',))
PROCS = [ADAPT]


# ---------------------------------------------------------------------- IB__call__(self, args, kwargs): the decision list of the statement
ARG_OBJ = z3.Function('call_argument_obj', Obj, Obj, Obj)
ARG_ALT = z3.Function('call_argument_alternate', Obj, Obj, Obj)        # C_NULL: not given
call_parse_fails = z3.Function('call_argument_parsing_fails', Obj, Obj, B)
flag_in = z3.Function('dict_has__CALL_CUSTOM_ADAPT', Obj, B)
build_fails = z3.Function('Py_BuildValue_fails', Int, B)
_bv = [0]


def _parse_call(ex, st, vs):
    fmt = getattr(vs[2], 'lit', '')
    outs = vs[4:]
    if fmt.strip('"') != 'O|O' or len(outs) != 2 or any(not isinstance(o, cfun.VRef) for o in outs):
        raise cfun.CUnsupported('IB__call__: argument format %r' % fmt)
    a, k = vs[0].t, vs[1].t
    bad = st.clone()
    bad.assume(call_parse_fails(a, k))
    fail(bad, cfun.EXC_TYPE_ERROR)
    st.assume(z3.And(z3.Not(call_parse_fails(a, k)), ARG_OBJ(a, k) != C_NULL))
    st.env[outs[0].ref] = vobj(ARG_OBJ(a, k))
    st.env[outs[1].ref] = vobj(ARG_ALT(a, k))
    return [(bad, vint(0)), (st, vint(1))]


def _getattr_conform(ex, st, vs):
    o, nm = vs[0].t, vs[1].t
    if nm.get_id() != STR_CONFORM.get_id():
        raise cfun.CUnsupported('PyObject_GetAttr of %s' % nm)
    a = st.clone()
    a.assume(z3.And(z3.Not(P.has_conform(o)), P.conform_attr_error(o)))
    fail(a, cfun.EXC_ATTRIBUTE_ERROR)
    b = st.clone()
    b.assume(z3.And(z3.Not(P.has_conform(o)), z3.Not(P.conform_attr_error(o))))
    fail(b, cfun.EXC_OTHER)
    st.assume(z3.And(P.has_conform(o), P.conform_of(o) != C_NULL))
    return [(a, vobj(C_NULL)), (b, vobj(C_NULL)), (st, vobj(P.conform_of(o)))]


def _call_method(ex, st, vs):
    recv, meth = vs[0].t, vs[1].t
    if meth.get_id() == STR_CALL_CONFORM.get_id():
        return log_call(st, K_CONFORM, vs[2].t, recv, NONE)          # self._call_conform(conform): conform(self)
    if meth.get_id() == STR_ADAPT.get_id():
        return log_call(st, K_CUSTOM, recv, vs[2].t, NONE)           # a custom __adapt__ (interfacemethod)
    raise cfun.CUnsupported('method call %s' % meth)


def _getitem_string(ex, st, vs):
    key = getattr(vs[1], 'lit', '').strip('"')
    if key != '_CALL_CUSTOM_ADAPT':
        raise cfun.CUnsupported('PyDict_GetItemString(%r)' % key)
    present = fresh('flag_value', Obj)
    st.assume(present != C_NULL)
    return [(st, vobj(z3.If(flag_in(vs[0].t), present, C_NULL)))]


def _build_value(ex, st, vs):
    _bv[0] += 1
    n = _bv[0]
    bad = st.clone()
    bad.assume(build_fails(n))
    fail(bad, cfun.EXC_OTHER)
    st.assume(z3.Not(build_fails(n)))
    r = fresh('could_not_adapt_args', Obj)
    st.assume(r != C_NULL)
    return [(bad, vobj(C_NULL)), (st, vobj(r))]


def _err_set_object(ex, st, vs):
    st.env['$exc'] = vs[0]
    return [(st, vint(0))]


CALL_API = dict(API)
CALL_API.update({'PyArg_ParseTupleAndKeywords': _parse_call, 'PyObject_GetAttr': _getattr_conform, 'PyObject_CallMethodObjArgs': _call_method,
                 'PyDict_GetItemString': _getitem_string, 'Py_BuildValue': _build_value, 'PyErr_SetObject': _err_set_object})


def _call_view(c):
    """the context of the Python contract: obj and alternate as parsed (no alternate given = the private marker)"""
    from zivc.spec import Ctx as _Ctx
    a, k = c.a.args, c.a.kwargs
    args = {'self': V(OBJ, c.a.self), 'obj': V(OBJ, ARG_OBJ(a, k)), 'alternate': V(OBJ, z3.If(ARG_ALT(a, k) == C_NULL, P.MARKER, ARG_ALT(a, k)))}
    v = _Ctx(args, c._heap, c._heap0, res=c.res)
    v.exc, v.exc0 = c.exc, c.exc0
    return v


def _call_pre(c):
    v = _call_view(c)
    o = v.a.obj
    decl = PB(o)
    tpd = c.h('tp_dict')[c.h('ob_type')[c.a.self]]
    return [('arguments-are-objects', z3.And(c.a.self != C_NULL, c.a.args != C_NULL)),
            ('the-flag-marks-interfaces-with-a-custom-__adapt__', flag_in(tpd) == P.custom_adapt(c.a.self)),
            ('providedBy-is-a-pure-query-answering-by-the-implied-mapping', z3.And(
                z3.Not(pb_fails(o)), subtype(typeof(decl), SBCLS), c.h('_implied')[decl] != C_NULL,
                P.provides(c.a.self, o) == provides(c.h('$dict'), c.h('_implied'), c.a.self, o))),
            ('the-hook-list-holds-the-installed-hooks', c.h('$list')[HOOKLIST] == HOOKS),
            ('a-new-tuple-is-empty', z3.ForAll([z3.Const('tp_t', Obj)], c.h('$tuple')[z3.Const('tp_t', Obj)] == Empty(SeqO))),
            ('an-alternate-is-never-the-private-marker', ARG_ALT(c.a.args, c.a.kwargs) != P.MARKER)]


def _call_post(c):
    v = _call_view(c)
    d = P.call_spec(v)
    parsed = z3.Not(call_parse_fails(c.a.args, c.a.kwargs))
    other = z3.Or(d['attr_other'], d['conform_raises'], z3.And(d['reaches_adapt'], d['adapt_raises']))
    type_error = z3.And(d['reaches_adapt'], z3.Not(d['adapt_raises']), d['adapt_res'] == NONE, v.a.alternate == P.MARKER)
    out = [('argument-errors-are-reported-before-anything-runs', z3.Implies(z3.Not(parsed), z3.And(
        c.res == C_NULL, c.exc != C_NULL, c.h('$log') == c.h0('$log')))),
           ('NULL-iff-an-exception-is-set', (c.res == C_NULL) == (c.exc != C_NULL))]
    for lbl, f in P.call_ensures(v):
        out.append((lbl, z3.Implies(z3.And(parsed, c.exc == C_NULL), f)))
    out += [
        ('an-exception-of-a-step-propagates-and-nothing-later-runs', z3.Implies(z3.And(parsed, other), z3.And(c.res == C_NULL, c.exc != C_NULL))),
        ('nothing-ran-when-fetching-__conform__-failed', z3.Implies(z3.And(parsed, d['attr_other']), c.h('$log') == c.h0('$log'))),
        ('TypeError-when-nothing-adapts-and-no-alternate-was-given', z3.Implies(z3.And(parsed, type_error), z3.And(
            c.res == C_NULL, c.exc != C_NULL, SeqEq(c.h('$log'), d['adapt_log'])))),
        ('no-exception-otherwise', z3.Implies(z3.And(parsed, z3.Not(other), z3.Not(type_error)), c.exc == C_NULL))]
    return out


def _call_adapt_cases(c):
    """call-site case distinction for IB__adapt__: provided / not provided (its contract is a disjunction)"""
    return [prov(c), z3.Not(prov(c))]


ADAPT.split = _call_adapt_cases
CALL = CProc('IB__call__', [('self', OBJ), ('args', OBJ), ('kwargs', OBJ)], result=OBJ, requires=_call_pre, ensures=_call_post,
             modifies=['$log', '$tuple'], api=CALL_API, globals=GLOBALS, callees={'IB__adapt__': ADAPT})
PROCS.append(CALL)
