"""Contracts for the C twins of the lookup caches (properties C05, C08 and C10): _subcache, _getcache, _lookup, _lookup1,
_adapter_hook, _lookupAll, _subscriptions and LB_changed/LB_clear of _zope_interface_coptimizations.c are verified from the
clang AST of the real file against the SAME cache-soundness invariant and the SAME top-level postconditions as the Python
reference (contracts/C05_cache.py: sound, sound_multi, the tree of tagged dictionaries, _lookup_post, _multi_post,
_lookup1_post, _hook_post).

Differences of the C representation that the contracts spell out:
  * the three top dictionaries are created lazily: a NULL field stands for an empty cache (convention: nothing is stored
    "in NULL", i.e. the contents of NULL are the empty mapping);
  * `name` and `default` may be NULL (argument not given): NULL name = '' , NULL default = None;
  * every allocation and every dictionary store may fail; on those exits (NULL with an exception set) the contracts still
    demand the invariants (sound caches, well-formed tree) -- the functional clauses are stated for the exception-free exits;
  * reference counting is not the subject here (zivc/cfront.py: obligations U, L, N, B, St of the same functions)."""
import z3

from zivc.core import *  # noqa
from zivc.spec import Ctx
from zivc import cfun
from zivc.cfun import CProc, C_NULL, fail
from zivc.symex import _norm
from contracts import C05_cache as P

B = z3.BoolSort()
Int = z3.IntSort()
FIELDS = dict(P.FIELDS)
FIELDS['__self__'] = OBJ
A = 'adapter.py:'
ASSUMPTIONS = ['CPython API models of contracts/C05_c.py and zivc/cfun.py (A2): PyDict_New/PyDict_SetItem/PyTuple_New may fail '
               '(oracle) and otherwise behave as the mapping operations; PyDict_GetItem swallows a hashing error and answers NULL; '
               'PyDict_GetItemWithError reports it; a dictionary never stores NULL; PySequence_Tuple of a tuple is that tuple '
               '(a lazy `required` with side effects is C11\'s subject); PyObject_IsTrue of a str is "non-empty"; a tuple object is '
               'identified with its contents (tuples are immutable values)',
               'the uncached searches (_uncached_lookup/_uncached_lookupAll/_uncached_subscriptions, called through '
               'PyObject_CallMethodObjArgs) by the virtual contracts of contracts/C05_cache.py, plus an exceptional exit with the '
               'same state conditions; providedBy(object) and the factory call by the oracles of contracts/C05_cache.py']
kind, ownp, ownn = P.kind, P.ownp, P.ownn
K1, K2, KM, KS, T1, TM, TS = P.K1, P.K2, P.KM, P.KS, P.T1, P.TM, P.TS
M, top, node1, node2, mnode, epoch = P.M, P.top, P.node1, P.node2, P.mnode, P.epoch
MODULE = z3.Const('zic_module', Obj)
STR_UL = z3.Const('str__uncached_lookup', Obj)
STR_ULA = z3.Const('str__uncached_lookupAll', Obj)
STR_US = z3.Const('str__uncached_subscriptions', Obj)
STR_SELF = z3.Const('str___self__', Obj)
EMPTY = box_name(EMPTYNAME)
dict_new_fails = z3.Function('PyDict_New_fails', Int, B)
setitem_fails = z3.Function('PyDict_SetItem_fails', Int, B)
tuple_new_fails = z3.Function('PyTuple_New_fails', Int, B)
pb_fails = z3.Function('providedBy_fails', Obj, B)
getattr_self_fails = z3.Function('getattr___self___fails', Obj, B)
type_feature = z3.Function('PyType_HasFeature', Obj, Int, B)
UNICODE_FLAG = 1 << 28

_o, _k = z3.Consts('c5_o c5_k', Obj)
AXIOMS = [a for _, a in P.reg.axioms] + [
    z3.Distinct(STR_UL, STR_ULA, STR_US, STR_SELF, C_NULL), MODULE != C_NULL, P.NOTIN != C_NULL, EMPTY != C_NULL, P.SUPER != C_NULL,
    z3.ForAll([_o], z3.Implies(is_seq(_o), box_seq(unbox_seq(_o)) == _o), patterns=[is_seq(_o)]),          # a tuple object is its contents
    z3.ForAll([_o], type_feature(typeof(_o), UNICODE_FLAG) == is_name(_o), patterns=[type_feature(typeof(_o), UNICODE_FLAG)]),
    z3.Not(is_name(C_NULL)), z3.Not(truthy(EMPTY)),
]
_counter = [0]


def _tick():
    _counter[0] += 1
    return _counter[0]


# ---------------------------------------------------------------------- views
empty_str_alloc_fails = z3.Function('allocating_the_empty_str_fails', z3.IntSort(), z3.BoolSort())


def eff_name(n):
    return z3.If(n == C_NULL, EMPTY, n)


def eff_default(d):
    return z3.If(d == C_NULL, NONE, d)


def pyc(c, **over):
    """the context of the Python contract: same heaps, arguments renamed / converted"""
    args = dict(c.a._d)
    for k, (ty, t) in over.items():
        args[k] = V(ty, t)
    c2 = Ctx(args, c._heap, c._heap0, locals_=c.l._d, res=c.res)
    c2.exc, c2.exc0 = c.exc, c.exc0
    return c2


def tops_c(c, now=True):
    h = c.h if now else c.h0
    out = []
    for fld, k in (('_cache', T1), ('_mcache', TM), ('_scache', TS)):
        x = h(fld)[c.a.self]
        out.append(z3.Or(x == C_NULL, z3.And(x != NONE, x != ABSENT, h('$alloc')[x], is_dict(x), kind(x) == k)))
    return z3.And(*out)


def tree_c(c, now=True):
    """the tree of dictionaries of the Python contract, with lazily created tops"""
    return [('tops-exist-or-are-NULL', tops_c(c, now)),
            ('nothing-is-stored-in-NULL', M(c, now)[C_NULL] == EMPTYMAP)] + P.tree_wf(c, now)[1:]


def inv_pre(c):
    return tree_c(c) + [('cache-sound', P.sound(c, epoch(c))), ('multi-caches-sound', P.sound_multi(c, epoch(c))),
                        ('self-is-an-object', z3.And(c.a.self != C_NULL, c.a.self != NONE))]


def inv_post(c):
    e1 = epoch(c)
    o = z3.Const('ip_o', Obj)
    return [('caches-stay-sound', P.sound(c, e1)), ('multi-caches-stay-sound', P.sound_multi(c, e1))] + \
        [('tree:' + lbl, f) for lbl, f in tree_c(c)] + [
        ('epoch-only-advances', e1 >= epoch(c, False)),
        ('allocation-only-grows', ForAllP([o], z3.Implies(c.h0('$alloc')[o], c.h('$alloc')[o]), [c.h('$alloc')[o]])),
        ('NULL-iff-an-exception-is-set', (c.res == C_NULL) == (c.exc != C_NULL))]


def ok(c, f):
    return z3.Implies(c.exc == C_NULL, f)


# ---------------------------------------------------------------------- the uncached search as seen by the C cache layer
UNCACHED_MODIFIES = ['$dict', '$alloc', '$epoch', '_cache', '_mcache', '_scache']


def uncached_post_c(which):
    """contracts/C05_cache.py:_uncached_post for the C representation: an invalidation during the call-out (LB_changed) sets the
    three fields of the lookup object to NULL and later calls re-create them, so the fields themselves may change"""
    def post(c):
        o = z3.Const('uc_o', Obj)
        e0, e1 = epoch(c, False), epoch(c)
        nm = c.a.name if which == 'lookup' else EMPTY
        ans = {'lookup': P.U, 'lookupAll': P.UA, 'subscriptions': P.US}[which]
        key = P.keyof(c.a.required) if which == 'lookup' else box_seq(c.a.required)
        same_fields = z3.And(*[c.h(f) == c.h0(f) for f in ('_cache', '_mcache', '_scache')])
        return [e1 >= e0,
                z3.Implies(e1 == e0, z3.And(M(c) == M(c, False), same_fields,
                                            c.res == (ans(e0, c.a.provided, nm, key) if which == 'lookup' else ans(e0, c.a.provided, key)))),
                z3.Implies(e1 > e0, z3.And(P.all_nodes_fresh(c, c.h0('$alloc')), *[f for _, f in tree_c(c)])),
                z3.Implies(e1 > e0, P.sound(c, e1)), z3.Implies(e1 > e0, P.sound_multi(c, e1)),
                ForAllP([o], z3.Implies(c.h0('$alloc')[o], c.h('$alloc')[o]), [c.h('$alloc')[o]]),
                c.res != ABSENT, c.res != P.NOTIN, c.res != C_NULL, M(c)[C_NULL] == EMPTYMAP,
                z3.And(*[ForAllP([o], z3.Implies(o != c.a.self, c.h(f)[o] == c.h0(f)[o]), [c.h(f)[o]]) for f in ('_cache', '_mcache', '_scache')]),
                ForAllP([o], z3.Implies(o != c.a.self, c.h('$epoch')[o] == c.h0('$epoch')[o]), [c.h('$epoch')[o]])]
    return post


# ---------------------------------------------------------------------- CPython API models used by these functions
def make_api(on_alloc=None):
    def dict_new(ex, st, vs):
        n = _tick()
        bad = st.clone()
        bad.assume(dict_new_fails(n))
        fail(bad, cfun.EXC_OTHER)
        st.assume(z3.Not(dict_new_fails(n)))
        r = fresh('newdict', Obj)
        alloc = st.heap.get('$alloc')
        st.assume(z3.And(r != C_NULL, r != NONE, r != ABSENT, r != P.NOTIN, is_dict(r), z3.Not(z3.Select(alloc, r))))
        st.heap.set('$alloc', z3.Store(alloc, r, z3.BoolVal(True)))
        st.heap.set('$dict', z3.Store(st.heap.get('$dict'), r, EMPTYMAP))
        if on_alloc is not None:
            on_alloc(ex, st, r)
        return [(bad, vobj(C_NULL)), (st, vobj(r))]

    def dict_getitem(ex, st, vs):
        d, k = vs[0].t, vs[1].t
        v = z3.Select(z3.Select(st.heap.get('$dict'), d), k)
        st.assume(v != C_NULL)                       # a dictionary never stores NULL
        swallowed = st.clone()                       # hashing failed: the error is swallowed, the answer is NULL
        swallowed.assume(cfun.hash_fails(k))
        st.assume(z3.Not(cfun.hash_fails(k)))
        return [(swallowed, vobj(C_NULL)), (st, vobj(z3.If(v == ABSENT, C_NULL, v)))]

    def dict_getitem_with_error(ex, st, vs):
        d, k = vs[0].t, vs[1].t
        v = z3.Select(z3.Select(st.heap.get('$dict'), d), k)
        st.assume(v != C_NULL)
        bad = st.clone()
        bad.assume(cfun.hash_fails(k))
        fail(bad, cfun.EXC_TYPE_ERROR)
        st.assume(z3.Not(cfun.hash_fails(k)))
        return [(bad, vobj(C_NULL)), (st, vobj(z3.If(v == ABSENT, C_NULL, v)))]

    def dict_setitem(ex, st, vs):
        d, k, v = vs[0].t, vs[1].t, vs[2].t
        n = _tick()
        bad = st.clone()
        bad.assume(z3.Or(cfun.hash_fails(k), setitem_fails(n)))
        fail(bad, cfun.EXC_OTHER)
        st.assume(z3.And(z3.Not(cfun.hash_fails(k)), z3.Not(setitem_fails(n))))
        m = st.heap.get('$dict')
        st.heap.set('$dict', z3.Store(m, d, z3.Store(z3.Select(m, d), k, v)))
        return [(bad, vint(-1)), (st, vint(0))]

    def is_true(ex, st, vs):
        return [(st, vint(z3.If(truthy(vs[0].t), 1, 0)))]

    def sequence_tuple(ex, st, vs):
        return [(st, vs[0])]                         # precondition: `required` is a tuple

    def tuple_get_size(ex, st, vs):
        return [(st, vint(Length(unbox_seq(vs[0].t))))]

    def tuple_new(ex, st, vs):
        n = _tick()
        bad = st.clone()
        bad.assume(tuple_new_fails(n))
        fail(bad, cfun.EXC_OTHER)
        st.assume(z3.Not(tuple_new_fails(n)))
        r = fresh('newtuple', Obj)
        st.assume(z3.And(r != C_NULL, r != NONE, r != ABSENT))
        size = int(str(z3.simplify(ex.as_int(vs[0]))))
        if size != 1:
            raise cfun.CUnsupported('PyTuple_New(%d)' % size)
        return [(bad, vobj(C_NULL)), (st, vobj(r))]

    def tuple_set_item(ex, st, vs):
        t, i, v = vs[0].t, ex.as_int(vs[1]), vs[2].t
        if int(str(z3.simplify(i))) != 0:
            raise cfun.CUnsupported('PyTuple_SET_ITEM at a non-zero index')
        st.assume(t == box_seq(Unit(v)))             # the fresh 1-tuple now has its contents (a tuple is its contents)
        return [(st, vint(0))]

    def has_feature(ex, st, vs):
        flag = z3.simplify(ex.as_int(vs[1]))
        return [(st, vbool(type_feature(vs[0].t, flag)))]

    def call_method(ex, st, vs):
        recv, meth = vs[0].t, vs[1].t
        which = {STR_UL.get_id(): 'lookup', STR_ULA.get_id(): 'lookupAll', STR_US.get_id(): 'subscriptions'}.get(meth.get_id())
        if which is None:
            raise cfun.CUnsupported('method call %s' % meth)
        args = {'self': V(OBJ, recv), 'required': V(SEQO, unbox_seq(vs[2].t)), 'provided': V(OBJ, vs[3].t)}
        if which == 'lookup':
            args['name'] = V(OBJ, eff_name(vs[4].t))
        pre = st.heap.clone()
        for fld in UNCACHED_MODIFIES:
            st.heap.set(fld, fresh('H_' + fld.strip('$'), st.heap.sort(fld)))
        res = fresh('uncached_result', Obj)
        c1 = Ctx(args, st.heap, pre, res=res)
        for _, f in _norm(uncached_post_c(which)(c1), 'post'):
            st.assume(f)
        out = []
        for tag, case in (('no-invalidation', epoch(c1) == epoch(c1, False)), ('invalidated', epoch(c1) > epoch(c1, False))):
            ok_ = st.clone()                         # explicit case distinction (the contract states epoch' >= epoch)
            ok_.assume(case)
            ok_.trace.append('call-out:' + tag)
            bad = ok_.clone()                        # the search raised: same state conditions, no result
            fail(bad, cfun.EXC_OTHER)
            out += [(bad, vobj(C_NULL)), (ok_, vobj(res))]
        return out

    def provided_by(ex, st, vs):
        o = vs[1].t
        bad = st.clone()
        bad.assume(pb_fails(o))
        fail(bad, cfun.EXC_OTHER)
        st.assume(z3.And(z3.Not(pb_fails(o)), P.PB(o) != C_NULL))
        return [(bad, vobj(C_NULL)), (st, vobj(P.PB(o)))]

    def getattr_(ex, st, vs):
        o, nm = vs[0].t, vs[1].t
        if nm.get_id() != STR_SELF.get_id():
            raise cfun.CUnsupported('PyObject_GetAttr of %s' % nm)
        bad = st.clone()
        bad.assume(getattr_self_fails(o))
        fail(bad, cfun.EXC_ATTRIBUTE_ERROR)
        v = z3.Select(st.heap.get('__self__'), o)
        st.assume(z3.And(z3.Not(getattr_self_fails(o)), v != C_NULL))
        return [(bad, vobj(C_NULL)), (st, vobj(v))]

    def call_function(ex, st, vs):
        f, a = vs[0].t, vs[1].t
        bad = st.clone()
        bad.assume(P.CALL_RAISES(f, a))
        fail(bad, cfun.EXC_OTHER)
        st.assume(z3.And(z3.Not(P.CALL_RAISES(f, a)), P.CALL(f, a) != C_NULL))
        return [(bad, vobj(C_NULL)), (st, vobj(P.CALL(f, a)))]

    def unicode_from_string(ex, st, vs):
        """PyUnicode_FromString(""): the empty str (a new reference) or NULL with an exception (allocation)"""
        if getattr(vs[0], 'lit', None) != '""':
            raise cfun.CUnsupported('PyUnicode_FromString of %r' % (getattr(vs[0], 'lit', None),))
        bad = st.clone()
        bad.assume(empty_str_alloc_fails(len(st.trace)))
        fail(bad, cfun.EXC_OTHER)
        st.assume(z3.Not(empty_str_alloc_fails(len(st.trace))))
        return [(bad, vobj(C_NULL)), (st, vobj(EMPTY))]

    return {'PyUnicode_FromString': unicode_from_string, 'PyDict_New': dict_new, 'PyDict_GetItem': dict_getitem, 'PyDict_GetItemWithError': dict_getitem_with_error,
            'PyDict_SetItem': dict_setitem, 'PyObject_IsTrue': is_true, 'PySequence_Tuple': sequence_tuple,
            'PyTuple_GET_SIZE': tuple_get_size, 'PyTuple_New': tuple_new, 'PyTuple_SET_ITEM': tuple_set_item,
            'PyType_HasFeature': has_feature, 'PyObject_CallMethodObjArgs': call_method, 'providedBy': provided_by,
            '_get_module': lambda ex, st, vs: [(st, vobj(MODULE))], 'PyObject_GetAttr': getattr_,
            'PyObject_CallFunctionObjArgs': call_function}


GLOBALS = {'str_uncached_lookup': vobj(STR_UL), 'str_uncached_lookupAll': vobj(STR_ULA), 'str_uncached_subscriptions': vobj(STR_US),
           'str__self__': vobj(STR_SELF)}
cfun.ADDRESS_OF.setdefault('PySuper_Type', vobj(P.SUPER))


# ---------------------------------------------------------------------- _subcache(cache, key): the node under `key`, created when missing
def child_kind(k):
    return z3.If(k == T1, K1, z3.If(k == K1, K2, z3.If(k == TM, KM, KS)))


def child_tags(parent, key, r):
    top_level = z3.Or(kind(parent) == T1, kind(parent) == TM, kind(parent) == TS)
    return z3.And(kind(r) == child_kind(kind(parent)), ownp(r) == z3.If(top_level, key, ownp(parent)), ownn(r) == key)


def _sub_pre(c):
    return [('cache-is-a-live-dictionary', z3.And(c.a.cache != C_NULL, c.a.cache != NONE, c.h('$alloc')[c.a.cache])),
            ('key-is-an-object', c.a.key != C_NULL), ('nothing-is-stored-in-NULL', M(c)[C_NULL] == EMPTYMAP)]


def _sub_post(c):
    cache, key, r = c.a.cache, c.a.key, c.res
    o = z3.Const('sp_o', Obj)
    old = M(c, False)[cache][key]
    linked = z3.Store(M(c, False), cache, z3.Store(M(c, False)[cache], key, r))
    return [('NULL-iff-an-exception-is-set', (r == C_NULL) == (c.exc != C_NULL)),
            ('an-existing-node-is-returned-and-nothing-changes', z3.Implies(z3.And(old != ABSENT, z3.Not(cfun.hash_fails(key))), z3.And(
                r == old, c.exc == C_NULL, M(c) == M(c, False), c.h('$alloc') == c.h0('$alloc')))),
            ('otherwise-a-new-empty-dictionary-is-linked-under-the-key', z3.Implies(z3.And(r != C_NULL, old == ABSENT), z3.And(
                z3.Not(c.h0('$alloc')[r]), c.h('$alloc') == z3.Store(c.h0('$alloc'), r, z3.BoolVal(True)), is_dict(r), r != NONE, r != ABSENT,
                M(c) == z3.Store(linked, r, EMPTYMAP), child_tags(cache, key, r)))),
            ('a-result-means-the-key-could-be-hashed', z3.Implies(r != C_NULL, z3.Not(cfun.hash_fails(key)))),
            ('a-result-is-the-node-under-the-key', z3.Implies(r != C_NULL, z3.And(M(c)[cache][key] == r, z3.Or(old == ABSENT, old == r)))),
            ('on-failure-no-existing-dictionary-changed', z3.Implies(r == C_NULL, ForAllP([o], z3.Implies(
                c.h0('$alloc')[o], M(c)[o] == M(c, False)[o]), [M(c)[o]]))),
            ('on-failure-a-dictionary-created-on-the-way-is-empty', z3.Implies(r == C_NULL, ForAllP([o], z3.Implies(
                z3.And(z3.Not(c.h0('$alloc')[o]), c.h('$alloc')[o]), M(c)[o] == EMPTYMAP), [M(c)[o]]))),
            ('nothing-is-stored-in-NULL', M(c)[C_NULL] == EMPTYMAP),
            ('allocation-only-grows', ForAllP([o], z3.Implies(c.h0('$alloc')[o], c.h('$alloc')[o]), [c.h('$alloc')[o]]))]


def _tag_sub(ex, st, r):
    st.assume(child_tags(ex.args['cache'].t, ex.args['key'].t, r))


def _sub_cases(c):
    old = M(c, False)[c.a.cache][c.a.key]
    return [c.res == C_NULL, z3.And(c.res != C_NULL, old != ABSENT), z3.And(c.res != C_NULL, old == ABSENT)]


SUBCACHE = CProc('_subcache', [('cache', OBJ), ('key', OBJ)], result=OBJ, requires=_sub_pre, ensures=_sub_post,
                 modifies=['$dict', '$alloc'], api=make_api(_tag_sub), globals=GLOBALS, split=_sub_cases)


# ---------------------------------------------------------------------- _getcache(self, provided, name)
def _gc_pre(c):
    return inv_pre(c) + [('name-is-NULL-or-a-str', z3.Or(c.a.name == C_NULL, is_name(c.a.name))),
                         ('provided-is-an-object-and-no-name', z3.And(c.a.provided != C_NULL, z3.Not(is_name(c.a.provided))))]


def _gc_post(c):
    p, n = c.a.provided, eff_name(c.a.name)
    o, k = z3.Consts('gc_o gc_k', Obj)
    res = c.res
    expected = z3.If(truthy(n), node2(c, p, n), node1(c, p))
    old1 = node1(c, p, False)
    existed = z3.And(old1 != ABSENT, z3.Or(z3.Not(truthy(n)), node2(c, p, n, False) != ABSENT))
    return inv_post(c) + [
        ('returns-the-node-of-(provided,name)', ok(c, z3.And(res == expected, P.is_node(c, res), P.is_node(c, node1(c, p))))),
        ('an-existing-node-is-returned-as-it-is', z3.Implies(z3.And(existed, z3.Not(cfun.hash_fails(p)), z3.Or(z3.Not(truthy(n)), z3.Not(cfun.hash_fails(n)))), z3.And(
            c.exc == C_NULL, res == z3.If(truthy(n), node2(c, p, n, False), old1), M(c) == M(c, False)))),
        ('success-means-the-keys-could-be-hashed', ok(c, z3.And(z3.Not(cfun.hash_fails(p)), z3.Implies(truthy(n), z3.Not(cfun.hash_fails(n)))))),
        ('a-new-node-is-empty', ok(c, z3.Implies(z3.Not(c.h0('$alloc')[res]), M(c)[res] == EMPTYMAP))),
        ('a-node-that-existed-before-is-the-old-node-of-(provided,name)', ok(c, z3.Implies(c.h0('$alloc')[res], z3.And(
            existed, res == z3.If(truthy(n), node2(c, p, n, False), old1), M(c) == M(c, False))))),
        ('dictionaries-that-existed-keep-their-entries-except-for-the-new-links', ForAllP([o, k], z3.Implies(
            z3.And(c.h0('$alloc')[o], M(c)[o][k] != M(c, False)[o][k]),
            z3.And(M(c, False)[o][k] == ABSENT, z3.Not(c.h0('$alloc')[M(c)[o][k]]),
                   z3.Or(z3.And(o == top(c), k == p), z3.And(o == node1(c, p), k == n, truthy(n))))), [M(c)[o][k]])),
        ('new-dictionaries-hold-nothing-but-new-links', ForAllP([o, k], z3.Implies(
            z3.And(z3.Not(c.h0('$alloc')[o]), c.h('$alloc')[o], M(c)[o][k] != ABSENT),
            z3.And(z3.Not(c.h0('$alloc')[M(c)[o][k]]),
                   z3.Or(z3.And(o == top(c), k == p), z3.And(o == node1(c, p), k == n, truthy(n))))), [M(c)[o][k]])),
        ('only-the-own-lazily-created-top-is-assigned', z3.And(
            c.h('_mcache') == c.h0('_mcache'), c.h('_scache') == c.h0('_scache'),
            ForAllP([o], z3.Implies(o != c.a.self, c.h('_cache')[o] == c.h0('_cache')[o]), [c.h('_cache')[o]]),
            z3.Or(top(c) == top(c, False), z3.And(top(c, False) == C_NULL, z3.Not(c.h0('$alloc')[top(c)]))))),
        ('epoch-unchanged', c.h('$epoch') == c.h0('$epoch'))]


def _tag_top(k):
    def h(ex, st, r):
        st.assume(kind(r) == k)
    return h


GETCACHE = CProc('_getcache', [('self', OBJ), ('provided', OBJ), ('name', OBJ)], result=OBJ, requires=_gc_pre, ensures=_gc_post,
                 modifies=['$dict', '$alloc', '_cache'], api=make_api(_tag_top(T1)), globals=GLOBALS, callees={'_subcache': SUBCACHE},
                 hide=('dictionaries-that-existed-keep-their-entries-except-for-the-new-links', 'new-dictionaries-hold-nothing-but-new-links'))


# ---------------------------------------------------------------------- _lookup(self, required, provided, name, default_)
def _req_tuple(c):
    return ('required-is-a-tuple', z3.And(c.a.required != C_NULL, is_seq(c.a.required)))


def _lookup_view(c):
    return pyc(c, required=(SEQO, unbox_seq(c.a.required)), name=(OBJ, eff_name(c.a.name)), default=(OBJ, eff_default(c.a.default_)))


def _value_error(c, name):
    """a name that is given and is not a str: ValueError before anything is touched"""
    bad = z3.And(name != C_NULL, z3.Not(is_name(name)))
    return [('a-non-str-name-is-a-ValueError-and-nothing-is-touched', z3.Implies(bad, z3.And(
        c.res == C_NULL, c.exc == cfun.EXC_VALUE_ERROR, M(c) == M(c, False), c.h('$epoch') == c.h0('$epoch'),
        c.h('$alloc') == c.h0('$alloc'), c.h('_cache') == c.h0('_cache'))))]


def _lookup_pre(c):
    v = _lookup_view(c)
    return inv_pre(c) + [_req_tuple(c), ('provided-is-an-object-and-no-name', z3.And(c.a.provided != C_NULL, z3.Not(is_name(c.a.provided)))),
                         ('required-specifications-are-neither-names-nor-tuples', z3.Implies(
                             Length(v.a.required) == 1, z3.And(z3.Not(is_name(v.a.required[0])), z3.Not(is_seq(v.a.required[0])),
                                                               v.a.required[0] != C_NULL)))]


def _functional(c, clauses, skip=()):
    """the clauses of the Python contract that speak about the result, for the exception-free exits"""
    return [(lbl, ok(c, f)) for lbl, f in clauses if not lbl.startswith('tree:') and lbl not in skip]


_INV_LABELS = ('the-caches-are-reached-through-the-virtual-_getcache',      # Python only: the C entry points of the verifying flavour verify explicitly (contracts/C06_c.py)
               'cache-stays-sound-whatever-the-call-out-did', 'multi-caches-stay-sound', 'epoch-only-advances', 'caches-stay-sound',
               'caches-stay-sound-whatever-the-call-out-did')


def _lookup_post(c):
    v = _lookup_view(c)
    return inv_post(c) + _value_error(c, c.a.name) + _functional(v, P._lookup_post(v), _INV_LABELS)


LOOKUP = CProc('_lookup', [('self', OBJ), ('required', OBJ), ('provided', OBJ), ('name', OBJ), ('default_', OBJ)], result=OBJ,
               requires=_lookup_pre, ensures=_lookup_post, modifies=['$dict', '$alloc', '$epoch', '_cache', '_mcache', '_scache'],
               api=make_api(), globals=GLOBALS, callees={'_getcache': GETCACHE})


# ---------------------------------------------------------------------- _lookup1(self, required, provided, name, default_)
def _l1_view(c):
    return pyc(c, name=(OBJ, eff_name(c.a.name)), default=(OBJ, eff_default(c.a.default_)))


def _single_pre(c, key):
    return inv_pre(c) + [('provided-is-an-object-and-no-name', z3.And(c.a.provided != C_NULL, z3.Not(is_name(c.a.provided)))),
                         ('the-required-specification-is-neither-a-name-nor-a-tuple', z3.And(z3.Not(is_name(key)), z3.Not(is_seq(key)), key != C_NULL))]


def _l1_post(c):
    v = _l1_view(c)
    return inv_post(c) + _value_error(c, c.a.name) + _functional(v, P._lookup1_post(v), _INV_LABELS)


LOOKUP1 = CProc('_lookup1', [('self', OBJ), ('required', OBJ), ('provided', OBJ), ('name', OBJ), ('default_', OBJ)], result=OBJ,
                requires=lambda c: _single_pre(c, c.a.required), ensures=_l1_post, modifies=['$dict', '$alloc', '$epoch', '_cache', '_mcache', '_scache'],
                api=make_api(), globals=GLOBALS, callees={'_getcache': GETCACHE, '_lookup': LOOKUP})


# ---------------------------------------------------------------------- _adapter_hook(self, provided, object, name, default_)
def _hook_post(c):
    v = _l1_view(c)
    return inv_post(c) + _value_error(c, c.a.name) + _functional(v, P._hook_post(v), _INV_LABELS)


def _hook_pre(c):
    return _single_pre(c, P.PB(c.a.object)) + [('object-is-an-object', c.a.object != C_NULL)]


HOOK = CProc('_adapter_hook', [('self', OBJ), ('provided', OBJ), ('object', OBJ), ('name', OBJ), ('default_', OBJ)], result=OBJ,
             requires=_hook_pre, ensures=_hook_post, modifies=['$dict', '$alloc', '$epoch', '_cache', '_mcache', '_scache'],
             api=make_api(), globals=GLOBALS, callees={'_lookup1': LOOKUP1})


# ---------------------------------------------------------------------- _lookupAll / _subscriptions(self, required, provided)
def _multi_view(c):
    return pyc(c, required=(SEQO, unbox_seq(c.a.required)))


def _multi_pre(c):
    return inv_pre(c) + [_req_tuple(c), ('provided-is-an-object', c.a.provided != C_NULL)]


def _multi_post(fld, ans):
    def post(c):
        v = _multi_view(c)
        other = [f for f in ('_cache', '_mcache', '_scache') if f != fld]
        return inv_post(c) + _functional(v, P._multi_post(fld, ans)(v), _INV_LABELS) + [
            ('without-an-invalidation-the-other-tops-are-not-assigned', z3.Implies(epoch(c) == epoch(c, False), z3.And(*[c.h(f) == c.h0(f) for f in other])))]
    return post


LOOKUPALL = CProc('_lookupAll', [('self', OBJ), ('required', OBJ), ('provided', OBJ)], result=OBJ, requires=_multi_pre,
                  ensures=_multi_post('_mcache', P.UA), modifies=['$dict', '$alloc', '$epoch', '_cache', '_mcache', '_scache'],
                  api=make_api(_tag_top(TM)), globals=GLOBALS, callees={'_subcache': SUBCACHE})
SUBSCRIPTIONS = CProc('_subscriptions', [('self', OBJ), ('required', OBJ), ('provided', OBJ)], result=OBJ, requires=_multi_pre,
                      ensures=_multi_post('_scache', P.US), modifies=['$dict', '$alloc', '$epoch', '_cache', '_mcache', '_scache'],
                      api=make_api(_tag_top(TS)), globals=GLOBALS, callees={'_subcache': SUBCACHE})


# ---------------------------------------------------------------------- LB_changed: the three caches become empty (NULL)
def _changed_post(c):
    s = c.a.self
    o = z3.Const('ch_o', Obj)
    return [('all-three-caches-are-empty', z3.And(*[c.h(f)[s] == C_NULL for f in ('_cache', '_mcache', '_scache')])),
            ('returns-None', z3.And(c.res == NONE, c.exc == C_NULL)),
            ('no-other-object-is-touched', z3.And(*[ForAllP([o], z3.Implies(o != s, c.h(f)[o] == c.h0(f)[o]), [c.h(f)[o]])
                                                    for f in ('_cache', '_mcache', '_scache')]))]


changed_parse_fails = z3.Function('changed_arguments_do_not_parse', Obj, Obj, z3.BoolSort())


def _changed_parse(ex, st, vs):
    """PyArg_ParseTupleAndKeywords(args, kwds, "|O:changed", {"ignored"}, &ignored): at most one argument (def changed(self, ignored=None))"""
    fmt = getattr(vs[2], 'lit', '')
    outs = vs[4:]
    if not fmt.strip('"').startswith('|O') or len(outs) != 1 or not isinstance(outs[0], cfun.VRef):
        raise cfun.CUnsupported('LB_changed: argument format %r' % fmt)
    a, k = vs[0].t, vs[1].t
    bad = st.clone()
    bad.assume(changed_parse_fails(a, k))
    fail(bad, cfun.EXC_TYPE_ERROR)
    st.assume(z3.Not(changed_parse_fails(a, k)))
    st.env[outs[0].ref] = vobj(z3.Const('changed_ignored_argument', Obj))
    return [(bad, vint(0)), (st, vint(1))]


def _changed_post2(c):
    s = c.a.self
    ok = z3.Not(changed_parse_fails(c.a.args, c.a.kwds))
    clauses = _changed_post(c)
    return [(lbl, z3.Implies(ok, f)) for lbl, f in clauses] + [
        ('arguments-that-do-not-parse-are-a-TypeError-and-the-caches-stay', z3.Implies(z3.Not(ok), z3.And(
            c.res == C_NULL, c.exc == cfun.EXC_TYPE_ERROR, *[c.h(f) == c.h0(f) for f in ('_cache', '_mcache', '_scache')]))),
        ('NULL-iff-an-exception-is-set', (c.res == C_NULL) == (c.exc != C_NULL))]


_changed_api = make_api()
_changed_api['PyArg_ParseTupleAndKeywords'] = _changed_parse
CHANGED = CProc('LB_changed', [('self', OBJ), ('args', OBJ), ('kwds', OBJ)], result=OBJ, requires=lambda c: [('self-is-an-object', c.a.self != C_NULL)],
                ensures=_changed_post2, modifies=['_cache', '_mcache', '_scache'], api=_changed_api, globals=GLOBALS)

PROCS = [SUBCACHE, GETCACHE, LOOKUP, LOOKUP1, HOOK, LOOKUPALL, SUBSCRIPTIONS, CHANGED]
