"""Contracts for the class-side declaration machinery of declarations.py (property C01).

Per class specification s (an Implements):  declared(s)  the tuple s.declared,  inherit(s)  the class whose bases
contribute inherited specifications (None after an *only* form),  bases(s)  the tuple assigned to s.__bases__.
implied(s, x)  is what s.isOrExtends(x) answers (ghost relation; C02 proves it equals reachability over bases).

The statement "report exactly the declared and inherited interfaces; only a declaration that is redundant at the moment it
is made may be dropped" is carried by two-sided membership bounds on declared' and by the shape of the assigned bases:
    every x in declared                      stays in declared'                     (nothing is lost)
    every new x that spec does not imply     is in declared'                        (only redundant ones may be dropped)
    every member of declared'                is old or one of the arguments         (nothing is invented)
    bases' = declared' ++ [implementedBy(c) for c in inherit.__bases__ not already listed]   (inherited unless *only*)
Assigning __bases__ is the verified setter of C02 (subscription invariant + changed()); here it is a ghost update."""
import z3

from zivc.core import *  # noqa
from zivc.spec import Loop, Proc, Registry
from zivc import symex

IMPL = z3.ArraySort(Obj, z3.ArraySort(Obj, z3.BoolSort()))
FIELDS = {'declared': SEQO, 'inherit': OBJ, '_bases': SEQO, '_v_only_for': OBJ, '__bases__cls': SEQO,
          '$implied': IMPL, '$rebased': SeqO}
reg = Registry(FIELDS)
L = Length
D = 'declarations.py:'
Int = z3.IntSort()
B = z3.BoolSort()
INTERFACE = z3.Const('zope_Interface', Obj)
reg.axiom('Interface-is-an-object', z3.And(INTERFACE != NONE, INTERFACE != ABSENT))
impl = z3.Function('implementedBy_of', Obj, Obj)          # the class specification of a class
normalize = z3.Function('_normalizeargs', SeqO, SeqO)      # flattening of declaration arguments (C20 checks it bounded)
ext = z3.Function('extends', Obj, Obj, B)                  # iface.extends(b)  (strict): C02
_c = z3.Const('im_c', Obj)
reg.axiom('class-specifications-are-objects', z3.ForAll([_c], z3.And(impl(_c) != NONE, impl(_c) != ABSENT), patterns=[impl(_c)]))
reg.assumptions.append('implementedBy(cls) returns the class specification stored for cls and does not change the declarations of '
                       'other classes (its body, with the old-style and proxy fallbacks, is checked bounded); class __bases__ tuples '
                       'are never reassigned (documented as unsupported); specifications are compared by identity')
reg.assumptions.append('assigning spec.__bases__ is the setter verified under C02 (subscription invariant, changed() recomputes the '
                       'implied set of the specification and of every dependent); here it records the new bases, refreshes the ghost '
                       'relation `implied` of that specification and logs the re-basing')


def implied(c, s, x, now=True):
    return (c.h if now else c.h0)('$implied')[s][x]


reg.add(Proc('interface.py:SpecificationBase.isOrExtends', [('self', OBJ), ('interface', OBJ)], result=BOOL, trusted=True,
             pure_fn=lambda c: c.h('$implied')[c.a.self][c.a.interface], note='C02: membership in the implied set'))
reg.add(Proc('interface.py:Specification.extends', [('self', OBJ), ('interface', OBJ)], result=BOOL, trusted=True,
             pure_fn=lambda c: ext(c.a.self, c.a.interface), note='C02/C20: strict extension'))
reg.add(Proc(D + 'implementedBy', [('cls', OBJ)], result=OBJ, trusted=True, pure_fn=lambda c: impl(c.a.cls),
             note='the stored class specification (assumed pure here; bounded elsewhere)'))
reg.add(Proc(D + '_normalizeargs', [('sequence', SEQO)], result=SEQO, trusted=True, pure_fn=lambda c: normalize(c.a.sequence),
             note='flattening of nested declaration arguments (C20)'))


def _set_bases(ex, tgt, st, recv, v):
    """spec.__bases__ = value  (Specification.__setBases, verified under C02)"""
    v = ex.coerce(v, SEQO, st)
    s = recv.t
    st.heap.set('_bases', z3.Store(st.heap.get('_bases'), s, v.t))
    st.heap.set('$rebased', Concat(st.heap.get('$rebased'), Unit(s)))
    new = fresh('implied_after_rebasing', IMPL)
    o, x = z3.Consts('sb_o sb_x', Obj)
    j = z3.Int('sb_j')
    # what C02 proves about the new implied set, as far as it is needed here: the specification itself, the root and every
    # direct base are implied; with no bases nothing else is
    st.assume(z3.And(new[s][s], new[s][INTERFACE]))
    st.assume(z3.ForAll([j], z3.Implies(z3.And(0 <= j, j < L(v.t)), new[s][v.t[j]])))
    st.assume(z3.Implies(L(v.t) == 0, z3.ForAll([x], new[s][x] == z3.Or(x == s, x == INTERFACE))))
    st.heap.set('$implied', new)


SET = {'__bases__': _set_bases}


def members(s, x):
    return Contains(s, x)


def nodup(s):
    a, b = z3.Ints('nd_a nd_b')
    return z3.ForAll([a, b], z3.Implies(z3.And(0 <= a, a < b, b < L(s)), s[a] != s[b]))


def keep(c, x, spec, now=False):
    """the filter of _classImplements_ordered: not already implied, or the root while nothing is declared"""
    h = c.h0 if not now else c.h
    return z3.Or(z3.Not(h('$implied')[spec][x]), z3.And(x == INTERFACE, L(h('declared')[spec]) == 0))


def inherited_specs(c, spec, now=True):
    """[implementedBy(k) for k in inherit.__bases__]"""
    h = c.h if now else c.h0
    return h('__bases__cls')[h('inherit')[spec]]


def _cio_post(c):
    spec = c.a.spec
    x = z3.Const('co_x', Obj)
    j = z3.Int('co_j')
    d0 = c.h0('declared')[spec]
    d1 = c.h('declared')[spec]
    b1 = c.h('_bases')[spec]
    inh = c.h0('inherit')[spec]
    kb = c.h0('__bases__cls')[inh]
    return [
        ('nothing-declared-is-lost', z3.ForAll([x], z3.Implies(members(d0, x), members(d1, x)))),
        ('only-redundant-declarations-may-be-dropped', z3.ForAll([x], z3.Implies(
            z3.And(z3.Or(members(c.a.before, x), members(c.a.after, x)), keep(c, x, spec)), members(d1, x)))),
        ('nothing-is-invented', z3.ForAll([x], z3.Implies(members(d1, x), z3.Or(members(d0, x), members(c.a.before, x), members(c.a.after, x))))),
        ('no-duplicates', nodup(d1)),
        ('bases-start-with-the-declared-interfaces', z3.And(L(b1) >= L(d1), SeqEq(SubSeq(b1, 0, L(d1)), d1))),
        ('inherited-specifications-follow-unless-only', z3.If(
            inh == NONE, L(b1) == L(d1),
            z3.And(z3.ForAll([j], z3.Implies(z3.And(0 <= j, j < L(kb)), members(b1, impl(kb[j])))),
                   z3.ForAll([j], z3.Implies(z3.And(L(d1) <= j, j < L(b1)), z3.Exists([z3.Int('co_k')], z3.And(
                       0 <= z3.Int('co_k'), z3.Int('co_k') < L(kb), b1[j] == impl(kb[z3.Int('co_k')])))))))),
        ('bases-have-no-duplicates', nodup(b1)),
        ('the-specification-was-re-based-exactly-once', c.h('$rebased') == Concat(c.h0('$rebased'), Unit(spec))),
        ('other-specifications-untouched', z3.ForAll([x], z3.Implies(x != spec, z3.And(
            c.h('declared')[x] == c.h0('declared')[x], c.h('_bases')[x] == c.h0('_bases')[x], c.h('inherit')[x] == c.h0('inherit')[x])))),
        ('inherit-flag-kept', c.h('inherit')[spec] == c.h0('inherit')[spec]),
    ]


def _seen_is(c, lst_terms, upto_seq):
    """seen == set(new_declared):  membership in the set <=> membership in new_declared"""
    x = z3.Const('si_x', Obj)
    nd = c.h('$list')[c.l.new_declared]
    return z3.ForAll([x], (c.h('$dict')[c.l.seen][x] != ABSENT) == members(nd, x))


def _cio_pre(c):
    spec = c.a.spec
    return [('declared-has-no-duplicates', nodup(c.h('declared')[spec])),
            ('spec-is-an-object', z3.And(spec != NONE, spec != ABSENT))]


def _filtered(c, src, acc, i):
    """acc holds exactly the kept elements among the first i of src (comprehension invariant, membership form + order-free)"""
    x = z3.Const('fl_x', Obj)
    j = z3.Int('fl_j')
    return z3.And(
        z3.ForAll([x], members(acc, x) == z3.Exists([j], z3.And(0 <= j, j < i, src[j] == x, keep(c, x, c.a.spec, True)))))


def _K0(c):
    return [('kept-so-far', _filtered(c, c.a.before, c.acc, c.i)), ('heap-stable', _stable_heap(c))]


def _K1(c):
    return [('kept-so-far', _filtered(c, c.a.after, c.acc, c.i)), ('heap-stable', _stable_heap(c))]


def _stable_heap(c):
    return z3.And(c.h('declared') == c.h0('declared'), c.h('$implied') == c.h0('$implied'), c.h('_bases') == c.h0('_bases'),
                  c.h('inherit') == c.h0('inherit'), c.h('$rebased') == c.h0('$rebased'))


def _done_lists(c, k, within=None):
    """x is in new_declared  <=>  x is in one of the first k of (before', declared, after') [or in the first `within` of list k]"""
    x = z3.Const('dl_x', Obj)
    nd = c.h('$list')[c.l.new_declared]
    lists = [seq_of_obj(c, c.l.before), c.h0('declared')[c.a.spec], seq_of_obj(c, c.l.after)]
    j = z3.Int('dl_j')

    def in_first(kk):
        return z3.Or(*[z3.And(kk > n, members(lists[n], x)) for n in range(3)])
    cur = z3.BoolVal(False)
    if within is not None:
        cur = z3.Or(*[z3.And(k == n, z3.Exists([j], z3.And(0 <= j, j < within, lists[n][j] == x))) for n in range(3)])
    return z3.ForAll([x], members(nd, x) == z3.Or(in_first(k), cur))


def seq_of_obj(c, v):
    """a local that holds a list built by a comprehension (kept by value in the model) or a list object"""
    return v if is_seq_term(v) else z3.If(is_seq(v), unbox_seq(v), c.h('$list')[v])


def _fresh_locals(c, *names):
    """containers that existed at entry are untouched; the named locals were allocated by this call"""
    o = z3.Const('fl_o', Obj)
    return z3.And(z3.ForAll([o], z3.Implies(c.h0('$alloc')[o], z3.And(c.h('$list')[o] == c.h0('$list')[o], c.h('$dict')[o] == c.h0('$dict')[o],
                                                                      c.h('$alloc')[o]))),
                  *[z3.Not(c.h0('$alloc')[c.l[n]]) for n in names])


def _L0(c):       # for lst in before, spec.declared, after
    return [('collected-the-lists-so-far', _done_lists(c, c.i)), ('seen-mirrors-new_declared', _seen_is(c, None, None)),
            ('no-duplicates', nodup(c.h('$list')[c.l.new_declared])), ('heap-stable', _stable_heap(c)),
            ('locals-alive', z3.And(c.l.new_declared != NONE, c.l.seen != NONE, c.l.new_declared != c.l.seen)),
            ('only-own-containers-change', _fresh_locals(c, 'new_declared', 'seen'))]


def _L00(c):      # for b in lst
    outer = c.x['$i_L0'] if '$i_L0' in c.x else c.l['$i_L0']
    return [('collected-so-far', _done_lists(c, outer, c.i)), ('seen-mirrors-new_declared', _seen_is(c, None, None)),
            ('no-duplicates', nodup(c.h('$list')[c.l.new_declared])), ('heap-stable', _stable_heap(c)),
            ('locals-alive', z3.And(c.l.new_declared != NONE, c.l.seen != NONE, c.l.new_declared != c.l.seen)),
            ('only-own-containers-change', _fresh_locals(c, 'new_declared', 'seen'))]


def _L1(c):       # for c in spec.inherit.__bases__
    spec = c.a.spec
    j = z3.Int('l1_j')
    kb = c.h0('__bases__cls')[c.h0('inherit')[spec]]
    bases = c.h('$list')[c.l.bases]
    d1 = c.h('declared')[spec]
    return [('declared-final', SeqEq(SubSeq(bases, 0, L(d1)), d1)), ('declared-prefix-length', L(bases) >= L(d1)),
            ('visited-class-bases-are-listed', z3.ForAll([j], z3.Implies(z3.And(0 <= j, j < c.i), members(bases, impl(kb[j]))))),
            ('the-tail-are-class-specifications', z3.ForAll([j], z3.Implies(z3.And(L(d1) <= j, j < L(bases)), z3.Exists(
                [z3.Int('l1_k')], z3.And(0 <= z3.Int('l1_k'), z3.Int('l1_k') < c.i, bases[j] == impl(kb[z3.Int('l1_k')])))))),
            ('seen-mirrors-bases', z3.ForAll([z3.Const('l1_x', Obj)], (c.h('$dict')[c.l.seen][z3.Const('l1_x', Obj)] != ABSENT) ==
                                   members(bases, z3.Const('l1_x', Obj)))),
            ('no-duplicates', nodup(bases)),
            ('fields-stable', z3.And(c.h('_bases') == c.h0('_bases'), c.h('inherit') == c.h0('inherit'), c.h('$implied') == c.h0('$implied'),
                                     c.h('$rebased') == c.h0('$rebased'),
                                     z3.ForAll([z3.Const('l1_o', Obj)], z3.Implies(z3.Const('l1_o', Obj) != spec,
                                               c.h('declared')[z3.Const('l1_o', Obj)] == c.h0('declared')[z3.Const('l1_o', Obj)])))),
            ('declared-settled', _declared_bounds(c)),
            ('only-own-containers-change', _fresh_locals(c, 'bases', 'seen'))]


def _declared_bounds(c):
    spec = c.a.spec
    x = z3.Const('db_x', Obj)
    d0 = c.h0('declared')[spec]
    d1 = c.h('declared')[spec]
    return z3.And(
        z3.ForAll([x], z3.Implies(members(d0, x), members(d1, x))),
        z3.ForAll([x], z3.Implies(z3.And(z3.Or(members(c.a.before, x), members(c.a.after, x)), keep(c, x, spec)), members(d1, x))),
        z3.ForAll([x], z3.Implies(members(d1, x), z3.Or(members(d0, x), members(c.a.before, x), members(c.a.after, x)))),
        nodup(d1))


reg.add(Proc(
    D + '_classImplements_ordered', [('spec', OBJ), ('before', SEQO), ('after', SEQO)], source='declarations.py:_classImplements_ordered',
    globals={'Interface': V(OBJ, INTERFACE)}, setattr_=SET, attr_alias={'__bases__': '__bases__cls'},
    locals={'$elt_K0': OBJ, '$elt_K1': OBJ, 'new_declared': LISTO, 'seen': DICT, 'bases': LISTO},
    modifies=['declared', '_bases', '$implied', '$rebased'], requires=_cio_pre, ensures=_cio_post,
    loops={'K0': Loop(_K0), 'K1': Loop(_K1), 'L0': Loop(_L0), 'L0.0': Loop(_L00), 'L1': Loop(_L1)}))


# ------------------------------------------------------------------ callers
ORD = D + '_classImplements_ordered'
CALLS = {'implementedBy': D + 'implementedBy', '_normalizeargs': D + '_normalizeargs', '_classImplements_ordered': ORD}


def spec_pre(c, spec):
    return [('declared-has-no-duplicates', nodup(c.h('declared')[spec]))]


def _only_post(c):
    spec = impl(c.a.cls)
    x = z3.Const('op_x', Obj)
    d1 = c.h('declared')[spec]
    return [
        ('every-given-interface-is-declared', z3.ForAll([x], z3.Implies(z3.And(members(c.a.interfaces, x), x != spec), members(d1, x)))),
        ('nothing-but-the-given-interfaces-is-declared', z3.ForAll([x], z3.Implies(members(d1, x), members(c.a.interfaces, x)))),
        ('no-duplicates', nodup(d1)),
        ('inheritance-stops-here', c.h('inherit')[spec] == NONE),
        ('bases-are-exactly-the-declared-interfaces', SeqEq(c.h('_bases')[spec], d1)),
        ('remembers-its-class-for-pickling', c.h('_v_only_for')[spec] == c.a.cls),
        ('other-specifications-untouched', z3.ForAll([x], z3.Implies(x != spec, z3.And(
            c.h('declared')[x] == c.h0('declared')[x], c.h('_bases')[x] == c.h0('_bases')[x], c.h('inherit')[x] == c.h0('inherit')[x])))),
    ]


reg.add(Proc(D + 'classImplementsOnly', [('cls', OBJ)], varargs='interfaces', source='declarations.py:classImplementsOnly',
             calls=CALLS, setattr_=SET, modifies=['declared', 'inherit', '_v_only_for', '_bases', '$implied', '$rebased'],
             requires=lambda c: [('spec-is-an-object', impl(c.a.cls) != NONE)], ensures=_only_post))


def _bounds(c, spec, new):
    """two-sided bounds of the statement for adding the interfaces `new` to the class specification `spec`"""
    x = z3.Const('bd_x', Obj)
    d0 = c.h0('declared')[spec]
    d1 = c.h('declared')[spec]
    return [
        ('nothing-declared-is-lost', z3.ForAll([x], z3.Implies(members(d0, x), members(d1, x)))),
        ('only-redundant-declarations-may-be-dropped', z3.ForAll([x], z3.Implies(z3.And(members(new, x), keep(c, x, spec)), members(d1, x)))),
        ('nothing-is-invented', z3.ForAll([x], z3.Implies(members(d1, x), z3.Or(members(d0, x), members(new, x))))),
        ('no-duplicates', nodup(d1)),
        ('inherit-flag-kept', c.h('inherit')[spec] == c.h0('inherit')[spec]),
        ('bases-start-with-the-declared-interfaces', z3.And(L(c.h('_bases')[spec]) >= L(d1), SeqEq(SubSeq(c.h('_bases')[spec], 0, L(d1)), d1))),
        ('other-specifications-untouched', z3.ForAll([x], z3.Implies(x != spec, z3.And(
            c.h('declared')[x] == c.h0('declared')[x], c.h('_bases')[x] == c.h0('_bases')[x], c.h('inherit')[x] == c.h0('inherit')[x])))),
    ]


def _ci_L0(c):
    spec = impl(c.a.cls)
    x = z3.Const('ci_x', Obj)
    j = z3.Int('ci_j')
    N = normalize(c.a.interfaces)
    bef = c.h('$list')[c.l.before]
    aft = c.h('$list')[c.l.after]
    return [('every-interface-visited-went-to-before-or-after', z3.ForAll([x], z3.Or(members(bef, x), members(aft, x)) == z3.Exists(
        [j], z3.And(0 <= j, j < c.i, N[j] == x)))),
        ('heap-stable', _stable_heap(c)), ('locals-alive', z3.And(c.l.before != c.l.after, c.l.before != NONE, c.l.after != NONE)),
        ('only-own-containers-change', _fresh_locals(c, 'before', 'after'))]


def _ci_L00(c):
    return _ci_L0_inner(c)


def _ci_L0_inner(c):
    spec = impl(c.a.cls)
    x = z3.Const('cj_x', Obj)
    j = z3.Int('cj_j')
    N = normalize(c.a.interfaces)
    outer = c.l['$i_L0']
    bef = c.h('$list')[c.l.before]
    aft = c.h('$list')[c.l.after]
    return [('outer-state-kept', z3.ForAll([x], z3.Or(members(bef, x), members(aft, x)) == z3.Exists(
        [j], z3.And(0 <= j, j < outer, N[j] == x)))),
        ('heap-stable', _stable_heap(c)), ('locals-alive', z3.And(c.l.before != c.l.after, c.l.before != NONE, c.l.after != NONE)),
        ('only-own-containers-change', _fresh_locals(c, 'before', 'after'))]


reg.add(Proc(D + 'classImplements', [('cls', OBJ)], varargs='interfaces', source='declarations.py:classImplements',
             calls=CALLS, locals={'before': LISTO, 'after': LISTO, 'interfaces': SEQO},
             modifies=['declared', '_bases', '$implied', '$rebased'],
             requires=lambda c: spec_pre(c, impl(c.a.cls)),
             ensures=lambda c: _bounds(c, impl(c.a.cls), normalize(c.a.interfaces)),
             loops={'L0': Loop(_ci_L0), 'L0.0': Loop(_ci_L00)}))

reg.add(Proc(D + 'classImplementsFirst', [('cls', OBJ), ('iface', OBJ)], source='declarations.py:classImplementsFirst',
             calls=CALLS, modifies=['declared', '_bases', '$implied', '$rebased'],
             requires=lambda c: spec_pre(c, impl(c.a.cls)),
             ensures=lambda c: _bounds(c, impl(c.a.cls), Unit(c.a.iface))))

# redundancy stripping used by instance and class provides-declarations
strip = z3.Function('not_implied_by_class', IMPL, SeqO, Obj, Int, SeqO)     # first k of s that the class specification does not imply
_h = z3.Const('st_h', IMPL)
_s2 = z3.Const('st_s', SeqO)
_sp = z3.Const('st_sp', Obj)
_k2 = z3.Int('st_k')
reg.axiom('strip-0', z3.ForAll([_h, _s2, _sp], strip(_h, _s2, _sp, 0) == Empty(SeqO), patterns=[strip(_h, _s2, _sp, 0)]))
reg.axiom('strip-step', z3.ForAll([_h, _s2, _sp, _k2], z3.Implies(z3.And(0 <= _k2, _k2 < L(_s2)), strip(_h, _s2, _sp, _k2 + 1) == z3.If(
    _h[_sp][_s2[_k2]], strip(_h, _s2, _sp, _k2), Concat(strip(_h, _s2, _sp, _k2), Unit(_s2[_k2])))), patterns=[strip(_h, _s2, _sp, _k2 + 1)]))

_sj = z3.Int('st_j')
reg.induct('strip-keeps-what-the-class-does-not-imply', [_h, _s2, _sp], _k2,
           lambda k: z3.Implies(k <= L(_s2), z3.ForAll([_sj], z3.Implies(z3.And(0 <= _sj, _sj < k, z3.Not(_h[_sp][_s2[_sj]])),
                                                                        Contains(strip(_h, _s2, _sp, k), _s2[_sj])))),
           patterns=[strip(_h, _s2, _sp, _k2)])

reg.add(Proc(D + 'Declaration._add_interfaces_to_cls', [('interfaces', SEQO), ('cls', OBJ)],
             source='declarations.py:Declaration._add_interfaces_to_cls', result=SEQO, calls=CALLS, locals={'$elt_K0': OBJ},
             ensures=lambda c: [('interfaces-the-class-does-not-imply-in-order-then-the-class-specification', SeqEq(c.res, Concat(
                 strip(c.h('$implied'), c.a.interfaces, impl(c.a.cls), L(c.a.interfaces)), Unit(impl(c.a.cls)))))],
             loops={'K0': Loop(lambda c: [('stripped-so-far', c.acc == strip(c.h('$implied'), c.a.interfaces, impl(c.a.cls), c.i))])}))


# ------------------------------------------------------------------ instance declarations
reg.fields.update({'_Provides__args': SEQO, '_cls': OBJ, '__provides__': OBJ, '_implements': OBJ, '_ClassProvides__args': SEQO,
                   '__class__': OBJ, '_v_module_names': OBJ, '__name__': OBJ, '$cache': z3.ArraySort(Obj, Obj), '$kind': z3.ArraySort(Obj, Int)})
K_PROVIDES, K_CLASSPROVIDES, K_DECL, K_IMPLEMENTS = 1, 2, 3, 4
key_of = z3.Function('boxed_tuple', SeqO, Obj)               # the tuple object used as key of InstanceDeclarations
_ks = z3.Const('ko_s', SeqO)
unkey = z3.Function('unboxed_tuple', Obj, SeqO)
reg.axiom('tuple-keys-are-structural', z3.ForAll([_ks], unkey(key_of(_ks)) == _ks, patterns=[key_of(_ks)]))
EMPTYDECL = z3.Const('declarations__empty', Obj)
reg.axiom('_empty-is-an-object', z3.And(EMPTYDECL != NONE, EMPTYDECL != ABSENT))


def _declaration_init(ex, node, st, vals):
    """Declaration.__init__(self, *bases): Specification.__init__(self, _normalizeargs(bases)) -- bases recorded, subscribed (C02)"""
    selfv = vals[0]
    rest = vals[1:]
    if rest and rest[-1].ty.kind == 'star':
        star = rest.pop().t
        parts = [Unit(box(v)) for v in rest] + [star]
    else:
        parts = [Unit(box(v)) for v in rest]
    sq = Concat(*parts) if parts else Empty(SeqO)
    st.heap.set('_bases', z3.Store(st.heap.get('_bases'), selfv.t, normalize(sq)))
    return [(st, VNONE)]


def provided_bases(c, interfaces, cls, now=True):
    """normalize(interfaces the class does not imply NOW, in order, then the class specification)"""
    h = c.h if now else c.h0
    return normalize(Concat(strip(h('$implied'), interfaces, impl(cls), L(interfaces)), Unit(impl(cls))))


reg.add(Proc(D + 'ProvidesClass.__init__', [('self', OBJ), ('cls', OBJ)], varargs='interfaces', source='declarations.py:Provides@class.__init__',
             classname='Provides', calls={'self._add_interfaces_to_cls': D + 'Declaration._add_interfaces_to_cls'},
             opaque_calls={'Declaration.__init__': _declaration_init},
             modifies=['_Provides__args', '_cls', '_bases'],
             ensures=lambda c: [('constructor-arguments-kept-for-pickling', c.h('_Provides__args')[c.a.self] == Concat(Unit(c.a.cls), c.a.interfaces)),
                                ('class-recorded', c.h('_cls')[c.a.self] == c.a.cls),
                                ('bases-are-the-non-redundant-interfaces-then-the-class-specification',
                                 c.h('_bases')[c.a.self] == provided_bases(c, c.a.interfaces, c.a.cls)),
                                ('nobody-else-touched', z3.ForAll([z3.Const('pi_o', Obj)], z3.Implies(z3.Const('pi_o', Obj) != c.a.self, z3.And(
                                    c.h('_bases')[z3.Const('pi_o', Obj)] == c.h0('_bases')[z3.Const('pi_o', Obj)],
                                    c.h('_cls')[z3.Const('pi_o', Obj)] == c.h0('_cls')[z3.Const('pi_o', Obj)],
                                    c.h('_Provides__args')[z3.Const('pi_o', Obj)] == c.h0('_Provides__args')[z3.Const('pi_o', Obj)]))))]))

INSTDECL = z3.Const('InstanceDeclarations', Obj)
reg.axiom('InstanceDeclarations-is-a-mapping', z3.And(INSTDECL != NONE, INSTDECL != ABSENT))


def _new_provides(ex, node, st):
    """ProvidesClass(*interfaces): a fresh object initialised by ProvidesClass.__init__ (contract above)"""
    out = []
    star = node.args[0].value
    for s, vs in ex.ev_list([star], st):
        sq = ex.seqterm(s, vs[0], node)[0]
        ex.oblige(s, 'constructor-needs-the-class@%s' % node.lineno, L(sq) >= 1, 'safety', node)
        s.assume(L(sq) >= 1)
        r = ex.fresh_ref(s, 'provides')
        args = {'self': vobj(r), 'cls': vobj(sq[0]), 'interfaces': V(SEQO, SubSeq(sq, 1, L(sq) - 1))}
        for s2, _ in ex.apply_contract(node, s, reg.procs[D + 'ProvidesClass.__init__'], args):
            out.append((s2, vobj(r)))
    return out


def cache_map(c, now=True):
    return (c.h if now else c.h0)('$dict')[INSTDECL]


def cache_keyed(c, now=True):
    k = z3.Const('ck_k', Obj)
    m = cache_map(c, now)
    h = c.h if now else c.h0
    return ForAllP([k], z3.Implies(m[k] != ABSENT, z3.And(is_seq(k), m[k] != NONE, h('$alloc')[m[k]],
                                                            SeqEq(h('_Provides__args')[m[k]], unbox_seq(k)))))


def _prov_post(c):
    ifs = c.a.interfaces
    x = z3.Const('pp_x', Obj)
    hit = cache_map(c, False)[box_seq(ifs)] != ABSENT
    cls = ifs[0]
    lower = z3.ForAll([x], z3.Implies(z3.And(members(SubSeq(ifs, 1, L(ifs) - 1), x), z3.Not(c.h('$implied')[impl(cls)][x])),
                                      members(c.h('_bases')[c.res], x)))
    return [('is-a-declaration-object', c.res != NONE),
            ('built-from-exactly-these-arguments', SeqEq(c.h('_Provides__args')[c.res], ifs)),
            ('shared-declarations-stay-keyed-by-their-arguments', cache_keyed(c)),
            ('a-new-declaration-lists-the-non-redundant-interfaces-then-the-class-specification', z3.Implies(
                z3.Not(hit), c.h('_bases')[c.res] == provided_bases(c, SubSeq(ifs, 1, L(ifs) - 1), cls))),
            ('only-interfaces-redundant-now-are-dropped-outside-the-recorded-region', z3.Implies(z3.Not(hit), lower)),
            ('only-interfaces-redundant-now-are-dropped', lower),
            ('existing-declarations-untouched', z3.ForAll([x], z3.Implies(c.h0('$alloc')[x], z3.And(
                c.h('_bases')[x] == c.h0('_bases')[x], c.h('_Provides__args')[x] == c.h0('_Provides__args')[x]))))]


reg.axiom('normalize-keeps-plain-interfaces', z3.BoolVal(True))
reg.assumptions.append('_normalizeargs of a sequence of plain specifications lists at least those specifications (flattening only expands '
                       'nested sequences and declarations)')
_ns = z3.Const('nz_s', SeqO)
_nx = z3.Const('nz_x', Obj)
reg.axiom('normalize-members', z3.ForAll([_ns, _nx], z3.Implies(z3.And(Contains(_ns, _nx), z3.Not(is_seq(_nx)), z3.Not(is_list(_nx))),
                                                                 Contains(normalize(_ns), _nx)), patterns=[Contains(normalize(_ns), _nx)]))

reg.add(Proc(D + 'Provides', [], varargs='interfaces', source='declarations.py:Provides', result=OBJ,
             globals={'InstanceDeclarations': V(DICT, INSTDECL)}, calls={'ProvidesClass': _new_provides},
             modifies=['$dict', '_Provides__args', '_cls', '_bases', '$alloc'],
             requires=lambda c: [('shared-declarations-are-keyed-by-their-arguments', cache_keyed(c)),
                                 ('the-class-comes-first', L(c.a.interfaces) >= 1),
                                 ('the-mapping-exists', c.h('$alloc')[INSTDECL]),
                                 ('arguments-are-specifications', z3.ForAll([z3.Int('as_j')], z3.Implies(
                                     z3.And(0 <= z3.Int('as_j'), z3.Int('as_j') < L(c.a.interfaces)),
                                     z3.And(z3.Not(is_seq(c.a.interfaces[z3.Int('as_j')])), z3.Not(is_list(c.a.interfaces[z3.Int('as_j')]))))))],
             ensures=_prov_post, not_assumed=['only-interfaces-redundant-now-are-dropped']))


# ------------------------------------------------------------------ directlyProvides / directlyProvidedBy / alsoProvides / noLongerProvides
TYPE = classconst('type')
MODULETYPE = classconst('ModuleType')
has_class = z3.Function('hasattr___class__', Obj, B)
has_provides = z3.Function('hasattr___provides__', Obj, B)
reg.assumptions.append('object shapes (DESIGN 1.3): plain instances of plain classes -- the class is not a metaclass, not a module type, '
                       'instance attribute __provides__ is plain storage; classes as objects take the ClassProvides branch (bounded)')


def plain_instance(c, ob):
    cls = c.h('__class__')[ob]
    return [('has-a-class', z3.And(has_class(ob), cls != NONE)),
            ('its-class-is-an-ordinary-class', z3.And(has_class(cls), c.h('__class__')[cls] != cls, z3.Not(subtype(cls, TYPE)),
                                                      z3.Not(subtype(cls, MODULETYPE))))]


def _call_provides(ex, node, st):
    """Provides(cls, *interfaces)"""
    out = []
    exprs = [a.value if isinstance(a, ast.Starred) else a for a in node.args]
    for s, vs in ex.ev_list(exprs, st):
        parts = []
        for a, v in zip(node.args, vs):
            parts.append(ex.seqterm(s, v, node)[0] if isinstance(a, ast.Starred) else Unit(box(v)))
        args = {'interfaces': V(SEQO, Concat(*parts))}
        out.extend(ex.apply_contract(node, s, reg.procs[D + 'Provides'], args))
    return out


import ast  # noqa: E402


def _class_provides_stub(ex, node, st):
    """ClassProvides(object, cls, *interfaces): the class-as-object branch, outside the verified domain (bounded); a fresh object"""
    r = ex.fresh_ref(st, 'classprovides')
    return [(st, vobj(r))]


def _dp_post(c):
    ob = c.a.object
    cls = c.h0('__class__')[ob]
    N = normalize(c.a.interfaces)
    p = c.h('__provides__')[ob]
    x = z3.Const('dp_x', Obj)
    return [('the-object-carries-a-declaration-built-from-its-class-and-the-normalised-interfaces',
             z3.And(p != NONE, SeqEq(c.h('_Provides__args')[p], Concat(Unit(cls), N)))),
            ('no-other-object-is-re-declared', z3.ForAll([x], z3.Implies(x != ob, c.h('__provides__')[x] == c.h0('__provides__')[x]))),
            ('existing-declarations-untouched', z3.ForAll([x], z3.Implies(c.h0('$alloc')[x], c.h('_bases')[x] == c.h0('_bases')[x]))),
            ('class-declarations-untouched', z3.And(c.h('declared') == c.h0('declared'), c.h('inherit') == c.h0('inherit')))]


def norm_args_plain(c, seq):
    j = z3.Int('np_j')
    return z3.ForAll([j], z3.Implies(z3.And(0 <= j, j < L(seq)), z3.And(z3.Not(is_seq(seq[j])), z3.Not(is_list(seq[j])))))


reg.add(Proc(D + 'directlyProvides', [('object', OBJ)], varargs='interfaces', source='declarations.py:directlyProvides',
             calls={'_normalizeargs': D + '_normalizeargs', 'Provides': _call_provides, 'ClassProvides': _class_provides_stub},
             locals={'$prune': True},
             modifies=['__provides__', '$dict', '_Provides__args', '_cls', '_bases', '$alloc', '_v_module_names'],
             requires=lambda c: plain_instance(c, c.a.object) + [
                 ('shared-declarations-are-keyed-by-their-arguments', cache_keyed(c)), ('the-mapping-exists', c.h('$alloc')[INSTDECL]),
                 ('normalised-arguments-are-specifications', norm_args_plain(c, normalize(c.a.interfaces))),
                 ('the-class-is-no-sequence', z3.And(z3.Not(is_seq(c.h('__class__')[c.a.object])), z3.Not(is_list(c.h('__class__')[c.a.object]))))],
             ensures=_dp_post))

IMPLEMENTS = classconst('Implements')
reg.axiom('normalize-flattens-a-tuple-argument', z3.ForAll([_ns], normalize(Unit(box_seq(_ns))) == normalize(_ns), patterns=[normalize(Unit(box_seq(_ns)))]))
decl_sub = z3.Function('Declaration___sub__', Obj, Obj, Obj)      # d - interface (C20 verifies Declaration.__sub__)
provides_rel = z3.Function('spec_providedBy', Obj, Obj, B)


def _new_declaration(ex, node, st):
    """Declaration(*bases): a fresh declaration whose bases are the normalised arguments"""
    out = []
    for s, vs in ex.ev_list(node.args, st):
        r = ex.fresh_ref(s, 'declaration')
        sq = Concat(*[Unit(box(v)) for v in vs]) if vs else Empty(SeqO)
        s.heap.set('_bases', z3.Store(s.heap.get('_bases'), r, normalize(sq)))
        out.append((s, vobj(r)))
    return out


def _dpb_post(c):
    ob = c.a.object
    p = c.h0('__provides__')[ob]
    none = z3.Or(z3.Not(has_provides(ob)), p == NONE, subtype(typeof(p), IMPLEMENTS))
    b = c.h0('_bases')[p]
    return [('the-empty-declaration-when-nothing-is-declared-directly', z3.Implies(none, c.res == EMPTYDECL)),
            ('otherwise-a-new-declaration-of-everything-but-the-class-specification', z3.Implies(z3.Not(none), z3.And(
                z3.Not(c.h0('$alloc')[c.res]), c.res != NONE,
                c.h('_bases')[c.res] == normalize(SubSeq(b, 0, z3.If(L(b) - 1 < 0, 0, L(b) - 1)))))),
            ('existing-declarations-untouched', z3.ForAll([z3.Const('db_o', Obj)], z3.Implies(
                c.h0('$alloc')[z3.Const('db_o', Obj)], c.h('_bases')[z3.Const('db_o', Obj)] == c.h0('_bases')[z3.Const('db_o', Obj)]))),
            ('the-object-keeps-its-declaration', c.h('__provides__') == c.h0('__provides__')),
            ('allocation-only-grows', z3.ForAll([z3.Const('db_o', Obj)], z3.Implies(c.h0('$alloc')[z3.Const('db_o', Obj)], c.h('$alloc')[z3.Const('db_o', Obj)])))]


reg.add(Proc(D + 'directlyProvidedBy', [('object', OBJ)], source='declarations.py:directlyProvidedBy', result=OBJ,
             attr_alias={'__bases__': '_bases'},
             globals={'_empty': V(OBJ, EMPTYDECL)}, calls={'Declaration': _new_declaration}, modifies=['_bases', '$alloc'],
             ensures=_dpb_post))


def _call_dp(ex, node, st):
    """directlyProvides(object, a, *rest)"""
    out = []
    exprs = [a.value if isinstance(a, ast.Starred) else a for a in node.args]
    for s, vs in ex.ev_list(exprs, st):
        parts = []
        for a, v in list(zip(node.args, vs))[1:]:
            parts.append(ex.seqterm(s, v, node)[0] if isinstance(a, ast.Starred) else Unit(box(v)))
        args = {'object': vs[0], 'interfaces': V(SEQO, Concat(*parts) if parts else Empty(SeqO))}
        out.extend(ex.apply_contract(node, s, reg.procs[D + 'directlyProvides'], args))
    return out


def _dp_pre_for(c, ob, seq):
    return plain_instance(c, ob) + [
        ('shared-declarations-are-keyed-by-their-arguments', cache_keyed(c)), ('the-mapping-exists', c.h('$alloc')[INSTDECL]),
        ('normalised-arguments-are-specifications', norm_args_plain(c, seq)),
        ('the-class-is-no-sequence', z3.And(z3.Not(is_seq(c.h('__class__')[ob])), z3.Not(is_list(c.h('__class__')[ob]))))]


reg.assumptions.append('alsoProvides/noLongerProvides: whatever _normalizeargs yields for the re-declared arguments consists of plain '
                       'specifications (precondition of directlyProvides), stated as an assumption about the flattening')
_na = z3.Const('na_s', SeqO)
_nj = z3.Int('na_j')
reg.axiom('normalize-yields-plain-specifications', z3.ForAll([_na, _nj], z3.Implies(z3.And(0 <= _nj, _nj < L(normalize(_na))), z3.And(
    z3.Not(is_seq(normalize(_na)[_nj])), z3.Not(is_list(normalize(_na)[_nj])))), patterns=[normalize(_na)[_nj]]))


def _ap_post(c):
    ob = c.a.object
    cls = c.h0('__class__')[ob]
    p = c.h('__provides__')[ob]
    x = z3.Const('ap_x', Obj)
    d = z3.Const('ap_d', Obj)
    return [('re-declared-with-the-earlier-direct-declaration-first-then-the-new-interfaces', z3.And(p != NONE, z3.Exists([d], z3.And(
        z3.Or(d == EMPTYDECL, z3.Not(c.h0('$alloc')[d])),
        SeqEq(c.h('_Provides__args')[p], Concat(Unit(cls), normalize(Concat(Unit(d), c.a.interfaces)))))))),
        ('no-other-object-is-re-declared', z3.ForAll([x], z3.Implies(x != ob, c.h('__provides__')[x] == c.h0('__provides__')[x]))),
        ('existing-declarations-untouched', z3.ForAll([x], z3.Implies(c.h0('$alloc')[x], c.h('_bases')[x] == c.h0('_bases')[x]))),
        ('class-declarations-untouched', z3.And(c.h('declared') == c.h0('declared'), c.h('inherit') == c.h0('inherit')))]


reg.add(Proc(D + 'alsoProvides', [('object', OBJ)], varargs='interfaces', source='declarations.py:alsoProvides',
             calls={'directlyProvides': _call_dp, 'directlyProvidedBy': D + 'directlyProvidedBy'},
             modifies=['__provides__', '$dict', '_Provides__args', '_cls', '_bases', '$alloc', '_v_module_names'],
             requires=lambda c: plain_instance(c, c.a.object) + [
                 ('shared-declarations-are-keyed-by-their-arguments', cache_keyed(c)), ('the-mapping-exists', c.h('$alloc')[INSTDECL]),
                 ('the-class-is-no-sequence', z3.And(z3.Not(is_seq(c.h('__class__')[c.a.object])), z3.Not(is_list(c.h('__class__')[c.a.object]))))],
             ensures=_ap_post))


def _decl_sub(ex, node, st, vals):
    return [(st, vobj(decl_sub(vals[0].t, box(vals[1]))))]


def _nlp_post(c):
    ob = c.a.object
    cls = c.h0('__class__')[ob]
    p = c.h('__provides__')[ob]
    x = z3.Const('nl_x', Obj)
    d = z3.Const('nl_d', Obj)
    return [('re-declared-with-the-earlier-direct-declaration-minus-the-interface', z3.And(p != NONE, z3.Exists([d], z3.And(
        z3.Or(d == EMPTYDECL, z3.Not(c.h0('$alloc')[d])),
        SeqEq(c.h('_Provides__args')[p], Concat(Unit(cls), normalize(Unit(decl_sub(d, c.a.interface))))))))),
        ('no-other-object-is-re-declared', z3.ForAll([x], z3.Implies(x != ob, c.h('__provides__')[x] == c.h0('__provides__')[x]))),
        ('the-interface-is-no-longer-provided', z3.Not(provides_rel(c.a.interface, ob)))]


reg.add(Proc('interface.py:SpecificationBase.providedBy', [('self', OBJ), ('ob', OBJ)], result=BOOL, trusted=True,
             pure_fn=lambda c: provides_rel(c.a.self, c.a.ob), note='evaluated after the re-declaration (C02 reachability of the new declaration)'))
reg.add(Proc(D + 'noLongerProvides', [('object', OBJ), ('interface', OBJ)], source='declarations.py:noLongerProvides',
             calls={'directlyProvides': _call_dp, 'directlyProvidedBy': D + 'directlyProvidedBy',
                    'interface.providedBy': 'interface.py:SpecificationBase.providedBy'},
             locals={'$binop_sub': _decl_sub},
             modifies=['__provides__', '$dict', '_Provides__args', '_cls', '_bases', '$alloc', '_v_module_names'],
             requires=lambda c: plain_instance(c, c.a.object) + [
                 ('shared-declarations-are-keyed-by-their-arguments', cache_keyed(c)), ('the-mapping-exists', c.h('$alloc')[INSTDECL]),
                 ('the-class-is-no-sequence', z3.And(z3.Not(is_seq(c.h('__class__')[c.a.object])), z3.Not(is_list(c.h('__class__')[c.a.object]))))],
             raises={'ValueError': (lambda c: provides_rel(c.a.interface, c.a.object), None)},
             ensures=_nlp_post))


# ------------------------------------------------------------------ class-as-object declarations and the two descriptors
reg.add(Proc(D + 'ClassProvides.__init__', [('self', OBJ), ('cls', OBJ), ('metacls', OBJ)], varargs='interfaces',
             source='declarations.py:ClassProvides.__init__', classname='ClassProvides',
             calls={'self._add_interfaces_to_cls': D + 'Declaration._add_interfaces_to_cls', 'implementedBy': D + 'implementedBy'},
             opaque_calls={'Declaration.__init__': _declaration_init},
             modifies=['_ClassProvides__args', '_cls', '_implements', '_bases'],
             ensures=lambda c: [('constructor-arguments-kept-for-pickling', c.h('_ClassProvides__args')[c.a.self] == Concat(Unit(c.a.cls), Unit(c.a.metacls), c.a.interfaces)),
                                ('class-recorded', c.h('_cls')[c.a.self] == c.a.cls),
                                ('instances-are-answered-with-the-class-specification', c.h('_implements')[c.a.self] == impl(c.a.cls)),
                                ('bases-are-the-interfaces-the-metaclass-does-not-imply-then-the-metaclass-specification',
                                 c.h('_bases')[c.a.self] == provided_bases(c, c.a.interfaces, c.a.metacls))]))

reg.add(Proc(D + 'ClassProvidesBase.__get__', [('self', OBJ), ('inst', OBJ), ('cls', OBJ)], source='declarations.py:ClassProvidesBase.__get__',
             result=OBJ,
             raises={'AttributeError': (lambda c: c.a.cls != c.h('_cls')[c.a.self], None)},
             ensures=lambda c: [('the-class-itself-sees-its-own-declaration', z3.Implies(c.a.inst == NONE, c.res == c.a.self)),
                                ('its-instances-see-the-class-specification-not-the-class-declaration',
                                 z3.Implies(c.a.inst != NONE, c.res == c.h('_implements')[c.a.self]))]))
reg.add(Proc(D + 'ProvidesClass.__get__', [('self', OBJ), ('inst', OBJ), ('cls', OBJ)], source='declarations.py:Provides@class.__get__',
             result=OBJ,
             raises={'AttributeError': (lambda c: z3.Not(z3.And(c.a.inst == NONE, c.a.cls == c.h('_cls')[c.a.self])), None)},
             ensures=lambda c: [('only-the-class-it-was-made-for-sees-it', c.res == c.a.self)]))


# ------------------------------------------------------------------ queries: attribute protocol of providedBy (Python reference)
reg.fields.update({'__providedBy__': OBJ, '_super_cache': OBJ})
has_pb = z3.Function('hasattr___providedBy__', Obj, B)
has_extends = z3.Function('hasattr_extends', Obj, B)
attr_raises_other = z3.Function('attribute_access_raises_other', Obj, Int, B)      # a descriptor raising something else
SPECBASE = classconst('SpecificationBase')
SUPERCLS = classconst('super')
IMPLEMENTEDBY = z3.Function('implementedBy_result', Obj, Obj)      # implementedBy(x) incl. the super dispatch (C19) and fallbacks


def _attr(name, has, idx):
    def handler(ex, node, st, recv):
        a = st.clone()
        a.assume(z3.And(z3.Not(has(recv.t)), z3.Not(attr_raises_other(recv.t, idx))))
        ex.raise_(a, 'AttributeError')
        b = st.clone()
        b.assume(z3.And(z3.Not(has(recv.t)), attr_raises_other(recv.t, idx)))
        ex.raise_(b, 'OtherError')
        st.assume(has(recv.t))
        return [(st, ex.read_field(st, recv.t, name))]
    return handler


DYN = {'__provides__': _attr('__provides__', has_provides, 1), '__providedBy__': _attr('__providedBy__', has_pb, 2),
       '__class__': _attr('__class__', has_class, 3), 'extends': _attr('__class__', has_extends, 4)}
reg.add(Proc(D + 'implementedBy@any', [('cls', OBJ)], result=OBJ, trusted=True, pure_fn=lambda c: IMPLEMENTEDBY(c.a.cls),
             note='implementedBy of anything (class, super proxy, builtin): C19 verifies the super branch, the rest is bounded'))


def _gos_post(c):
    ob = c.a.ob
    p = c.h('__provides__')[ob]
    usable = z3.And(has_provides(ob), p != NONE, subtype(typeof(p), SPECBASE))
    return [('a-declaration-carried-by-the-object-wins', z3.Implies(usable, c.res == p)),
            ('otherwise-what-its-class-implements', z3.Implies(z3.And(z3.Not(usable), has_class(ob)), c.res == IMPLEMENTEDBY(c.h('__class__')[ob]))),
            ('without-a-class-nothing', z3.Implies(z3.And(z3.Not(usable), z3.Not(has_class(ob))), c.res == EMPTYDECL))]


def _no_other(c, ob, *idx):
    return z3.And(*[z3.Not(attr_raises_other(ob, i)) for i in idx])


reg.add(Proc(D + 'getObjectSpecification', [('ob', OBJ)], source='declarations.py:getObjectSpecification', result=OBJ,
             globals={'_empty': V(OBJ, EMPTYDECL)}, dynattr=DYN, calls={'implementedBy': D + 'implementedBy@any'},
             requires=lambda c: [('attribute-access-raises-only-AttributeError', _no_other(c, c.a.ob, 1, 3))], ensures=_gos_post))
reg.add(Proc(D + 'getObjectSpecification@contract', [('ob', OBJ)], result=OBJ, trusted=True,
             pure_fn=lambda c: z3.Function('getObjectSpecification_result', Obj, Obj)(c.a.ob), note='verified above'))


def _osd_post(c):
    inst, cls = c.a.inst, c.a.cls
    return [('accessed-on-the-class-the-specification-of-the-class-object', z3.Implies(
        inst == NONE, c.res == z3.Function('getObjectSpecification_result', Obj, Obj)(cls))),
        ('an-instance-declaration-wins', z3.Implies(z3.And(inst != NONE, has_provides(inst)), c.res == c.h('__provides__')[inst])),
        ('otherwise-what-the-class-implements', z3.Implies(z3.And(inst != NONE, z3.Not(has_provides(inst))), c.res == IMPLEMENTEDBY(cls)))]


reg.add(Proc(D + 'ObjectSpecificationDescriptor.__get__', [('self', OBJ), ('inst', OBJ), ('cls', OBJ)],
             source='declarations.py:ObjectSpecificationDescriptor.__get__', result=OBJ, dynattr=DYN,
             calls={'implementedBy': D + 'implementedBy@any', 'getObjectSpecification': D + 'getObjectSpecification@contract'},
             raises={'OtherError': (lambda c: z3.And(c.a.inst != NONE, z3.Not(has_provides(c.a.inst)), attr_raises_other(c.a.inst, 1)), None)},
             ensures=_osd_post))


def _pb_post(c):
    ob = c.a.ob
    is_super = subtype(typeof(ob), SUPERCLS)
    r = c.h('__providedBy__')[ob]
    GOS = z3.Function('getObjectSpecification_result', Obj, Obj)
    return [('a-super-proxy-is-answered-by-implementedBy-alone', z3.Implies(is_super, c.res == IMPLEMENTEDBY(ob))),
            ('without-__providedBy__-the-object-specification', z3.Implies(z3.And(z3.Not(is_super), z3.Not(has_pb(ob))), c.res == GOS(ob))),
            ('a-real-specification-from-the-descriptor-is-returned', z3.Implies(
                z3.And(z3.Not(is_super), has_pb(ob), has_extends(r)), c.res == r))]


reg.add(Proc(D + 'providedBy', [('ob', OBJ)], source='declarations.py:providedBy', result=OBJ, dynattr=DYN,
             calls={'implementedBy': D + 'implementedBy@any', 'getObjectSpecification': D + 'getObjectSpecification@contract'},
             requires=lambda c: [('the-object-has-a-class', has_class(c.a.ob)), ('attribute-access-raises-only-AttributeError', z3.And(
                 _no_other(c, c.a.ob, 1, 2, 3), _no_other(c, c.h('__providedBy__')[c.a.ob], 4),
                 z3.Implies(has_class(c.a.ob), _no_other(c, c.h('__class__')[c.a.ob], 1))))],
             ensures=_pb_post))
