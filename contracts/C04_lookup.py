"""Contracts for the three nested-mapping searches of adapter.py: _lookup, _lookupAll, _subscriptions
(properties C04, C07, C08) against recursive "first applicable, position by position" specifications.

components is the dict reached after consuming i required positions; a registration with required r[0..l),
provided q and name n is the entry  components[r[i]]...[r[l-1]][q][n].
"""
import z3

from zivc.core import *  # noqa
from zivc.spec import Loop, Proc, Registry

FIELDS = {'__sro__': SEQO}
reg = Registry(FIELDS)
L = Length
A = 'adapter.py:'
DS = z3.ArraySort(Obj, ObjMap)
SS = z3.ArraySort(Obj, SeqO)
LS = z3.ArraySort(Obj, SeqO)
I_ = z3.IntSort()
B_ = z3.BoolSort()


def g(D, c, k):
    """dict.get(k) on dict object c: None when absent"""
    v = z3.Select(z3.Select(D, c), k)
    return z3.If(v == ABSENT, NONE, v)


def tr(D, o):
    """truthiness of a node of the tree: a non-empty dict"""
    return z3.And(is_dict(o), dict_nonempty(z3.Select(D, o)))


in_tree = z3.Function('in_tree', Obj, B_)          # ghost: the dict objects that are nodes of a registry's nested mapping
treeview = z3.Function('treeview', DS, DS)         # the heap restricted to tree nodes (what the searches may read)
wfn = z3.Function('wfn', DS, Obj, I_, B_)           # all nodes down to depth d are dicts of the tree
best = z3.Function('best', DS, SS, Obj, SeqO, SeqO, Obj, I_, I_, Obj)
first_in = z3.Function('first_in', DS, SS, Obj, SeqO, SeqO, Obj, I_, I_, I_)
first_leaf = z3.Function('first_leaf', DS, Obj, SeqO, Obj, I_)

D, S = z3.Const('D', DS), z3.Const('S', SS)
c_, n_ = z3.Consts('c_ n_', Obj)
sp, pv = z3.Consts('sp pv', SeqO)
i_, l_, k_, d_ = z3.Ints('i_ l_ k_ d_')
ko = z3.Const('ko', Obj)

_o = z3.Const('tv_o', Obj)
_D = z3.Const('tv_D', DS)
reg.axiom('treeview-def', z3.ForAll([_D, _o], z3.Select(treeview(_D), _o) == z3.If(in_tree(_o), z3.Select(_D, _o), EMPTYMAP),
                                    patterns=[z3.Select(treeview(_D), _o)]))
reg.assumptions.append('ghost predicate in_tree marks exactly the dict objects reachable from a registry\'s _adapters/'
                       '_subscribers roots; result containers handed to the searches are not among them')
reg.axiom('wfn-step', z3.ForAll([D, c_, d_], z3.Implies(d_ >= 1, wfn(D, c_, d_) == z3.ForAll([ko], z3.Implies(
    z3.Select(z3.Select(D, c_), ko) != ABSENT,
    z3.And(is_dict(z3.Select(z3.Select(D, c_), ko)), in_tree(z3.Select(z3.Select(D, c_), ko)),
           wfn(D, z3.Select(z3.Select(D, c_), ko), d_ - 1))))),
    patterns=[wfn(D, c_, d_)]))


def leaf_hit(D, c, pv, n, k):
    ch = g(D, c, pv[k])
    return z3.And(tr(D, ch), g(D, ch, n) != NONE)


def in_hit(D, S, c, sp, pv, n, i, l, k):
    ch = g(D, c, z3.Select(S, sp[i])[k])
    return z3.And(tr(D, ch), best(D, S, ch, sp, pv, n, i + 1, l) != NONE)


fl = first_leaf(D, c_, pv, n_)
reg.axiom('first_leaf-range', z3.ForAll([D, c_, pv, n_], z3.And(0 <= fl, fl <= L(pv)), patterns=[fl]))
reg.axiom('first_leaf-hit', z3.ForAll([D, c_, pv, n_], z3.Implies(fl < L(pv), leaf_hit(D, c_, pv, n_, fl)), patterns=[fl]))
reg.axiom('first_leaf-least', z3.ForAll([D, c_, pv, n_, k_], z3.Implies(
    z3.And(0 <= k_, k_ < fl), z3.Not(leaf_hit(D, c_, pv, n_, k_))), patterns=[z3.MultiPattern(fl, pv[k_])]))
fi = first_in(D, S, c_, sp, pv, n_, i_, l_)
sro_i = z3.Select(S, sp[i_])
reg.axiom('first_in-range', z3.ForAll([D, S, c_, sp, pv, n_, i_, l_], z3.And(0 <= fi, fi <= L(sro_i)), patterns=[fi]))
reg.axiom('first_in-hit', z3.ForAll([D, S, c_, sp, pv, n_, i_, l_], z3.Implies(
    fi < L(sro_i), in_hit(D, S, c_, sp, pv, n_, i_, l_, fi)), patterns=[fi]))
reg.axiom('first_in-least', z3.ForAll([D, S, c_, sp, pv, n_, i_, l_, k_], z3.Implies(
    z3.And(0 <= k_, k_ < fi), z3.Not(in_hit(D, S, c_, sp, pv, n_, i_, l_, k_))),
    patterns=[z3.MultiPattern(fi, sro_i[k_])]))
bt = best(D, S, c_, sp, pv, n_, i_, l_)
reg.axiom('best-leaf', z3.ForAll([D, S, c_, sp, pv, n_, i_, l_], z3.Implies(
    i_ >= l_, bt == z3.If(fl < L(pv), g(D, g(D, c_, pv[fl]), n_), NONE)), patterns=[bt]))
reg.axiom('best-inner', z3.ForAll([D, S, c_, sp, pv, n_, i_, l_], z3.Implies(
    i_ < l_, bt == z3.If(fi < L(sro_i), best(D, S, g(D, c_, sro_i[fi]), sp, pv, n_, i_ + 1, l_), NONE)),
    patterns=[bt]))


def lookup_pre(c):
    return [('components-is-dict', z3.And(is_dict(c.a.components), in_tree(c.a.components))),
            ('tree-of-dicts', wfn(treeview(c.h('$dict')), c.a.components, c.a.l - c.a.i + 1)),
            ('position', z3.And(0 <= c.a.i, c.a.i <= c.a.l, c.a.l == L(c.a.specs)))]


def _lookup_L0(c):      # walk of specs[i].__sro__
    Dn, Sn = treeview(c.h('$dict')), c.h('__sro__')
    k = z3.Int('lk_k')
    return [('no-earlier-hit', z3.ForAll([k], z3.Implies(z3.And(0 <= k, k < c.i), z3.Not(
        in_hit(Dn, Sn, c.a.components, c.a.specs, c.a.provided, c.a.name, c.a.i, c.a.l, k)))))]


def _lookup_L1(c):      # walk of the provided extendors
    Dn = treeview(c.h('$dict'))
    k = z3.Int('lf_k')
    return [('no-earlier-hit', z3.ForAll([k], z3.Implies(z3.And(0 <= k, k < c.i), z3.Not(
        leaf_hit(Dn, c.a.components, c.a.provided, c.a.name, k)))))]


reg.add(Proc(
    A + '_lookup', [('components', DICT), ('specs', SEQO), ('provided', SEQO), ('name', OBJ), ('i', INT), ('l', INT)],
    source='adapter.py:_lookup', result=OBJ, locals={'$containers': True},
    requires=lookup_pre,
    ensures=lambda c: [('first-applicable-position-by-position',
                        c.res == best(treeview(c.h('$dict')), c.h('__sro__'), c.a.components, c.a.specs, c.a.provided,
                                      c.a.name, c.a.i, c.a.l))],
    loops={'L0': Loop(_lookup_L0, decreases=None), 'L1': Loop(_lookup_L1)},
))

# ------------------------------------------------------------------ _lookupAll  (C08)
MS = ObjMap
allmap = z3.Function('allmap', DS, SS, Obj, SeqO, SeqO, I_, I_, MS, MS)       # result map after the whole sub-search
allR = z3.Function('allR', DS, SS, Obj, SeqO, SeqO, I_, I_, MS, I_, MS)       # ... after k steps of the reversed walk
allL = z3.Function('allL', DS, Obj, SeqO, MS, I_, MS)                         # leaf level, k steps of reversed(provided)
base_ = z3.Const('base_', MS)

_aR = allR(D, S, c_, sp, pv, i_, l_, base_, k_)
reg.axiom('allR-0', z3.ForAll([D, S, c_, sp, pv, i_, l_, base_], allR(D, S, c_, sp, pv, i_, l_, base_, 0) == base_,
                              patterns=[allR(D, S, c_, sp, pv, i_, l_, base_, 0)]))
_chR = g(D, c_, sro_i[L(sro_i) - 1 - k_])
reg.axiom('allR-step', z3.ForAll([D, S, c_, sp, pv, i_, l_, base_, k_], z3.Implies(
    z3.And(0 <= k_, k_ < L(sro_i)),
    allR(D, S, c_, sp, pv, i_, l_, base_, k_ + 1) == z3.If(
        tr(D, _chR), allmap(D, S, _chR, sp, pv, i_ + 1, l_, _aR), _aR)),
    patterns=[allR(D, S, c_, sp, pv, i_, l_, base_, k_ + 1)]))
_aL = allL(D, c_, pv, base_, k_)
reg.axiom('allL-0', z3.ForAll([D, c_, pv, base_], allL(D, c_, pv, base_, 0) == base_, patterns=[allL(D, c_, pv, base_, 0)]))
_chL = g(D, c_, pv[L(pv) - 1 - k_])
reg.axiom('allL-step', z3.ForAll([D, c_, pv, base_, k_], z3.Implies(
    z3.And(0 <= k_, k_ < L(pv)),
    allL(D, c_, pv, base_, k_ + 1) == z3.If(tr(D, _chL), dict_update(_aL, z3.Select(D, _chL)), _aL)),
    patterns=[allL(D, c_, pv, base_, k_ + 1)]))
_am = allmap(D, S, c_, sp, pv, i_, l_, base_)
reg.axiom('allmap-def', z3.ForAll([D, S, c_, sp, pv, i_, l_, base_], _am == z3.If(
    i_ < l_, allR(D, S, c_, sp, pv, i_, l_, base_, L(sro_i)), allL(D, c_, pv, base_, L(pv))), patterns=[_am]))


def all_pre(c):
    return [('components-is-dict', z3.And(is_dict(c.a.components), in_tree(c.a.components))),
            ('tree-of-dicts', wfn(treeview(c.h('$dict')), c.a.components, c.a.l - c.a.i + 1)),
            ('position', z3.And(0 <= c.a.i, c.a.i <= c.a.l, c.a.l == L(c.a.specs))),
            ('result-is-not-in-tree', z3.Not(in_tree(c.a.result)))]


def tree_unchanged(c):
    """only the result dict changes"""
    o = z3.Const('tu_o', Obj)
    return z3.ForAll([o], z3.Implies(o != c.a.result, c.h('$dict')[o] == c.h0('$dict')[o]))


def _all_L0(c):
    D0, Sn = c.h0('$dict'), c.h('__sro__')
    return [('result-after-k', c.h('$dict')[c.a.result] == allR(
        treeview(D0), Sn, c.a.components, c.a.specs, c.a.provided, c.a.i, c.a.l, D0[c.a.result], c.i)),
        ('tree-unchanged', tree_unchanged(c))]


def _all_L1(c):
    D0 = c.h0('$dict')
    return [('result-after-k', c.h('$dict')[c.a.result] == allL(treeview(D0), c.a.components, c.a.provided, D0[c.a.result], c.i)),
            ('tree-unchanged', tree_unchanged(c))]


reg.add(Proc(
    A + '_lookupAll', [('components', DICT), ('specs', SEQO), ('provided', SEQO), ('result', DICT), ('i', INT), ('l', INT)],
    source='adapter.py:_lookupAll', locals={'$containers': True}, modifies=['$dict'],
    requires=all_pre,
    ensures=lambda c: [('least-specific-first-so-most-specific-wins',
                        c.h('$dict')[c.a.result] == allmap(treeview(c.h0('$dict')), c.h('__sro__'), c.a.components, c.a.specs,
                                                           c.a.provided, c.a.i, c.a.l, c.h0('$dict')[c.a.result])),
                       ('tree-unchanged', tree_unchanged(c))],
    loops={'L0': Loop(_all_L0), 'L1': Loop(_all_L1)},
))

# ------------------------------------------------------------------ _subscriptions  (C07)
subs = z3.Function('subs', DS, SS, Obj, SeqO, SeqO, Obj, I_, I_, SeqO)
subsR = z3.Function('subsR', DS, SS, Obj, SeqO, SeqO, Obj, I_, I_, I_, SeqO)
subsL = z3.Function('subsL', DS, Obj, SeqO, Obj, I_, SeqO)
_sR = subsR(D, S, c_, sp, pv, n_, i_, l_, k_)
reg.axiom('subsR-0', z3.ForAll([D, S, c_, sp, pv, n_, i_, l_], subsR(D, S, c_, sp, pv, n_, i_, l_, 0) == Empty(SeqO),
                               patterns=[subsR(D, S, c_, sp, pv, n_, i_, l_, 0)]))
reg.axiom('subsR-step', z3.ForAll([D, S, c_, sp, pv, n_, i_, l_, k_], z3.Implies(
    z3.And(0 <= k_, k_ < L(sro_i)),
    subsR(D, S, c_, sp, pv, n_, i_, l_, k_ + 1) == z3.If(
        tr(D, _chR), Concat(_sR, subs(D, S, _chR, sp, pv, n_, i_ + 1, l_)), _sR)),
    patterns=[subsR(D, S, c_, sp, pv, n_, i_, l_, k_ + 1)]))
_sL = subsL(D, c_, pv, n_, k_)
_leafseq = g(D, _chL, n_)
reg.axiom('subsL-0', z3.ForAll([D, c_, pv, n_], subsL(D, c_, pv, n_, 0) == Empty(SeqO), patterns=[subsL(D, c_, pv, n_, 0)]))
reg.axiom('subsL-step', z3.ForAll([D, c_, pv, n_, k_], z3.Implies(
    z3.And(0 <= k_, k_ < L(pv)),
    subsL(D, c_, pv, n_, k_ + 1) == z3.If(
        z3.And(tr(D, _chL), is_seq(_leafseq), L(unbox_seq(_leafseq)) > 0),
        Concat(_sL, unbox_seq(_leafseq)), _sL)), patterns=[subsL(D, c_, pv, n_, k_ + 1)]))
_sb = subs(D, S, c_, sp, pv, n_, i_, l_)
reg.axiom('subs-def', z3.ForAll([D, S, c_, sp, pv, n_, i_, l_], _sb == z3.If(
    i_ < l_, subsR(D, S, c_, sp, pv, n_, i_, l_, L(sro_i)), subsL(D, c_, pv, n_, L(pv))), patterns=[_sb]))

wfs = z3.Function('wfs', DS, Obj, I_, B_)      # subscriber tree: dicts down to depth d, leaves are tuples (or absent)
reg.axiom('wfs-step', z3.ForAll([D, c_, d_], z3.Implies(d_ >= 1, wfs(D, c_, d_) == z3.ForAll([ko], z3.Implies(
    z3.Select(z3.Select(D, c_), ko) != ABSENT,
    z3.And(is_dict(z3.Select(z3.Select(D, c_), ko)), in_tree(z3.Select(z3.Select(D, c_), ko)),
           wfs(D, z3.Select(z3.Select(D, c_), ko), d_ - 1))))),
    patterns=[wfs(D, c_, d_)]))
reg.axiom('wfs-leaf', z3.ForAll([D, c_], wfs(D, c_, 0) == z3.ForAll([ko], z3.Implies(
    z3.Select(z3.Select(D, c_), ko) != ABSENT, is_seq(z3.Select(z3.Select(D, c_), ko)))), patterns=[wfs(D, c_, 0)]))


def subs_pre(c):
    return [('components-is-dict', z3.And(is_dict(c.a.components), in_tree(c.a.components))),
            ('tree-of-dicts-with-tuple-leaves', wfs(treeview(c.h('$dict')), c.a.components, c.a.l - c.a.i + 1)),
            ('position', z3.And(0 <= c.a.i, c.a.i <= c.a.l, c.a.l == L(c.a.specs))),
            ('result-allocated', c.h('$alloc')[c.a.result])]


def lists_unchanged(c):
    o = z3.Const('lu_o', Obj)
    return z3.ForAll([o], z3.Implies(o != c.a.result, c.h('$list')[o] == c.h0('$list')[o]))


def _subs_L0(c):
    Dn, Sn = treeview(c.h('$dict')), c.h('__sro__')
    return [('result-after-k', SeqEq(c.h('$list')[c.a.result], Concat(c.h0('$list')[c.a.result], subsR(
        Dn, Sn, c.a.components, c.a.specs, c.a.provided, c.a.name, c.a.i, c.a.l, c.i)))),
        ('other-lists', lists_unchanged(c))]


def _subs_L1(c):
    Dn = treeview(c.h('$dict'))
    return [('result-after-k', SeqEq(c.h('$list')[c.a.result], Concat(c.h0('$list')[c.a.result], subsL(
        Dn, c.a.components, c.a.provided, c.a.name, c.i)))),
        ('other-lists', lists_unchanged(c))]


reg.add(Proc(
    A + '_subscriptions',
    [('components', DICT), ('specs', SEQO), ('provided', SEQO), ('name', OBJ), ('result', LISTO), ('i', INT), ('l', INT)],
    source='adapter.py:_subscriptions', locals={'$containers': True}, modifies=['$list'],
    requires=subs_pre,
    ensures=lambda c: [('appended-least-specific-first',
                        SeqEq(c.h('$list')[c.a.result], Concat(c.h0('$list')[c.a.result], subs(
                            treeview(c.h('$dict')), c.h('__sro__'), c.a.components, c.a.specs, c.a.provided, c.a.name,
                            c.a.i, c.a.l)))),
                       ('other-lists', lists_unchanged(c))],
    loops={'L0': Loop(_subs_L0), 'L1': Loop(_subs_L1)},
))

# ------------------------------------------------------------------ AdapterLookupBase._uncached_lookup  (C04, C06)
FIELDS.update({'$subscribed': z3.ArraySort(Obj, z3.ArraySort(Obj, z3.BoolSort())),   # ghost: lookup object -> specs it listens to
               '_registry': OBJ, 'ro': SEQO, '_adapters': LISTO, '_subscribers': LISTO, '_v_lookup': OBJ,
               '_extendors': DICT, '_required': DICT})
reg.fields.update(FIELDS)


def seqof(c, o, now=True):
    lst = c.h('$list') if now else c.h0('$list')
    return z3.If(is_seq(o), unbox_seq(o), lst[o])


def ext_of(c, R, provided):
    """registry._v_lookup._extendors.get(provided)"""
    return g(c.h('$dict'), c.h('_extendors')[c.h('_v_lookup')[R]], provided)


def byorder_of(c, R, which='_adapters'):
    return c.h('$list')[c.h(which)[R]]


def truthy_container(c, o):
    return z3.If(is_list(o), L(c.h('$list')[o]) > 0, z3.If(is_seq(o), L(unbox_seq(o)) > 0, z3.BoolVal(False)))


def registry_ok(c, R, which='_adapters', wf=None):
    """representation invariant of one registry as far as the searches rely on it"""
    wf = wfn if wf is None else wf
    o = z3.Int('ro_o')
    p = z3.Const('ro_p', Obj)
    bo = byorder_of(c, R, which)
    e = c.h('_extendors')[c.h('_v_lookup')[R]]
    return z3.And(
        R != NONE, c.h('_v_lookup')[R] != NONE, is_dict(e), z3.Not(in_tree(e)),
        z3.ForAll([o], z3.Implies(z3.And(0 <= o, o < L(bo)),
                                  z3.And(is_dict(bo[o]), in_tree(bo[o]), wf(treeview(c.h('$dict')), bo[o], o + 1)))),
        z3.ForAll([p], z3.Implies(c.h('$dict')[e][p] != ABSENT,
                                  z3.Or(is_list(c.h('$dict')[e][p]), is_seq(c.h('$dict')[e][p])))))


def chain_ok(c, which='_adapters', wf=None):
    k = z3.Int('ch_k')
    ro = c.h('ro')[c.h('_registry')[c.a.self]]
    return z3.ForAll([k], z3.Implies(z3.And(0 <= k, k < L(ro)), registry_ok(c, ro[k], which, wf)), patterns=[ro[k]])


def ul_hit(c, k, required, order):
    ro = c.h('ro')[c.h('_registry')[c.a.self]]
    R = ro[k]
    e = ext_of(c, R, c.a.provided)
    return z3.And(order < L(byorder_of(c, R)), truthy_container(c, e),
                  ul_val(c, k, required, order) != NONE)


def ul_val(c, k, required, order):
    ro = c.h('ro')[c.h('_registry')[c.a.self]]
    R = ro[k]
    return best(treeview(c.h('$dict')), c.h('__sro__'), byorder_of(c, R)[order], required,
                seqof(c, ext_of(c, R, c.a.provided)), c.a.name, 0, order)


def _ul_post(c):
    req = c.a.required          # tuple(required) of a tuple argument is the argument
    order = L(req)
    k, k2 = z3.Ints('ul_k ul_k2')
    ro = c.h0('ro')[c.h0('_registry')[c.a.self]]
    c0 = _at_entry(c)
    return [('nearest-registry-with-an-applicable-registration', z3.Or(
        z3.And(c.res == NONE, z3.ForAll([k], z3.Implies(z3.And(0 <= k, k < L(ro)), z3.Not(ul_hit(c0, k, req, order))))),
        z3.Exists([k], z3.And(0 <= k, k < L(ro), ul_hit(c0, k, req, order), c.res == ul_val(c0, k, req, order),
                              z3.ForAll([k2], z3.Implies(z3.And(0 <= k2, k2 < k), z3.Not(ul_hit(c0, k2, req, order))))))))]


class _at_entry:
    """view of a Ctx in which 'now' is the entry heap"""

    def __init__(self, c):
        self.a = c.a
        self._c = c

    def h(self, f):
        return self._c.h0(f)

    def h0(self, f):
        return self._c.h0(f)


def _ul_loop(c):
    req = c.l.required
    order = c.l.order
    k = z3.Int('ull_k')
    c0 = _at_entry(c)
    return [('no-earlier-registry-hit', z3.ForAll([k], z3.Implies(z3.And(0 <= k, k < c.i), z3.Not(ul_hit(c0, k, req, order))))),
            ('result-none-so-far', c.l.result == NONE),
            ('heap-unchanged', z3.And(c.h('$dict') == c.h0('$dict'), c.h('$list') == c.h0('$list'),
                                      c.h('$subscribed') == c.h0('$subscribed')))]


def subscribed_to_all(c, required):
    j = z3.Int('sb_j')
    return z3.ForAll([j], z3.Implies(z3.And(0 <= j, j < L(required)), c.h('$subscribed')[c.a.self][required[j]]))


# AdapterLookupBase._subscribe, verified from its body.  The lookup object remembers (by weak reference, in its own mapping
# _required) which required specifications it already listens to and subscribes to a specification only the first time; that is
# correct only under the representation invariant "a remembered specification is a subscribed one" (RefsInv), which the method
# needs, keeps, and which AdapterLookupBase.changed re-establishes by emptying the mapping after unsubscribing.
WR = z3.Function('weakref_of_specification', Obj, Obj)
_wa, _wb = z3.Consts('wr_a wr_b', Obj)
reg.axiom('weak-references-identify-their-referent', z3.ForAll([_wa, _wb], z3.Implies(WR(_wa) == WR(_wb), _wa == _wb), patterns=[z3.MultiPattern(WR(_wa), WR(_wb))]))
reg.axiom('a-weak-reference-is-an-object', z3.ForAll([_wa], z3.And(WR(_wa) != NONE, WR(_wa) != ABSENT), patterns=[WR(_wa)]))
reg.add(Proc(A + 'virtual.weakref', [('self', OBJ)], result=OBJ, trusted=True, pure_fn=lambda c: WR(c.a.self),
             note='Specification.weakref(): a weak reference object that identifies the specification (equal references, same referent)'))
reg.add(Proc(A + 'virtual.specification_subscribe', [('self', OBJ), ('dependent', OBJ)], modifies=['$subscribed'],
             ensures=lambda c: [c.h('$subscribed') == z3.Store(c.h0('$subscribed'), c.a.dependent,
                                                                z3.Store(c.h0('$subscribed')[c.a.dependent], c.a.self, True))],
             note='Specification.subscribe(dependent) (verified under C02: the dependent is recorded with multiplicity): '
                  'ghost relation "dependent listens to specification"'))


def refs_inv(c, now=True):
    h = c.h if now else c.h0
    r = z3.Const('ri_r', Obj)
    refs = h('$dict')[h('_required')[c.a.self]]
    return ForAllP([r], z3.Implies(refs[WR(r)] != ABSENT, h('$subscribed')[c.a.self][r]), [refs[WR(r)]])


def _sub_frame(c):
    o, l, sp = z3.Consts('su_o su_l su_s', Obj)
    return [('only-the-own-bookkeeping-mapping-is-written', ForAllP([o], z3.Implies(
        o != c.h0('_required')[c.a.self], c.h('$dict')[o] == c.h0('$dict')[o]), [c.h('$dict')[o]])),
            ('subscriptions-only-grow', ForAllP([l, sp], z3.Implies(c.h0('$subscribed')[l][sp], c.h('$subscribed')[l][sp]), [c.h('$subscribed')[l][sp]])),
            ('remembered-specifications-are-subscribed-ones', refs_inv(c))]


def _sub_loop(c):
    j = z3.Int('sl_j')
    req = c.a.required
    return [('the-first-i-are-subscribed', ForAllP([j], z3.Implies(z3.And(0 <= j, j < c.i), c.h('$subscribed')[c.a.self][req[j]]), [req[j]])),
            ('bookkeeping-mapping-unchanged-as-object', c.h('_required') == c.h0('_required'))] + _sub_frame(c)


reg.add(Proc(A + 'AdapterLookupBase._subscribe', [('self', OBJ)], varargs='required', source='adapter.py:AdapterLookupBase._subscribe',
             calls={'r.weakref': A + 'virtual.weakref', 'r.subscribe': A + 'virtual.specification_subscribe'},
             locals={'_refs': DICT},
             modifies=['$dict', '$subscribed'],
             requires=lambda c: [('remembered-specifications-are-subscribed-ones', refs_inv(c)),
                                 ('the-bookkeeping-mapping-exists', z3.And(c.h('_required')[c.a.self] != NONE, is_dict(c.h('_required')[c.a.self])))],
             ensures=lambda c: [('listens-to-every-required-specification', subscribed_to_all(c, c.a.required))] + _sub_frame(c),
             loops={'L0': Loop(_sub_loop)}))

reg.add(Proc(
    A + 'AdapterLookupBase._uncached_lookup', [('self', OBJ), ('required', SEQO), ('provided', OBJ), ('name', OBJ)],
    source='adapter.py:AdapterLookupBase._uncached_lookup', result=OBJ, locals={'$containers': True},
    calls={'_lookup': A + '_lookup', 'self._subscribe': A + 'AdapterLookupBase._subscribe'},
    requires=lambda c: [('chain-well-formed', chain_ok(c)),
                        ('own-bookkeeping-is-not-a-tree-node', z3.Not(in_tree(c.h('_required')[c.a.self]))),
                        ('remembered-specifications-are-subscribed-ones', refs_inv(c)),
                        ('the-bookkeeping-mapping-exists', z3.And(c.h('_required')[c.a.self] != NONE, is_dict(c.h('_required')[c.a.self])))],
    modifies=['$dict', '$subscribed'],
    ensures=lambda c: _ul_post(c) + [('listens-to-every-required-specification', subscribed_to_all(c, c.a.required)),
                                     ('remembered-specifications-are-subscribed-ones', refs_inv(c))],
    loops={'L0': Loop(_ul_loop)},
))


# ------------------------------------------------------------------ AdapterLookupBase._uncached_subscriptions  (C07, C06)
# Statement of C07: subscribers of base registries precede those of derived registries.  The registry's resolution order lists
# the registry itself first and its bases after it, so the walk goes through reversed(ro); every registry contributes what
# _subscriptions (verified above) appends for its subscriber tree of the right order.
HT = z3.Const('heap_token_usubs', Obj)
contrib = z3.Function('subscriptions_contributed_by_chain_member', Obj, I_, SeqO)      # (entry-heap token, index into ro)
usubs = z3.Function('subscriptions_of_the_last_n_chain_members', Obj, I_, I_, SeqO)    # (token, len(ro), n)
_un, _ul = z3.Ints('us_n us_l')
reg.axiom('usubs-0', z3.ForAll([_ul], usubs(HT, _ul, 0) == Empty(SeqO), patterns=[usubs(HT, _ul, 0)]))
reg.axiom('usubs-step', z3.ForAll([_ul, _un], z3.Implies(z3.And(0 <= _un, _un < _ul),
          usubs(HT, _ul, _un + 1) == Concat(usubs(HT, _ul, _un), contrib(HT, _ul - 1 - _un))), patterns=[usubs(HT, _ul, _un + 1)]))


def containers_exist(c, which):
    """the by-order lists of the chain members and their extendors lists are objects that exist at entry (so that a list created
    by the search is none of them)"""
    k = z3.Int('ce_k')
    p = z3.Const('ce_p', Obj)
    ro = c.h('ro')[c.h('_registry')[c.a.self]]
    R = ro[k]
    e = c.h('_extendors')[c.h('_v_lookup')[R]]
    v = c.h('$dict')[e][p]
    return z3.ForAll([k], z3.Implies(z3.And(0 <= k, k < L(ro)), z3.And(
        c.h('$alloc')[c.h(which)[R]], c.h('$alloc')[e], z3.ForAll([p], z3.Implies(z3.And(v != ABSENT, is_list(v)), c.h('$alloc')[v]), patterns=[v]))), patterns=[ro[k]])


def tree_nodes_exist(c):
    """dictionaries that are nodes of a registration tree exist at entry (a mapping created by the search is no tree node)"""
    o = z3.Const('tn_o', Obj)
    return ForAllP([o], z3.Implies(in_tree(o), c.h('$alloc')[o]), [in_tree(o)])


def _usub_contrib(c, k):
    """what chain member ro[k] contributes, on the heap at entry"""
    c0 = _at_entry(c)
    req = c.a.required
    order = L(req)
    R = c.h0('ro')[c.h0('_registry')[c.a.self]][k]
    bo = c.h0('$list')[c.h0('_subscribers')[R]]
    e = g(c.h0('$dict'), c.h0('_extendors')[c.h0('_v_lookup')[R]], c.a.provided)
    handlers = c.a.provided == NONE
    ext_seq = z3.If(handlers, Unit(NONE), z3.If(is_seq(e), unbox_seq(e), c.h0('$list')[e]))
    applicable = z3.And(order < L(bo), z3.Or(handlers, e != NONE))
    return z3.If(applicable, subs(treeview(c.h0('$dict')), c.h0('__sro__'), bo[order], req, ext_seq, box_name(EMPTYNAME), 0, order), Empty(SeqO))


def _usub_ghost(c):
    k = z3.Int('ug_k')
    return [z3.ForAll([k], contrib(HT, k) == _usub_contrib(c, k), patterns=[contrib(HT, k)])]


def _usub_loop(c):
    ro = c.h0('ro')[c.h0('_registry')[c.a.self]]
    res = c.l.result
    o = z3.Const('ul_o', Obj)
    return [('result-is-what-the-chain-members-visited-so-far-contribute', SeqEq(c.h('$list')[res], usubs(HT, L(ro), c.i))),
            ('only-the-result-list-changes', z3.And(c.h('$dict') == c.h0('$dict'), c.h('$subscribed') == c.h0('$subscribed'),
                                                    ForAllP([o], z3.Implies(c.h0('$alloc')[o], c.h('$list')[o] == c.h0('$list')[o]), [c.h('$list')[o]]))),
            ('the-result-list-is-new', z3.And(z3.Not(c.h0('$alloc')[res]), c.h('$alloc')[res])),
            ('fields-unchanged', z3.And(c.h('ro') == c.h0('ro'), c.h('_registry') == c.h0('_registry'), c.h('_subscribers') == c.h0('_subscribers'),
                                        c.h('_required') == c.h0('_required')))]


def _usub_post(c):
    ro = c.h0('ro')[c.h0('_registry')[c.a.self]]
    o = z3.Const('up_o', Obj)
    return [('base-registries-first-then-derived-each-least-specific-first', SeqEq(c.h('$list')[c.res], usubs(HT, L(ro), L(ro)))),
            ('listens-to-every-required-specification', subscribed_to_all(c, c.a.required)),
            ('remembered-specifications-are-subscribed-ones', refs_inv(c)),
            ('existing-lists-unchanged', ForAllP([o], z3.Implies(c.h0('$alloc')[o], c.h('$list')[o] == c.h0('$list')[o]), [c.h('$list')[o]]))]


reg.add(Proc(
    A + 'AdapterLookupBase._uncached_subscriptions', [('self', OBJ), ('required', SEQO), ('provided', OBJ)],
    source='adapter.py:AdapterLookupBase._uncached_subscriptions', result=LISTO, locals={'$containers': True, 'result': LISTO},
    calls={'_subscriptions': A + '_subscriptions', 'self._subscribe': A + 'AdapterLookupBase._subscribe'},
    ghost_pre=_usub_ghost,
    requires=lambda c: [('chain-well-formed', chain_ok(c, '_subscribers', wfs)),
                        ('the-containers-of-the-chain-exist', containers_exist(c, '_subscribers')),
                        ('own-bookkeeping-is-not-a-tree-node', z3.Not(in_tree(c.h('_required')[c.a.self]))),
                        ('remembered-specifications-are-subscribed-ones', refs_inv(c)),
                        ('the-bookkeeping-mapping-exists', z3.And(c.h('_required')[c.a.self] != NONE, is_dict(c.h('_required')[c.a.self])))],
    modifies=['$dict', '$subscribed', '$list', '$alloc'],
    ensures=_usub_post, loops={'L0': Loop(_usub_loop)},
))


# ------------------------------------------------------------------ AdapterLookupBase._uncached_lookupAll  (C08, C06)
# The same walk for named adapters: base registries first, so that a registration of a derived registry (visited later)
# overrides an equally named one of a base; inside one registry _lookupAll (verified above) lets the most specific win.
HTA = z3.Const('heap_token_uall', Obj)
uall = z3.Function('named_adapters_after_the_last_n_chain_members', Obj, I_, I_, MS)       # (token, len(ro), n) -> name -> value
uall_step = z3.Function('named_adapters_chain_member_applied', Obj, I_, MS, MS)             # (token, index into ro, map so far)
_am0 = z3.Const('ua_m', MS)
reg.axiom('uall-0', z3.ForAll([_ul], uall(HTA, _ul, 0) == EMPTYMAP, patterns=[uall(HTA, _ul, 0)]))
reg.axiom('uall-step', z3.ForAll([_ul, _un], z3.Implies(z3.And(0 <= _un, _un < _ul),
          uall(HTA, _ul, _un + 1) == uall_step(HTA, _ul - 1 - _un, uall(HTA, _ul, _un))), patterns=[uall(HTA, _ul, _un + 1)]))


def _uall_apply(c, k, m):
    req = c.a.required
    order = L(req)
    R = c.h0('ro')[c.h0('_registry')[c.a.self]][k]
    bo = c.h0('$list')[c.h0('_adapters')[R]]
    e = g(c.h0('$dict'), c.h0('_extendors')[c.h0('_v_lookup')[R]], c.a.provided)
    ext_seq = z3.If(is_seq(e), unbox_seq(e), c.h0('$list')[e])
    nonempty = z3.If(is_list(e), L(c.h0('$list')[e]) > 0, z3.If(is_seq(e), L(unbox_seq(e)) > 0, z3.BoolVal(False)))
    applicable = z3.And(order < L(bo), nonempty)
    return z3.If(applicable, allmap(treeview(c.h0('$dict')), c.h0('__sro__'), bo[order], req, ext_seq, 0, order, m), m)


def _uall_ghost(c):
    k = z3.Int('ag_k')
    m = z3.Const('ag_m', MS)
    return [z3.ForAll([k, m], uall_step(HTA, k, m) == _uall_apply(c, k, m), patterns=[uall_step(HTA, k, m)])]


def _uall_loop(c):
    ro = c.h0('ro')[c.h0('_registry')[c.a.self]]
    res = c.l.result
    o = z3.Const('al_o', Obj)
    return [('result-holds-the-named-adapters-of-the-chain-members-visited-so-far', c.h('$dict')[res] == uall(HTA, L(ro), c.i)),
            ('only-the-result-mapping-changes', z3.And(c.h('$list') == c.h0('$list'), c.h('$subscribed') == c.h0('$subscribed'),
                                                       ForAllP([o], z3.Implies(c.h0('$alloc')[o], c.h('$dict')[o] == c.h0('$dict')[o]), [c.h('$dict')[o]]))),
            ('the-result-mapping-is-new', z3.And(z3.Not(c.h0('$alloc')[res]), c.h('$alloc')[res], z3.Not(in_tree(res)), is_dict(res))),
            ('the-registration-trees-are-unchanged', treeview(c.h('$dict')) == treeview(c.h0('$dict'))),
            ('fields-unchanged', z3.And(c.h('ro') == c.h0('ro'), c.h('_registry') == c.h0('_registry'), c.h('_adapters') == c.h0('_adapters'),
                                        c.h('_required') == c.h0('_required'), c.h('_extendors') == c.h0('_extendors'), c.h('_v_lookup') == c.h0('_v_lookup')))]


def _uall_post(c):
    ro = c.h0('ro')[c.h0('_registry')[c.a.self]]
    return [('derived-registries-override-base-registries-name-by-name', c.res == uall(HTA, L(ro), L(ro))),
            ('listens-to-every-required-specification', subscribed_to_all(c, c.a.required)),
            ('remembered-specifications-are-subscribed-ones', refs_inv(c))]


reg.add(Proc(
    A + 'AdapterLookupBase._uncached_lookupAll', [('self', OBJ), ('required', SEQO), ('provided', OBJ)],
    source='adapter.py:AdapterLookupBase._uncached_lookupAll', result=Ty('items'), locals={'$containers': True, 'result': DICT},
    calls={'_lookupAll': A + '_lookupAll', 'self._subscribe': A + 'AdapterLookupBase._subscribe'},
    ghost_pre=_uall_ghost,
    requires=lambda c: [('chain-well-formed', chain_ok(c)),
                        ('the-containers-of-the-chain-exist', containers_exist(c, '_adapters')),
                        ('every-tree-node-exists', tree_nodes_exist(c)),
                        ('own-bookkeeping-is-not-a-tree-node', z3.Not(in_tree(c.h('_required')[c.a.self]))),
                        ('remembered-specifications-are-subscribed-ones', refs_inv(c)),
                        ('the-bookkeeping-mapping-exists', z3.And(c.h('_required')[c.a.self] != NONE, is_dict(c.h('_required')[c.a.self]),
                                                                  c.h('$alloc')[c.h('_required')[c.a.self]]))],
    modifies=['$dict', '$subscribed', '$alloc'],
    ensures=_uall_post, loops={'L0': Loop(_uall_loop)},
))


# ------------------------------------------------------------------ AdapterLookupBase.changed: forget (and unsubscribe from) everything remembered
DEREF = z3.Function('referent_of_weak_reference', Obj, Obj)          # r(): the specification, or None once it is gone
reg.axiom('a-live-weak-reference-yields-its-referent', z3.ForAll([_wa], z3.Or(DEREF(WR(_wa)) == _wa, DEREF(WR(_wa)) == NONE), patterns=[DEREF(WR(_wa))]))
FIELDS.update({'$base_changed': z3.ArraySort(Obj, z3.IntSort())})
reg.fields.update(FIELDS)


def _super_changed(ex, node, st):
    """super().changed(None): LookupBase.changed / VerifyingBase.changed (verified under C09 / C06): the caches are emptied"""
    s = ex.args['self'].t
    g_ = st.heap.get('$base_changed')
    st.heap.set('$base_changed', z3.Store(g_, s, z3.Select(g_, s) + 1))
    return [(st, VNONE)]


def _deref(ex, node, st, vals):
    return [(st, vobj(DEREF(vals[0].t)))]


reg.add(Proc(A + 'virtual.specification_unsubscribe', [('self', OBJ), ('dependent', OBJ)], modifies=['$subscribed'],
             ensures=lambda c: [ForAllP([z3.Const('vu_l', Obj), z3.Const('vu_s', Obj)], z3.Implies(
                 z3.Not(z3.And(z3.Const('vu_l', Obj) == c.a.dependent, z3.Const('vu_s', Obj) == c.a.self)),
                 c.h('$subscribed')[z3.Const('vu_l', Obj)][z3.Const('vu_s', Obj)] == c.h0('$subscribed')[z3.Const('vu_l', Obj)][z3.Const('vu_s', Obj)]),
                 [c.h('$subscribed')[z3.Const('vu_l', Obj)][z3.Const('vu_s', Obj)]])],
             note='Specification.unsubscribe(dependent) (verified under C02): nobody else\'s subscription is touched'))


def _alc_loop(c):
    l, sp_ = z3.Consts('cl_l cl_s', Obj)
    return [('only-the-own-subscriptions-change', ForAllP([l, sp_], z3.Implies(l != c.a.self, c.h('$subscribed')[l][sp_] == c.h0('$subscribed')[l][sp_]),
                                                          [c.h('$subscribed')[l][sp_]])),
            ('mappings-untouched-so-far', c.h('$dict') == c.h0('$dict')),
            ('base-class-invalidation-ran-once', c.h('$base_changed')[c.a.self] == c.h0('$base_changed')[c.a.self] + 1)]


reg.add(Proc(A + 'AdapterLookupBase.changed', [('self', OBJ), ('ignored', OBJ)], source='adapter.py:AdapterLookupBase.changed',
             defaults={'ignored': VNONE}, opaque_calls={'r': _deref},
             calls={'r.unsubscribe': A + 'virtual.specification_unsubscribe', 'super().changed': _super_changed},
             locals={'$containers': True},
             modifies=['$dict', '$subscribed', '$base_changed'],
             requires=lambda c: [('the-bookkeeping-mapping-exists', z3.And(c.h('_required')[c.a.self] != NONE, is_dict(c.h('_required')[c.a.self])))],
             ensures=lambda c: [('nothing-is-remembered-any-more', c.h('$dict')[c.h('_required')[c.a.self]] == EMPTYMAP),
                                ('remembered-specifications-are-subscribed-ones', refs_inv(c)),
                                ('the-caches-are-emptied-by-the-base-class', c.h('$base_changed')[c.a.self] == c.h0('$base_changed')[c.a.self] + 1),
                                ('only-the-own-bookkeeping-mapping-is-written', ForAllP([z3.Const('ac_o', Obj)], z3.Implies(
                                    z3.Const('ac_o', Obj) != c.h0('_required')[c.a.self],
                                    c.h('$dict')[z3.Const('ac_o', Obj)] == c.h0('$dict')[z3.Const('ac_o', Obj)]), [c.h('$dict')[z3.Const('ac_o', Obj)]])),
                                ('nobody-else-is-unsubscribed', ForAllP([z3.Const('ac_l', Obj), z3.Const('ac_s', Obj)], z3.Implies(
                                    z3.Const('ac_l', Obj) != c.a.self,
                                    c.h('$subscribed')[z3.Const('ac_l', Obj)][z3.Const('ac_s', Obj)] == c.h0('$subscribed')[z3.Const('ac_l', Obj)][z3.Const('ac_s', Obj)]),
                                    [c.h('$subscribed')[z3.Const('ac_l', Obj)][z3.Const('ac_s', Obj)]]))],
             loops={'L0': Loop(_alc_loop)}))
