"""Contracts for the (name, module) order of interfaces and class specifications (property C12), Python reference.

key(o)      = (o.__name__, o.__module__)
lt_key(a,b) = name(a) < name(b)  or  name(a) == name(b) and module(a) < module(b)      (str order: strict total, A1)
"""
import z3

from zivc.core import *  # noqa
from zivc.spec import Loop, Proc, Registry
from zivc import symex

FIELDS = {'__name__': NAME, '__module__': NAME, '_v_cached_hash': INT, '$has_cached_hash': z3.ArraySort(Obj, z3.BoolSort())}
reg = Registry(FIELDS)
B = z3.BoolSort()
has_name = z3.Function('hasattr___name__', Obj, B)
has_module = z3.Function('hasattr___module__', Obj, B)
H = z3.Function('hash_of_name_module', Name, Name, z3.IntSort())
I = 'interface.py:'


def _dyn(attr, pred):
    def handler(ex, node, st, recv):
        miss = st.clone()
        miss.assume(z3.Not(pred(recv.t)))
        ex.raise_(miss, 'AttributeError')
        st.assume(pred(recv.t))
        return [(st, ex.read_field(st, recv.t, attr))]
    return handler


DYN = {'__name__': _dyn('__name__', has_name), '__module__': _dyn('__module__', has_module)}


def nm(c, o):
    return c.h0('__name__')[o], c.h0('__module__')[o]


def lt_key(c, a, b):
    an, am = nm(c, a)
    bn, bm = nm(c, b)
    return z3.Or(name_lt(an, bn), z3.And(an == bn, name_lt(am, bm)))


def eq_key(c, a, b):
    an, am = nm(c, a)
    bn, bm = nm(c, b)
    return z3.And(an == bn, am == bm)


def comparable(o):
    return z3.And(has_name(o), has_module(o))


def cmp_spec(c):
    s, o = c.a.self, c.a.other
    return z3.If(o == s, box_int(0),
           z3.If(o == NONE, box_int(-1),
           z3.If(z3.Not(comparable(o)), NOTIMPL,
           z3.If(lt_key(c, s, o), box_int(-1), z3.If(lt_key(c, o, s), box_int(1), box_int(0))))))


def self_ok(c):
    return [('self-has-name-and-module', comparable(c.a.self)), ('self-is-object', c.a.self != NONE)]


reg.add(Proc(
    I + 'NameAndModuleComparisonMixin._compare', [('self', OBJ), ('other', OBJ)],
    source='interface.py:NameAndModuleComparisonMixin._compare', result=OBJ, dynattr=DYN,
    requires=self_ok, ensures=lambda c: [('sign-of-key-comparison', c.res == cmp_spec(c))]))


def rich(name, rel):
    def post(c):
        sp = cmp_spec(c)
        return [('notimplemented-passes-through', z3.Implies(sp == NOTIMPL, c.res == NOTIMPL)),
                ('relation-on-keys', z3.Implies(sp != NOTIMPL, c.res == box_bool(rel(unbox_int(sp)))))]
    reg.add(Proc(I + 'NameAndModuleComparisonMixin.' + name, [('self', OBJ), ('other', OBJ)],
                 source='interface.py:NameAndModuleComparisonMixin.' + name, result=OBJ,
                 calls={'self._compare': I + 'NameAndModuleComparisonMixin._compare'},
                 requires=self_ok, ensures=post))


rich('__lt__', lambda v: v < 0)
rich('__le__', lambda v: v <= 0)
rich('__gt__', lambda v: v > 0)
rich('__ge__', lambda v: v >= 0)

reg.add(Proc(I + 'InterfaceBase.__eq__', [('self', OBJ), ('other', OBJ)], source='interface.py:InterfaceBase.__eq__',
             result=OBJ, calls={'self._compare': I + 'NameAndModuleComparisonMixin._compare'}, locals={'$int_eq': True}, dynattr=DYN,
             requires=self_ok,
             ensures=lambda c: [('notimplemented', z3.Implies(cmp_spec(c) == NOTIMPL, c.res == NOTIMPL)),
                                ('equal-iff-keys-equal', z3.Implies(cmp_spec(c) != NOTIMPL,
                                                                     c.res == box_bool(unbox_int(cmp_spec(c)) == 0)))]))
reg.add(Proc(I + 'InterfaceBase.__ne__', [('self', OBJ), ('other', OBJ)], source='interface.py:InterfaceBase.__ne__',
             result=OBJ, calls={'self._compare': I + 'NameAndModuleComparisonMixin._compare'}, locals={'$int_eq': True}, dynattr=DYN,
             requires=self_ok,
             ensures=lambda c: [('notimplemented', z3.Implies(cmp_spec(c) == NOTIMPL, c.res == NOTIMPL)),
                                ('negation-of-eq', z3.Implies(cmp_spec(c) != NOTIMPL,
                                                              c.res == box_bool(unbox_int(cmp_spec(c)) != 0)))]))


# ------------------------------------------------------------------ __hash__ (memoised)
def _get_cached(ex, node, st, recv):
    has = z3.Select(st.heap.get('$has_cached_hash'), recv.t)
    miss = st.clone()
    miss.assume(z3.Not(has))
    ex.raise_(miss, 'AttributeError')
    st.assume(has)
    return [(st, ex.read_field(st, recv.t, '_v_cached_hash'))]


def _set_cached(ex, node, st, recv, v):
    ex.write_field(st, recv.t, '_v_cached_hash', v)
    st.heap.set('$has_cached_hash', z3.Store(st.heap.get('$has_cached_hash'), recv.t, True))


def _hash_builtin(ex, node, st):
    out = []
    for s, (v,) in ex.args1(node, st, 1):
        assert v.ty.kind == 'tup' and len(v.t) == 2
        out.append((s, vint(H(v.t[0].t, v.t[1].t))))
    return out


def memo_ok(c, heap):
    s = c.a.self
    return z3.Implies(heap('$has_cached_hash')[s], heap('_v_cached_hash')[s] == H(c.h0('__name__')[s], c.h0('__module__')[s]))


reg.add(Proc(I + 'InterfaceBase.__hash__', [('self', OBJ)], source='interface.py:InterfaceBase.__hash__', result=INT,
             dynattr=dict(DYN, _v_cached_hash=_get_cached), setattr_={'_v_cached_hash': _set_cached},
             calls={'hash': _hash_builtin}, modifies=['_v_cached_hash', '$has_cached_hash'],
             requires=lambda c: self_ok(c) + [('memo-valid', memo_ok(c, c.h))],
             ensures=lambda c: [('hash-of-key', c.res == H(c.h0('__name__')[c.a.self], c.h0('__module__')[c.a.self])),
                                ('memo-valid', memo_ok(c, c.h)),
                                ('others-untouched', z3.ForAll([z3.Const('o', Obj)], z3.Implies(
                                    z3.Const('o', Obj) != c.a.self, z3.And(
                                        c.h('_v_cached_hash')[z3.Const('o', Obj)] == c.h0('_v_cached_hash')[z3.Const('o', Obj)],
                                        c.h('$has_cached_hash')[z3.Const('o', Obj)] == c.h0('$has_cached_hash')[z3.Const('o', Obj)]))))]))

# ------------------------------------------------------------------ order laws, derived from the contracts above
# (the postconditions tie the methods to lt_key / eq_key; the laws are about those relations, for all names)
n1, n2, n3, m1, m2, m3 = z3.Consts('n1 n2 n3 m1 m2 m3', Name)


def ltk(a, b):
    return z3.Or(name_lt(a[0], b[0]), z3.And(a[0] == b[0], name_lt(a[1], b[1])))


A_, B_, C_ = (n1, m1), (n2, m2), (n3, m3)
eqk = lambda a, b: z3.And(a[0] == b[0], a[1] == b[1])
reg.lemma('law-irreflexive', [], z3.Not(ltk(A_, A_)))
reg.lemma('law-trichotomy', [], z3.And(z3.Or(ltk(A_, B_), eqk(A_, B_), ltk(B_, A_)),
                                       z3.Not(z3.And(ltk(A_, B_), ltk(B_, A_))),
                                       z3.Not(z3.And(ltk(A_, B_), eqk(A_, B_)))))
reg.lemma('law-transitive', [ltk(A_, B_), ltk(B_, C_)], ltk(A_, C_))
reg.lemma('law-le-is-lt-or-eq', [], z3.Not(ltk(B_, A_)) == z3.Or(ltk(A_, B_), eqk(A_, B_)))
reg.lemma('law-equal-keys-hash-equal', [eqk(A_, B_)], H(n1, m1) == H(n2, m2))
reg.lemma('law-eq-transitive', [eqk(A_, B_), eqk(B_, C_)], eqk(A_, C_))


# ------------------------------------------------------------------ InterfaceBase.__init__ (twin of the C IB__init__, contracts/C12_c.py)
FIELDS['__ibmodule__'] = OBJ
reg.fields['__ibmodule__'] = OBJ
FIELDS['$name_obj'] = z3.ArraySort(Obj, Obj)
reg.fields['$name_obj'] = z3.ArraySort(Obj, Obj)


def _set_name_obj(ex, tgt, st, recv, v):
    """self.__name__ = name: the name as given (None when not given) -- kept in a ghost field of its own because the order
    contracts above type __name__ as str"""
    st.heap.set('$name_obj', z3.Store(st.heap.get('$name_obj'), recv.t, box(v)))


reg.add(Proc(I + 'InterfaceBase.__init__', [('self', OBJ), ('name', OBJ), ('module', OBJ)], source='interface.py:InterfaceBase.__init__',
             defaults={'name': VNONE, 'module': VNONE}, setattr_={'__name__': _set_name_obj}, modifies=['$name_obj', '__ibmodule__'],
             ensures=lambda c: [('name-and-module-are-the-arguments-None-when-not-given', z3.And(
                 c.h('$name_obj')[c.a.self] == c.a.name, c.h('__ibmodule__')[c.a.self] == c.a.module)),
                 ('no-other-object-is-touched', z3.ForAll([z3.Const('bi_o', Obj)], z3.Implies(z3.Const('bi_o', Obj) != c.a.self, z3.And(
                     c.h('$name_obj')[z3.Const('bi_o', Obj)] == c.h0('$name_obj')[z3.Const('bi_o', Obj)],
                     c.h('__ibmodule__')[z3.Const('bi_o', Obj)] == c.h0('__ibmodule__')[z3.Const('bi_o', Obj)]))))]))
