"""Contracts for SpecificationBase.isOrExtends / __call__ / providedBy / implementedBy in BOTH implementations (properties
C02, C01, C10): the C functions SB_extends, SB__call__, SB_providedBy, SB_implementedBy are verified from the clang AST of
the real file, the Python methods from the ast, against ONE specification:

    isOrExtends(S, x)    = x is a key of the mapping S._implied      (C02 proves that mapping equals reachability)
    providedBy(S, ob)    = isOrExtends(providedBy(ob), S)
    implementedBy(S, c)  = isOrExtends(implementedBy(c), S)

with the same exceptional behaviour: a missing _implied is an AttributeError (fix 5a6a062: the C code used to return NULL
without an exception), an unhashable argument a TypeError (fix 6321d43), an exception of providedBy()/implementedBy()
propagates.  The only deliberate difference: when the declaration is not a SpecificationBase instance (a security proxy) the C
code calls it, the Python code reads its _implied; that branch is outside the verified domain (precondition)."""
import z3

from zivc.core import *  # noqa
from zivc.spec import Ctx, Proc, Registry
from zivc import cfun
from zivc.cfun import CProc, C_NULL, fail

B = z3.BoolSort()
FIELDS = {'_implied': OBJ}
ASSUMPTIONS = ['CPython API models of contracts/C02_c.py and zivc/cfun.py (A2): PyDict_GetItemWithError reports a hashing error, a '
               'dictionary never stores NULL, PyArg_ParseTuple(args, "O", &x) fails or binds x to the single argument; module state '
               'available; providedBy()/implementedBy() by oracles (C01); declarations that are not SpecificationBase instances '
               '(security proxies) are outside the verified domain']
MODULE = z3.Const('zic_module', Obj)
SBCLS = z3.Const('SpecificationBase_class', Obj)
PB = z3.Function('providedBy_of', Obj, Obj)
IMPL = z3.Function('implementedBy_of', Obj, Obj)
pb_fails = z3.Function('providedBy_fails', Obj, B)
impl_fails = z3.Function('implementedBy_fails', Obj, B)
ARG0 = z3.Function('single_positional_argument', Obj, Obj)
parse_fails = z3.Function('PyArg_ParseTuple_fails', Obj, B)
AXIOMS = [MODULE != C_NULL, SBCLS != C_NULL]


def member(heap_dict, implied_field, S, x):
    return z3.Select(z3.Select(heap_dict, z3.Select(implied_field, S)), x) != ABSENT


def spec_extends(c, S, x):
    """(result, exception) of isOrExtends(S, x) on the heap at entry"""
    imp = c.h0('_implied')[S]
    ok = z3.And(imp != C_NULL, z3.Not(cfun.hash_fails(x)))
    res = z3.If(imp == C_NULL, C_NULL, z3.If(cfun.hash_fails(x), C_NULL, box_bool(member(c.h0('$dict'), c.h0('_implied'), S, x))))
    exc = z3.If(imp == C_NULL, cfun.EXC_ATTRIBUTE_ERROR, z3.If(cfun.hash_fails(x), cfun.EXC_TYPE_ERROR, C_NULL))
    return ok, res, exc


# ---------------------------------------------------------------------- API models
def _getitem_with_error(ex, st, vs):
    d, k = vs[0].t, vs[1].t
    v = z3.Select(z3.Select(st.heap.get('$dict'), d), k)
    st.assume(v != C_NULL)
    bad = st.clone()
    bad.assume(cfun.hash_fails(k))
    fail(bad, cfun.EXC_TYPE_ERROR)
    st.assume(z3.Not(cfun.hash_fails(k)))
    return [(bad, vobj(C_NULL)), (st, vobj(z3.If(v == ABSENT, C_NULL, v)))]


def _parse_tuple(ex, st, vs):
    fmt = getattr(vs[1], 'lit', None)
    if fmt is None or fmt.strip('"') != 'O' or len(vs) != 3 or not isinstance(vs[2], cfun.VRef):
        raise cfun.CUnsupported('PyArg_ParseTuple with a format other than "O"')
    bad = st.clone()
    bad.assume(parse_fails(vs[0].t))
    fail(bad, cfun.EXC_TYPE_ERROR)
    st.assume(z3.And(z3.Not(parse_fails(vs[0].t)), ARG0(vs[0].t) != C_NULL))
    st.env[vs[2].ref] = vobj(ARG0(vs[0].t))
    return [(bad, vint(0)), (st, vint(1))]


def _oracle(fn, fails):
    def h(ex, st, vs):
        o = vs[1].t
        bad = st.clone()
        bad.assume(fails(o))
        fail(bad, cfun.EXC_OTHER)
        st.assume(z3.And(z3.Not(fails(o)), fn(o) != C_NULL))
        return [(bad, vobj(C_NULL)), (st, vobj(fn(o)))]
    return h


def _call_proxy(ex, st, vs):
    raise cfun.CUnsupported('declaration that is not a SpecificationBase (outside the verified domain)')


API = {'PyDict_GetItemWithError': _getitem_with_error, 'PyArg_ParseTuple': _parse_tuple,
       '_get_module': lambda ex, st, vs: [(st, vobj(MODULE))], '_get_specification_base_class': lambda ex, st, vs: [(st, vobj(SBCLS))],
       'providedBy': _oracle(PB, pb_fails), 'implementedBy': _oracle(IMPL, impl_fails)}


# ---------------------------------------------------------------------- SB_extends(self, other)
def _ext_post(c, S=None, x=None):
    S = c.a.self if S is None else S
    x = c.a.other if x is None else x
    ok, res, exc = spec_extends(c, S, x)
    return [('answers-membership-in-the-implied-mapping', z3.Implies(ok, z3.And(c.res == res, c.exc == C_NULL))),
            ('a-missing-_implied-is-an-AttributeError', z3.Implies(c.h0('_implied')[S] == C_NULL, z3.And(c.res == C_NULL, c.exc == cfun.EXC_ATTRIBUTE_ERROR))),
            ('an-unhashable-argument-is-a-TypeError', z3.Implies(z3.And(c.h0('_implied')[S] != C_NULL, cfun.hash_fails(x)),
                                                                 z3.And(c.res == C_NULL, c.exc == cfun.EXC_TYPE_ERROR))),
            ('NULL-iff-an-exception-is-set', (c.res == C_NULL) == (c.exc != C_NULL))]


EXT = CProc('SB_extends', [('self', OBJ), ('other', OBJ)], result=OBJ,
            requires=lambda c: [('arguments-are-objects', z3.And(c.a.self != C_NULL, c.a.other != C_NULL))],
            ensures=_ext_post, api=API)


def _call_post(c):
    x = ARG0(c.a.args)
    return [('argument-errors-are-reported', z3.Implies(parse_fails(c.a.args), z3.And(c.res == C_NULL, c.exc != C_NULL)))] + \
        [(lbl, z3.Implies(z3.Not(parse_fails(c.a.args)), f)) for lbl, f in _ext_post(c, c.a.self, x)]


CALL = CProc('SB__call__', [('self', OBJ), ('args', OBJ), ('kw', OBJ)], result=OBJ,
             requires=lambda c: [('arguments-are-objects', z3.And(c.a.self != C_NULL, c.a.args != C_NULL))],
             ensures=_call_post, api=API, callees={'SB_extends': EXT})


def _via(fn, fails, argname):
    def pre(c):
        ob = c.a[argname]
        return [('arguments-are-objects', z3.And(c.a.self != C_NULL, ob != C_NULL)),
                ('the-declaration-is-a-specification', z3.Implies(z3.Not(fails(ob)), subtype(typeof(fn(ob)), SBCLS)))]

    def post(c):
        ob = c.a[argname]
        return [('an-exception-of-the-declaration-lookup-propagates', z3.Implies(fails(ob), z3.And(c.res == C_NULL, c.exc != C_NULL)))] + \
            [(lbl, z3.Implies(z3.Not(fails(ob)), f)) for lbl, f in _ext_post(c, fn(ob), c.a.self)]
    return pre, post


_pb_pre, _pb_post = _via(PB, pb_fails, 'ob')
_ib_pre, _ib_post = _via(IMPL, impl_fails, 'cls')
PROVIDED = CProc('SB_providedBy', [('self', OBJ), ('ob', OBJ)], result=OBJ, requires=_pb_pre, ensures=_pb_post,
                 api=dict(API, PyObject_CallFunctionObjArgs=_call_proxy), callees={'SB_extends': EXT})
IMPLEMENTED = CProc('SB_implementedBy', [('self', OBJ), ('cls', OBJ)], result=OBJ, requires=_ib_pre, ensures=_ib_post,
                    api=dict(API, PyObject_CallFunctionObjArgs=_call_proxy), callees={'SB_extends': EXT})
PROCS = [EXT, CALL, PROVIDED, IMPLEMENTED]


# ---------------------------------------------------------------------- the Python twins, same specification
PFIELDS = {'_implied': DICT, '$has_implied': z3.ArraySort(Obj, B)}
reg = Registry(PFIELDS)
I = 'interface.py:'
reg.assumptions.append('Python twins: the argument is hashable (an unhashable one raises TypeError from the `in` test in both implementations, '
                       'C side verified); providedBy()/implementedBy() by the same oracles as the C side')


def _dyn_implied(ex, node, st, recv):
    """self._implied: AttributeError when the slot was never set"""
    has = z3.Select(st.heap.get('$has_implied'), recv.t)
    miss = st.clone()
    miss.assume(z3.Not(has))
    ex.raise_(miss, 'AttributeError')
    st.assume(has)
    return [(st, ex.read_field(st, recv.t, '_implied'))]


def pmember(c, S, x):
    return c.h0('$dict')[c.h0('_implied')[S]][x] != ABSENT


_has = lambda c, S: c.h0('$has_implied')[S]      # noqa: E731
reg.add(Proc(I + 'SpecificationBase.isOrExtends', [('self', OBJ), ('interface', OBJ)], source='interface.py:SpecificationBase.isOrExtends',
             result=BOOL, dynattr={'_implied': _dyn_implied},
             requires=lambda c: [('the-mapping-is-a-dictionary', z3.Implies(_has(c, c.a.self), z3.And(c.h('_implied')[c.a.self] != NONE, is_dict(c.h('_implied')[c.a.self]))))],
             raises={'AttributeError': (lambda c: z3.Not(_has(c, c.a.self)), None)},
             ensures=lambda c: [('answers-membership-in-the-implied-mapping', c.res == pmember(c, c.a.self, c.a.interface))]))
reg.add(Proc('declarations.py:providedBy', [('ob', OBJ)], result=OBJ, trusted=True, pure_fn=lambda c: PB(c.a.ob), note='C01 (oracle shared with the C side)'))
reg.add(Proc('declarations.py:implementedBy', [('cls', OBJ)], result=OBJ, trusted=True, pure_fn=lambda c: IMPL(c.a.cls), note='C01 (oracle shared with the C side)'))
for _name, _fn, _arg in (('providedBy', PB, 'ob'), ('implementedBy', IMPL, 'cls')):
    reg.add(Proc(I + 'SpecificationBase.' + _name, [('self', OBJ), (_arg, OBJ)], source='interface.py:SpecificationBase.' + _name,
                 result=BOOL, dynattr={'_implied': _dyn_implied},
                 calls={'providedBy': 'declarations.py:providedBy', 'implementedBy': 'declarations.py:implementedBy'},
                 requires=(lambda fn, arg: lambda c: [('the-mapping-is-a-dictionary', z3.Implies(_has(c, fn(c.a[arg])), z3.And(
                     c.h('_implied')[fn(c.a[arg])] != NONE, is_dict(c.h('_implied')[fn(c.a[arg])]))))])(_fn, _arg),
                 raises={'AttributeError': ((lambda fn, arg: lambda c: z3.Not(_has(c, fn(c.a[arg]))))(_fn, _arg), None)},
                 ensures=(lambda fn, arg: lambda c: [('answers-membership-of-self-in-the-implied-mapping-of-the-declaration',
                                                      c.res == pmember(c, fn(c.a[arg]), c.a.self))])(_fn, _arg)))
