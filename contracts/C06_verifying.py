"""Contracts for adapter.VerifyingBase (Python reference), the generation-checking lookup flavour (properties C05, C06).

snapshot(L)    L._verify_ro (the registry's resolution order without the registry itself, as of the last changed())
               and L._verify_generations (their generation counters at that time)
GenFresh(L)    every registry of the snapshot still has the recorded generation
_verify() leaves GenFresh established: it does nothing when the snapshot is current and otherwise runs changed(), which
empties the three caches and re-takes the snapshot from the registry's CURRENT resolution order."""
import z3

from zivc.core import *  # noqa
from zivc.spec import Loop, Proc, Registry
from zivc import symex

SEQI = SEQ(INT)
FIELDS = {'_verify_ro': SEQO, '_verify_generations': SEQI, '_registry': OBJ, 'ro': SEQO, '_generation': INT,
          '_cache': DICT, '_mcache': DICT, '_scache': DICT, '$cleared': z3.ArraySort(Obj, z3.IntSort())}
reg = Registry(FIELDS)
L = Length
A = 'adapter.py:'
Int = z3.IntSort()


def gens_of(c, s, upto, now=True):
    """[r._generation for r in s[:upto]] as a predicate on a sequence of ints g"""
    h = c.h if now else c.h0

    def pred(g):
        j = z3.Int('go_j')
        return z3.And(L(g) == upto, ForAllP([j], z3.Implies(z3.And(0 <= j, j < upto), g[j] == h('_generation')[s[j]]), []))
    return pred


def fresh(c, now=True):
    h = c.h if now else c.h0
    s = h('_verify_ro')[c.a.self]
    return gens_of(c, s, L(s), now)(h('_verify_generations')[c.a.self])


def cleared(c, now=True):
    return (c.h if now else c.h0)('$cleared')[c.a.self]


def _base_changed(ex, node, st, vals):
    """LookupBaseFallback.changed(self, x): the three caches are emptied (verified as LookupBase.changed under C09_registry)"""
    s = vals[0].t
    st.heap.set('$cleared', z3.Store(st.heap.get('$cleared'), s, z3.Select(st.heap.get('$cleared'), s) + 1))
    return [(st, VNONE)]


def _changed_post(c):
    s = c.a.self
    R = c.h0('_registry')[s]
    ro = c.h0('ro')[R]
    return [('caches-emptied-once', cleared(c) == cleared(c, False) + 1),
            ('snapshot-is-the-current-resolution-order-without-the-registry-itself',
             SeqEq(c.h('_verify_ro')[s], SubSeq(ro, 1, z3.If(L(ro) - 1 < 0, 0, L(ro) - 1)))),
            ('generations-recorded-for-exactly-that-order', fresh(c)),
            ('registries-untouched', z3.And(c.h('ro') == c.h0('ro'), c.h('_generation') == c.h0('_generation')))]


reg.add(Proc(A + 'VerifyingBase.changed', [('self', OBJ), ('originally_changed', OBJ)], source='adapter.py:VerifyingBase.changed',
             opaque_calls={'LookupBaseFallback.changed': _base_changed},
             modifies=['_verify_ro', '_verify_generations', '$cleared'],
             requires=lambda c: [('a-resolution-order-starts-with-the-registry-itself', L(c.h('ro')[c.h('_registry')[c.a.self]]) >= 1)],
             ensures=_changed_post))


def _verify_post(c):
    s = c.a.self
    was = fresh(c, False)
    return [('snapshot-is-current-afterwards', fresh(c)),
            ('a-current-snapshot-means-nothing-happens', z3.Implies(was, z3.And(
                cleared(c) == cleared(c, False), c.h('_verify_ro') == c.h0('_verify_ro'), c.h('_verify_generations') == c.h0('_verify_generations')))),
            ('a-stale-snapshot-empties-the-caches-and-is-re-taken', z3.Implies(z3.Not(was), z3.And(
                cleared(c) == cleared(c, False) + 1,
                SeqEq(c.h('_verify_ro')[s], SubSeq(c.h0('ro')[c.h0('_registry')[s]], 1, z3.If(
                    L(c.h0('ro')[c.h0('_registry')[s]]) - 1 < 0, 0, L(c.h0('ro')[c.h0('_registry')[s]]) - 1)))))),
            ('registries-untouched', z3.And(c.h('ro') == c.h0('ro'), c.h('_generation') == c.h0('_generation')))]


reg.add(Proc(A + 'VerifyingBase._verify', [('self', OBJ)], source='adapter.py:VerifyingBase._verify',
             calls={'self.changed': A + 'VerifyingBase.changed'},
             modifies=['_verify_ro', '_verify_generations', '$cleared'],
             requires=lambda c: [('snapshot-lists-have-equal-length', L(c.h('_verify_generations')[c.a.self]) == L(c.h('_verify_ro')[c.a.self])),
                                 ('a-resolution-order-starts-with-the-registry-itself', L(c.h('ro')[c.h('_registry')[c.a.self]]) >= 1)],
             ensures=_verify_post))


# the three overrides: verify the snapshot first, then do what the invalidating flavour does
BASE = {n: z3.Function('LookupBaseFallback_' + n, Obj, Obj, Obj, Obj) for n in ('_getcache', 'lookupAll', 'subscriptions')}


def _delegate(n):
    def handler(ex, node, st, vals):
        return [(st, vobj(BASE[n](vals[0].t, box(vals[1]), box(vals[2]))))]
    return handler


for n, params in (('_getcache', [('provided', OBJ), ('name', OBJ)]), ('lookupAll', [('required', OBJ), ('provided', OBJ)]),
                  ('subscriptions', [('required', OBJ), ('provided', OBJ)])):
    reg.add(Proc(A + 'VerifyingBase.' + n, [('self', OBJ)] + params, source='adapter.py:VerifyingBase.' + n, result=OBJ,
                 calls={'self._verify': A + 'VerifyingBase._verify'}, opaque_calls={'LookupBaseFallback.' + n: _delegate(n)},
                 modifies=['_verify_ro', '_verify_generations', '$cleared'],
                 requires=lambda c: [('snapshot-lists-have-equal-length', L(c.h('_verify_generations')[c.a.self]) == L(c.h('_verify_ro')[c.a.self])),
                                     ('a-resolution-order-starts-with-the-registry-itself', L(c.h('ro')[c.h('_registry')[c.a.self]]) >= 1)],
                 ensures=(lambda n, params: lambda c: [
                     ('the-generation-snapshot-is-verified-first', fresh(c)),
                     ('a-stale-snapshot-has-emptied-the-caches', z3.Implies(z3.Not(fresh(c, False)), cleared(c) == cleared(c, False) + 1)),
                     ('then-the-base-method-answers', c.res == BASE[n](c.a.self, c.a[params[0][0]], c.a[params[1][0]]))])(n, params)))
