"""Contracts for the C twins of the declaration queries (properties C01 and C10): getObjectSpecification, providedBy and
implementedBy of _zope_interface_coptimizations.c, verified from the clang AST of the real file.

getObjectSpecification and providedBy are verified against the SAME postconditions as the Python functions of the same
name (contracts/C01_decl.py: _gos_post, _pb_post), over the same attribute-protocol oracles (an attribute is present, is
missing with AttributeError, or its access raises something else).  The C implementedBy is a fast path in front of the Python
implementedBy (the "fallback"): it is verified to answer
    * a super proxy, a class whose dictionary cannot be read, an old-style declaration: what the fallback answers;
    * a class whose own dictionary holds an Implements instance under '__implemented__': that very object;
    * otherwise the entry of BuiltinImplementationSpecifications for the class if there is one, else what the fallback answers.
That the Python implementedBy itself answers the same on the two fast paths is part of its bounded check (C01, C19)."""
import z3

from zivc.core import *  # noqa
from zivc.spec import Ctx
from zivc import cfun
from zivc.cfun import CProc, C_NULL, fail
from contracts import C01_decl as P

B = z3.BoolSort()
Int = z3.IntSort()
FIELDS = {'__provides__': OBJ, '__providedBy__': OBJ, '__class__': OBJ, '__dict__': OBJ, 'tp_dict': OBJ,
          'specification_base_class': OBJ, 'empty': OBJ, 'implements_class': OBJ, 'builtin_impl_specs': OBJ, 'fallback': OBJ}
ASSUMPTIONS = ['CPython API models of contracts/C01_c.py and zivc/cfun.py (A2): attribute access by the presence / AttributeError / '
               'other-error oracles of contracts/C01_decl.py; PyObject_IsInstance and PyObject_TypeCheck are the subtype test on the '
               'type of the object (isinstance() that raises is outside the domain, as for the Python twin); PyObject_GetItem on a '
               'class dictionary finds the entry or raises KeyError; PyDict_GetItem answers NULL for a missing or unhashable key; the '
               'module state is loaded (zope.interface.declarations importable) or the call fails',
               'implementedBy as called by getObjectSpecification/providedBy and the Python fallback called by the C implementedBy are '
               'oracles (the same IMPLEMENTEDBY function the Python contracts use)']
has_provides, has_pb, has_class, has_extends = P.has_provides, P.has_pb, P.has_class, P.has_extends
other = P.attr_raises_other
SPECBASE, SUPERCLS, IMPLEMENTEDBY, EMPTYDECL = P.SPECBASE, P.SUPERCLS, P.IMPLEMENTEDBY, P.EMPTYDECL
IMPLEMENTS = classconst('Implements')
TYPE = classconst('type')
REC = z3.Const('zic_module_state_record', Obj)
BUILTINS = z3.Const('BuiltinImplementationSpecifications', Obj)
FALLBACK = z3.Const('implementedByFallback', Obj)
state_fails = z3.Function('module_state_unavailable', Obj, B)
impl_fails = z3.Function('implementedBy_fails', Obj, B)
has_dict = z3.Function('hasattr___dict__', Obj, B)
STR = {n: z3.Const('str_' + n, Obj) for n in ('__provides__', '__class__', '__providedBy__', '__dict__', '__implemented__')}
EXC_KEY_ERROR = classconst('KeyError')
AXIOMS = [a for _, a in P.reg.axioms] + [z3.Distinct(*(list(STR.values()) + [C_NULL])), REC != C_NULL, BUILTINS != C_NULL, FALLBACK != C_NULL,
                                          SPECBASE != C_NULL, IMPLEMENTS != C_NULL, EMPTYDECL != C_NULL, SUPERCLS != C_NULL, TYPE != C_NULL,
                                          z3.Distinct(EXC_KEY_ERROR, cfun.EXC_ATTRIBUTE_ERROR, cfun.EXC_TYPE_ERROR, cfun.EXC_OTHER, C_NULL),
                                          z3.Not(cfun.exc_matches(EXC_KEY_ERROR, cfun.EXC_ATTRIBUTE_ERROR))]
GLOBALS = {'str__provides__': vobj(STR['__provides__']), 'str__class__': vobj(STR['__class__']), 'str__providedBy__': vobj(STR['__providedBy__']),
           'str__dict__': vobj(STR['__dict__']), 'str__implemented__': vobj(STR['__implemented__'])}
cfun.ADDRESS_OF.setdefault('PySuper_Type', vobj(SUPERCLS))
cfun.ADDRESS_OF.setdefault('PyType_Type', vobj(TYPE))
TYPE_SUBCLASS_FLAG = 1 << 31
type_feature = z3.Function('PyType_HasFeature', Obj, Int, B)
_o = z3.Const('c1_o', Obj)
AXIOMS.append(z3.Not(subtype(typeof(NONE), SPECBASE)))          # None is not a specification
AXIOMS.append(z3.ForAll([_o], type_feature(typeof(_o), TYPE_SUBCLASS_FLAG) == subtype(typeof(_o), TYPE), patterns=[type_feature(typeof(_o), TYPE_SUBCLASS_FLAG)]))


def rec_ok(c):
    h = c.h
    return ('the-module-state-holds-the-declarations-objects', z3.And(
        h('specification_base_class')[REC] == SPECBASE, h('empty')[REC] == EMPTYDECL, h('implements_class')[REC] == IMPLEMENTS,
        h('builtin_impl_specs')[REC] == BUILTINS, h('fallback')[REC] == FALLBACK))


# ---------------------------------------------------------------------- API models
ATTRS = {'__provides__': (has_provides, 1), '__providedBy__': (has_pb, 2), '__class__': (has_class, 3)}


def _getattr(ex, st, vs):
    o, nm = vs[0].t, vs[1].t
    name = next((n for n, t in STR.items() if t.get_id() == nm.get_id()), None)
    if name == '__dict__':
        miss = st.clone()
        miss.assume(z3.Not(has_dict(o)))
        fail(miss, cfun.EXC_ATTRIBUTE_ERROR)
        st.assume(has_dict(o))
        v = z3.Select(st.heap.get('__dict__'), o)
        st.assume(v != C_NULL)
        return [(miss, vobj(C_NULL)), (st, vobj(v))]
    if name not in ATTRS:
        raise cfun.CUnsupported('PyObject_GetAttr of %s' % nm)
    has, idx = ATTRS[name]
    a = st.clone()
    a.assume(z3.And(z3.Not(has(o)), z3.Not(other(o, idx))))
    fail(a, cfun.EXC_ATTRIBUTE_ERROR)
    b = st.clone()
    b.assume(z3.And(z3.Not(has(o)), other(o, idx)))
    fail(b, cfun.EXC_OTHER)
    v = z3.Select(st.heap.get(name), o)
    st.assume(z3.And(has(o), v != C_NULL))
    return [(a, vobj(C_NULL)), (b, vobj(C_NULL)), (st, vobj(v))]


def _isinstance(ex, st, vs):
    return [(st, vint(z3.If(subtype(typeof(vs[0].t), vs[1].t), 1, 0)))]


def _hasattr_string(ex, st, vs):
    if getattr(vs[1], 'lit', '').strip('"') != 'extends':
        raise cfun.CUnsupported('PyObject_HasAttrString(%r)' % getattr(vs[1], 'lit', None))
    return [(st, vint(z3.If(has_extends(vs[0].t), 1, 0)))]


def _load_state(ex, st, vs):
    bad = st.clone()
    bad.assume(state_fails(vs[0].t))
    fail(bad, cfun.EXC_OTHER)
    st.assume(z3.Not(state_fails(vs[0].t)))
    return [(bad, vobj(C_NULL)), (st, vobj(REC))]


def _implementedBy_oracle(ex, st, vs):
    x = vs[1].t
    bad = st.clone()
    bad.assume(impl_fails(x))
    fail(bad, cfun.EXC_OTHER)
    st.assume(z3.And(z3.Not(impl_fails(x)), IMPLEMENTEDBY(x) != C_NULL))
    return [(bad, vobj(C_NULL)), (st, vobj(IMPLEMENTEDBY(x)))]


def _call_fallback(ex, st, vs):
    if vs[0].t.get_id() != z3.Select(st.heap.get('fallback'), REC).get_id() and vs[0].t.get_id() != FALLBACK.get_id():
        pass
    x = vs[1].t
    bad = st.clone()
    bad.assume(impl_fails(x))
    fail(bad, cfun.EXC_OTHER)
    st.assume(z3.And(z3.Not(impl_fails(x)), IMPLEMENTEDBY(x) != C_NULL))
    return [(bad, vobj(C_NULL)), (st, vobj(IMPLEMENTEDBY(x)))]


def _getitem(ex, st, vs):
    """PyObject_GetItem(dict, '__implemented__')"""
    d, k = vs[0].t, vs[1].t
    v = z3.Select(z3.Select(st.heap.get('$dict'), d), k)
    miss = st.clone()
    miss.assume(v == ABSENT)
    fail(miss, EXC_KEY_ERROR)
    st.assume(z3.And(v != ABSENT, v != C_NULL))
    return [(miss, vobj(C_NULL)), (st, vobj(v))]


def _dict_getitem(ex, st, vs):
    d, k = vs[0].t, vs[1].t
    v = z3.Select(z3.Select(st.heap.get('$dict'), d), k)
    st.assume(v != C_NULL)
    sw = st.clone()
    sw.assume(cfun.hash_fails(k))
    st.assume(z3.Not(cfun.hash_fails(k)))
    return [(sw, vobj(C_NULL)), (st, vobj(z3.If(v == ABSENT, C_NULL, v)))]


def _has_feature(ex, st, vs):
    flag = z3.simplify(ex.as_int(vs[1]))
    return [(st, vbool(type_feature(vs[0].t, flag)))]


API = {'PyObject_GetAttr': _getattr, 'PyObject_IsInstance': _isinstance, 'PyObject_HasAttrString': _hasattr_string,
       '_zic_state_load_declarations': _load_state, '_zic_state': lambda ex, st, vs: [(st, vobj(REC))], 'PyModule_GetState': lambda ex, st, vs: [(st, vobj(REC))],
       'PyObject_GetItem': _getitem, 'PyDict_GetItem': _dict_getitem, 'PyType_HasFeature': _has_feature,
       'PyObject_CallFunctionObjArgs': _call_fallback}
QUERY_API = dict(API, implementedBy=_implementedBy_oracle)


def pyview(c, **args):
    a = {k: V(OBJ, t) for k, t in args.items()}
    v = Ctx(a, c._heap, c._heap0, res=c.res)
    v.exc, v.exc0 = c.exc, c.exc0
    return v


def no_other(ob, *idx):
    return z3.And(*[z3.Not(other(ob, i)) for i in idx])


def common_post(c):
    return [('NULL-iff-an-exception-is-set', (c.res == C_NULL) == (c.exc != C_NULL))]


# ---------------------------------------------------------------------- getObjectSpecification(module, ob)
def _gos_pre(c):
    return [('arguments-are-objects', z3.And(c.a.ob != C_NULL, c.a.module != C_NULL)), rec_ok(c),
            ('attribute-access-raises-only-AttributeError', no_other(c.a.ob, 1, 3)),
            ('a-present-declaration-is-an-object', z3.Implies(has_provides(c.a.ob), c.h('__provides__')[c.a.ob] != C_NULL))]


def _gos_post(c):
    v = pyview(c, ob=c.a.ob)
    ob = c.a.ob
    p = c.h('__provides__')[ob]
    usable = z3.And(has_provides(ob), p != NONE, subtype(typeof(p), SPECBASE))
    fails = z3.Or(state_fails(c.a.module), z3.And(z3.Not(usable), has_class(ob), impl_fails(c.h('__class__')[ob])))
    return common_post(c) + [(lbl, z3.Implies(c.exc == C_NULL, f)) for lbl, f in P._gos_post(v)] + [
        ('fails-only-when-the-module-state-or-implementedBy-fails', (c.exc != C_NULL) == fails)]


GOS = CProc('getObjectSpecification', [('module', OBJ), ('ob', OBJ)], result=OBJ, requires=_gos_pre, ensures=_gos_post,
            api=QUERY_API, globals=GLOBALS)


# ---------------------------------------------------------------------- providedBy(module, ob)
GOSR = z3.Function('getObjectSpecification_result', Obj, Obj)
gos_fails = z3.Function('getObjectSpecification_fails', Obj, B)


def _gos_oracle(ex, st, vs):
    x = vs[1].t
    bad = st.clone()
    bad.assume(gos_fails(x))
    fail(bad, cfun.EXC_OTHER)
    st.assume(z3.And(z3.Not(gos_fails(x)), GOSR(x) != C_NULL))
    return [(bad, vobj(C_NULL)), (st, vobj(GOSR(x)))]


def _pb_pre(c):
    ob = c.a.ob
    return [('arguments-are-objects', z3.And(ob != C_NULL, c.a.module != C_NULL)), rec_ok(c),
            ('the-object-has-a-class', has_class(ob)),
            ('attribute-access-raises-only-AttributeError', z3.And(
                no_other(ob, 1, 2, 3), no_other(c.h('__providedBy__')[ob], 4), z3.Implies(has_class(ob), no_other(c.h('__class__')[ob], 1))))]


def _pb_post(c):
    v = pyview(c, ob=c.a.ob)
    return common_post(c) + [(lbl, z3.Implies(c.exc == C_NULL, f)) for lbl, f in P._pb_post(v)]


PROVIDEDBY = CProc('providedBy', [('module', OBJ), ('ob', OBJ)], result=OBJ, requires=_pb_pre, ensures=_pb_post,
                   api=dict(QUERY_API, getObjectSpecification=_gos_oracle), globals=GLOBALS)


# ---------------------------------------------------------------------- implementedBy(module, cls): fast path in front of the fallback
def _impl_pre(c):
    cls = c.a.cls
    return [('arguments-are-objects', z3.And(cls != C_NULL, c.a.module != C_NULL)), rec_ok(c),
            ('a-type-carries-its-dictionary', z3.Implies(subtype(typeof(cls), TYPE), z3.And(c.h('tp_dict')[cls] != C_NULL, c.h('tp_dict')[cls] != NONE)))]


def _impl_post(c):
    cls = c.a.cls
    M = c.h0('$dict')
    is_super = subtype(typeof(cls), SUPERCLS)
    is_type = subtype(typeof(cls), TYPE)
    d = z3.If(is_type, c.h0('tp_dict')[cls], c.h0('__dict__')[cls])
    readable = z3.Or(is_type, has_dict(cls))
    entry = M[d][STR['__implemented__']]
    own = z3.And(readable, entry != ABSENT, subtype(typeof(entry), IMPLEMENTS))
    builtin = M[BUILTINS][cls]
    use_builtin = z3.And(readable, entry == ABSENT, builtin != ABSENT, z3.Not(cfun.hash_fails(cls)))
    fallback = z3.Not(z3.Or(z3.And(z3.Not(is_super), own), z3.And(z3.Not(is_super), use_builtin)))
    ok_state = z3.Not(state_fails(c.a.module))
    return common_post(c) + [
        ('an-Implements-in-the-own-class-dictionary-is-the-answer', z3.Implies(z3.And(ok_state, z3.Not(is_super), own), z3.And(c.res == entry, c.exc == C_NULL))),
        ('otherwise-a-registered-builtin-specification', z3.Implies(z3.And(ok_state, z3.Not(is_super), use_builtin), z3.And(c.res == builtin, c.exc == C_NULL))),
        ('everything-else-is-answered-by-the-Python-fallback', z3.Implies(z3.And(ok_state, fallback, z3.Not(impl_fails(cls))), z3.And(
            c.res == IMPLEMENTEDBY(cls), c.exc == C_NULL))),
        ('an-exception-of-the-fallback-propagates', z3.Implies(z3.And(ok_state, fallback, impl_fails(cls)), c.res == C_NULL))]


IMPLEMENTEDBY_C = CProc('implementedBy', [('module', OBJ), ('cls', OBJ)], result=OBJ, requires=_impl_pre, ensures=_impl_post,
                        api=API, globals=GLOBALS)
PROCS = [GOS, PROVIDEDBY, IMPLEMENTEDBY_C]


# ---------------------------------------------------------------------- the two descriptors
FIELDS.update({'_cls': OBJ, '_implements': OBJ})
MODULE = z3.Const('zic_module', Obj)
AXIOMS.append(MODULE != C_NULL)


def _osd_view(c):
    return pyview(c, self=c.a.self, inst=z3.If(c.a.inst == C_NULL, NONE, c.a.inst), cls=c.a.cls)


def _osd_pre(c):
    return [('arguments-are-objects', z3.And(c.a.self != C_NULL, c.a.cls != C_NULL)), ('an-instance-is-never-None-itself', c.a.inst != NONE),
            ('a-present-declaration-is-an-object', z3.Implies(z3.And(c.a.inst != C_NULL, has_provides(c.a.inst)), c.h('__provides__')[c.a.inst] != C_NULL))]


def _osd_post(c):
    v = _osd_view(c)
    inst = c.a.inst
    return common_post(c) + [(lbl, z3.Implies(c.exc == C_NULL, f)) for lbl, f in P._osd_post(v)] + [
        ('an-error-other-than-AttributeError-while-fetching-__provides__-propagates', z3.Implies(
            z3.And(inst != C_NULL, z3.Not(has_provides(inst)), other(inst, 1)), z3.And(c.res == C_NULL, c.exc != C_NULL))),
        ('no-exception-when-the-instance-carries-a-declaration', z3.Implies(z3.And(inst != C_NULL, has_provides(inst)), c.exc == C_NULL))]


OSD = CProc('OSD_descr_get', [('self', OBJ), ('inst', OBJ), ('cls', OBJ)], result=OBJ, requires=_osd_pre, ensures=_osd_post,
            api=dict(QUERY_API, getObjectSpecification=_gos_oracle, _get_module=lambda ex, st, vs: [(st, vobj(MODULE))]), globals=GLOBALS)


def _cpb_post(c):
    s, inst, cls = c.a.self, c.a.inst, c.a.cls
    owner = c.h0('_cls')[s]
    impl_ = c.h0('_implements')[s]
    attr_error = z3.And(c.res == C_NULL, c.exc == cfun.EXC_ATTRIBUTE_ERROR)
    return common_post(c) + [
        ('an-unset-class-slot-is-an-AttributeError', z3.Implies(owner == C_NULL, attr_error)),
        ('another-class-does-not-see-the-declaration', z3.Implies(z3.And(owner != C_NULL, cls != owner), attr_error)),
        ('the-class-itself-sees-its-own-declaration', z3.Implies(z3.And(owner != C_NULL, cls == owner, inst == C_NULL), z3.And(c.res == s, c.exc == C_NULL))),
        ('its-instances-see-the-class-specification-not-the-class-declaration', z3.Implies(
            z3.And(owner != C_NULL, cls == owner, inst != C_NULL, impl_ != C_NULL), z3.And(c.res == impl_, c.exc == C_NULL))),
        ('an-unset-specification-slot-is-an-AttributeError', z3.Implies(z3.And(owner != C_NULL, cls == owner, inst != C_NULL, impl_ == C_NULL), attr_error))]


CPB = CProc('CPB_descr_get', [('self', OBJ), ('inst', OBJ), ('cls', OBJ)], result=OBJ,
            requires=lambda c: [('arguments-are-objects', z3.And(c.a.self != C_NULL, c.a.cls != C_NULL))], ensures=_cpb_post, api=API, globals=GLOBALS)
PROCS += [OSD, CPB]
