"""Contracts for the Python lookup caches of adapter.LookupBase (properties C05 and C08).

The cache of a lookup object L is a two-level tree of dictionaries under L._cache:
    node1(p)      = L._cache[p]                  entries for the unnamed lookups of provided p, keyed by the required key,
                                                 and the named sub-caches, keyed by the (non-empty) name
    node2(p, n)   = L._cache[p][n]               entries for name n
The required key of a lookup is the specification itself for one required specification, the tuple otherwise.

U(e, p, n, k)  what the uncached search answers for key k while the registry is in its e-th state (ghost epoch of the lookup
object: every invalidation -- changed() -- advances it and empties the three top dictionaries).

CacheSound(e): every entry of every node equals U(e, ...).   Transparency (C05) is the invariant "CacheSound(current epoch)":
it is a precondition and a postcondition of every cache-filling method, also when the call-out to the uncached search
re-enters and invalidates (then the node fetched before the call-out is no longer in the tree and the stale answer lands
in an orphan).  C08: the entry points return the cached value or the value lookup() computes, None becomes the default by
identity, non-string names raise ValueError before anything is touched."""
import z3

from zivc.core import *  # noqa
from zivc.spec import Loop, Proc, Registry
from zivc import symex

FIELDS = {'_cache': DICT, '_mcache': DICT, '_scache': DICT, '$epoch': z3.ArraySort(Obj, z3.IntSort()),
          '$getcache_calls': z3.ArraySort(Obj, z3.IntSort())}
reg = Registry(FIELDS)
L = Length
A = 'adapter.py:'
Int = z3.IntSort()
B = z3.BoolSort()
U = z3.Function('uncached_answer', Int, Obj, Obj, Obj, Obj)          # (epoch, provided, name, required key) -> value (None: no adapter)
NOTIN = z3.Const('_not_in_mapping', Obj)
reg.axiom('sentinel-is-an-object', z3.And(NOTIN != NONE, NOTIN != ABSENT))
_e = z3.Int('u_e')
_p, _n, _k = z3.Consts('u_p u_n u_k', Obj)
reg.axiom('answers-are-values', z3.ForAll([_e, _p, _n, _k], z3.And(U(_e, _p, _n, _k) != ABSENT, U(_e, _p, _n, _k) != NOTIN),
                                          patterns=[U(_e, _p, _n, _k)]))
_o = z3.Const('nm_o', Obj)
reg.axiom('a-str-object-is-its-own-boxed-value', z3.ForAll([_o], z3.Implies(is_name(_o), _o == box_name(unbox_name(_o))), patterns=[is_name(_o)]))
reg.axiom('tuples-are-not-names', z3.ForAll([_o], z3.Not(z3.And(is_name(_o), is_seq(_o))), patterns=[is_name(_o), is_seq(_o)]))
reg.assumptions.append('the uncached search never answers with the private sentinel _not_in_mapping; names are str objects; required '
                       'specifications are not tuples (a 1-tuple of required and its single element share a cache key by design)')


def top(c, now=True):
    return (c.h if now else c.h0)('_cache')[c.a.self]


def M(c, now=True):
    return (c.h if now else c.h0)('$dict')


def node1(c, p, now=True):
    return M(c, now)[top(c, now)][p]


def named(n):
    """the name selects a sub-cache: a non-empty str"""
    return z3.And(is_name(n), truthy(n))


def node2(c, p, n, now=True):
    return M(c, now)[node1(c, p, now)][n]


def is_node(c, d, now=True):
    h = c.h if now else c.h0
    return z3.And(d != ABSENT, d != NONE, is_dict(d), h('$alloc')[d])


kind = z3.Function('cache_node_kind', Obj, Int)        # ghost tags of the dictionaries that make up the caches (chosen at allocation)
ownp = z3.Function('cache_node_provided', Obj, Obj)
ownn = z3.Function('cache_node_name', Obj, Obj)
K1, K2, KM, KS, T1, TM, TS = 1, 2, 3, 4, 10, 11, 12


def mnode(c, fld, p, now=True):
    h = c.h if now else c.h0
    return M(c, now)[h(fld)[c.a.self]][p]


def tree_wf(c, now=True):
    """the caches are trees of dictionaries: every node is an allocated dictionary carrying the ghost tags of its place
    (hence nodes are pairwise distinct and none of them is a top dictionary)"""
    h = c.h if now else c.h0
    p, n = z3.Consts('tw_p tw_n', Obj)
    tops = [(top(c, now), T1), (h('_mcache')[c.a.self], TM), (h('_scache')[c.a.self], TS)]
    n1 = node1(c, p, now)
    m2 = node2(c, p, n, now)
    mm = mnode(c, '_mcache', p, now)
    ss = mnode(c, '_scache', p, now)
    return [
        ('tops-exist', z3.And(*[z3.And(x != NONE, h('$alloc')[x], is_dict(x), kind(x) == k) for x, k in tops])),
        ('level-1-nodes', ForAllP([p], z3.Implies(n1 != ABSENT, z3.And(is_node(c, n1, now), kind(n1) == K1, ownp(n1) == p)), [n1])),
        ('level-2-nodes', ForAllP([p, n], z3.Implies(z3.And(n1 != ABSENT, named(n), m2 != ABSENT),
                                                     z3.And(is_node(c, m2, now), kind(m2) == K2, ownp(m2) == p, ownn(m2) == n)), [m2])),
        ('lookupAll-nodes', ForAllP([p], z3.Implies(mm != ABSENT, z3.And(is_node(c, mm, now), kind(mm) == KM, ownp(mm) == p)), [mm])),
        ('subscriptions-nodes', ForAllP([p], z3.Implies(ss != ABSENT, z3.And(is_node(c, ss, now), kind(ss) == KS, ownp(ss) == p)), [ss])),
    ]


def sound(c, e, now=True):
    """CacheSound(e)"""
    p, n, k = z3.Consts('cs_p cs_n cs_k', Obj)
    n1 = node1(c, p, now)
    m2 = node2(c, p, n, now)
    v1 = M(c, now)[n1][k]
    v2 = M(c, now)[m2][k]
    return z3.And(
        ForAllP([p, k], z3.Implies(z3.And(n1 != ABSENT, z3.Not(named(k)), v1 != ABSENT), v1 == U(e, p, box_name(EMPTYNAME), k)), [v1]),
        ForAllP([p, n, k], z3.Implies(z3.And(n1 != ABSENT, named(n), m2 != ABSENT, v2 != ABSENT), v2 == U(e, p, n, k)), [v2]))


def epoch(c, now=True):
    return (c.h if now else c.h0)('$epoch')[c.a.self]


# ------------------------------------------------------------------ _getcache
def _gc_post(c):
    p, n = c.a.provided, c.a.name
    o, k = z3.Consts('gc_o gc_k', Obj)
    res = c.res
    expected = z3.If(truthy(n), node2(c, p, n), node1(c, p))
    old1 = node1(c, p, False)
    return [('returns-the-node-of-(provided,name)', z3.And(res == expected, is_node(c, res))),
            ('an-existing-node-is-returned-as-it-is', z3.Implies(
                z3.And(old1 != ABSENT, z3.Or(z3.Not(truthy(n)), node2(c, p, n, False) != ABSENT)),
                z3.And(res == z3.If(truthy(n), node2(c, p, n, False), old1), M(c) == M(c, False)))),
            ('a-new-node-is-empty', z3.Implies(z3.Not(c.h0('$alloc')[res]), M(c)[res] == EMPTYMAP)),
            ('a-node-that-existed-before-is-the-old-node-of-(provided,name)', z3.Implies(c.h0('$alloc')[res], z3.And(
                old1 != ABSENT, z3.Or(z3.Not(truthy(n)), node2(c, p, n, False) != ABSENT),
                res == z3.If(truthy(n), node2(c, p, n, False), old1), M(c) == M(c, False)))),
            ('dictionaries-that-existed-keep-their-entries-except-for-the-new-links', ForAllP([o, k], z3.Implies(
                z3.And(c.h0('$alloc')[o], M(c)[o][k] != M(c, False)[o][k]),
                z3.And(M(c, False)[o][k] == ABSENT, z3.Not(c.h0('$alloc')[M(c)[o][k]]),
                       z3.Or(z3.And(o == top(c), k == p), z3.And(o == node1(c, p), k == n, truthy(n))))), [M(c)[o][k]])),
            ('new-dictionaries-hold-nothing-but-new-links', ForAllP([o, k], z3.Implies(
                z3.And(z3.Not(c.h0('$alloc')[o]), c.h('$alloc')[o], M(c)[o][k] != ABSENT),
                z3.And(o == node1(c, p), k == n, truthy(n), z3.Not(c.h0('$alloc')[M(c)[o][k]]))), [M(c)[o][k]])),
            ('allocation-only-grows', ForAllP([o], z3.Implies(c.h0('$alloc')[o], c.h('$alloc')[o]), [c.h('$alloc')[o]])),
            ('counted', ForAllP([o], c.h('$getcache_calls')[o] == c.h0('$getcache_calls')[o] + z3.If(o == c.a.self, 1, 0), [c.h('$getcache_calls')[o]])),
            ] + [('tree:' + lbl, f) for lbl, f in tree_wf(c)] + [('cache-stays-sound', sound(c, epoch(c))), ('multi-caches-stay-sound', sound_multi(c, epoch(c)))]


def gc_calls(c, now=True):
    """ghost: how often self._getcache ran.  _getcache is the virtual method through which VerifyingBase (which overrides it
    to verify the generation snapshot first) sees every access of lookup/lookup1/adapter_hook/queryAdapter to the caches; an
    entry point that reads self._cache directly bypasses that check."""
    return (c.h if now else c.h0)('$getcache_calls')[c.a.self]


def through_getcache(c):
    return ('the-caches-are-reached-through-the-virtual-_getcache', gc_calls(c) >= gc_calls(c, False) + 1)


def _count_getcache(ex, st):
    s = ex.args['self'].t
    g = st.heap.get('$getcache_calls')
    st.heap.set('$getcache_calls', z3.Store(g, s, z3.Select(g, s) + 1))


def _gc_pre(c):
    return tree_wf(c) + [('cache-sound', sound(c, epoch(c))), ('multi-caches-sound', sound_multi(c, epoch(c))), ('name-is-a-str', is_name(c.a.name)),
                         ('provided-is-no-name', z3.Not(is_name(c.a.provided)))]


def _tag_getcache(ex, st, ref, ordinal):
    p, n = ex.args['provided'].t, ex.args['name'].t
    if ordinal == 0:
        st.assume(z3.And(kind(ref) == K1, ownp(ref) == p))
    else:
        st.assume(z3.And(kind(ref) == K2, ownp(ref) == p, ownn(ref) == n))


def _tag_multi(k):
    def h(ex, st, ref, ordinal):
        st.assume(z3.And(kind(ref) == k, ownp(ref) == ex.args['provided'].t))
    return h


reg.add(Proc(A + 'LookupBase._getcache', [('self', OBJ), ('provided', OBJ), ('name', OBJ)], source='adapter.py:LookupBase._getcache',
             result=DICT, locals={'cache': DICT, 'c': DICT, '$objdict': True, '$on_alloc': _tag_getcache}, modifies=['$dict', '$alloc', '$getcache_calls'],
             requires=_gc_pre, ensures=_gc_post, on_entry=_count_getcache))


# ------------------------------------------------------------------ the uncached search as seen by the cache layer (virtual, may re-enter)
def keyof(req):
    return z3.If(L(req) == 1, req[0], box_seq(req))


def all_nodes_fresh(c, alloc_before):
    """after an invalidation every node of the tree was allocated afterwards (changed() empties the top dictionaries)"""
    p, n = z3.Consts('nf_p nf_n', Obj)
    n1 = node1(c, p)
    m2 = node2(c, p, n)
    mm = mnode(c, '_mcache', p)
    ss = mnode(c, '_scache', p)
    return z3.And(ForAllP([p], z3.Implies(n1 != ABSENT, z3.Not(alloc_before[n1])), [n1]),
                  ForAllP([p, n], z3.Implies(z3.And(n1 != ABSENT, named(n), m2 != ABSENT), z3.Not(alloc_before[m2])), [m2]),
                  ForAllP([p], z3.Implies(mm != ABSENT, z3.Not(alloc_before[mm])), [mm]),
                  ForAllP([p], z3.Implies(ss != ABSENT, z3.Not(alloc_before[ss])), [ss]))


def _uncached_post(which):
    def post(c):
        o = z3.Const('up_o', Obj)
        e0, e1 = epoch(c, False), epoch(c)
        nm = c.a.name if which == 'lookup' else box_name(EMPTYNAME)
        ans = {'lookup': U, 'lookupAll': UA, 'subscriptions': US}[which]
        key = keyof(c.a.required) if which == 'lookup' else box_seq(c.a.required)
        return [e1 >= e0,
                z3.Implies(e1 == e0, z3.And(M(c) == M(c, False), c.res == (ans(e0, c.a.provided, nm, key) if which == 'lookup' else ans(e0, c.a.provided, key)))),
                z3.Implies(e1 > e0, z3.And(all_nodes_fresh(c, c.h0('$alloc')), *[f for _, f in tree_wf(c)])),
                z3.Implies(e1 > e0, sound(c, e1)), z3.Implies(e1 > e0, sound_multi(c, e1)),
                ForAllP([o], z3.Implies(c.h0('$alloc')[o], c.h('$alloc')[o]), [c.h('$alloc')[o]]),
                c.res != ABSENT, c.res != NOTIN,
                z3.And(c.h('_cache') == c.h0('_cache'), c.h('_mcache') == c.h0('_mcache'), c.h('_scache') == c.h0('_scache')),
 ForAllP([o], z3.Implies(o != c.a.self, c.h('$epoch')[o] == c.h0('$epoch')[o]), [c.h('$epoch')[o]]),
                ForAllP([o], c.h('$getcache_calls')[o] >= c.h0('$getcache_calls')[o], [c.h('$getcache_calls')[o]])]
    return post


UA = z3.Function('uncached_lookupAll', Int, Obj, Obj, Obj)            # (epoch, provided, required tuple) -> result
US = z3.Function('uncached_subscriptions', Int, Obj, Obj, Obj)
reg.axiom('multi-answers-are-values', z3.ForAll([_e, _p, _k], z3.And(UA(_e, _p, _k) != ABSENT, UA(_e, _p, _k) != NOTIN, US(_e, _p, _k) != ABSENT,
                                                                     US(_e, _p, _k) != NOTIN), patterns=[UA(_e, _p, _k), US(_e, _p, _k)]))


def sound_multi(c, e, now=True):
    """the lookupAll / subscriptions caches: _mcache[p][required] == UA(e, p, required), same for _scache / US"""
    h = c.h if now else c.h0
    p, k = z3.Consts('sm_p sm_k', Obj)
    out = []
    for fld, ans in (('_mcache', UA), ('_scache', US)):
        n1 = M(c, now)[h(fld)[c.a.self]][p]
        v = M(c, now)[n1][k]
        out.append(ForAllP([p, k], z3.Implies(z3.And(n1 != ABSENT, v != ABSENT), v == ans(e, p, k)), [v]))
    return z3.And(*out)


for which in ('lookup', 'lookupAll', 'subscriptions'):
    params = [('self', OBJ), ('required', SEQO), ('provided', OBJ)] + ([('name', OBJ)] if which == 'lookup' else [])
    reg.add(Proc(A + 'virtual._uncached_' + which, params, result=OBJ, modifies=['$dict', '$alloc', '$epoch', '$getcache_calls'],
                 ensures=_uncached_post(which),
                 note='the uncached search (AdapterLookupBase._uncached_%s, verified under C04/C07/C08) as seen by the cache layer: it may '
                      're-enter the registry; without an invalidation nothing changes and the answer is the one of the current state, '
                      'after an invalidation the tree was rebuilt from empty top dictionaries by these same methods' % which))

reg.assumptions.append('code that runs during a call-out invalidates only through changed() (which empties the three top dictionaries and '
                       'advances the ghost epoch) and fills the caches only through the methods under contract here; a lazy `required` '
                       'is resolved before the cache is fetched (fix 13712e1; its side effects are C11\'s subject)')


def _lookup_post(c):
    p, n = c.a.provided, c.a.name
    key = keyof(c.a.required)
    node0 = z3.If(truthy(n), node2(c, p, n, False), node1(c, p, False))
    had_node = z3.And(node1(c, p, False) != ABSENT, z3.Or(z3.Not(truthy(n)), node2(c, p, n, False) != ABSENT))
    hit = z3.And(had_node, M(c, False)[node0][key] != ABSENT)
    cached = M(c, False)[node0][key]
    e0, e1 = epoch(c, False), epoch(c)
    return [('cache-stays-sound-whatever-the-call-out-did', sound(c, e1)), ('multi-caches-stay-sound', sound_multi(c, e1)),
            ] + [('tree:' + lbl, f) for lbl, f in tree_wf(c)] + [
            ('a-cached-answer-is-returned-without-searching', z3.Implies(hit, z3.And(
                c.res == z3.If(cached == NONE, c.a.default, cached), e1 == e0))),
            ('otherwise-the-answer-of-the-uncached-search-None-meaning-default', z3.Implies(z3.And(z3.Not(hit), e1 == e0),
                c.res == z3.If(U(e0, p, n, key) == NONE, c.a.default, U(e0, p, n, key)))),
            ('epoch-only-advances', e1 >= e0), through_getcache(c)]


def lookup_pre(c):
    return tree_wf(c) + [('cache-sound', sound(c, epoch(c))), ('multi-caches-sound', sound_multi(c, epoch(c))), ('provided-is-no-name', z3.Not(is_name(c.a.provided))),
                         ('required-specifications-are-neither-names-nor-tuples', z3.Implies(
                             L(c.a.required) == 1, z3.And(z3.Not(is_name(c.a.required[0])), z3.Not(is_seq(c.a.required[0])))))]


reg.add(Proc(A + 'LookupBase.lookup', [('self', OBJ), ('required', SEQO), ('provided', OBJ), ('name', OBJ), ('default', OBJ)],
             source='adapter.py:LookupBase.lookup', result=OBJ, globals={'_not_in_mapping': V(OBJ, NOTIN)},
             calls={'self._getcache': A + 'LookupBase._getcache', 'self._uncached_lookup': A + 'virtual._uncached_lookup'},
             locals={'cache': DICT, '$nomerge': True}, modifies=['$dict', '$alloc', '$epoch', '$getcache_calls'],
             requires=lookup_pre,
             raises={'ValueError': (lambda c: z3.Not(is_name(c.a.name)),
                                    lambda c: [('nothing-touched', z3.And(M(c) == M(c, False), epoch(c) == epoch(c, False)))])},
             ensures=_lookup_post))



# ------------------------------------------------------------------ lookupAll / subscriptions (one-level caches keyed by the required tuple)
def _multi_post(fld, ans):
    def post(c):
        p = c.a.provided
        key = box_seq(c.a.required)
        n0 = mnode(c, fld, p, False)
        hit = z3.And(n0 != ABSENT, M(c, False)[n0][key] != ABSENT)
        e0, e1 = epoch(c, False), epoch(c)
        return [('caches-stay-sound-whatever-the-call-out-did', z3.And(sound(c, e1), sound_multi(c, e1)))] + \
            [('tree:' + lbl, f) for lbl, f in tree_wf(c)] + [
            ('a-cached-answer-is-returned-without-searching', z3.Implies(hit, z3.And(c.res == M(c, False)[n0][key], e1 == e0))),
            ('otherwise-the-answer-of-the-uncached-search', z3.Implies(z3.And(z3.Not(hit), e1 == e0), c.res == ans(e0, p, key))),
            ('epoch-only-advances', e1 >= e0)]
    return post


def multi_pre(c):
    return tree_wf(c) + [('cache-sound', sound(c, epoch(c))), ('multi-caches-sound', sound_multi(c, epoch(c)))]


reg.add(Proc(A + 'LookupBase.lookupAll', [('self', OBJ), ('required', SEQO), ('provided', OBJ)], source='adapter.py:LookupBase.lookupAll',
             result=OBJ, globals={'_not_in_mapping': V(OBJ, NOTIN)}, calls={'self._uncached_lookupAll': A + 'virtual._uncached_lookupAll'},
             locals={'cache': DICT, '$nomerge': True, '$on_alloc': _tag_multi(KM), '$dict_may_be_none': False},
             modifies=['$dict', '$alloc', '$epoch', '$getcache_calls'], requires=multi_pre, ensures=_multi_post('_mcache', UA)))
reg.add(Proc(A + 'LookupBase.subscriptions', [('self', OBJ), ('required', SEQO), ('provided', OBJ)], source='adapter.py:LookupBase.subscriptions',
             result=OBJ, globals={'_not_in_mapping': V(OBJ, NOTIN)}, calls={'self._uncached_subscriptions': A + 'virtual._uncached_subscriptions'},
             locals={'cache': DICT, '$nomerge': True, '$on_alloc': _tag_multi(KS)},
             modifies=['$dict', '$alloc', '$epoch', '$getcache_calls'], requires=multi_pre, ensures=_multi_post('_scache', US)))


# ------------------------------------------------------------------ single-required entry points (C08: they agree with lookup())
PB = z3.Function('providedBy_of', Obj, Obj)               # providedBy(object): C01
CALL = z3.Function('factory_result', Obj, Obj, Obj)       # factory(object)
CALL_RAISES = z3.Function('factory_raises', Obj, Obj, B)
SUPER = classconst('super')
reg.fields['__self__'] = OBJ
_q = z3.Const('pb_o', Obj)
reg.axiom('specifications-are-neither-names-nor-tuples', z3.ForAll([_q], z3.And(z3.Not(is_name(PB(_q))), z3.Not(is_seq(PB(_q))), PB(_q) != ABSENT),
                                                                   patterns=[PB(_q)]))
reg.assumptions.append('providedBy(object) is a pure query here (C01; descriptors that re-enter are C11\'s subject); factories do not mutate '
                       'the registry they are looked up in (C11 covers the re-entrant case bounded)')


def lookup_value(c, p, n, key, now=False):
    """(hit?, the factory/value lookup((r,), p, n) yields before None -> default) on the heap at entry"""
    node0 = z3.If(truthy(n), node2(c, p, n, now), node1(c, p, now))
    had = z3.And(node1(c, p, now) != ABSENT, z3.Or(z3.Not(truthy(n)), node2(c, p, n, now) != ABSENT))
    hit = z3.And(had, M(c, now)[node0][key] != ABSENT)
    return hit, z3.If(hit, M(c, now)[node0][key], U(epoch(c, now), p, n, key))


def single_pre(c, key):
    return tree_wf(c) + [('cache-sound', sound(c, epoch(c))), ('multi-caches-sound', sound_multi(c, epoch(c))),
                         ('provided-is-no-name', z3.Not(is_name(c.a.provided))),
                         ('the-required-specification-is-neither-a-name-nor-a-tuple', z3.And(z3.Not(is_name(key)), z3.Not(is_seq(key))))]


def invariants_kept(c):
    e1 = epoch(c)
    return [('caches-stay-sound', z3.And(sound(c, e1), sound_multi(c, e1)))] + [('tree:' + lbl, f) for lbl, f in tree_wf(c)] + \
        [('epoch-only-advances', e1 >= epoch(c, False)), through_getcache(c)]


def _lookup1_post(c):
    hit, v = lookup_value(c, c.a.provided, c.a.name, c.a.required)
    same = epoch(c) == epoch(c, False)
    return invariants_kept(c) + [
        ('equals-lookup-of-the-1-tuple', z3.Implies(z3.Or(hit, same), c.res == z3.If(v == NONE, c.a.default, v)))]


_value_error = {'ValueError': (lambda c: z3.Not(is_name(c.a.name)),
                               lambda c: [('nothing-touched', z3.And(M(c) == M(c, False), epoch(c) == epoch(c, False)))])}


def _call_lookup_1tuple(ex, node, st):
    """self.lookup((required,), provided, name[, default])"""
    out = []
    for s, vs in ex.ev_list(node.args, st):
        args = {'self': ex.args['self'], 'required': ex.coerce(vs[0], SEQO, s), 'provided': vs[1], 'name': vs[2],
                'default': vs[3] if len(vs) > 3 else VNONE}
        out.extend(ex.apply_contract(node, s, reg.procs[A + 'LookupBase.lookup'], args))
    return out


reg.add(Proc(A + 'LookupBase.lookup1', [('self', OBJ), ('required', OBJ), ('provided', OBJ), ('name', OBJ), ('default', OBJ)],
             source='adapter.py:LookupBase.lookup1', result=OBJ, globals={'_not_in_mapping': V(OBJ, NOTIN)},
             calls={'self._getcache': A + 'LookupBase._getcache', 'self.lookup': _call_lookup_1tuple},
             locals={'cache': DICT, '$nomerge': True}, modifies=['$dict', '$alloc', '$epoch', '$getcache_calls'],
             requires=lambda c: single_pre(c, c.a.required), raises=_value_error, ensures=_lookup1_post))


def _ext_factory(ex, node, st, vals):
    f, a = vals[0].t, box(vals[1])
    bad = st.clone()
    bad.assume(CALL_RAISES(f, a))
    ex.raise_(bad, 'OtherError')
    st.assume(z3.Not(CALL_RAISES(f, a)))
    return [(st, vobj(CALL(f, a)))]


def _hook_spec(c):
    ob = c.a.object
    req = PB(ob)
    hit, f = lookup_value(c, c.a.provided, c.a.name, req)
    arg = z3.If(subtype(typeof(ob), SUPER), c.h0('__self__')[ob], ob)
    return hit, f, arg


def _hook_post(c):
    hit, f, arg = _hook_spec(c)
    same = epoch(c) == epoch(c, False)
    r = CALL(f, arg)
    return invariants_kept(c) + [
        ('calls-the-factory-lookup-finds-on-providedBy-of-the-object-with-the-underlying-object', z3.Implies(
            z3.Or(hit, same), c.res == z3.If(z3.Or(f == NONE, r == NONE), c.a.default, r)))]


def _hook_raises(c):
    hit, f, arg = _hook_spec(c)
    return z3.And(is_name(c.a.name), z3.Implies(z3.Or(hit, epoch(c) == epoch(c, False)), z3.And(f != NONE, CALL_RAISES(f, arg))))


reg.add(Proc('declarations.py:providedBy', [('ob', OBJ)], result=OBJ, trusted=True, pure_fn=lambda c: PB(c.a.ob), note='C01'))
HOOK_CALLS = {'self._getcache': A + 'LookupBase._getcache', 'self.lookup': _call_lookup_1tuple, 'providedBy': 'declarations.py:providedBy'}
reg.add(Proc(A + 'LookupBase.adapter_hook', [('self', OBJ), ('provided', OBJ), ('object', OBJ), ('name', OBJ), ('default', OBJ)],
             source='adapter.py:LookupBase.adapter_hook', result=OBJ, globals={'_not_in_mapping': V(OBJ, NOTIN)},
             calls=HOOK_CALLS, opaque_calls={'factory': _ext_factory},
             locals={'cache': DICT, '$nomerge': True}, modifies=['$dict', '$alloc', '$epoch', '$getcache_calls'],
             requires=lambda c: single_pre(c, PB(c.a.object)),
             raises=_value_error, may_raise=['OtherError'], ensures=_hook_post))

reg.add(Proc(A + 'LookupBase.queryAdapter', [('self', OBJ), ('object', OBJ), ('provided', OBJ), ('name', OBJ), ('default', OBJ)],
             source='adapter.py:LookupBase.queryAdapter', result=OBJ,
             calls={'self.adapter_hook': A + 'LookupBase.adapter_hook'}, modifies=['$dict', '$alloc', '$epoch', '$getcache_calls'],
             requires=lambda c: single_pre(c, PB(c.a.object)),
             raises=_value_error, may_raise=['OtherError'], ensures=_hook_post))
