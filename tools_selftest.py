"""Engine self-test: deliberately broken bodies on a scratch copy must fail a named obligation.

usage: python3 tools_selftest.py [Cxx ...]     -- deductive part only (--no-falsify), scratch copy removed afterwards
"""
import json, os, shutil, subprocess, sys, tempfile

VERIF = os.path.dirname(os.path.abspath(__file__))
MUTANTS = json.load(open(os.path.join(VERIF, 'selftest_mutants.json')))
want = sys.argv[1:]
results = {}
for m in MUTANTS:
    if want and m['property'] not in want:
        continue
    d = tempfile.mkdtemp(prefix='zi_selftest_')
    try:
        shutil.copytree('/repo/src', os.path.join(d, 'src'), ignore=shutil.ignore_patterns('*.so', '__pycache__'))
        p = os.path.join(d, 'src', 'zope', 'interface', m['file'])
        s = open(p).read()
        assert s.count(m['old']) == 1, (m['id'], s.count(m['old']))
        open(p, 'w').write(s.replace(m['old'], m['new']))
        env = dict(os.environ, VERIF_REPO=d, VERIF_OUT_DIR=os.path.join(d, 'out'))
        r = subprocess.run(['./check', m['property'], '--no-falsify'], cwd=VERIF, env=env, capture_output=True, text=True)
        failed = [l.strip() for l in r.stdout.splitlines() if 'failed obligation' in l or l.startswith('UNDECIDED')]
        killed = r.returncode in (1, 2) and bool(failed)
        results[m['id']] = {'killed': killed, 'exit': r.returncode, 'first': failed[:2]}
        print(m['id'], 'KILLED' if killed else 'SURVIVED', r.returncode, failed[:1])
    finally:
        shutil.rmtree(d, ignore_errors=True)
print('%d/%d killed' % (sum(v['killed'] for v in results.values()), len(results)))
