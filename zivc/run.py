"""Drive the verifier over one contract registry."""
import time
import traceback

import z3

from . import core, extract, solve, symex
from .spec import Registry


class ProcReport:
    def __init__(self, proc):
        self.proc = proc
        self.status = 'ok'         # ok | shape | unsupported | missing
        self.detail = ''
        self.obligations = []      # (Obligation, Result)
        self.fsrc = None
        self.smoke = None
        self.paths = 0


def all_axioms(reg, npending=None):
    pend = reg.pending_axioms if npending is None else reg.pending_axioms[:npending]
    return core.prelude_axioms() + core.strlit_axioms() + [f for _, f in reg.axioms] + [f for _, f in pend]


def verify_registry(reg, only=None, both=False, log=None):
    reports = []
    items = []
    index = []
    t0 = time.time()
    for key, proc in reg.procs.items():
        if proc.source is None:
            continue
        if only and key not in only:
            continue
        rep = ProcReport(proc)
        reports.append(rep)
        try:
            rep.fsrc = extract.find_function(proc.source)
        except KeyError as e:
            rep.status, rep.detail = 'missing', str(e)
            continue
        variants = [{}]
        for pn, consts in proc.finite.items():
            variants = [dict(v, **{pn: c}) for v in variants for c in consts]
        try:
            for var in variants:
                ex = symex.Exec(proc, reg, rep.fsrc)
                ex.variant = var
                obls = ex.verify_variant(var) if var else ex.verify()
                rep.paths += ex.paths_ended
                for o in obls:
                    if var:
                        o.label += '[' + ','.join('%s=%r' % kv for kv in sorted(var.items())) + ']'
                    rep.obligations.append([o, None])
                rep.reach = ex.reach
                rep.pre = ex.pre
        except symex.ShapeMismatch as e:
            rep.status, rep.detail = 'shape', str(e)
            rep.obligations = []
        except symex.Unsupported as e:
            rep.status, rep.detail = 'unsupported', str(e)
            rep.obligations = []
        except Exception as e:  # engine bug: never a verdict about the code
            rep.status, rep.detail = 'crash', traceback.format_exc()
            rep.obligations = []
    axioms = all_axioms(reg)
    for rep in reports:
        for pair in rep.obligations:
            o = pair[0]
            items.append(('%s::%s' % (rep.proc.key, o.label), solve.Lazy(axioms, o.hyps, o.goal)))
            index.append(pair)
    # lemmas of the registry
    lemma_pairs = []
    for label, hyps, goal, npend in reg.lemmas:
        items.append(('lemma::' + label, solve.Lazy(
            all_axioms(reg, npend) if npend >= 0 else core.prelude_axioms(), hyps, goal)))
        pair = [symex.Obligation('lemma:' + label, hyps, goal, 'lemma'), None]
        lemma_pairs.append(pair)
        index.append(pair)
    # vacuity: preconditions + axioms satisfiable / not refutable
    smoke_items = []
    smoke_index = []
    for rep in reports:
        if rep.status == 'ok':
            smoke_items.append(('smoke::' + rep.proc.key, solve.Lazy(axioms, getattr(rep, 'pre', []), z3.BoolVal(False))))
            smoke_index.append(rep)
    smoke_items.append(('smoke::axioms', solve.Lazy(axioms, [], z3.BoolVal(False))))
    results = solve.discharge(items, both=both)
    for pair, r in zip(index, results):
        pair[1] = r
    smoke_res = solve.discharge(smoke_items, z3_timeout=1500, use_cvc5=False, single_pass=True) if smoke_items else []
    for rep, r in zip(smoke_index, smoke_res):
        rep.smoke = r
    ax_smoke = smoke_res[-1] if smoke_res else None
    return reports, lemma_pairs, ax_smoke, time.time() - t0
