"""Functional verification of functions of the C accelerator against the contracts of their Python twins.

The clang JSON AST of the real ``_zope_interface_coptimizations.c`` (re-dumped on every run, like cfront does) is
executed symbolically path by path; values are z3 terms of the same sorts the Python front end uses (``Obj`` for
``PyObject*`` with a distinguished ``C_NULL``, mathematical ``Int`` for ``int``/``Py_ssize_t``), struct members are the
heap arrays of the Python attributes of the same name, the CPython API is a table of functional models (trusted, listed
as assumption A2), the error indicator is the ghost variable ``$exc``.  Reference counting is NOT modelled here (that is
cfront's ownership domain): Py_INCREF/DECREF are no-ops.  Loops are cut at invariants given by the contract; a construct
outside the subset makes the function "unsupported" (never a verdict about the code).
"""
import z3

from . import cfront
from .core import *  # noqa
from .spec import Ctx, HeapView
from .symex import Obligation, _norm

C_NULL = z3.Const('C_NULL', Obj)
NOEXC = C_NULL
FALL, RET, BRK, CONT, GOTO = 'fall', 'return', 'break', 'continue', 'goto'


class CUnsupported(Exception):
    pass


class VRef(V):
    """``&local``: the address of a local variable (out-parameter of an API call); the handler assigns st.env[ref]"""
    __slots__ = ('ref',)

    def __init__(self, name):
        V.__init__(self, OBJ, z3.Const('address_of_' + name, Obj))
        self.ref = name


class VLit(V):
    """a C string literal (format strings of PyArg_Parse*: read by the API model; message texts: ignored)"""
    __slots__ = ('lit',)

    def __init__(self, text):
        V.__init__(self, OBJ, z3.Const('c_string_literal', Obj))
        self.lit = text


def c_axioms():
    return [C_NULL != NONE, C_NULL != ABSENT, C_NULL != NOTIMPL, z3.Not(is_dict(C_NULL)), z3.Not(is_seq(C_NULL)), z3.Not(is_list(C_NULL)),
            z3.Not(is_name(C_NULL)),
            box_bool(True) != C_NULL, box_bool(False) != C_NULL, box_bool(True) != NOTIMPL, box_bool(False) != NOTIMPL,
            box_bool(True) != box_bool(False)]


class CProc:
    """Contract of one C function."""

    def __init__(self, name, params, result=OBJ, requires=None, ensures=None, modifies=(), loops=None, api=None, globals=None,
                 fields=None, note='', callees=None, split=None, hide=(), tuple_view=None):
        self.name = name
        self.key = 'c:' + name
        self.params = list(params)          # [(name, Ty)]
        self.result = result
        self.requires = requires or (lambda c: [])
        self.ensures = ensures or (lambda c: [])
        self.modifies = tuple(modifies)
        self.loops = loops or {}
        self.api = api or {}                # extra / overriding API models: name -> handler(ex, st, args) -> [(st, V)]
        self.globals = globals or {}        # C globals (static PyObject* str__name__ ...): name -> V
        self.fields = fields or {}          # struct member -> heap field name
        self.note = note
        self.callees = callees or {}        # static C functions called: name -> CProc (used by contract)
        self.tuple_view = tuple_view        # (state, tuple object) -> SeqO term, when tuples are built item by item
        self.hide = tuple(hide)             # labels of ensures clauses that callers do not need (proved, but not assumed at call sites)
        self.split = split                  # Ctx (after a call) -> [z3 Bool]: case distinction made explicit at every call site
        #                                     (one path per case plus one for "none of them": nothing is lost)


class CState:
    def __init__(self, heap):
        self.env = {}
        self.heap = heap
        self.pc = []
        self.trace = []

    def clone(self):
        s = CState(self.heap.clone())
        s.env = dict(self.env)
        s.pc = list(self.pc)
        s.trace = list(self.trace)
        s.checked = getattr(self, 'checked', 0)
        return s

    def assume(self, f):
        self.pc.append(f)


def _is_assert(n):
    """the left operand of the comma in CPython's cast macros: ``(assert(PyList_Check(op)), (PyListObject*)(op))``"""
    if n.get('kind') in ('UnaryExprOrTypeTraitExpr', 'StmtExpr'):
        return True
    return any(_is_assert(c) for c in n.get('inner', []))


def strip(n):
    while True:
        if n.get('kind') in ('ImplicitCastExpr', 'ParenExpr', 'CStyleCastExpr', 'ConstantExpr'):
            n = n['inner'][0]
        elif n.get('kind') == 'BinaryOperator' and n.get('opcode') == ',' and _is_assert(n['inner'][0]):
            n = n['inner'][1]          # debug-build assertion of a cast macro: no effect
        else:
            return n


def is_pointer_type(n):
    t = (n.get('type') or {}).get('qualType', '')
    return '*' in t


class CExec:
    def __init__(self, fdecl, proc, fields):
        self.f = fdecl
        self.proc = proc
        self.fields = fields
        self.obls = []
        self.loop_count = 0
        self.labels = {}

    # ------------------------------------------------------------------ helpers
    def oblige(self, st, label, goal, kind='post'):
        self.obls.append(Obligation(label, list(st.pc), goal, kind, None, list(st.trace)))

    def truth(self, v):
        if v.ty.kind == 'bool':
            return v.t
        if v.ty.kind == 'int':
            return v.t != 0
        return v.t != C_NULL

    def as_int(self, v):
        if v.ty.kind == 'int':
            return v.t
        if v.ty.kind == 'bool':
            return z3.If(v.t, 1, 0)
        raise CUnsupported('pointer used as integer')

    def tuple_contents(self, st, t):
        """the items of a tuple object: its value (tuples are immutable), or the contract's own view (tuples under construction)"""
        view = getattr(self.proc, 'tuple_view', None)
        return view(st, t) if view else unbox_seq(t)

    def field(self, name):
        f = self.proc.fields.get(name, name)
        if f not in self.fields:
            raise CUnsupported('struct member %r has no declared field' % name)
        return f, self.fields[f]

    # ------------------------------------------------------------------ expressions: [(state, V)]
    def ev(self, n, st):
        n = strip(n)
        k = n['kind']
        if k == 'IntegerLiteral':
            return [(st, vint(int(n['value'])))]
        if k == 'StringLiteral':
            return [(st, VLit(n.get('value', '')))]      # message texts are not part of any contract
        if k == 'DeclRefExpr':
            name = n['referencedDecl']['name']
            if name in st.env:
                return [(st, st.env[name])]
            if name in self.proc.globals:
                return [(st, self.proc.globals[name])]
            if name in GLOBALS:
                return [(st, GLOBALS[name])]
            raise CUnsupported('unknown name %s' % name)
        if k == 'UnaryOperator':
            op = n['opcode']
            inner = strip(n['inner'][0])
            if op == '&' and inner['kind'] == 'DeclRefExpr':
                name = inner['referencedDecl']['name']
                if name in ADDRESS_OF:
                    return [(st, ADDRESS_OF[name])]
                if name in st.env:
                    return [(st, VRef(name))]
                raise CUnsupported('address of %s' % name)
            if op == '!':
                return [(s, vbool(z3.Not(self.truth(v)))) for s, v in self.ev(n['inner'][0], st)]
            if op == '-':
                return [(s, vint(-self.as_int(v))) for s, v in self.ev(n['inner'][0], st)]
            if op in ('++', '--') and inner['kind'] == 'DeclRefExpr':
                name = inner['referencedDecl']['name']
                out = []
                for s, v in self.ev(inner, st):
                    nv = vint(v.t + (1 if op == '++' else -1))
                    s.env[name] = nv
                    out.append((s, v if n.get('isPostfix') else nv))
                return out
            raise CUnsupported('unary %s' % op)
        if k == 'BinaryOperator':
            op = n['opcode']
            if op == '=':
                out = []
                for s, v in self.ev(n['inner'][1], st):
                    self.assign(n['inner'][0], v, s)
                    out.append((s, v))
                return out
            if op in ('&&', '||'):
                out = []
                for s, a in self.ev(n['inner'][0], st):
                    ta = self.truth(a)
                    short, cont = s.clone(), s
                    if op == '&&':
                        short.assume(z3.Not(ta))
                        out.append((short, vbool(False)))
                        cont.assume(ta)
                    else:
                        short.assume(ta)
                        out.append((short, vbool(True)))
                        cont.assume(z3.Not(ta))
                    for s2, b in self.ev(n['inner'][1], cont):
                        out.append((s2, vbool(self.truth(b))))
                return out
            out = []
            for s, a in self.ev(n['inner'][0], st):
                for s2, b in self.ev(n['inner'][1], s):
                    out.append((s2, self.binop(op, a, b)))
            return out
        if k == 'ConditionalOperator':
            out = []
            for s, c in self.ev(n['inner'][0], st):
                t = self.truth(c)
                a, b = s, s.clone()
                a.assume(t)
                b.assume(z3.Not(t))
                out.extend(self.ev(n['inner'][1], a))
                out.extend(self.ev(n['inner'][2], b))
            return out
        if k == 'MemberExpr':
            out = []
            for s, base in self.ev(n['inner'][0], st):
                f, ty = self.field(n['name'])
                out.append((s, V(ty, z3.Select(s.heap.get(f), base.t))))
            return out
        if k == 'CallExpr':
            return self.call(n, st)
        if k == 'ArraySubscriptExpr':
            base = strip(n['inner'][0])
            if base.get('kind') == 'MemberExpr' and base.get('name') == 'ob_item':
                # PyList_GET_ITEM / PyTuple_GET_ITEM macros: ((PyListObject*)op)->ob_item[i]
                owner = base['inner'][0]
                is_tuple = 'Tuple' in str(owner.get('type', {}).get('qualType', '')) or 'Tuple' in str(strip(owner).get('type', {}).get('qualType', ''))
                cast = owner
                while cast.get('kind') in ('ImplicitCastExpr', 'ParenExpr'):
                    cast = cast['inner'][0]
                if cast.get('kind') == 'CStyleCastExpr':
                    is_tuple = 'Tuple' in cast.get('type', {}).get('qualType', '')
                out = []
                for s, o in self.ev(owner, st):
                    for s2, i in self.ev(n['inner'][1], s):
                        sq = self.tuple_contents(s2, o.t) if is_tuple else z3.Select(s2.heap.get('$list'), o.t)
                        out.append((s2, vobj(sq[self.as_int(i)])))
                return out
            raise CUnsupported('array subscript')
        raise CUnsupported('expression %s' % k)

    def binop(self, op, a, b):
        if op in ('==', '!='):
            if a.ty.kind in ('obj', 'dict', 'list') or b.ty.kind in ('obj', 'dict', 'list'):
                at = a.t if a.ty.kind != 'int' else C_NULL      # comparison with literal 0 / NULL
                bt = b.t if b.ty.kind != 'int' else C_NULL
                r = at == bt
            else:
                r = self.as_int(a) == self.as_int(b)
            return vbool(r if op == '==' else z3.Not(r))
        ai, bi = self.as_int(a), self.as_int(b)
        if op in ('<', '>', '<=', '>='):
            return vbool({'<': ai < bi, '>': ai > bi, '<=': ai <= bi, '>=': ai >= bi}[op])
        if op in ('+', '-', '*'):
            return vint({'+': ai + bi, '-': ai - bi, '*': ai * bi}[op])
        if op in ('<<', '>>', '&', '|'):
            ca, cb = z3.simplify(ai), z3.simplify(bi)
            if z3.is_int_value(ca) and z3.is_int_value(cb):      # constant folding only (flag masks of type-check macros)
                x, y = ca.as_long(), cb.as_long()
                return vint({'<<': x << y, '>>': x >> y, '&': x & y, '|': x | y}[op])
        raise CUnsupported('binary %s' % op)

    def assign(self, target, v, st):
        t = strip(target)
        if t['kind'] == 'DeclRefExpr':
            name = t['referencedDecl']['name']
            old = st.env.get(name)
            if old is not None and old.ty.kind == 'int' and v.ty.kind == 'bool':
                v = vint(z3.If(v.t, 1, 0))
            if old is not None and old.ty.kind in ('obj',) and v.ty.kind == 'int':
                v = vobj(C_NULL)          # p = 0 / NULL
            st.env[name] = v
            return
        if t['kind'] == 'MemberExpr':
            (s, base), = self.ev(t['inner'][0], st)
            f, ty = self.field(t['name'])
            if v.ty.kind == 'int' and ty.kind == 'obj':
                v = vobj(C_NULL)
            st.heap.set(f, z3.Store(st.heap.get(f), base.t, v.t))
            return
        raise CUnsupported('assignment target %s' % t['kind'])

    def call(self, n, st):
        callee = strip(n['inner'][0])
        if callee['kind'] != 'DeclRefExpr':
            raise CUnsupported('indirect call')
        name = callee['referencedDecl']['name']
        argn = n['inner'][1:]
        h = self.proc.api.get(name) or API.get(name)
        if name in ('Py_CLEAR', 'Py_SETREF', 'Py_XSETREF'):
            raise CUnsupported(name)
        if h is None and name in self.proc.callees:
            h = callee_contract(self.proc.callees[name])
        inline = None
        if h is None:
            # a static helper of the same file without a contract of its own: executed in line (mechanically, from its own AST)
            inline = cfront.dump_functions([name]).get(name)
            if inline is None:
                raise CUnsupported('call of %s: no functional model' % name)
        states = [(st, [])]
        for a in argn:
            nxt = []
            for s, vs in states:
                for s2, v in self.ev(a, s):
                    nxt.append((s2, vs + [v]))
            states = nxt
        out = []
        for s, vs in states:
            out.extend(h(self, s, vs) if inline is None else self.inline_call(inline, s, vs))
        return out

    def inline_call(self, fdecl, st, vs, depth=[0]):
        if depth[0] > 3:
            raise CUnsupported('inlining too deep at %s' % fdecl['name'])
        params = [p for p in fdecl['inner'] if p['kind'] == 'ParmVarDecl']
        if len(params) != len(vs):
            raise CUnsupported('arity of %s' % fdecl['name'])
        saved = dict(st.env)
        st.env = {'$exc': st.env['$exc']}
        for p, v in zip(params, vs):
            if is_pointer_type(p) and v.ty.kind == 'int':
                v = vobj(C_NULL)
            st.env[p['name']] = v
        body = [c for c in fdecl['inner'] if c['kind'] == 'CompoundStmt'][0]
        ptr = '*' in fdecl.get('type', {}).get('qualType', '').split('(')[0]
        out = []
        depth[0] += 1
        try:
            for s2, kind, val in self.run(body.get('inner', []), st):
                if kind == GOTO:
                    raise CUnsupported('goto inside the inlined helper %s' % fdecl['name'])
                if kind not in (RET, FALL):
                    raise CUnsupported('%s at the end of %s' % (kind, fdecl['name']))
                env = dict(saved)
                env['$exc'] = s2.env['$exc']
                s2.env = env
                if val is None:
                    val = vobj(C_NULL) if ptr else vint(0)
                out.append((s2, val))
        finally:
            depth[0] -= 1
        return out

    # ------------------------------------------------------------------ statements: [(state, kind, payload)]
    def feasible(self, st):
        """False only when the ground (quantifier-free) part of the path condition is refuted by z3: such a path cannot be
        executed and is dropped (sound: fewer hypotheses, still unsatisfiable).  Anything else keeps the path."""
        n = len(st.pc)
        if getattr(st, 'checked', 0) == n:
            return True
        s = z3.Solver()
        s.set('rlimit', 300000)           # deterministic resource limit (no timer thread: the solver pool is forked later)
        for f in st.pc:
            if not _is_quantified(f):
                s.add(f)
        ok = s.check() != z3.unsat
        if ok:
            st.checked = n
        else:
            self.pruned = getattr(self, 'pruned', 0) + 1
        return ok

    def run(self, stmts, st):
        states = [st]
        results = []
        for i, s in enumerate(stmts):
            nxt = []
            for cur in states:
                for s2, kind, val in self.step(s, cur):
                    if not self.feasible(s2):
                        continue
                    if kind == FALL:
                        nxt.append(s2)
                    else:
                        results.append((s2, kind, val))
            states = nxt
            if not states:
                break
        results.extend((s, FALL, None) for s in states)
        return results

    def step(self, n, st):
        k = n['kind']
        if k == 'CompoundStmt':
            return self.run(n.get('inner', []), st)
        if k == 'NullStmt':
            return [(st, FALL, None)]
        if k == 'DeclStmt':
            states = [st]
            for d in n.get('inner', []):
                if d['kind'] != 'VarDecl':
                    raise CUnsupported('declaration %s' % d['kind'])
                ptr = is_pointer_type(d)
                nxt = []
                for s in states:
                    if d.get('inner') and strip(d['inner'][0]).get('kind') == 'InitListExpr':
                        s.env[d['name']] = vobj(fresh('initlist_' + d['name'], Obj))      # static keyword tables: opaque
                        nxt.append(s)
                    elif d.get('inner'):
                        for s2, v in self.ev(d['inner'][0], s):
                            if ptr and v.ty.kind == 'int':
                                v = vobj(C_NULL)
                            if not ptr and v.ty.kind == 'bool':
                                v = vint(z3.If(v.t, 1, 0))
                            s2.env[d['name']] = v
                            nxt.append(s2)
                    else:
                        s.env[d['name']] = vobj(fresh('uninit_' + d['name'], Obj)) if ptr else vint(fresh('uninit_' + d['name'], z3.IntSort()))
                        nxt.append(s)
                states = nxt
            return [(s, FALL, None) for s in states]
        if k == 'ReturnStmt':
            if not n.get('inner'):
                return [(st, RET, None)]
            return [(s, RET, v) for s, v in self.ev(n['inner'][0], st)]
        if k == 'BreakStmt':
            return [(st, BRK, None)]
        if k == 'ContinueStmt':
            return [(st, CONT, None)]
        if k == 'GotoStmt':
            return [(st, GOTO, n['targetLabelDeclId'])]
        if k == 'LabelStmt':
            return self.step(n['inner'][0], st)
        if k == 'IfStmt':
            out = []
            inner = n['inner']
            for s, c in self.ev(inner[0], st):
                t = z3.simplify(self.truth(c))
                a, b = s, s.clone()
                a.assume(t)
                b.assume(z3.Not(t))
                a.trace.append('if@%s:T' % self.line(n))
                b.trace.append('if@%s:F' % self.line(n))
                if not z3.is_false(t) and self.feasible(a):
                    out.extend(self.step(inner[1], a))
                if not z3.is_true(t) and self.feasible(b):
                    out.extend(self.step(inner[2], b) if len(inner) > 2 else [(b, FALL, None)])
            return out
        if k == 'SwitchStmt':
            return self.switch(n, st)
        if k == 'DoStmt':
            body, cond = n['inner'][0], strip(n['inner'][1])
            if cond.get('kind') == 'IntegerLiteral' and int(cond['value']) == 0:
                first = (body.get('inner') or [{}])[0]
                decl = (first.get('inner') or [{}])[0] if first.get('kind') == 'DeclStmt' else {}
                if decl.get('name') == '_tmp_op_ptr':
                    # Py_CLEAR(lvalue) / Py_XSETREF-style macro: the lvalue becomes NULL (the reference is dropped: cfront's subject)
                    addr = strip(decl['inner'][0])
                    if addr.get('kind') == 'UnaryOperator' and addr.get('opcode') == '&':
                        self.assign(addr['inner'][0], vobj(C_NULL), st)
                        return [(st, FALL, None)]
                    raise CUnsupported('macro with _tmp_op_ptr')
                return [(s2, FALL if kind == BRK else kind, val) for s2, kind, val in self.step(body, st)]     # do { ... } while (0)
            return self.loop(n, st)
        if k in ('ForStmt', 'WhileStmt'):
            return self.loop(n, st)
        # expression statements
        return [(s, FALL, None) for s, _ in self.ev(n, st)]

    def line(self, n):
        loc = n.get('range', {}).get('begin', {})
        return loc.get('line') or loc.get('expansionLoc', {}).get('line') or loc.get('spellingLoc', {}).get('line') or '?'

    def switch(self, n, st):
        out = []
        body = n['inner'][1]
        # flatten:  [(labels, stmt)] in order; labels: list of ints / 'default'
        seq = []

        def flat(s, labels):
            if s['kind'] == 'CaseStmt':
                val = int(strip(s['inner'][0])['value'])
                flat(s['inner'][-1], labels + [val])
            elif s['kind'] == 'DefaultStmt':
                flat(s['inner'][-1], labels + ['default'])
            else:
                seq.append((labels, s))
        for s in body.get('inner', []):
            flat(s, [])
        values = [v for labels, _ in seq for v in labels if v != 'default']
        for s0, sv in self.ev(n['inner'][0], st):
            x = self.as_int(sv)
            entries = []
            for idx, (labels, _) in enumerate(seq):
                for lab in labels:
                    cond = (x == lab) if lab != 'default' else z3.And(*[x != v for v in values]) if values else z3.BoolVal(True)
                    entries.append((idx, cond))
            if not any('default' in labels for labels, _ in seq):
                none = s0.clone()
                none.assume(z3.And(*[x != v for v in values]) if values else z3.BoolVal(True))
                out.append((none, FALL, None))
            for idx, cond in entries:
                s = s0.clone()
                s.assume(cond)
                s.trace.append('switch@%s:%d' % (self.line(n), idx))
                for s2, kind, val in self.run([stmt for _, stmt in seq[idx:]], s):
                    out.append((s2, FALL if kind == BRK else kind, val))
        return out

    def loop(self, n, st):
        if not hasattr(self, 'loop_names'):
            self.loop_names = {}
        name = self.loop_names.setdefault(n.get('id'), 'L%d' % len(self.loop_names))
        spec = self.proc.loops.get(name)
        if spec is None:
            raise CUnsupported('loop %s has no invariant in the contract of %s' % (name, self.proc.name))
        if n['kind'] != 'ForStmt':
            raise CUnsupported(n['kind'])
        init, _, cond, inc, body = n['inner']
        states = [st]
        if init and init.get('kind'):
            states = [s for s, kk, _ in self.step(init, st) if kk == FALL]
        out = []
        for s in states:
            c0 = self.ctx(s)
            for label, f in _norm(spec.inv(c0), 'inv'):
                self.oblige(s, '%s:init:%s' % (name, label), f, 'inv-init')
            h = s.clone()
            for nm in assigned_vars(body) | assigned_vars(inc) | assigned_vars(cond):
                if nm in h.env:
                    v = h.env[nm]
                    h.env[nm] = V(v.ty, fresh(nm, sort_of(v.ty)))
            for fld in spec.modifies:
                h.heap.set(fld, fresh('H_' + fld.strip('$'), h.heap.sort(fld)))
            h.env['$exc'] = h.env['$exc']
            for label, f in _norm(spec.inv(self.ctx(h)), 'inv'):
                h.assume(f)
            for s2, cv in self.ev(cond, h):
                t = self.truth(cv)
                ex_, it = s2.clone(), s2
                ex_.assume(z3.Not(t))
                ex_.trace.append('%s:exit' % name)
                out.append((ex_, FALL, None))
                it.assume(t)
                it.trace.append('%s:iter' % name)
                for s3, kind, val in self.step(body, it):
                    if kind in (FALL, CONT):
                        for s4, _ in (self.ev(inc, s3) if inc and inc.get('kind') else [(s3, None)]):
                            for label, f in _norm(spec.inv(self.ctx(s4)), 'inv'):
                                self.oblige(s4, '%s:step:%s' % (name, label), f, 'inv-step')
                    elif kind == BRK:
                        out.append((s3, FALL, None))
                    else:
                        out.append((s3, kind, val))
        return out

    def ctx(self, st, res=None):
        c = Ctx(self.args, st.heap, self.entry_heap, locals_=st.env, res=res)
        c.exc = st.env['$exc'].t
        c.exc0 = self.entry_exc
        return c

    # ------------------------------------------------------------------ driver
    def verify(self):
        proc = self.proc
        heap = HeapView(self.fields)
        st = CState(heap)
        self.args = {}
        for pn, pty in proc.params:
            self.args[pn] = V(pty, fresh(pn, sort_of(pty)))
        real = [p['name'] for p in self.f['inner'] if p['kind'] == 'ParmVarDecl']
        if real != [pn for pn, _ in proc.params]:
            raise CUnsupported('parameters of %s are %s, contract written for %s' % (proc.name, real, [pn for pn, _ in proc.params]))
        st.env.update(self.args)
        st.env['$exc'] = vobj(NOEXC)
        self.entry_exc = NOEXC
        self.entry_heap = heap.clone()
        c0 = Ctx(self.args, st.heap, self.entry_heap)
        c0.exc = c0.exc0 = NOEXC
        pre = _norm(proc.requires(c0), 'requires')
        for fld in list(self.entry_heap.arrays):
            st.heap.set(fld, self.entry_heap.get(fld))
        for a in c_axioms():
            st.assume(a)
        for label, f in pre:
            st.assume(f)
        self.pre = [f for _, f in pre] + c_axioms()
        if getattr(proc, 'on_entry', None):
            proc.on_entry(self, st)          # ghost statement executed when the body is entered
        body = [c for c in self.f['inner'] if c['kind'] == 'CompoundStmt'][0]
        top = body.get('inner', [])
        label_pos = {}
        for i, s in enumerate(top):
            if s['kind'] == 'LabelStmt':
                label_pos[s['declId']] = i
        pending = [(st, 0)]
        finals = []
        guard = 0
        while pending:
            guard += 1
            if guard > 4000:
                raise CUnsupported('path explosion')
            s, start = pending.pop()
            for s2, kind, val in self.run(top[start:], s):
                if kind == GOTO:
                    if val not in label_pos:
                        raise CUnsupported('goto to a nested label')
                    if label_pos[val] < 0:
                        raise CUnsupported('backward goto')
                    pending.append((s2, label_pos[val]))
                elif kind in (RET, FALL):
                    finals.append((s2, val))
                else:
                    raise CUnsupported('%s outside loop' % kind)
        self.paths = len(finals)
        for s, val in finals:
            if proc.result.kind == 'int':
                res = self.as_int(val) if val is not None else z3.IntVal(0)
            else:
                res = val.t if val is not None else C_NULL
                if val is not None and val.ty.kind == 'int':
                    res = C_NULL
            c = self.ctx(s, res=res)
            for label, f in _norm(proc.ensures(c), 'ensures'):
                self.oblige(s, 'post:%s' % label, f, 'post')
            for fld, arr in s.heap.arrays.items():
                if fld in proc.modifies or fld == '$alloc':
                    continue
                old = self.entry_heap.get(fld)
                if not arr.eq(old):
                    self.oblige(s, 'frame:%s' % fld, arr == old, 'frame')
        return self.obls


_QMEMO = {}


def _is_quantified(f):
    k = f.get_id()
    if k not in _QMEMO:
        _QMEMO[k] = (_has_quantifier(f), f)        # the term is kept alive so that its id stays unique
    return _QMEMO[k][0]


def _has_quantifier(t, seen=None):
    seen = {} if seen is None else seen
    if t.get_id() in seen:
        return False
    seen[t.get_id()] = True
    if z3.is_quantifier(t):
        return True
    return any(_has_quantifier(c, seen) for c in t.children())


def assigned_vars(n):
    out = set()
    if not n or not n.get('kind'):
        return out

    def walk(x):
        if x.get('kind') == 'BinaryOperator' and x.get('opcode', '').endswith('=') and x['opcode'] not in ('==', '!=', '<=', '>='):
            t = strip(x['inner'][0])
            if t['kind'] == 'DeclRefExpr':
                out.add(t['referencedDecl']['name'])
        if x.get('kind') == 'UnaryOperator' and x.get('opcode') in ('++', '--'):
            t = strip(x['inner'][0])
            if t['kind'] == 'DeclRefExpr':
                out.add(t['referencedDecl']['name'])
        for c in x.get('inner', []):
            walk(c)
    walk(n)
    return out


def callee_contract(proc):
    def handler(ex, st, vs):
        args = {pn: v for (pn, _), v in zip(proc.params, vs)}
        pre = st.heap.clone()
        c0 = Ctx(args, pre, pre)
        c0.exc = c0.exc0 = st.env['$exc'].t
        for label, f in _norm(proc.requires(c0), 'pre'):
            ex.oblige(st, 'call:%s:%s' % (proc.name, label), f, 'pre')
            st.assume(f)
        for fld in proc.modifies:
            st.heap.set(fld, fresh('H_' + fld.strip('$'), st.heap.sort(fld)))
        res = V(proc.result, fresh('res_' + proc.name, sort_of(proc.result)))
        exc1 = fresh('exc_after_' + proc.name, Obj)
        st.env['$exc'] = vobj(exc1)
        c1 = Ctx(args, st.heap, pre, res=res.t)
        c1.exc, c1.exc0 = exc1, c0.exc
        for label, f in _norm(proc.ensures(c1), 'post'):
            if label not in proc.hide:
                st.assume(f)
        if proc.split is None:
            return [(st, res)]
        cases = list(proc.split(c1))
        out = []
        for n, f in enumerate(cases + [z3.Not(z3.Or(*cases))]):
            s2 = st.clone()
            s2.assume(f)
            s2.trace.append('%s:case%d' % (proc.name, n))
            out.append((s2, res))
        return out
    return handler


# ---------------------------------------------------------------------- CPython API: functional models (trusted, assumption A2)
EXC_ATTRIBUTE_ERROR = classconst('AttributeError')
EXC_TYPE_ERROR = classconst('TypeError')
EXC_VALUE_ERROR = classconst('ValueError')
EXC_OTHER = z3.Const('exc_some_other_exception', Obj)
GLOBALS = {'PyExc_AttributeError': vobj(EXC_ATTRIBUTE_ERROR), 'PyExc_TypeError': vobj(EXC_TYPE_ERROR), 'PyExc_ValueError': vobj(EXC_VALUE_ERROR)}
ADDRESS_OF = {'_Py_NoneStruct': vobj(NONE), '_Py_TrueStruct': vobj(box_bool(True)), '_Py_FalseStruct': vobj(box_bool(False)),
              '_Py_NotImplementedStruct': vobj(NOTIMPL)}
exc_matches = z3.Function('exception_matches', Obj, Obj, z3.BoolSort())
HASH = z3.Function('PyObject_Hash', Obj, z3.IntSort())


def api_axioms():
    e = z3.Const('em_e', Obj)
    return [z3.ForAll([e], HASH(e) != -1, patterns=[HASH(e)]),       # a successful PyObject_Hash never returns -1
            z3.Distinct(EXC_ATTRIBUTE_ERROR, EXC_TYPE_ERROR, EXC_VALUE_ERROR, EXC_OTHER, C_NULL),
            z3.ForAll([e], exc_matches(e, e), patterns=[exc_matches(e, e)]),
            z3.Not(exc_matches(EXC_OTHER, EXC_ATTRIBUTE_ERROR)), z3.Not(exc_matches(EXC_TYPE_ERROR, EXC_ATTRIBUTE_ERROR)),
            z3.Not(exc_matches(EXC_VALUE_ERROR, EXC_ATTRIBUTE_ERROR)), z3.Not(exc_matches(EXC_OTHER, EXC_TYPE_ERROR)),
            z3.Not(exc_matches(EXC_ATTRIBUTE_ERROR, EXC_TYPE_ERROR))]


def _noop(ex, st, vs):
    return [(st, vint(0))]


def _py_type(ex, st, vs):
    return [(st, vobj(typeof(vs[0].t)))]


def _typecheck(ex, st, vs):
    return [(st, vbool(subtype(typeof(vs[0].t), vs[1].t)))]


def _err_occurred(ex, st, vs):
    return [(st, st.env['$exc'])]


def _err_matches(ex, st, vs):
    return [(st, vbool(exc_matches(st.env['$exc'].t, vs[0].t)))]


def _err_clear(ex, st, vs):
    st.env['$exc'] = vobj(NOEXC)
    return [(st, vint(0))]


def _err_set(ex, st, vs):
    st.env['$exc'] = vs[0]
    return [(st, vint(0))]


def fail(st, exc):
    st.env['$exc'] = vobj(exc)
    return st


API = {
    'Py_INCREF': _noop, 'Py_DECREF': _noop, 'Py_XINCREF': _noop, 'Py_XDECREF': _noop, '_Py_INCREF': _noop, '_Py_DECREF': _noop,
    '_Py_XINCREF': _noop, '_Py_XDECREF': _noop, 'Py_NewRef': lambda ex, st, vs: [(st, vs[0])],
    'Py_TYPE': _py_type, 'PyObject_TypeCheck': _typecheck,
    'Py_IS_TYPE': lambda ex, st, vs: [(st, vbool(typeof(vs[0].t) == vs[1].t))],
    'PyUnicode_CheckExact': lambda ex, st, vs: [(st, vbool(is_name(vs[0].t)))], 'PyUnicode_Check': lambda ex, st, vs: [(st, vbool(is_name(vs[0].t)))],
    'PyErr_Occurred': _err_occurred, 'PyErr_ExceptionMatches': _err_matches, 'PyErr_Clear': _err_clear,
    'PyErr_SetString': _err_set, 'PyErr_SetObject': _err_set,
}


tuple_of = z3.Function('PyTuple_Pack', SeqO, Obj)
alloc_fails = z3.Function('allocation_fails', z3.IntSort(), z3.BoolSort())
hash_fails = z3.Function('PyObject_Hash_fails', Obj, z3.BoolSort())
_alloc_counter = [0]


def _tuple_pack(ex, st, vs):
    n = int(str(z3.simplify(vs[0].t)))
    items = vs[1:1 + n]
    _alloc_counter[0] += 1
    k = _alloc_counter[0]
    bad = st.clone()
    bad.assume(alloc_fails(k))
    fail(bad, EXC_OTHER)
    st.assume(z3.Not(alloc_fails(k)))
    sq = Concat(*[Unit(v.t) for v in items]) if items else Empty(SeqO)
    t = box_seq(sq)
    return [(bad, vobj(C_NULL)), (st, vobj(t))]


def _object_hash(ex, st, vs):
    o = vs[0].t
    bad = st.clone()
    bad.assume(hash_fails(o))
    fail(bad, EXC_TYPE_ERROR)
    st.assume(z3.And(z3.Not(hash_fails(o)), HASH(o) != -1))
    return [(bad, vint(-1)), (st, vint(HASH(o)))]


def _dict_getitem_with_error(ex, st, vs):
    d, k = vs[0].t, vs[1].t
    bad = st.clone()
    bad.assume(hash_fails(k))
    fail(bad, EXC_TYPE_ERROR)
    st.assume(z3.Not(hash_fails(k)))
    v = z3.Select(z3.Select(st.heap.get('$dict'), d), k)
    return [(bad, vobj(C_NULL)), (st, vobj(z3.If(v == ABSENT, C_NULL, v)))]


API.update({'PyTuple_Pack': _tuple_pack, 'PyObject_Hash': _object_hash, 'PyDict_GetItemWithError': _dict_getitem_with_error})


def verify_cprocs(procs, fields, extra_axioms=()):
    """[(CProc, status, detail, obligations, paths)]"""
    out = []
    decls = cfront.dump_functions([p.name for p in procs])
    for p in procs:
        fdecl = decls.get(p.name)
        if fdecl is None:
            out.append((p, 'missing', 'function %s not found in the C file' % p.name, [], 0, None))
            continue
        ex = CExec(fdecl, p, fields)
        try:
            obls = ex.verify()
            out.append((p, 'ok', '', obls, ex.paths, ex))
        except CUnsupported as e:
            out.append((p, 'unsupported', str(e), [], 0, None))
    return out
