"""Contract objects (side-car specifications) and the registry of procedures."""
from .core import *  # noqa


class Ctx:
    """What a contract clause can look at.

    a.<param>      argument terms (z3 terms; V.t for non-tuple types)
    h(field)       heap array for an attribute now;  h0(field) at procedure entry / before the call
    l.<local>      (loop invariants) current value of a local variable
    i, n, elem(j)  (loop invariants) hidden index, length and j-th element of the iterated view
    acc            (comprehension invariants) the accumulated result so far
    res            (ensures) the returned value
    """

    def __init__(self, args, heap, heap0, locals_=None, i=None, n=None, elem=None, acc=None, res=None,
                 entry=None, extra=None):
        self.a = _NS(args)
        self._heap = heap
        self._heap0 = heap0
        self.l = _NS(locals_ or {})
        self.i = i
        self.n = n
        self.elem = elem
        self.acc = acc
        self.res = res
        self.entry = _NS(entry or {})     # locals at loop entry (before the first iteration)
        self.x = _NS(extra or {})
        self._heapL = (extra or {}).get('$loop_heap')

    def h(self, field):
        return self._heap.get(field)

    def h0(self, field):
        return self._heap0.get(field)

    def hL(self, field):
        """(loop invariants) heap array at loop entry"""
        return self._heapL.get(field)


class _NS:
    def __init__(self, d):
        self.__dict__['_d'] = d

    def __getattr__(self, k):
        try:
            v = self._d[k]
        except KeyError:
            raise AttributeError(k)
        return v.t if isinstance(v, V) and v.ty.kind != 'tup' else v

    def __getitem__(self, k):
        return self.__getattr__(k)

    def __contains__(self, k):
        return k in self._d


class HeapView:
    """Lazily created heap arrays: field name -> z3 Array(Obj -> sort)."""

    def __init__(self, fields, arrays=None, tag='H'):
        self.fields = fields
        self.arrays = dict(arrays or {})
        self.tag = tag

    def get(self, field):
        if field not in self.arrays:
            self.arrays[field] = z3.Const('%s_%s' % (self.tag, field), self.sort(field))
        return self.arrays[field]

    def sort(self, field):
        if field == '$list':
            return z3.ArraySort(Obj, SeqO)
        if field == '$dict':
            return z3.ArraySort(Obj, ObjMap)
        if field == '$alloc':
            return z3.ArraySort(Obj, z3.BoolSort())
        if field.startswith('$'):
            return self.fields[field]          # ghost globals: a z3 sort
        ty = self.fields[field]
        return z3.ArraySort(Obj, sort_of(ty))

    def set(self, field, arr):
        self.arrays[field] = arr

    def clone(self):
        return HeapView(self.fields, self.arrays, self.tag)


class Loop:
    """Invariant of one loop / comprehension, addressed by ordinal ('L0', 'L0.0', 'K0')."""

    def __init__(self, inv, modifies=(), decreases=None):
        self.inv = inv                # Ctx -> [(label, z3 Bool)]
        self.modifies = tuple(modifies)  # heap fields the body may change
        self.decreases = decreases


class Proc:
    """Contract of one function of /repo (or of an external/assumed dependency when source is None)."""

    def __init__(self, key, params, source=None, requires=None, ensures=None, raises=None, modifies=(),
                 loops=None, locals=None, calls=None, globals=None, result=OBJ, varargs=None,
                 defaults=None, trusted=False, note='', classname=None, finite=None, attr_alias=None,
                 opaque_calls=None, pure=False, ghost_pre=None, dynattr=None, setattr_=None, on_entry=None, pure_fn=None, may_raise=(),
                 not_assumed=()):
        self.key = key
        self.source = source          # 'ro.py:C3._merge' or None (assumed contract)
        self.params = list(params)    # [(name, Ty)]
        self.requires = requires or (lambda c: [])
        self.ensures = ensures or (lambda c: [])
        self.raises = raises or {}    # exc class -> (when(c) -> Bool, post(c) -> [(label,Bool)])
        self.modifies = tuple(modifies)
        self.loops = loops or {}
        self.locals = locals or {}    # type hints for locals
        self.calls = calls or {}      # call-site text -> callee key
        self.globals = globals or {}  # module-level names -> V
        self.result = result
        self.varargs = varargs
        self.defaults = defaults or {}
        self.trusted = trusted
        self.note = note
        self.classname = classname
        self.finite = finite or {}    # param -> list of python constants to case-split
        self.attr_alias = attr_alias or {}
        self.opaque_calls = opaque_calls or {}
        self.pure = pure
        self.ghost_pre = ghost_pre
        self.dynattr = dynattr or {}
        self.setattr_ = setattr_ or {}
        self.may_raise = tuple(may_raise)   # exception classes whose absence is NOT claimed (no obligation on those exits)
        self.pure_fn = pure_fn        # for side-effect-free total callees: Ctx -> z3 term of the result (no assumptions needed)
        self.on_entry = on_entry      # ghost statement executed when the body is entered: f(exec, state)
        self.not_assumed = tuple(not_assumed)   # labels of ensures clauses that are NOT proved on the current tree (recorded
        #                                         findings): stated and checked, but never assumed at call sites


class Registry:
    def __init__(self, fields=None):
        self.procs = {}
        self.fields = dict(fields or {})
        self.axioms = []              # [(label, z3 Bool)]
        self.lemmas = []              # [(label, hyps, goal)]
        self.class_parents = {}
        self.assumptions = []
        self.pending_axioms = []   # conclusions of induct(): usable by everything except their own proof

    def add(self, proc):
        self.procs[proc.key] = proc
        return proc

    def axiom(self, label, formula):
        self.axioms.append((label, formula))

    def lemma(self, label, hyps, goal, use_axioms=True):
        self.lemmas.append((label, hyps, goal, len(self.pending_axioms) if use_axioms else -1))

    def induct(self, label, bound, k, P, side=None, patterns=None, export=True):
        """Induction on the integer k >= 0:  prove P(0) and (side, k>=0, P(k) => P(k+1)); afterwards
        ``forall bound, k. k >= 0 and side => P(k)`` is available as an axiom.  ``bound`` are the other
        universally quantified variables (fresh constants in the two proof goals)."""
        side_f = side(k) if side else z3.BoolVal(True)
        self.lemma(label + ':base', [z3.substitute(side_f, (k, z3.IntVal(0)))] if side else [], P(z3.IntVal(0)))
        hyps = [k >= 0, P(k)]
        if side:
            hyps += [side_f, z3.substitute(side_f, (k, k + 1))]
        self.lemma(label + ':step', hyps, P(k + 1))
        body = z3.Implies(z3.And(k >= 0, side_f), P(k))
        if export:
            self.pending_axioms.append((label, z3.ForAll(list(bound) + [k], body, patterns=patterns or [])))
        # export=False: the conclusion is only used through ground instances a contract supplies by hand (ghost hooks)

    def by_simple_name(self, name):
        hits = [p for k, p in self.procs.items() if k.split(':')[-1].split('.')[-1] == name]
        return hits
