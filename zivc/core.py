"""Sorts, Python-level types, symbolic values and the prelude axioms."""
import itertools

import z3

Obj = z3.DeclareSort('Obj')
Name = z3.DeclareSort('Name')


class SeqFamily:
    """Finite sequences over one element sort, axiomatised in the Boogie/Dafny style over an
    uninterpreted sort (z3's built-in sequence theory proved unsound/unstable on our quantified
    queries -- see DESIGN appendix)."""
    by_sort = {}
    by_elem = {}

    def __init__(self, name, elem):
        self.name = name
        self.elem = elem
        S = self.sort = z3.DeclareSort(name)
        I = z3.IntSort()
        self.len = z3.Function(name + '_len', S, I)
        self.at = z3.Function(name + '_at', S, I, elem)
        self.empty = z3.Const(name + '_empty', S)
        self.unit = z3.Function(name + '_unit', elem, S)
        self.cat = z3.Function(name + '_cat', S, S, S)
        self.sub = z3.Function(name + '_sub', S, I, I, S)       # s[lo:hi], meaningful for 0<=lo<=hi<=len
        self.has = z3.Function(name + '_has', S, elem, z3.BoolSort())
        self.eq = z3.Function(name + '_eq', S, S, z3.BoolSort())
        self.idx = z3.Function(name + '_idx', S, elem, I)       # first index of x, -1 if absent
        SeqFamily.by_sort[S.name()] = self
        SeqFamily.by_elem[elem.name()] = self

    def axioms(self):
        S, E = self.sort, self.elem
        s, a, b = z3.Consts('%s_s %s_a %s_b' % ((self.name,) * 3), S)
        x, y = z3.Consts('%s_x %s_y' % ((self.name,) * 2), E)
        i, j, lo, hi = z3.Ints('%s_i %s_j %s_lo %s_hi' % ((self.name,) * 4))
        ln, at, cat, unit, sub, has, eq, idx = self.len, self.at, self.cat, self.unit, self.sub, self.has, self.eq, self.idx
        FA, Imp, And, Or, Not = z3.ForAll, z3.Implies, z3.And, z3.Or, z3.Not
        return [
            FA([s], ln(s) >= 0, patterns=[ln(s)]),
            ln(self.empty) == 0,
            FA([s], Imp(ln(s) == 0, s == self.empty), patterns=[ln(s)]),
            FA([x], ln(unit(x)) == 1, patterns=[unit(x)]),
            FA([x], at(unit(x), 0) == x, patterns=[unit(x)]),
            FA([a, b], ln(cat(a, b)) == ln(a) + ln(b), patterns=[cat(a, b)]),
            FA([a, b, i], And(Imp(And(0 <= i, i < ln(a)), at(cat(a, b), i) == at(a, i)),
                              Imp(And(ln(a) <= i, i < ln(a) + ln(b)), at(cat(a, b), i) == at(b, i - ln(a)))),
               patterns=[at(cat(a, b), i)]),
            FA([s, lo, hi], Imp(And(0 <= lo, lo <= hi, hi <= ln(s)), ln(sub(s, lo, hi)) == hi - lo),
               patterns=[sub(s, lo, hi)]),
            FA([s, lo, hi, j], Imp(And(0 <= lo, lo <= hi, hi <= ln(s), 0 <= j, j < hi - lo),
                                   at(sub(s, lo, hi), j) == at(s, lo + j)), patterns=[at(sub(s, lo, hi), j)]),
            FA([s, lo, hi, i], Imp(And(0 <= lo, lo <= i, i < hi, hi <= ln(s)),
                                   at(s, i) == at(sub(s, lo, hi), i - lo)),
               patterns=[z3.MultiPattern(at(s, i), sub(s, lo, hi))]),
            FA([s], sub(s, 0, ln(s)) == s, patterns=[sub(s, 0, ln(s))]),
            FA([s, lo], Imp(And(0 <= lo, lo <= ln(s)), sub(s, lo, lo) == self.empty), patterns=[sub(s, lo, lo)]),
            # membership
            FA([x], Not(has(self.empty, x)), patterns=[has(self.empty, x)]),
            FA([x, y], has(unit(y), x) == (x == y), patterns=[has(unit(y), x)]),
            FA([a, b, x], has(cat(a, b), x) == Or(has(a, x), has(b, x)), patterns=[has(cat(a, b), x)]),
            FA([s, i], Imp(And(0 <= i, i < ln(s)), has(s, at(s, i))), patterns=[has(s, at(s, i))]),
            FA([s, x], has(s, x) == z3.Exists([i], And(0 <= i, i < ln(s), at(s, i) == x)), patterns=[has(s, x)]),
            # extensionality
            FA([a, b], eq(a, b) == And(ln(a) == ln(b),
                                       FA([j], Imp(And(0 <= j, j < ln(a)), at(a, j) == at(b, j)))),
               patterns=[eq(a, b)]),
            FA([a, b], Imp(eq(a, b), a == b), patterns=[eq(a, b)]),
            # first index
            FA([s, x], And(-1 <= idx(s, x), idx(s, x) < ln(s),
                           Imp(idx(s, x) >= 0, at(s, idx(s, x)) == x),
                           Imp(idx(s, x) < 0, Not(has(s, x))),
                           FA([j], Imp(And(0 <= j, j < idx(s, x)), at(s, j) != x))), patterns=[idx(s, x)]),
        ]


_SEQO = SeqFamily('SeqO', Obj)
_SEQN = SeqFamily('SeqN', Name)
SeqO = _SEQO.sort
SeqN = _SEQN.sort
_SSO = SeqFamily('SSO', SeqO)
SSO = _SSO.sort
_SEQI = SeqFamily('SeqI', z3.IntSort())
SeqI = _SEQI.sort


def _fam(s):
    return SeqFamily.by_sort[s.sort().name()]


def is_seq_term(t):
    return t.sort().name() in SeqFamily.by_sort


def Length(s):
    return _fam(s).len(s)


def At(s, i):
    return _fam(s).at(s, i)


def Unit(x):
    if isinstance(x, int):
        x = z3.IntVal(x)
    return SeqFamily.by_elem[x.sort().name()].unit(x)


def Empty(sort):
    return SeqFamily.by_sort[sort.name()].empty


def Concat(*parts):
    r = parts[0]
    f = _fam(r)
    for p in parts[1:]:
        r = f.cat(r, p)
    return r


def Slice(s, lo, hi):
    return _fam(s).sub(s, lo, hi)


def SubSeq(s, offset, length):
    return _fam(s).sub(s, offset, offset + length)


def Contains(s, x):
    return _fam(s).has(s, x)


def SeqEq(a, b):
    return _fam(a).eq(a, b)


def IndexOf(s, x):
    return _fam(s).idx(s, x)


def SeqSortOf(elem_sort):
    return SeqFamily.by_elem[elem_sort.name()].sort


def _getitem(self, i):
    if is_seq_term(self):
        return At(self, i)
    raise TypeError('not subscriptable: %s' % self.sort())


z3.ExprRef.__getitem__ = _getitem
ObjMap = z3.ArraySort(Obj, Obj)          # contents of one dict

NONE = z3.Const('py_None', Obj)
NOTIMPL = z3.Const('py_NotImplemented', Obj)
ABSENT = z3.Const('py_absent', Obj)       # "no such key" marker inside dict contents
EMPTYNAME = z3.Const("str_empty", Name)
EMPTYMAP = z3.Const('py_emptydict', ObjMap)   # contents of {}

_counter = itertools.count()


def fresh(prefix, sort):
    return z3.Const('%s!%d' % (prefix, next(_counter)), sort)


class Ty:
    __slots__ = ('kind', 'args')

    def __init__(self, kind, *args):
        self.kind = kind
        self.args = args

    def __eq__(self, other):
        return isinstance(other, Ty) and self.kind == other.kind and self.args == other.args

    def __hash__(self):
        return hash((self.kind, self.args))

    def __repr__(self):
        if self.args:
            return '%s[%s]' % (self.kind, ','.join(map(repr, self.args)))
        return self.kind


INT = Ty('int')
BOOL = Ty('bool')
NAME = Ty('name')
OBJ = Ty('obj')
DICT = Ty('dict')      # heap reference; contents Obj -> Obj in field $dict


def SEQ(elem):         # immutable value (tuple; list handled by value)
    return Ty('seq', elem)


def LIST(elem):        # heap reference; contents in field $list  (elem is always obj)
    return Ty('list', elem)


def TUP(*elems):       # fixed-length heterogeneous tuple kept component-wise
    return Ty('tup', *elems)


SEQO = SEQ(OBJ)
SEQN = SEQ(NAME)
SEQSEQO = SEQ(SEQ(OBJ))
LISTO = LIST(OBJ)


def sort_of(ty):
    k = ty.kind
    if k == 'int':
        return z3.IntSort()
    if k == 'bool':
        return z3.BoolSort()
    if k == 'name':
        return Name
    if k in ('obj', 'list', 'dict'):
        return Obj
    if k == 'seq':
        return SeqSortOf(sort_of(ty.args[0]))
    raise TypeError('no sort for %r' % (ty,))


class V:
    """A symbolic Python value: a static type and a z3 term (or a tuple of V)."""
    __slots__ = ('ty', 't')

    def __init__(self, ty, t):
        self.ty = ty
        self.t = t

    def __repr__(self):
        return 'V(%r, %s)' % (self.ty, self.t)


def vint(t):
    return V(INT, z3.IntVal(t) if isinstance(t, int) else t)


def vbool(t):
    return V(BOOL, z3.BoolVal(t) if isinstance(t, bool) else t)


def vobj(t):
    return V(OBJ, t)


VNONE = V(OBJ, NONE)

# ---------------------------------------------------------------- boxing
box_int = z3.Function('box_int', z3.IntSort(), Obj)
unbox_int = z3.Function('unbox_int', Obj, z3.IntSort())
box_bool = z3.Function('box_bool', z3.BoolSort(), Obj)
unbox_bool = z3.Function('unbox_bool', Obj, z3.BoolSort())
box_name = z3.Function('box_name', Name, Obj)
unbox_name = z3.Function('unbox_name', Obj, Name)
box_seq = z3.Function('box_seq', SeqO, Obj)
unbox_seq = z3.Function('unbox_seq', Obj, SeqO)
is_int = z3.Function('py_is_int', Obj, z3.BoolSort())
is_name = z3.Function('py_is_name', Obj, z3.BoolSort())
is_seq = z3.Function('py_is_seq', Obj, z3.BoolSort())

is_dict = z3.Function('py_is_dict', Obj, z3.BoolSort())
is_list = z3.Function('py_is_list', Obj, z3.BoolSort())
truthy = z3.Function('truthy', Obj, z3.BoolSort())          # truth value of an opaque object
py_eq = z3.Function('py_eq', Obj, Obj, z3.BoolSort())       # a == b for opaque objects
name_lt = z3.Function('name_lt', Name, Name, z3.BoolSort())  # str <
name_cat = z3.Function('name_cat', Name, Name, Name)         # str +
typeof = z3.Function('typeof', Obj, Obj)                     # type(x) / x.__class__
subtype = z3.Function('subtype', Obj, Obj, z3.BoolSort())    # issubclass
dict_nonempty = z3.Function('dict_nonempty', ObjMap, z3.BoolSort())
dict_witness = z3.Function('dict_witness', ObjMap, Obj)
dict_keys = z3.Function('dict_keys', ObjMap, SeqO)
dict_update = z3.Function('dict_update', ObjMap, ObjMap, ObjMap)   # old.update(src)           # iteration order of a dict's keys


def prelude_axioms():
    i = z3.Int('ax_i')
    b = z3.Bool('ax_b')
    n, n2, n3 = z3.Consts('ax_n ax_n2 ax_n3', Name)
    s = z3.Const('ax_s', SeqO)
    o, o2 = z3.Consts('ax_o ax_o2', Obj)
    m = z3.Const('ax_m', ObjMap)
    m2 = z3.Const('ax_m2', ObjMap)
    k = z3.Int('ax_k')
    k2 = z3.Int('ax_k2')
    ax = []
    for fam in (_SEQO, _SEQN, _SSO, _SEQI):
        ax += [a for a in fam.axioms() if not z3.is_true(a)]
    ax += [
        z3.ForAll([i], z3.And(unbox_int(box_int(i)) == i, is_int(box_int(i))), patterns=[box_int(i)]),
        z3.ForAll([b], unbox_bool(box_bool(b)) == b, patterns=[box_bool(b)]),
        z3.ForAll([n], z3.And(unbox_name(box_name(n)) == n, is_name(box_name(n))), patterns=[box_name(n)]),
        z3.ForAll([s], z3.And(unbox_seq(box_seq(s)) == s, is_seq(box_seq(s))), patterns=[box_seq(s)]),
        z3.ForAll([i], z3.And(box_int(i) != NONE, box_int(i) != NOTIMPL, box_int(i) != ABSENT),
                  patterns=[box_int(i)]),
        z3.ForAll([n], z3.And(box_name(n) != NONE, box_name(n) != ABSENT), patterns=[box_name(n)]),
        z3.ForAll([s], z3.And(box_seq(s) != NONE, box_seq(s) != ABSENT), patterns=[box_seq(s)]),
        z3.ForAll([s], truthy(box_seq(s)) == (Length(s) > 0), patterns=[box_seq(s)]),
        z3.ForAll([n], truthy(box_name(n)) == (n != EMPTYNAME), patterns=[box_name(n)]),
        z3.ForAll([i], truthy(box_int(i)) == (i != 0), patterns=[box_int(i)]),
        NONE != NOTIMPL, NONE != ABSENT, NOTIMPL != ABSENT,
        z3.Not(is_dict(NONE)), z3.Not(is_list(NONE)), z3.Not(is_seq(NONE)), z3.Not(is_dict(ABSENT)),
        z3.ForAll([s], z3.And(z3.Not(is_dict(box_seq(s))), z3.Not(is_list(box_seq(s)))), patterns=[box_seq(s)]),
        z3.ForAll([o], z3.Not(z3.And(is_dict(o), is_list(o))), patterns=[is_dict(o), is_list(o)]),
        z3.ForAll([o], z3.Not(z3.And(is_dict(o), is_seq(o))), patterns=[is_dict(o), is_seq(o)]),
        z3.ForAll([o], z3.Not(z3.And(is_list(o), is_seq(o))), patterns=[is_list(o), is_seq(o)]),
        z3.Not(truthy(NONE)),
        z3.ForAll([b], truthy(box_bool(b)) == b, patterns=[box_bool(b)]),
        z3.ForAll([b], z3.And(box_bool(b) != NONE, box_bool(b) != ABSENT), patterns=[box_bool(b)]),
        z3.Not(is_int(NONE)), z3.Not(is_int(NOTIMPL)),
        z3.ForAll([o], py_eq(o, o), patterns=[py_eq(o, o)]),
        z3.ForAll([o, o2], py_eq(o, o2) == py_eq(o2, o), patterns=[py_eq(o, o2)]),
        z3.ForAll([o], z3.Not(py_eq(o, NONE)) == (o != NONE), patterns=[py_eq(o, NONE)]),
        # str ordering: strict total order
        z3.ForAll([n], z3.Not(name_lt(n, n)), patterns=[name_lt(n, n)]),
        z3.ForAll([n, n2, n3], z3.Implies(z3.And(name_lt(n, n2), name_lt(n2, n3)), name_lt(n, n3)),
                  patterns=[z3.MultiPattern(name_lt(n, n2), name_lt(n2, n3))]),
        z3.ForAll([n, n2], z3.Or(name_lt(n, n2), n == n2, name_lt(n2, n)), patterns=[name_lt(n, n2)]),
        # dict contents
        z3.ForAll([m, o], z3.Implies(m[o] != ABSENT, dict_nonempty(m)), patterns=[z3.MultiPattern(m[o], dict_nonempty(m))]),
        z3.ForAll([m], z3.Implies(dict_nonempty(m), m[dict_witness(m)] != ABSENT), patterns=[dict_nonempty(m)]),
        z3.ForAll([o], EMPTYMAP[o] == ABSENT, patterns=[EMPTYMAP[o]]),
        z3.Not(dict_nonempty(EMPTYMAP)),
        z3.ForAll([m, m2, o], dict_update(m, m2)[o] == z3.If(m2[o] != ABSENT, m2[o], m[o]),
                  patterns=[dict_update(m, m2)[o]]),
    ]
    return ax


def box(v):
    """Coerce a V into an Obj-sorted term."""
    k = v.ty.kind
    if k in ('obj', 'list', 'dict'):
        return v.t
    if k == 'int':
        return box_int(v.t)
    if k == 'bool':
        return box_bool(v.t)
    if k == 'name':
        return box_name(v.t)
    if k == 'seq':
        if v.ty.args[0].kind == 'obj':
            return box_seq(v.t)
        raise TypeError('cannot box %r' % (v.ty,))
    if k == 'tup':
        return box_seq(seq_of_tuple(v))
    raise TypeError('cannot box %r' % (v.ty,))


def seq_of_tuple(v):
    parts = [Unit(box(e)) for e in v.t]
    if not parts:
        return Empty(SeqO)
    return Concat(*parts)


def unbox(ty, t):
    k = ty.kind
    if k in ('obj', 'list', 'dict'):
        return V(ty, t)
    if k == 'int':
        return V(ty, unbox_int(t))
    if k == 'bool':
        return V(ty, unbox_bool(t))
    if k == 'name':
        return V(ty, unbox_name(t))
    if k == 'seq' and ty.args[0].kind == 'obj':
        return V(ty, unbox_seq(t))
    raise TypeError('cannot unbox to %r' % (ty,))


_strlits = {}


def strlit(s):
    """A Name constant for a Python string literal (distinctness added by strlit_axioms)."""
    if s == '':
        return EMPTYNAME
    if s not in _strlits:
        _strlits[s] = z3.Const('str_%d_%s' % (len(_strlits), ''.join(c if c.isalnum() else '_' for c in s)[:24]), Name)
    return _strlits[s]


def strlit_axioms():
    cs = [EMPTYNAME] + list(_strlits.values())
    return [z3.Distinct(*cs)] if len(cs) > 1 else []


_classes = {}


def classconst(name):
    if name not in _classes:
        _classes[name] = z3.Const('cls_' + name, Obj)
    return _classes[name]


def dict_keys_facts(m):
    """Facts about the key sequence of one particular (finite) dict content ``m``; assumed at use sites
    (a global axiom over all arrays would be inconsistent: an array can have infinitely many keys)."""
    k = z3.Int('dk_k')
    k2 = z3.Int('dk_k2')
    o = z3.Const('dk_o', Obj)
    alias = fresh('dictmap', ObjMap)      # keeps ite terms out of the quantifier patterns
    eq = alias == m
    m = alias
    ks = dict_keys(m)
    return [
        eq,
        z3.ForAll([k], z3.Implies(z3.And(0 <= k, k < Length(ks)), m[ks[k]] != ABSENT), patterns=[ks[k]]),
        z3.ForAll([k, k2], z3.Implies(z3.And(0 <= k, k < k2, k2 < Length(ks)), ks[k] != ks[k2]),
                  patterns=[z3.MultiPattern(ks[k], ks[k2])]),
        z3.ForAll([o], z3.Implies(m[o] != ABSENT, Contains(ks, o)), patterns=[m[o]]),
    ]


def ForAllP(vs, body, patterns=()):
    """ForAll with trigger patterns where z3 accepts them (a pattern that contains an if-then-else or an interpreted
    head, e.g. a select over a store that simplified, is rejected): fall back to z3's own trigger inference."""
    try:
        return z3.ForAll(vs, body, patterns=list(patterns))
    except z3.Z3Exception:
        return z3.ForAll(vs, body)
