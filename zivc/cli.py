"""./check <Cxx> [--tier quick|thorough] [--write-ledger] | ./check replay <file> | ./check list

Exit codes: 0 held, 1 violation (line ``VIOLATION property=<id> replay=<path>``),
2 undecided (contract no longer lines up with the code / resource limit), 3 checker error.
"""
import argparse
import z3 as z3lib
import hashlib
import importlib
import json
import os
import re
import shutil
import subprocess
import sys
import tempfile
import time
import traceback

VERIF = os.path.dirname(os.path.dirname(os.path.abspath(__file__)))
sys.path.insert(0, VERIF)
REPO = os.environ.get('VERIF_REPO', '/repo')
# evidence and replay files go to /verif unless a scratch run (self-test, seeded-change matrix on a copy) redirects them
OUT = os.environ.get('VERIF_OUT_DIR', VERIF)
PY = '/venv/bin/python'
PYINC = '/root/.pyenv/versions/3.12.1/include/python3.12'


def load_props():
    from contracts import PROPS
    return PROPS


def tree_fingerprint():
    try:
        head = subprocess.run(['git', '-C', REPO, 'rev-parse', 'HEAD'], capture_output=True, text=True).stdout.strip()
        diff = subprocess.run(['git', '-C', REPO, 'diff', 'HEAD', '--', 'src'], capture_output=True, text=True).stdout
        return head[:12] + '+' + hashlib.sha256(diff.encode()).hexdigest()[:12] if diff else head[:12]
    except Exception:
        return 'unknown'


def build_c_tree():
    """Copy the package out of /repo and compile the accelerator there; returns the scratch dir."""
    d = tempfile.mkdtemp(prefix='zi_verif_')
    os.makedirs(os.path.join(d, 'zope'))
    shutil.copytree(os.path.join(REPO, 'src', 'zope', 'interface'), os.path.join(d, 'zope', 'interface'),
                    ignore=shutil.ignore_patterns('*.so', '__pycache__', 'tests'))
    c = os.path.join(d, 'zope', 'interface', '_zope_interface_coptimizations.c')
    so = os.path.join(d, 'zope', 'interface', '_zope_interface_coptimizations.cpython-312-x86_64-linux-gnu.so')
    p = subprocess.run(['gcc', '-shared', '-fPIC', '-O1', '-w', '-I' + PYINC, c, '-o', so], capture_output=True, text=True)
    if p.returncode != 0:
        shutil.rmtree(d, ignore_errors=True)
        raise RuntimeError('C accelerator does not compile:\n' + p.stderr[-2000:])
    return d


def py_tree():
    return os.path.join(REPO, 'src')


def run_falsifier(prop, tier, seed, mode, tree, timeout):
    out = tempfile.NamedTemporaryFile('r', suffix='.json', delete=False)
    out.close()
    env = dict(os.environ)
    env.pop('PURE_PYTHON', None)
    if mode == 'py':
        env['PURE_PYTHON'] = '1'
    env['PYTHONHASHSEED'] = str(seed % 4294967295)
    cmd = [PY, os.path.join(VERIF, 'falsify', 'harness.py'), prop, '--tier', tier, '--seed', str(seed),
           '--mode', mode, '--tree', tree, '--out', out.name]
    t0 = time.time()
    try:
        p = subprocess.run(cmd, capture_output=True, text=True, env=env, timeout=timeout, cwd=VERIF)
        rc, err = p.returncode, (p.stdout + p.stderr)[-3000:]
    except subprocess.TimeoutExpired:
        rc, err = -9, 'falsifier timeout'
    try:
        with open(out.name) as f:
            data = json.load(f)
    except Exception:
        data = None
    os.unlink(out.name)
    return rc, data, err, time.time() - t0


def stable_labels(reports, lemma_pairs):
    """[(full label, Obligation, Result, proc key)] with per-procedure ordinals for repeated labels."""
    out = []
    for rep in reports:
        seen = {}
        for o, r in rep.obligations:
            base = re.sub(r'@\d+', '', o.label)
            n = seen.get(base, 0)
            seen[base] = n + 1
            out.append(('%s::%s#%d' % (rep.proc.key, base, n), o, r, rep.proc.key))
    for o, r in lemma_pairs:
        out.append(('lemma::%s' % o.label, o, r, 'lemma'))
    return out


def assumption_scan(regs):
    found = []
    for reg in regs:
        for k, p in reg.procs.items():
            if p.source is None:
                found.append('assumed contract (not verified): %s%s' % (k, ' -- ' + p.note if p.note else ''))
        for lbl, _ in reg.axioms:
            found.append('axiom (definition of a specification function): ' + lbl)
        for a in reg.assumptions:
            found.append(a)
    return found


STANDING = [
    'A1 Python semantics as encoded by zivc (DESIGN 1.3): ints mathematical, str only through =/< , attribute table typed',
    'A3 specification and registry graphs are acyclic',
    'A4 single interpreter with the GIL (CPython 3.12)',
    'A5 z3 / cvc5 are sound on the quantified UF+LIA+array fragment used (no built-in sequence theory)',
    'A6 the ast parser and zivc itself are correct (mitigated by seeded-change self tests, not proved)',
]


def main(argv=None):
    ap = argparse.ArgumentParser()
    ap.add_argument('prop')
    ap.add_argument('rest', nargs='*')
    ap.add_argument('--tier', default=os.environ.get('VERIF_TIER', 'quick'))
    ap.add_argument('--write-ledger', action='store_true')
    ap.add_argument('--no-falsify', action='store_true')
    ap.add_argument('--no-prove', action='store_true')
    args = ap.parse_args(argv)
    if args.prop == 'replay':
        return replay(args.rest[0])
    PROPS = load_props()
    if args.prop == 'list':
        for k in sorted(PROPS):
            print(k, PROPS[k].get('title', ''))
        return 0
    if args.prop not in PROPS:
        print('CHECKER-ERROR unknown property %s' % args.prop)
        return 3
    try:
        return check(args.prop, PROPS[args.prop], args)
    except Exception:
        traceback.print_exc()
        print('CHECKER-ERROR property=%s traceback in the machinery' % args.prop)
        return 3


def load_known():
    with open(os.path.join(VERIF, 'known_findings.json')) as f:
        return json.load(f)


def check(pid, cfg, args):
    t0 = time.time()
    seed = int(os.environ.get('VERIF_SEED', '0') or 0)
    tier = args.tier if args.tier in ('quick', 'thorough') else 'quick'
    known = [k for k in load_known().get('findings', []) if k['property'] == pid and k.get('status') == 'known']
    lines = []
    undecided = []
    errors = []
    regs = []
    labelled = []
    retry_items = {}
    reports = []
    solver_time = 0.0
    ledger_path = os.path.join(VERIF, 'ledger', pid + '.json')
    ledger = {}
    if os.path.exists(ledger_path):
        with open(ledger_path) as f:
            ledger = json.load(f).get('obligations', {})

    # ------------------------------------------------------------ deductive part
    ax_smoke_bad = False
    if not args.no_prove:
        from zivc import run as zrun, solve
        for modname in cfg.get('contracts', []):
            mod = importlib.import_module('contracts.' + modname)
            reg = mod.reg
            regs.append(reg)
            only = cfg.get('only', {}).get(modname)
            reps, lemma_pairs, ax_smoke, _t = zrun.verify_registry(reg, only=only, both=(tier == 'thorough'))
            reports.extend(reps)
            new_lab = stable_labels(reps, lemma_pairs)
            labelled.extend(new_lab)
            for lbl, o, r, _k in new_lab:
                if not r.discharged and not r.refuted:
                    retry_items[lbl] = solve.Lazy(zrun.all_axioms(reg), o.hyps, o.goal)
            if ax_smoke is not None and (ax_smoke.z3 == 'unsat' or ax_smoke.cvc5 == 'unsat'):
                ax_smoke_bad = True
            for rep in reps:
                if rep.smoke is not None and (rep.smoke.z3 == 'unsat' or rep.smoke.cvc5 == 'unsat'):
                    errors.append('vacuous precondition for %s' % rep.proc.key)
    if ax_smoke_bad:
        errors.append('axioms are inconsistent (smoke obligation proved false)')

    # ------------------------------------------------------------ C accelerator: ownership / call-out obligations (cfront)
    cfuncs = []
    if cfg.get('cfunctions') and not args.no_prove:
        from zivc import cfront, solve, symex
        import z3
        res = cfront.verify_functions(cfg['cfunctions'], returns=cfg.get('creturns'))
        for name in cfg['cfunctions']:
            status, obls, npaths, fdecl = res[name]
            cfuncs.append({'function': name, 'file': 'src/zope/interface/' + cfront.CFILE, 'language': 'c',
                           'status': status, 'paths': npaths, 'obligations': len(obls),
                           'lines': [fdecl['range']['begin'].get('line', fdecl['loc'].get('line')) if fdecl else None,
                                     fdecl['range']['end'].get('line') if fdecl else None] if fdecl else None})
            if status != 'ok':
                undecided.append('%s (C): %s' % (name, status))
                continue
            seen = {}
            for kind, ok, detail, trace in obls:
                n = seen.get(kind, 0)
                seen[kind] = n + 1
                r = solve.Result('%s::%s#%d' % (name, kind, n))
                # the formula handed to the back end is ground: the abstract execution already fixed the path
                goal = z3.BoolVal(bool(ok))
                r.z3 = 'unsat' if ok else 'sat'
                r.via = 'cfront-pathwise'
                r.model = None if ok else detail
                o = symex.Obligation('%s:%s' % (kind, detail[:160]), [], goal, 'c-' + kind, None, trace[-6:])
                labelled.append(('c:%s::%s#%d' % (name, kind, n), o, r, 'c:' + name))

    # ------------------------------------------------------------ C accelerator: functional contracts of the twins (cfun)
    cfun_assumptions = []
    from zivc import solve
    if cfg.get('cfun') and not args.no_prove:
        from zivc import cfun, solve, core, symex
        for modname in cfg['cfun']:
            cmod = importlib.import_module('contracts.' + modname)
            wanted = cfg.get('cfun_only', {}).get(modname)
            procs = [p for p in cmod.PROCS if not wanted or p.name in wanted]
            cfun_assumptions += list(getattr(cmod, 'ASSUMPTIONS', []))
            axioms = core.prelude_axioms() + core.strlit_axioms() + cfun.api_axioms() + list(cmod.AXIOMS)
            for lbl, hyps, goal in getattr(cmod, 'LEMMAS', []):
                # bridging lemmas (pure mathematics over the specification functions), proved on every run
                lr, = solve.discharge([(lbl, solve.Lazy(list(getattr(cmod, 'LEMMA_AXIOMS', axioms)), hyps, goal))])
                labelled.append(('cfun-lemma:%s::%s#0' % (modname, lbl), symex.Obligation('lemma:' + lbl, hyps, goal, 'lemma'), lr, 'lemma'))
            for p, status, detail, obls, npaths, ex in cfun.verify_cprocs(procs, cmod.FIELDS):
                cfuncs.append({'function': p.name, 'file': 'src/zope/interface/_zope_interface_coptimizations.c',
                               'language': 'c', 'kind': 'functional contract (cfun)', 'status': status, 'paths': npaths, 'obligations': len(obls)})
                if status != 'ok':
                    undecided.append('%s (C, functional): %s: %s' % (p.name, status, detail))
                    continue
                items = [(o.label, solve.Lazy(axioms, o.hyps, o.goal)) for o in obls]
                seen = {}
                for o, r in zip(obls, solve.discharge(items, both=(tier == 'thorough'))):
                    n = seen.get(o.label, 0)
                    seen[o.label] = n + 1
                    labelled.append(('cfun:%s::%s#%d' % (p.name, o.label, n), o, r, 'cfun:' + p.name))
                    if not r.discharged and not r.refuted:
                        retry_items['cfun:%s::%s#%d' % (p.name, o.label, n)] = solve.Lazy(axioms, o.hyps, o.goal)
                if ex is not None:
                    sm = solve.discharge([('smoke', solve.Lazy(axioms, ex.pre, z3lib.BoolVal(False)))], z3_timeout=1500, use_cvc5=False, single_pass=True)[0]
                    if sm.z3 == 'unsat':
                        errors.append('vacuous precondition for C function %s' % p.name)
                if not obls:
                    errors.append('zero obligations generated for C function %s' % p.name)

    # retry open obligations once (few at a time, larger budget): robustness against load-induced timeouts.  Only clauses the
    # committed ledger records as discharged are retried -- an obligation that was never discharged stays open.
    if retry_items and not args.no_prove:
        def _clause(lbl):
            return lbl.rsplit('#', 1)[0]
        known_clauses = {_clause(l) for l, rec in ledger.items() if rec.get('discharged')}
        open_ = [(lbl, o, r) for lbl, o, r, _ in labelled if lbl in retry_items and not r.discharged and not r.refuted
                 and (_clause(lbl) in known_clauses or args.write_ledger)
                 and not any(k.get('obligation') and re.search(k['obligation'], lbl) for k in known)]
        if open_ and len(open_) <= 64:
            items = [(lbl, retry_items[lbl]) for lbl, o, r in open_]
            for (lbl, o, r), rr in zip(open_, solve.discharge(items, jobs=4, z3_timeout=30000)):
                if rr.discharged:
                    r.z3, r.cvc5 = rr.z3, rr.cvc5
                    r.time += rr.time

    n_obl = len(labelled)
    n_dis = sum(1 for _, _, r, _ in labelled if r.discharged)
    solver_time = sum(r.time for _, _, r, _ in labelled)
    by_backend = {}
    for _, _, r, _ in labelled:
        if r.discharged:
            by_backend[r.backend] = by_backend.get(r.backend, 0) + 1
    failed = [(lbl, o, r) for lbl, o, r, _ in labelled if not r.discharged]
    for rep in reports:
        if rep.status != 'ok':
            undecided.append('%s: %s: %s' % (rep.proc.key, rep.status, rep.detail.strip().splitlines()[-1][:300] if rep.detail else ''))
    if not args.no_prove and cfg.get('contracts') and n_obl == 0 and not undecided:
        errors.append('zero obligations generated')

    n_obl = len(labelled)
    n_dis = sum(1 for _, _, r, _ in labelled if r.discharged)
    failed = [(lbl, o, r) for lbl, o, r, _ in labelled if not r.discharged]
    by_backend = {}
    for _, _, r, _ in labelled:
        if r.discharged:
            by_backend[r.backend] = by_backend.get(r.backend, 0) + 1
    # known-finding obligations
    known_obl = []
    new_failed = []
    for lbl, o, r in failed:
        k = next((k for k in known if k.get('obligation') and re.search(k['obligation'], lbl)), None)
        if k:
            known_obl.append((lbl, k))
        else:
            new_failed.append((lbl, o, r))

    # ------------------------------------------------------------ bounded part (falsifier / witness search)
    fals = []
    ctree = None
    witnesses = []
    known_wit = []
    fal_cfg = cfg.get('falsifier')
    try:
        if fal_cfg and not args.no_falsify:
            modes = cfg.get('modes', ['py'])
            for mode in modes:
                if mode == 'c':
                    try:
                        ctree = ctree or build_c_tree()
                    except RuntimeError as e:
                        errors.append(str(e))
                        continue
                    tree = ctree
                else:
                    tree = py_tree()
                rc, data, err, wall = run_falsifier(pid, tier, seed, mode, tree,
                                                    cfg.get('timeout', 600 if tier == 'quick' else 3000))
                if data is None:
                    if rc < 0 and rc != -9:
                        # the interpreter died (signal): memory safety violation of the accelerator
                        data = {'evaluations': 0, 'distinct': 0, 'violations': [
                            {'sig': 'interpreter-crash:%d' % rc, 'what': 'interpreter killed by signal %d during the bounded run (%s mode)' % (-rc, mode),
                             'script': None, 'known': None}], 'samples': [], 'rule': ''}
                    else:
                        errors.append('falsifier (%s mode) produced no result: rc=%s %s' % (mode, rc, err[-500:]))
                        continue
                data['mode'] = mode
                data['wall_s'] = wall
                fals.append(data)
                for v in data.get('violations', []):
                    v['mode'] = mode
                    if v.get('harness_error'):
                        errors.append('falsifier (%s mode): %s' % (mode, v['what'][-800:]))
                        continue
                    k = next((k for k in known if k.get('witness') and v.get('known') == k['witness']), None)
                    if k:
                        known_wit.append((v, k))
                    else:
                        witnesses.append(v)
        if cfg.get('differential'):
            tr = {d['mode']: d.get('traces') for d in fals if d.get('traces')}
            if 'c' in tr and 'py' in tr:
                for prog in sorted(tr['c']):
                    a, b = tr['c'][prog], tr['py'].get(prog, [])
                    diffs = [(x, y) for x, y in zip(a, b) if x != y]
                    if len(a) != len(b):
                        diffs.append((['length', str(len(a))], ['length', str(len(b))]))
                    for x, y in diffs[:3]:
                        witnesses.append({'sig': 'differs:%s:%s' % (prog, x[0]), 'mode': 'c', 'known': None,
                                          'what': 'program %s, step %s: with the C accelerator %s, in PURE_PYTHON mode %s' % (prog, x[0], x[1][:200], y[1][:200]),
                                          'script': 'from falsify.%s import replay\nreplay(%r)\n' % (cfg['falsifier'], prog)})
            elif not errors:
                errors.append('differential check needs the traces of both implementations')
    finally:
        if ctree:
            shutil.rmtree(ctree, ignore_errors=True)

    # ------------------------------------------------------------ verdict
    os.makedirs(os.path.join(OUT, 'replays', pid), exist_ok=True)
    exit_code = 0
    printed_known = set()
    for lbl, k in known_obl:
        printed_known.add(k['id'])
    for v, k in known_wit:
        printed_known.add(k['id'])
    # a known finding that no longer shows is fine (nothing printed); one that shows is announced
    for k in known:
        if k['id'] in printed_known:
            lines.append('KNOWN-FINDING: property=%s %s' % (pid, k['what']))
    nviol = 0
    replay_path = None
    # An obligation is a contract clause of a function (``function::kind:label``); the ``#n`` suffix only numbers the paths
    # it was generated on.  A clause that the committed ledger records as discharged on every path of the unchanged tree and
    # that is not discharged now -- on an old path or on a path the change introduced -- counts as "discharged before,
    # fails now".
    def clause(lbl):
        return lbl.rsplit('#', 1)[0]
    ledger_clauses = {}
    for l_lbl, l_rec in ledger.items():
        ledger_clauses.setdefault(clause(l_lbl), []).append(bool(l_rec.get('discharged')))
    proved_before = {c for c, flags in ledger_clauses.items() if all(flags)}
    in_ledger_failed = [(lbl, o, r) for lbl, o, r in new_failed if clause(lbl) in proved_before]
    not_in_ledger_failed = [(lbl, o, r) for lbl, o, r in new_failed if clause(lbl) not in proved_before]
    if witnesses or in_ledger_failed:
        nviol = len(witnesses) + (len(in_ledger_failed) if not witnesses else 0)
        rec = {
            'property': pid, 'tree': tree_fingerprint(), 'tier': tier, 'seed': seed,
            'failed_obligations': [{'obligation': lbl, 'z3': r.z3, 'cvc5': r.cvc5, 'reason': r.reason,
                                    'model': r.model, 'solver_output': r.raw, 'path': o.trace,
                                    'goal': str(o.goal)[:2000]} for lbl, o, r in new_failed],
            'witnesses': witnesses,
        }
        h = hashlib.sha256(json.dumps(rec, sort_keys=True, default=str).encode()).hexdigest()[:10]
        replay_path = os.path.join(OUT, 'replays', pid, '%s.%s.json' % (
            re.sub(r'[^A-Za-z0-9_.]+', '_', (witnesses[0]['sig'] if witnesses else in_ledger_failed[0][0]))[:80], h))
        with open(replay_path, 'w') as f:
            json.dump(rec, f, indent=1, default=str)
        tail = '' if witnesses and witnesses[0].get('script') else ' no-failing-input-found'
        lines.append('VIOLATION property=%s replay=%s%s' % (pid, replay_path, tail))
        for lbl, o, r in new_failed[:10]:
            lines.append('  failed obligation: %s (z3=%s cvc5=%s)' % (lbl, r.z3, r.cvc5))
        for w in witnesses[:5]:
            lines.append('  witness (%s mode): %s' % (w.get('mode'), w['what'][:300]))
        exit_code = 1
    elif errors:
        for e in errors:
            lines.append('CHECKER-ERROR property=%s %s' % (pid, e))
        exit_code = 3
    elif undecided or not_in_ledger_failed:
        for u in undecided:
            lines.append('UNDECIDED property=%s obligation=%s reason=contract-shape' % (pid, u))
        for lbl, o, r in not_in_ledger_failed:
            lines.append('UNDECIDED property=%s obligation=%s reason=not-discharged-and-not-in-ledger (z3=%s cvc5=%s)' % (pid, lbl, r.z3, r.cvc5))
        exit_code = 2

    # ledger consistency: obligations that silently disappeared
    missing = [l for l in ledger if l not in {x[0] for x in labelled}] if ledger and not args.no_prove and not args.write_ledger else []
    if missing and exit_code == 0:
        lines.append('UNDECIDED property=%s obligation=%s reason=obligation-set-changed (%d obligations of the ledger were not generated)' % (pid, missing[0], len(missing)))
        exit_code = 2

    if args.write_ledger:
        os.makedirs(os.path.join(VERIF, 'ledger'), exist_ok=True)
        with open(ledger_path, 'w') as f:
            json.dump({'property': pid, 'tree': tree_fingerprint(), 'obligations': {
                lbl: {'discharged': r.discharged, 'backend': r.backend, 'time_s': round(r.time, 3)}
                for lbl, o, r, _ in labelled}}, f, indent=1, sort_keys=True)

    # ------------------------------------------------------------ evidence
    funcs = list(cfuncs)
    for rep in reports:
        if rep.fsrc is not None:
            funcs.append({'function': rep.proc.key, 'file': 'src/zope/interface/' + rep.fsrc.relpath,
                          'lines': [rep.fsrc.lineno, rep.fsrc.end_lineno], 'ast_sha256_16': rep.fsrc.sha,
                          'language': 'python', 'status': rep.status, 'paths': rep.paths,
                          'obligations': len(rep.obligations)})
    evals = sum(d.get('evaluations', 0) for d in fals)
    distinct = sum(d.get('distinct', 0) for d in fals)
    samples = []
    for lbl, o, r, _ in labelled[:3]:
        samples.append({'obligation': lbl, 'hypotheses': len(o.hyps), 'goal': str(o.goal)[:400], 'verdict': r.z3 or r.cvc5})
    for d in fals:
        samples.extend(d.get('samples', [])[:3])
    level = cfg.get('level', 'proof')
    all_discharged = (n_obl > 0 and n_dis == n_obl)
    if level == 'proof' and not all_discharged:
        level = 'other'
    coverage = {
        'obligations': n_obl, 'discharged': n_dis,
        'checker_cmd': './check %s --tier %s' % (pid, tier),
        'trusted_base': STANDING + assumption_scan(regs) + cfun_assumptions,
        'obligations_by_backend': by_backend, 'solver_time_s': round(solver_time, 2),
        'functions_under_contract': funcs,
        'c_obligation_kinds': 'U use-after-callout, L reference balance, N NULL, B stale bound, St stale store (zivc/cfront.py)' if cfuncs else '',
        'lemmas': [{'lemma': lbl, 'status': 'proved (%s)' % r.backend if r.discharged else 'open'}
                   for lbl, o, r, key in labelled if key == 'lemma'],
        'failed_obligations': [lbl for lbl, _, _ in failed],
        'known_findings_printed': sorted(printed_known),
        'undecided': undecided,
        'bounded_standins': [{'mode': d['mode'], 'rule': d.get('rule', ''), 'evaluations': d.get('evaluations', 0),
                              'distinct_nontrivial': d.get('distinct', 0), 'wall_s': round(d.get('wall_s', 0), 1),
                              'bounds': d.get('bounds', ''), 'counted_as_proved': False} for d in fals],
        'evaluations': max(evals, 1), 'distinct_nontrivial': max(distinct, 2) if distinct >= 2 else distinct,
        'rule': '; '.join(sorted({d.get('rule', '') for d in fals})),
        'samples': samples or ['(none)'],
        'not_decided': cfg.get('not_decided', []),
        'explanation': cfg.get('explanation', ''),
        'tree': tree_fingerprint(),
    }
    ev = {'property_id': pid, 'tier': tier, 'seed': seed, 'level': level, 'coverage': coverage,
          'assumptions': STANDING + assumption_scan(regs) + cfun_assumptions + cfg.get('assumptions', []),
          'wall_s': round(time.time() - t0, 2), 'violations': nviol}
    os.makedirs(os.path.join(OUT, 'evidence'), exist_ok=True)
    with open(os.path.join(OUT, 'evidence', pid + '.json'), 'w') as f:
        json.dump(ev, f, indent=1, default=str)
    for ln in lines:
        print(ln)
    print('%s: %d/%d obligations discharged (%s), %d bounded evaluations, %d known finding(s), exit %d, %.1fs' % (
        pid, n_dis, n_obl, ', '.join('%s %d' % kv for kv in sorted(by_backend.items())) or '-', evals,
        len(printed_known), exit_code, time.time() - t0))
    return exit_code


def replay(path):
    with open(path) as f:
        rec = json.load(f)
    bad = 0
    for w in rec.get('witnesses', []):
        if not w.get('script'):
            continue
        mode = w.get('mode', 'py')
        ctree = None
        try:
            tree = py_tree()
            env = dict(os.environ)
            env.pop('PURE_PYTHON', None)
            if mode == 'c':
                ctree = build_c_tree()
                tree = ctree
            else:
                env['PURE_PYTHON'] = '1'
            boot = ("import sys\nimport zope\nzope.__path__.insert(0, %r)\nsys.path.insert(0, %r)\n" % (
                os.path.join(tree, 'zope'), VERIF))
            p = subprocess.run([PY, '-c', boot + w['script']], capture_output=True, text=True, env=env, timeout=300)
            print('replay (%s mode) rc=%d: %s' % (mode, p.returncode, (p.stdout + p.stderr).strip()[-600:]))
            if p.returncode != 0:
                bad += 1
        finally:
            if ctree:
                shutil.rmtree(ctree, ignore_errors=True)
    for fo in rec.get('failed_obligations', []):
        print('failed obligation: %s (z3=%s cvc5=%s)' % (fo['obligation'], fo['z3'], fo['cvc5']))
    print('VIOLATION reproduced' if bad else 'no witness script reproduced a violation on this tree')
    return 1 if bad else 0


if __name__ == '__main__':
    sys.exit(main())
