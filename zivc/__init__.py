"""zivc -- a small contract verifier for the Python sources of zope.interface.

pyfront/symex: typed symbolic execution of the *real* function bodies (re-read
from /repo through ``ast`` on every run), loops cut at invariants, calls
replaced by callee contracts, every proof goal handed to z3 (cvc5 second).
See /verif/DESIGN.md sections 1-3.
"""
