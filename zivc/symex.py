"""Typed symbolic execution of a Python function body into proof obligations.

One run of :class:`Exec` on a procedure produces a list of obligations
``(label, hypotheses, goal)``; the procedure satisfies its contract for all
inputs and all iteration counts iff every ``hyps => goal`` is valid.
"""
import ast

from .core import *  # noqa
from .spec import Ctx, HeapView, Loop, Proc

EXC_PARENTS = {
    'BaseException': None, 'Exception': 'BaseException',
    'TypeError': 'Exception', 'ValueError': 'Exception', 'KeyError': 'LookupError',
    'IndexError': 'LookupError', 'LookupError': 'Exception', 'AttributeError': 'Exception',
    'StopIteration': 'Exception', 'AssertionError': 'Exception', 'RuntimeError': 'Exception',
    'NotImplementedError': 'RuntimeError',
    'InconsistentResolutionOrderError': 'TypeError', '_UseLegacyRO': 'Exception',
    'Invalid': 'Exception', 'DoesNotImplement': 'Invalid', 'BrokenImplementation': 'Invalid',
    'BrokenMethodImplementation': 'Invalid', 'MultipleInvalid': 'Invalid',
    'InvalidInterface': 'Exception', 'OtherError': 'Exception',
    'ComponentLookupError': 'LookupError',
}


def exc_subclass(a, b):
    while a is not None:
        if a == b:
            return True
        a = EXC_PARENTS.get(a, 'Exception' if a not in ('BaseException',) else None)
        if a == 'Exception' and b == 'Exception':
            return True
    return False


class Unsupported(Exception):
    def __init__(self, node, why=''):
        self.node = node
        self.why = why
        line = getattr(node, 'lineno', '?')
        Exception.__init__(self, 'unsupported construct %s at line %s %s' % (
            type(node).__name__ if not isinstance(node, str) else node, line, why))


# outcomes of executing a statement list
FALL, RET, RAISE, BRK, CONT = 'fall', 'return', 'raise', 'break', 'continue'


class Out:
    __slots__ = ('kind', 'val', 'exc')

    def __init__(self, kind, val=None, exc=None):
        self.kind = kind
        self.val = val
        self.exc = exc


class St:
    """One symbolic path."""

    def __init__(self, heap):
        self.pc = []
        self.env = {}
        self.heap = heap
        self.cur_exc = None
        self.trace = []

    def clone(self):
        s = St(self.heap.clone())
        s.pc = list(self.pc)
        s.env = dict(self.env)
        s.cur_exc = self.cur_exc
        s.trace = list(self.trace)
        return s

    def assume(self, f):
        if z3.is_true(f):
            return
        self.pc.append(f)


class Obligation:
    def __init__(self, label, hyps, goal, kind='post', line=None, trace=None):
        self.label = label
        self.hyps = hyps
        self.goal = goal
        self.kind = kind
        self.line = line
        self.trace = trace or []


def truth(v):
    """z3 Bool for Python truthiness of V."""
    k = v.ty.kind
    if k == 'bool':
        return v.t
    if k == 'int':
        return v.t != 0
    if k == 'name':
        return v.t != EMPTYNAME
    if k == 'seq':
        return Length(v.t) > 0
    if k == 'tup':
        return z3.BoolVal(len(v.t) > 0)
    if k == 'obj':
        return truthy(v.t)
    raise TypeError('truth of %r needs the heap' % (v.ty,))


class Exec:
    MAX_PATHS = 4000

    def __init__(self, proc, registry, fsrc):
        self.proc = proc
        self.reg = registry
        self.fsrc = fsrc
        self.obls = []
        self.loop_counter = {}
        self.paths_ended = 0
        self.entry_heap = None
        self.args = None
        self.reach = []           # path conditions at normal/exceptional exits (vacuity smoke)
        self.nloops_seen = set()

    # ------------------------------------------------------------ utilities
    def oblige(self, st, label, goal, kind='post', node=None):
        if z3.is_true(goal):
            # still count as a (trivially discharged) obligation? no: skip syntactically true goals
            return
        self.obls.append(Obligation(label, list(st.pc), goal, kind, getattr(node, 'lineno', None), list(st.trace)))

    def mangle(self, attr):
        cn = self.proc.classname or (self.fsrc.classname if self.fsrc else None)
        if attr.startswith('__') and not attr.endswith('__') and cn:
            return '_%s%s' % (cn.lstrip('_'), attr)
        return attr

    def field(self, attr):
        attr = self.mangle(attr)
        attr = self.proc.attr_alias.get(attr, attr)
        attr = FIELD_ALIAS.get(attr, attr)
        if attr not in self.reg.fields:
            raise Unsupported(attr, 'attribute %r has no declared type' % attr)
        return attr, self.reg.fields[attr]

    def read_field(self, st, objterm, attr):
        f, ty = self.field(attr)
        arr = st.heap.get(f)
        return V(ty, z3.Select(arr, objterm))

    def write_field(self, st, objterm, attr, v):
        f, ty = self.field(attr)
        v = self.coerce(v, ty, st)
        st.heap.set(f, z3.Store(st.heap.get(f), objterm, v.t))

    def listval(self, st, ref):
        return z3.Select(st.heap.get('$list'), ref)

    def set_listval(self, st, ref, seq):
        st.heap.set('$list', z3.Store(st.heap.get('$list'), ref, seq))

    def dictval(self, st, ref):
        return z3.Select(st.heap.get('$dict'), ref)

    def set_dictval(self, st, ref, m):
        st.heap.set('$dict', z3.Store(st.heap.get('$dict'), ref, m))

    def fresh_ref(self, st, prefix='new'):
        r = fresh(prefix, Obj)
        al = st.heap.get('$alloc')
        st.assume(z3.Not(z3.Select(al, r)))
        st.assume(z3.And(r != NONE, r != ABSENT, r != NOTIMPL))
        st.heap.set('$alloc', z3.Store(al, r, True))
        if prefix == 'list':
            st.assume(is_list(r))          # a freshly built list object is a list (and hence neither a tuple nor a dict)
        elif prefix in ('dict', 'set'):
            st.assume(is_dict(r))
        return r

    def truth(self, st, v):
        k = v.ty.kind
        if k == 'list':
            return z3.And(v.t != NONE, Length(self.listval(st, v.t)) > 0)
        if k == 'dict':
            return z3.And(v.t != NONE, dict_nonempty(self.dictval(st, v.t)))
        if k == 'obj' and self.proc.locals.get('$containers'):
            o = v.t
            return z3.If(is_dict(o), dict_nonempty(self.dictval(st, o)),
                         z3.If(is_list(o), Length(self.listval(st, o)) > 0,
                               z3.If(is_seq(o), Length(unbox_seq(o)) > 0, truthy(o))))
        return truth(v)

    def coerce(self, v, ty, st=None):
        """Make V fit the static type ty (boxing/unboxing, tuple -> seq)."""
        if v.ty == ty:
            return v
        k, vk = ty.kind, v.ty.kind
        if k == 'obj':
            return V(OBJ, box(v))
        if vk == 'obj' and k == 'seq' and ty.args[0].kind == 'obj' and st is not None:
            return V(ty, z3.If(is_seq(v.t), unbox_seq(v.t), self.listval(st, v.t)))
        if vk == 'obj':
            return unbox(ty, v.t)
        if k == 'seq' and vk == 'tup':
            et = ty.args[0]
            parts = [Unit(self.coerce(e, et, st).t) for e in v.t]
            if not parts:
                return V(ty, Empty(sort_of(ty)))
            return V(ty, Concat(*parts))
        if k == 'seq' and vk == 'list' and st is not None and ty.args[0].kind == 'obj':
            return V(ty, self.listval(st, v.t))
        if k == 'seq' and vk == 'seq':
            # element-wise coercions are not supported implicitly
            raise Unsupported('coerce', '%r -> %r' % (v.ty, ty))
        if k == 'bool' and vk in ('int',):
            return V(BOOL, v.t != 0)
        if k == 'int' and vk == 'bool':
            return V(INT, z3.If(v.t, 1, 0))
        if k in ('list', 'dict') and vk in ('list', 'dict', 'obj'):
            return V(ty, v.t)
        raise Unsupported('coerce', '%r -> %r' % (v.ty, ty))

    def ctx(self, st, **kw):
        return Ctx(self.args, st.heap, self.entry_heap, **kw)

FIELD_ALIAS = {}   # e.g. '__bases__' -> '_bases' (properties that only forward); filled by contracts

CMP = {ast.Lt: lambda a, b: a < b, ast.LtE: lambda a, b: a <= b,
       ast.Gt: lambda a, b: a > b, ast.GtE: lambda a, b: a >= b}


class _Expr:
    """Expression evaluation.  ``ev(node, st)`` returns [(state, V)] for normal results;
    exceptional results are appended to ``self.raised`` as (state, Out)."""

    def ev(self, node, st):
        m = getattr(self, 'ev_' + type(node).__name__, None)
        if m is None:
            raise Unsupported(node)
        return m(node, st)

    def ev1(self, node, st):
        r = self.ev(node, st)
        if len(r) != 1:
            raise Unsupported(node, 'expression forks where a single value is needed')
        return r[0]

    def ev_list(self, nodes, st):
        """Evaluate expressions left to right: [(state, [V...])]."""
        res = [(st, [])]
        for n in nodes:
            nxt = []
            for s, vs in res:
                for s2, v in self.ev(n, s):
                    nxt.append((s2, vs + [v]))
            res = nxt
        return res

    def raise_(self, st, exc, val=None):
        st.cur_exc = exc
        self.raised.append((st, Out(RAISE, val, exc)))

    # -------------------------------------------------------------- atoms
    def ev_Constant(self, node, st):
        c = node.value
        if c is None:
            return [(st, VNONE)]
        if isinstance(c, bool):
            return [(st, vbool(c))]
        if isinstance(c, int):
            return [(st, vint(c))]
        if isinstance(c, str):
            return [(st, V(NAME, strlit(c)))]
        if c is Ellipsis:
            return [(st, vobj(classconst('Ellipsis')))]
        raise Unsupported(node, 'constant %r' % (c,))

    def ev_Name(self, node, st):
        n = node.id
        if n in st.env:
            return [(st, st.env[n])]
        if n in self.proc.globals:
            return [(st, self.proc.globals[n])]
        if n in GLOBALS:
            return [(st, GLOBALS[n])]
        if n == 'NotImplemented':
            return [(st, vobj(NOTIMPL))]
        raise Unsupported(node, 'unknown name %r' % n)

    def ev_Tuple(self, node, st):
        if any(isinstance(e, ast.Starred) for e in node.elts):
            # (*a, b) : concatenate sequences
            out = []
            for s, vs in self.ev_list([e.value if isinstance(e, ast.Starred) else e for e in node.elts], st):
                parts = []
                for e, v in zip(node.elts, vs):
                    if isinstance(e, ast.Starred):
                        parts.append(self.coerce(v, SEQO, s).t)
                    else:
                        parts.append(Unit(box(v)))
                out.append((s, V(SEQO, Concat(*parts))))
            return out
        return [(s, V(TUP(*[v.ty for v in vs]), tuple(vs))) for s, vs in self.ev_list(node.elts, st)]

    def ev_List(self, node, st):
        out = []
        for s, vs in self.ev_list(node.elts, st):
            r = self.fresh_ref(s, 'list')
            v = self.coerce(V(TUP(*[x.ty for x in vs]), tuple(vs)), SEQO, s)
            self.set_listval(s, r, v.t)
            out.append((s, V(LISTO, r)))
        return out

    def ev_Dict(self, node, st):
        if node.keys:
            raise Unsupported(node, 'non-empty dict literal')
        r = self.fresh_ref(st, 'dict')
        self.set_dictval(st, r, EMPTYMAP)
        h = self.proc.locals.get('$on_alloc')
        if h is not None:
            # ghost initialisation of a freshly allocated object (rigid ghost tags: the invariants that mention them only
            # constrain allocated objects, so the tags of an object may be chosen at the moment it is allocated)
            lits = [n for n in ast.walk(self.fsrc.node) if isinstance(n, ast.Dict)]
            lits.sort(key=lambda n: (n.lineno, n.col_offset))
            h(self, st, r, [id(n) for n in lits].index(id(node)))
        return [(st, V(DICT, r))]

    def ev_JoinedStr(self, node, st):
        return [(st, V(NAME, fresh('fstr', Name)))]

    # -------------------------------------------------------------- attribute / subscript
    def ev_Attribute(self, node, st):
        out = []
        key = self.proc.calls.get('@' + ast.unparse(node))
        if key is not None:      # a property: reading it is a call
            for s, recv in self.ev(node.value, st):
                out.extend(self.apply_contract(node, s, self.reg.procs[key],
                                               {self.reg.procs[key].params[0][0]: recv}))
            return out
        for s, recv in self.ev(node.value, st):
            out.extend(self.getattr_(node, s, recv, node.attr))
        return out

    def getattr_(self, node, st, recv, attr):
        attr_m = self.mangle(attr)
        dyn = self.proc.dynattr.get(attr_m) or DYNATTR.get(attr_m)
        if recv.ty.kind == 'dict' and attr == 'get':
            return [(st, V(Ty('bound_get'), recv))]
        if recv.ty.kind not in ('obj', 'list', 'dict'):
            raise Unsupported(node, 'attribute %s of %r' % (attr, recv.ty))
        if dyn is not None:
            return dyn(self, node, st, recv)
        f = self.proc.attr_alias.get(attr_m, attr_m)
        f = FIELD_ALIAS.get(f, f)
        if f not in self.reg.fields:
            hits = [h for h in self.reg.by_simple_name(attr) if h.params and h.params[0][0] in ('self', 'cls')]
            if len(hits) == 1:
                return [(st, V(Ty('bound'), (hits[0], recv)))]
        return [(st, self.read_field(st, recv.t, attr))]

    def instdict(self, node):
        """``obj.__dict__[<str constant>]``: (obj expression, attribute name) when the contract asks for instance
        dictionaries to be modelled as attribute storage (locals {'$instdict': True}), else None"""
        if not self.proc.locals.get('$instdict'):
            return None
        v = node.value if isinstance(node, ast.Subscript) else None
        if isinstance(v, ast.Attribute) and v.attr == '__dict__' and isinstance(node.slice, ast.Constant) \
                and isinstance(node.slice.value, str):
            return v.value, node.slice.value
        return None

    def ev_Subscript(self, node, st):
        out = []
        idk = self.instdict(node)
        if idk is not None:
            for s, recv in self.ev(idk[0], st):
                v = self.read_field(s, recv.t, idk[1])
                if v.ty.kind != 'obj':
                    raise Unsupported(node, 'instance dictionary entry %r must be declared with type obj' % idk[1])
                miss = s.clone()
                miss.assume(v.t == ABSENT)
                self.raise_(miss, 'KeyError')
                s.assume(v.t != ABSENT)
                out.append((s, v))
            return out
        for s, base in self.ev(node.value, st):
            if isinstance(node.slice, ast.Slice):
                out.extend(self.slice_(node, s, base, node.slice))
            else:
                for s2, idx in self.ev(node.slice, s):
                    out.extend(self.index_(node, s2, base, idx))
        return out

    def seqterm(self, st, v, node=None):
        k = v.ty.kind
        if k == 'seq':
            return v.t, v.ty.args[0]
        if k == 'list':
            return self.listval(st, v.t), OBJ
        if k == 'tup':
            return seq_of_tuple(v), OBJ
        if k == 'obj':
            # a tuple (boxed value) or a list (heap reference), decided dynamically
            return z3.If(is_seq(v.t), unbox_seq(v.t), self.listval(st, v.t)), OBJ
        raise Unsupported(node or 'seq', 'not a sequence: %r' % (v.ty,))

    def index_(self, node, st, base, idx):
        k = base.ty.kind
        if k == 'dict' or (k == 'obj' and self.proc.locals.get('$objdict')):
            if self.proc.locals.get('$dict_may_be_none'):
                nn = st.clone()
                nn.assume(base.t == NONE)
                self.raise_(nn, 'TypeError')
                st.assume(base.t != NONE)
            m = self.dictval(st, base.t)
            key = box(idx)
            val = z3.Select(m, key)
            miss = st.clone()
            miss.assume(val == ABSENT)
            self.raise_(miss, 'KeyError')
            st.assume(val != ABSENT)
            return [(st, vobj(val))]
        if k == 'tup':
            if isinstance(node.slice, ast.Constant) and isinstance(node.slice.value, int):
                return [(st, base.t[node.slice.value])]
            if isinstance(node.slice, ast.UnaryOp) and isinstance(node.slice.op, ast.USub):
                return [(st, base.t[-node.slice.operand.value])]
            raise Unsupported(node, 'non-constant index into fixed tuple')
        s, et = self.seqterm(st, base, node)
        i = self.coerce(idx, INT, st).t
        n = Length(s)
        i = z3.simplify(z3.If(i < 0, i + n, i)) if _maybe_negative(node.slice) else i
        self.oblige(st, 'index-in-bounds@%s' % node.lineno, z3.And(0 <= i, i < n), 'safety', node)
        st.assume(z3.And(0 <= i, i < n))
        return [(st, V(et, s[i]))]

    def slice_(self, node, st, base, sl):
        if sl.step is not None:
            if isinstance(sl.step, ast.UnaryOp) and sl.lower is None and sl.upper is None:
                s, et = self.seqterm(st, base, node)
                return [(st, V(SEQ(et), self.reverse_seq(st, s, et)))]
            raise Unsupported(node, 'slice step')
        s, et = self.seqterm(st, base, node)
        n = Length(s)

        def bound(e, dflt, s0):
            if e is None:
                return [(s0, dflt)]
            res = []
            for s1, v in self.ev(e, s0):
                t = self.coerce(v, INT, s1).t
                t = z3.If(t < 0, z3.If(t + n < 0, 0, t + n), z3.If(t > n, n, t))
                res.append((s1, t))
            return res
        out = []
        for s1, lo in bound(sl.lower, z3.IntVal(0), st):
            for s2, hi in bound(sl.upper, n, s1):
                ln = z3.If(hi - lo < 0, 0, hi - lo)
                out.append((s2, V(SEQ(et), SubSeq(s, lo, z3.simplify(ln)))))
        return out

    def named(self, st, term):
        """A fresh constant equal to term (keeps ite/arithmetics out of quantifier patterns)."""
        if z3.is_const(term) and term.decl().kind() == z3.Z3_OP_UNINTERPRETED:
            return term
        c = fresh('t', term.sort())
        st.assume(c == term)
        return c

    def reverse_seq(self, st, s, et):
        s = self.named(st, s)
        r = fresh('rev', SeqSortOf(sort_of(et)))
        j = z3.Int('rv_j')
        st.assume(Length(r) == Length(s))
        st.assume(z3.ForAll([j], z3.Implies(z3.And(0 <= j, j < Length(s)), r[j] == s[Length(s) - 1 - j]),
                            patterns=[r[j]]))
        return r

    # -------------------------------------------------------------- operators
    def ev_UnaryOp(self, node, st):
        out = []
        for s, v in self.ev(node.operand, st):
            if isinstance(node.op, ast.Not):
                out.append((s, vbool(z3.Not(self.truth(s, v)))))
            elif isinstance(node.op, ast.USub):
                out.append((s, vint(-self.coerce(v, INT, s).t)))
            else:
                raise Unsupported(node)
        return out

    def ev_BoolOp(self, node, st):
        # Python returns one of the operands.  When the later operands are pure single-path expressions the
        # result is merged with ite (no path split); otherwise we fork on truthiness.
        merged = self.boolop_merged(node, st)
        if merged is not None:
            return merged

        def go(s, vals):
            res = []
            for s1, v in self.ev(vals[0], s):
                if len(vals) == 1:
                    res.append((s1, v))
                    continue
                t = self.truth(s1, v)
                stay, cont = s1.clone(), s1
                if isinstance(node.op, ast.And):
                    stay.assume(z3.Not(t)); cont.assume(t)
                else:
                    stay.assume(t); cont.assume(z3.Not(t))
                if not self.dead(stay):
                    res.append((stay, v))
                if not self.dead(cont):
                    res.extend(go(cont, vals[1:]))
            return res
        return go(st, node.values)

    def boolop_merged(self, node, st):
        first = self.ev(node.values[0], st)
        if len(first) != 1:
            return None
        s, acc = first[0]
        vals = [acc]
        nraised, nobl, npc = len(self.raised), len(self.obls), len(s.pc)
        for e in node.values[1:]:
            probe = s.clone()
            try:
                rs = self.ev(e, probe)
            except Unsupported:
                rs = []
            if len(rs) != 1 or len(self.raised) != nraised or len(self.obls) != nobl or len(rs[0][0].pc) != npc \
                    or any(not a.eq(b) for a, b in zip(rs[0][0].heap.arrays.values(), s.heap.arrays.values())) \
                    or len(rs[0][0].heap.arrays) != len(s.heap.arrays):
                del self.raised[nraised:]
                del self.obls[nobl:]
                return None if len(vals) == 1 else None
            vals.append(rs[0][1])
        kinds = {v.ty for v in vals}
        if len(kinds) > 1 or vals[0].ty.kind == 'tup':
            try:
                vals = [V(OBJ, box(v)) for v in vals]
            except TypeError:
                return None
        ty = vals[0].ty
        res = vals[-1].t
        for v in reversed(vals[:-1]):
            t = self.truth(s, v)
            res = z3.If(t, res, v.t) if isinstance(node.op, ast.And) else z3.If(t, v.t, res)
        return [(s, V(ty, res))]

    def infeasible(self, st, cond):
        """True only when z3 refutes path condition AND cond (quantifier-free reading of the hypotheses is enough here)"""
        sv = z3.Solver()
        sv.set('timeout', 400)
        for f in st.pc:
            sv.add(f)
        sv.add(cond)
        return sv.check() == z3.unsat

    def dead(self, st):
        """Cheap syntactic infeasibility test (keeps the path count down)."""
        for f in st.pc[-2:]:
            if z3.is_false(z3.simplify(f)):
                return True
        return False

    def ev_IfExp(self, node, st):
        out = []
        for s, c in self.ev(node.test, st):
            t = self.truth(s, c)
            a, b = s, s.clone()
            a.assume(t); b.assume(z3.Not(t))
            if not self.dead(a):
                out.extend(self.ev(node.body, a))
            if not self.dead(b):
                out.extend(self.ev(node.orelse, b))
        return out

    def ev_BinOp(self, node, st):
        out = []
        for s, (l, r) in [(s, tuple(vs)) for s, vs in self.ev_list([node.left, node.right], st)]:
            out.append((s, self.binop(node, s, node.op, l, r)))
        return out

    def binop(self, node, st, op, l, r):
        lk, rk = l.ty.kind, r.ty.kind
        if isinstance(op, ast.Add):
            if lk in ('int', 'bool') and rk in ('int', 'bool'):
                return vint(self.coerce(l, INT).t + self.coerce(r, INT).t)
            if lk == 'name' and rk == 'name':
                return V(NAME, name_cat(l.t, r.t))
            if lk in ('seq', 'tup', 'list') or rk in ('seq', 'tup', 'list'):
                ls, le = self.seqterm(st, l, node)
                rs, re_ = self.seqterm(st, r, node)
                if le != re_ and {le.kind, re_.kind} == {'obj', 'seq'} and self.proc.locals.get('$lists_of_lists'):
                    # [[x]] + [seq, ...]: a list whose elements are lists/tuples themselves, concatenated with a sequence of
                    # sequences: lift the object elements to the sequences they hold (a list by its current content)
                    def lift(sq):
                        r_ = fresh('lifted', SSO)
                        j = z3.Int('lf_j')
                        st.assume(Length(r_) == Length(sq))
                        st.assume(z3.ForAll([j], z3.Implies(z3.And(0 <= j, j < Length(sq)), r_[j] == z3.If(
                            is_seq(sq[j]), unbox_seq(sq[j]), self.listval(st, sq[j]))), patterns=[r_[j]]))
                        return r_
                    if le.kind == 'obj':
                        ls, le = lift(ls), re_
                    else:
                        rs, re_ = lift(rs), le
                    return V(SEQ(le), Concat(ls, rs))
                if le != re_:
                    raise Unsupported(node, 'concat of %r and %r' % (l.ty, r.ty))
                if lk == 'list' or rk == 'list':
                    ref = self.fresh_ref(st, 'list')
                    self.set_listval(st, ref, Concat(ls, rs))
                    return V(LISTO, ref)
                return V(SEQ(le), Concat(ls, rs))
        if isinstance(op, (ast.Add, ast.Sub)) and {lk, rk} == {'obj', 'int'}:
            a = unbox_int(l.t) if lk == 'obj' else l.t
            b = unbox_int(r.t) if rk == 'obj' else r.t
            return vint(a + b if isinstance(op, ast.Add) else a - b)
        if isinstance(op, ast.Sub) and lk in ('int', 'bool') and rk in ('int', 'bool'):
            return vint(self.coerce(l, INT).t - self.coerce(r, INT).t)
        if isinstance(op, ast.Mult) and lk == 'int' and rk == 'int':
            return vint(l.t * r.t)
        if isinstance(op, ast.BitAnd) and lk == 'int' and rk == 'int':
            return vint(bit_and(l.t, r.t))
        if isinstance(op, ast.Mod) and lk == 'name':
            return V(NAME, fresh('fmt', Name))
        hook = self.proc.locals.get('$binop_' + type(op).__name__.lower())
        if hook is not None and lk == 'obj':
            (st2, v), = hook(self, node, st, [l, r])      # user-defined operator of an object: model supplied by the contract
            return v
        raise Unsupported(node, 'binop %s on %r, %r' % (type(op).__name__, l.ty, r.ty))

    def ev_Compare(self, node, st):
        out = []
        for s, vs in self.ev_list([node.left] + node.comparators, st):
            conj = []
            for op, a, b in zip(node.ops, vs, vs[1:]):
                conj.append(self.compare(node, s, op, a, b))
            out.append((s, vbool(conj[0] if len(conj) == 1 else z3.And(*conj))))
        return out

    def same(self, st, a, b):
        """identity (``is``) of two values as a z3 Bool"""
        ak, bk = a.ty.kind, b.ty.kind
        if ak == bk and ak in ('int', 'bool', 'name', 'seq') and a.ty == b.ty:
            return a.t == b.t
        return box(a) == box(b)

    def equal(self, node, st, a, b):
        ak, bk = a.ty.kind, b.ty.kind
        if ak in ('int', 'bool') and bk in ('int', 'bool'):
            return self.coerce(a, INT).t == self.coerce(b, INT).t
        if ak == 'obj' and bk in ('int', 'bool') and self.proc.locals.get('$int_eq'):
            return unbox_int(a.t) == self.coerce(b, INT).t
        if ak == 'name' and bk == 'name':
            return a.t == b.t
        if ak == 'tup' and bk == 'tup':
            if len(a.t) != len(b.t):
                return z3.BoolVal(False)
            return z3.And(*[self.equal(node, st, x, y) for x, y in zip(a.t, b.t)]) if a.t else z3.BoolVal(True)
        if self.proc.locals.get('$seq_eq_pyeq') and 'tup' in (ak, bk) and ak in ('seq', 'tup', 'list') and bk in ('seq', 'tup', 'list'):
            # tuple == : same length and element-wise (identity or ==); one side has a statically known length
            fixed, other = (a, b) if ak == 'tup' else (b, a)
            so, eo = self.seqterm(st, other, node)
            if eo.kind != 'obj':
                raise Unsupported(node, '== of %r and %r' % (a.ty, b.ty))
            return z3.And(Length(so) == len(fixed.t), *[py_eq(so[i], box(x)) for i, x in enumerate(fixed.t)])
        if ak in ('seq', 'tup', 'list') and bk in ('seq', 'tup', 'list'):
            sa, ea = self.seqterm(st, a, node)
            sb, eb = self.seqterm(st, b, node)
            if ea != eb:
                raise Unsupported(node, '== of %r and %r' % (a.ty, b.ty))
            if ea.kind == 'obj' and not self.proc.locals.get('$seq_eq_identity', True):
                raise Unsupported(node, 'sequence == with user __eq__')
            return SeqEq(sa, sb)      # element == is identity-or-py_eq; see DESIGN 1.3 (keys compared by identity)
        if ak == 'obj' and bk == 'obj':
            return py_eq(a.t, b.t)
        if ak == 'obj' or bk == 'obj':
            return py_eq(box(a), box(b))
        raise Unsupported(node, '== of %r and %r' % (a.ty, b.ty))

    def compare(self, node, st, op, a, b):
        if isinstance(op, ast.Is):
            return self.same(st, a, b)
        if isinstance(op, ast.IsNot):
            return z3.Not(self.same(st, a, b))
        if isinstance(op, ast.Eq):
            return self.equal(node, st, a, b)
        if isinstance(op, ast.NotEq):
            return z3.Not(self.equal(node, st, a, b))
        if isinstance(op, (ast.In, ast.NotIn)):
            r = self.contains(node, st, b, a)
            return r if isinstance(op, ast.In) else z3.Not(r)
        ak, bk = a.ty.kind, b.ty.kind
        if ak == 'obj' and bk in ('int', 'bool'):
            a, ak = V(INT, unbox_int(a.t)), 'int'
        if bk == 'obj' and ak in ('int', 'bool'):
            b, bk = V(INT, unbox_int(b.t)), 'int'
        if ak in ('int', 'bool') and bk in ('int', 'bool'):
            return CMP[type(op)](self.coerce(a, INT).t, self.coerce(b, INT).t)
        if ak == 'name' and bk == 'name':
            return self.name_cmp(op, a.t, b.t)
        if ak == 'tup' and bk == 'tup' and len(a.t) == len(b.t) and all(x.ty.kind == 'name' for x in a.t + b.t):
            # lexicographic comparison of equally long tuples of str
            lt = z3.BoolVal(False)
            eq = z3.BoolVal(True)
            for x, y in reversed(list(zip(a.t, b.t))):
                lt = z3.Or(name_lt(x.t, y.t), z3.And(x.t == y.t, lt))
            for x, y in zip(a.t, b.t):
                eq = z3.And(eq, x.t == y.t)
            gt = z3.And(z3.Not(lt), z3.Not(eq))
            return {ast.Lt: lt, ast.LtE: z3.Or(lt, eq), ast.Gt: gt, ast.GtE: z3.Or(gt, eq)}[type(op)]
        raise Unsupported(node, 'ordering of %r and %r' % (a.ty, b.ty))

    def name_cmp(self, op, x, y):
        lt = name_lt(x, y)
        eq = x == y
        return {ast.Lt: lt, ast.LtE: z3.Or(lt, eq), ast.Gt: z3.And(z3.Not(lt), z3.Not(eq)),
                ast.GtE: z3.Not(lt)}[type(op)]

    def contains(self, node, st, container, item):
        k = container.ty.kind
        if k == 'dict':
            return z3.Select(self.dictval(st, container.t), box(item)) != ABSENT
        if k in ('seq', 'list', 'tup'):
            s, et = self.seqterm(st, container, node)
            it = self.coerce(item, et, st)
            if et.kind == 'obj' and self.proc.locals.get('$in_uses_eq'):
                j = fresh('in_j', z3.IntSort())
                jj = z3.Int('in_jj')
                return z3.Exists([jj], z3.And(0 <= jj, jj < Length(s), py_eq(s[jj], it.t)))
            return Contains(s, it.t)
        if k == 'obj' and self.proc.locals.get('$containers') and self.proc.locals.get('$in_uses_eq'):
            # a tuple value or a list object, decided dynamically; `in` compares with == (identity first)
            s, et = self.seqterm(st, container, node)
            jj = z3.Int('in_jj')
            return z3.Exists([jj], z3.And(0 <= jj, jj < Length(s), py_eq(s[jj], box(item))))
        if k == 'obj':
            h = CONTAINS_HOOK.get('default')
            if h:
                return h(self, st, container, item)
        raise Unsupported(node, "'in' on %r" % (container.ty,))


def _maybe_negative(n):
    if isinstance(n, ast.Constant):
        return isinstance(n.value, int) and n.value < 0
    if isinstance(n, ast.UnaryOp) and isinstance(n.op, ast.USub):
        return True
    return False


bit_and = z3.Function('bit_and', z3.IntSort(), z3.IntSort(), z3.IntSort())
GLOBALS = {}
DYNATTR = {}        # attribute name -> handler(exec, node, st, recv) -> [(st, V)]
CONTAINS_HOOK = {}


class _Calls:
    def ev_Call(self, node, st):
        f = node.func
        text = ast.unparse(f)
        # 1. explicit resolution given by the contract
        key = self.proc.calls.get(text)
        if key is not None:
            if callable(key):
                return key(self, node, st)
            return self.call_contract(node, st, self.reg.procs[key], recv_node=self.recv_of(f, key))
        if isinstance(f, ast.Name):
            b = getattr(self, 'bi_' + f.id, None)
            if b is not None and f.id not in st.env:
                return b(node, st)
            hits = self.reg.by_simple_name(f.id)
            if len(hits) == 1 and f.id not in st.env:
                return self.call_contract(node, st, hits[0])
            if f.id in st.env and st.env[f.id].ty.kind == 'bound_get':
                return self.dm_get(node, st, st.env[f.id].t)
            if f.id in st.env and st.env[f.id].ty.kind == 'bound':
                callee, recv = st.env[f.id].t
                return self.call_contract(node, st, callee, recv=recv)
            if f.id in st.env or f.id in self.proc.opaque_calls:
                return self.call_opaque(node, st)
            raise Unsupported(node, 'call of %s: no contract' % text)
        if isinstance(f, ast.Attribute) and text in self.proc.opaque_calls and isinstance(f.value, ast.Name) and \
                f.value.id not in st.env and f.value.id not in self.proc.globals:
            return self.call_opaque(node, st)          # Class.method(self, ...) with a model supplied by the contract
        if isinstance(f, ast.Attribute) and f.attr == 'get' and self.proc.locals.get('$instdict') and \
                isinstance(f.value, ast.Attribute) and f.value.attr == '__dict__' and node.args and \
                isinstance(node.args[0], ast.Constant) and isinstance(node.args[0].value, str) and not node.keywords:
            out = []
            for s, vs in self.ev_list([f.value.value] + list(node.args[1:2]), st):
                cur = self.read_field(s, vs[0].t, node.args[0].value)
                dflt = box(vs[1]) if len(vs) > 1 else NONE
                out.append((s, vobj(z3.If(cur.t == ABSENT, dflt, cur.t))))
            return out
        if isinstance(f, ast.Attribute):
            out = []
            for s, recv in self.ev(f.value, st):
                out.extend(self.call_method(node, s, recv, f.attr))
            return out
        raise Unsupported(node, 'call form')

    def recv_of(self, f, key):
        p = self.reg.procs[key]
        if isinstance(f, ast.Attribute) and p.params and p.params[0][0] in ('self', 'cls'):
            return f.value
        return None

    # ---------------------------------------------------------------- methods of builtin types
    def call_method(self, node, st, recv, meth):
        k = recv.ty.kind
        if k in ('list',):
            m = getattr(self, 'lm_' + meth, None)
            if m:
                return m(node, st, recv)
        if k == 'dict':
            m = getattr(self, 'dm_' + meth, None)
            if m:
                return m(node, st, recv)
        if k == 'seq' and meth == 'append' and isinstance(node.func.value, ast.Name) and self.proc.locals.get('$value_lists'):
            # a list this function built itself (comprehension / display) and holds in one local only, kept by value:
            # x.append(v) rebinds the local.  The contract asserts the absence of aliases ('$value_lists', listed).
            out = []
            for s, (v,) in self.args1(node, st, 1):
                cur = s.env[node.func.value.id]
                et = cur.ty.args[0]
                s.env[node.func.value.id] = V(cur.ty, Concat(cur.t, Unit(self.coerce(v, et, s).t)))
                out.append((s, VNONE))
            return out
        if k == 'seq' and meth == 'index':
            return self.sm_index(node, st, recv)
        if k == 'name':
            return [(st, self.name_method(node, st, recv, meth))]
        if k == 'obj' and meth in ('get',) and self.proc.locals.get('$containers'):
            self.oblige(st, 'receiver-is-dict', is_dict(recv.t), 'safety', node)
            st.assume(is_dict(recv.t))
            return self.dm_get(node, st, V(DICT, recv.t))
        if k == 'obj':
            text = ast.unparse(node.func)
            if text in self.proc.opaque_calls or ('.' + meth) in self.proc.opaque_calls:
                return self.call_opaque(node, st, recv=recv)
            hits = self.reg.by_simple_name(meth)
            hits = [h for h in hits if h.params and h.params[0][0] in ('self', 'cls')]
            if len(hits) == 1:
                return self.call_contract(node, st, hits[0], recv=recv)
            if len(hits) > 1:
                raise Unsupported(node, 'ambiguous method %s: %s' % (meth, [h.key for h in hits]))
        raise Unsupported(node, 'method %s on %r' % (meth, recv.ty))

    def args1(self, node, st, n=None):
        if node.keywords or any(isinstance(a, ast.Starred) for a in node.args):
            raise Unsupported(node, 'call arguments')
        if n is not None and len(node.args) != n:
            raise Unsupported(node, 'arity')
        return self.ev_list(node.args, st)

    def lm_append(self, node, st, recv):
        out = []
        for s, (v,) in self.args1(node, st, 1):
            self.set_listval(s, recv.t, Concat(self.listval(s, recv.t), Unit(box(v))))
            out.append((s, VNONE))
        return out

    def lm_extend(self, node, st, recv):
        out = []
        for s, (v,) in self.args1(node, st, 1):
            sq, et = self.seqterm(s, v, node)
            self.set_listval(s, recv.t, Concat(self.listval(s, recv.t), sq))
            out.append((s, VNONE))
        return out

    def lm_insert(self, node, st, recv):
        out = []
        for s, (i, v) in self.args1(node, st, 2):
            cur = self.listval(s, recv.t)
            it = self.coerce(i, INT).t
            if not (z3.is_int_value(it) and it.as_long() == 0):
                raise Unsupported(node, 'insert at non-zero index')
            self.set_listval(s, recv.t, Concat(Unit(box(v)), cur))
            out.append((s, VNONE))
        return out

    def sm_index(self, node, st, recv):
        out = []
        for s, (v,) in self.args1(node, st, 1):
            sq, et = self.seqterm(s, recv, node)
            it = self.coerce(v, et, s).t
            idx = IndexOf(sq, it)
            miss = s.clone()
            miss.assume(idx < 0)
            self.raise_(miss, 'ValueError')
            s.assume(idx >= 0)
            out.append((s, vint(idx)))
        return out

    def dm_get(self, node, st, recv):
        out = []
        for s, vs in self.args1(node, st):
            m = self.dictval(s, recv.t)
            val = z3.Select(m, box(vs[0]))
            dflt = box(vs[1]) if len(vs) > 1 else NONE
            out.append((s, vobj(z3.If(val == ABSENT, dflt, val))))
        return out

    def dm_clear(self, node, st, recv):
        self.set_dictval(st, recv.t, EMPTYMAP)
        return [(st, VNONE)]

    def dm_copy(self, node, st, recv):
        r = self.fresh_ref(st, 'dict')
        self.set_dictval(st, r, self.dictval(st, recv.t))
        return [(st, V(DICT, r))]

    def dm_keys(self, node, st, recv):
        for f in dict_keys_facts(self.dictval(st, recv.t)):
            st.assume(f)
        return [(st, V(SEQO, dict_keys(self.dictval(st, recv.t))))]

    def dm_pop(self, node, st, recv):
        out = []
        for s, vs in self.args1(node, st):
            m = self.dictval(s, recv.t)
            key = box(vs[0])
            val = z3.Select(m, key)
            if len(vs) == 1:
                miss = s.clone()
                miss.assume(val == ABSENT)
                self.raise_(miss, 'KeyError')
                s.assume(val != ABSENT)
                res = val
            else:
                res = z3.If(val == ABSENT, box(vs[1]), val)
            self.set_dictval(s, recv.t, z3.Store(m, key, ABSENT))
            out.append((s, vobj(res)))
        return out

    def name_method(self, node, st, recv, meth):
        if meth == 'find':
            return vint(fresh('find', z3.IntSort()))
        raise Unsupported(node, 'str method ' + meth)

    # ---------------------------------------------------------------- builtins
    def bi_len(self, node, st):
        out = []
        for s, (v,) in self.args1(node, st, 1):
            if v.ty.kind == 'dict':
                raise Unsupported(node, 'len(dict)')
            sq, _ = self.seqterm(s, v, node)
            out.append((s, vint(Length(sq))))
        return out

    def bi_tuple(self, node, st):
        if not node.args:
            return [(st, V(SEQO, Empty(SeqO)))]
        out = []
        for s, (v,) in self.args1(node, st, 1):
            if v.ty.kind == 'seq':
                out.append((s, v))
            elif v.ty.kind == 'items':
                out.append((s, v))        # tuple(d.items()): the (key, value) pairs of that mapping; kept as the mapping itself
            else:
                sq, et = self.seqterm(s, v, node)
                out.append((s, V(SEQ(et), sq)))
        return out

    def bi_list(self, node, st):
        out = []
        if not node.args:
            r = self.fresh_ref(st, 'list')
            self.set_listval(st, r, Empty(SeqO))
            return [(st, V(LISTO, r))]
        for s, (v,) in self.args1(node, st, 1):
            sq, et = self.seqterm(s, v, node)
            if et.kind != 'obj':
                out.append((s, V(SEQ(et), sq)))       # list of non-objects kept by value
                continue
            r = self.fresh_ref(s, 'list')
            self.set_listval(s, r, sq)
            out.append((s, V(LISTO, r)))
        return out

    def bi_isinstance(self, node, st):
        out = []
        for s, v in self.ev(node.args[0], st):
            cls = node.args[1]
            names = [ast.unparse(e) for e in cls.elts] if isinstance(cls, ast.Tuple) else [ast.unparse(cls)]
            if names == ['str']:
                if v.ty.kind == 'name':
                    out.append((s, vbool(True)))
                else:
                    out.append((s, vbool(is_name(box(v)))))
                continue
            if v.ty.kind in ('seq', 'list') and set(names) <= {'list', 'tuple'}:
                # a value the contract types as a sequence: whether it is a list or a tuple is not tracked (sequences are
                # modelled by value); the check is taken to hold (only met in `assert isinstance(x, list)`)
                out.append((s, vbool(True)))
                continue
            if v.ty.kind != 'obj':
                raise Unsupported(node, 'isinstance on %r' % (v.ty,))
            out.append((s, vbool(z3.Or(*[subtype(typeof(v.t), classconst(n)) for n in names]))))
        return out

    def bi_getattr(self, node, st):
        if len(node.args) == 3 and isinstance(node.args[1], ast.Constant):
            out = []
            attr = node.args[1].value
            for s, (o, d) in self.ev_list([node.args[0], node.args[2]], st):
                has = z3.Function('hasattr_' + attr, Obj, z3.BoolSort())
                val = self.read_field(s, o.t, attr)
                if val.ty.kind == 'obj':
                    out.append((s, vobj(z3.If(has(o.t), val.t, box(d)))))
                elif val.ty == d.ty and val.ty.kind != 'tup':
                    out.append((s, V(val.ty, z3.If(has(o.t), val.t, d.t))))
                else:
                    a, b = s, s.clone()
                    a.assume(has(o.t)); b.assume(z3.Not(has(o.t)))
                    out.append((a, val)); out.append((b, d))
            return out
        raise Unsupported(node, 'getattr form')

    def bi_issubclass(self, node, st):
        out = []
        cls = node.args[1]
        names = [ast.unparse(e) for e in cls.elts] if isinstance(cls, ast.Tuple) else [ast.unparse(cls)]
        for s, v in self.ev(node.args[0], st):
            out.append((s, vbool(z3.Or(*[subtype(box(v), classconst(n)) for n in names]))))
        return out

    def bi_hasattr(self, node, st):
        if len(node.args) != 2 or not isinstance(node.args[1], ast.Constant):
            raise Unsupported(node, 'hasattr form')
        out = []
        for s, v in self.ev(node.args[0], st):
            out.append((s, vbool(z3.Function('hasattr_' + node.args[1].value, Obj, z3.BoolSort())(box(v)))))
        return out

    def bi_type(self, node, st):
        out = []
        for s, (v,) in self.args1(node, st, 1):
            out.append((s, vobj(typeof(box(v)))))
        return out

    def bi_reversed(self, node, st):
        out = []
        for s, (v,) in self.args1(node, st, 1):
            sq, et = self.seqterm(s, v, node)
            out.append((s, V(SEQ(et), self.reverse_seq(s, sq, et))))
        return out

    def bi_iter(self, node, st):
        return self.ev(node.args[0], st)

    def bi_callable(self, node, st):
        out = []
        for s, (v,) in self.args1(node, st, 1):
            out.append((s, vbool(z3.Function('callable', Obj, z3.BoolSort())(box(v)))))
        return out

    def bi_any(self, node, st):
        return self.quant_gen(node, st, True)

    def bi_all(self, node, st):
        return self.quant_gen(node, st, False)

    def quant_gen(self, node, st, is_any):
        g = node.args[0]
        if not isinstance(g, (ast.GeneratorExp, ast.ListComp)) or len(g.generators) != 1 or g.generators[0].ifs:
            raise Unsupported(node, 'any/all form')
        gen = g.generators[0]
        out = []
        for s, itv in self.ev(gen.iter, st):
            sq, et = self.seqterm(s, itv, node)
            if et.kind == 'obj':
                # quantify over the members (set-like reasoning is easier for the solver than index arithmetic)
                sq = self.named(s, sq)
                x = z3.Const('q_x%d' % node.lineno, Obj)
                body = self.pure_eval(g.elt, s, gen.target, V(et, x))
                t = self.truth(s, body)
                f = z3.Exists([x], z3.And(Contains(sq, x), t)) if is_any else z3.ForAll([x], z3.Implies(Contains(sq, x), t))
            else:
                j = z3.Int('q_j%d' % node.lineno)
                body = self.pure_eval(g.elt, s, gen.target, V(et, sq[j]))
                rng = z3.And(0 <= j, j < Length(sq))
                t = self.truth(s, body)
                f = z3.Exists([j], z3.And(rng, t)) if is_any else z3.ForAll([j], z3.Implies(rng, t))
            out.append((s, vbool(f)))
        return out

    def pure_eval(self, expr, st, target, val):
        """Evaluate expr with target bound to val on a scratch copy; must be single-path and effect-free."""
        s = st.clone()
        nraised = len(self.raised)
        nobl = len(self.obls)
        self.assign(target, val, s)
        rs = self.ev(expr, s)
        if len(rs) != 1 or len(self.raised) != nraised or len(s.pc) != len(st.pc) or len(self.obls) != nobl:
            del self.raised[nraised:]
            del self.obls[nobl:]
            raise Unsupported(expr, 'generator element is not a pure single-path expression')
        return rs[0][1]


def _norm(clauses, default_label):
    out = []
    for idx, c in enumerate(clauses or []):
        if isinstance(c, tuple):
            out.append(c)
        else:
            out.append(('%s#%d' % (default_label, idx), c))
    return out


class _Contracts:
    def bind_args(self, node, st, proc, recv=None, recv_node=None):
        """[(state, {param: V})]"""
        params = list(proc.params)
        res = [(st, {})]
        pos = list(node.args)
        if recv_node is not None:
            pos = [recv_node] + pos
        bound = []
        if recv is not None:
            bound.append(recv)
        results = []
        exprs = []
        star = None
        for a in pos:
            if isinstance(a, ast.Starred):
                star = a.value
            else:
                exprs.append(a)
        kw = {k.arg: k.value for k in node.keywords}
        if None in kw:
            raise Unsupported(node, '**kwargs')
        for s, vs in self.ev_list(exprs + list(kw.values()) + ([star] if star is not None else []), st):
            vs = list(vs)
            starv = vs.pop() if star is not None else None
            kwv = dict(zip(kw.keys(), vs[len(exprs):]))
            posv = bound + vs[:len(exprs)]
            args = {}
            names = [p for p, _ in params]
            for (pn, pty), v in zip(params, posv):
                args[pn] = self.coerce(v, pty, s)
            extra = posv[len(params):]
            if proc.varargs:
                parts = [Unit(box(v)) for v in extra]
                if starv is not None:
                    parts.append(self.seqterm(s, starv, node)[0])
                sq = Empty(SeqO) if not parts else Concat(*parts)
                args[proc.varargs] = V(SEQO, sq)
            elif extra or starv is not None:
                raise Unsupported(node, 'too many arguments for %s' % proc.key)
            for k, v in kwv.items():
                pty = dict(params)[k]
                args[k] = self.coerce(v, pty, s)
            for pn, pty in params:
                if pn not in args:
                    if pn in proc.defaults:
                        args[pn] = self.coerce(proc.defaults[pn], pty, s)
                    else:
                        raise Unsupported(node, 'missing argument %s for %s' % (pn, proc.key))
            results.append((s, args))
        return results

    def fresh_value(self, ty, prefix='r'):
        if ty.kind == 'items':
            return V(ty, fresh(prefix, ObjMap))
        if ty.kind == 'tup':
            return V(ty, tuple(self.fresh_value(t, prefix) for t in ty.args))
        return V(ty, fresh(prefix, sort_of(ty)))

    def call_contract(self, node, st, proc, recv=None, recv_node=None):
        out = []
        for s, args in self.bind_args(node, st, proc, recv, recv_node):
            out.extend(self.apply_contract(node, s, proc, args))
        return out

    def apply_contract(self, node, s, proc, args):
        self.called.add(proc.key)
        pre = s.heap.clone()
        c0 = Ctx(args, pre, pre)
        if proc.pure_fn is not None:
            return [(s, V(proc.result, proc.pure_fn(c0)))]
        line = getattr(node, 'lineno', 0)
        for label, f in _norm(proc.requires(c0), 'pre'):
            self.oblige(s, 'call:%s@%s:%s' % (proc.key.split(':')[-1], line, label), f, 'pre', node)
            s.assume(f)
        for fld in proc.modifies:
            s.heap.set(fld, fresh('H_' + fld.strip('$'), s.heap.sort(fld)))
        out = []
        whens = []
        for exc, (when, post) in proc.raises.items():
            s2 = s.clone()
            c2 = Ctx(args, s2.heap, pre)
            w = when(c2)
            whens.append(w)
            s2.assume(w)
            excv = V(OBJ, fresh('exc_' + exc, Obj))
            c2.res = excv.t
            s2.assume(excv.t != NONE)
            for label, f in _norm(post(c2) if post else [], 'rpost'):
                s2.assume(f)
            if not self.dead(s2):
                self.raise_(s2, exc, excv)
        for w in whens:
            s.assume(z3.Not(w))
        res = self.fresh_value(proc.result, 'res_' + proc.key.split(':')[-1].split('.')[-1])
        c1 = Ctx(args, s.heap, pre, res=res.t if res.ty.kind != 'tup' else res)
        for label, f in _norm(proc.ensures(c1), 'post'):
            if label in proc.not_assumed or 'literal' in label:
                continue          # a clause recorded as not holding on the current tree is never used by callers
            s.assume(f)
        out.append((s, res))
        return out

    def call_opaque(self, node, st, recv=None):
        text = ast.unparse(node.func)
        h = self.proc.opaque_calls.get(text)
        if h is None and isinstance(node.func, ast.Attribute):
            h = self.proc.opaque_calls.get('.' + node.func.attr)
        if h is None:
            raise Unsupported(node, 'opaque call %s has no model' % text)
        out = []
        exprs = [a for a in node.args]
        star = None
        if exprs and isinstance(exprs[-1], ast.Starred):
            star = exprs.pop().value        # f(a, b, *rest): the handler receives V(Ty('star'), <sequence term>) last
        if any(isinstance(a, ast.Starred) for a in exprs) or node.keywords:
            raise Unsupported(node, 'opaque call arguments')
        if recv is None and isinstance(node.func, ast.Name):
            fv = [st.env[node.func.id]] if node.func.id in st.env else []
        else:
            fv = [recv] if recv is not None else []
        for s, vs in self.ev_list(exprs + ([star] if star is not None else []), st):
            vs = list(vs)
            if star is not None:
                sv = vs.pop()
                vs.append(V(Ty('star'), self.seqterm(s, sv, node)[0]))
            out.extend(h(self, node, s, fv + vs))
        return out


class _Stmts:
    def run(self, stmts, st):
        """[(state, Out)] for a statement list."""
        states = [st]
        results = []
        for stmt in stmts:
            nxt = []
            for s in states:
                for s2, o in self.step(stmt, s):
                    if o.kind == FALL:
                        nxt.append(s2)
                    else:
                        results.append((s2, o))
            states = nxt
            if self.count_paths(len(states) + len(results)):
                pass
        results.extend((s, Out(FALL)) for s in states)
        return results

    def count_paths(self, n):
        if n > self.MAX_PATHS:
            raise Unsupported('paths', 'more than %d paths' % self.MAX_PATHS)

    def step(self, stmt, st):
        m = getattr(self, 'st_' + type(stmt).__name__, None)
        if m is None:
            raise Unsupported(stmt)
        before = len(self.raised)
        res = m(stmt, st)
        # exceptions raised while evaluating expressions of this statement
        new = self.raised[before:]
        del self.raised[before:]
        return list(res) + new

    def with_values(self, node_exprs, st, k):
        """Evaluate expressions then continue with k(state, values) -> [(state, Out)]"""
        out = []
        for s, vs in self.ev_list(node_exprs, st):
            out.extend(k(s, vs))
        return out

    # ---------------------------------------------------------------- simple statements
    def st_Pass(self, stmt, st):
        return [(st, Out(FALL))]

    def st_Expr(self, stmt, st):
        if isinstance(stmt.value, ast.Constant):
            return [(st, Out(FALL))]
        if isinstance(stmt.value, ast.Yield):
            out = []
            for s, v in self.ev(stmt.value.value, st):
                acc = s.env['$yield']
                s.env['$yield'] = V(SEQO, Concat(acc.t, Unit(box(v))))
                out.append((s, Out(FALL)))
            return out
        if isinstance(stmt.value, ast.YieldFrom):
            out = []
            for s, v in self.ev(stmt.value.value, st):
                sq, _ = self.seqterm(s, v, stmt)
                s.env['$yield'] = V(SEQO, Concat(s.env['$yield'].t, sq))
                out.append((s, Out(FALL)))
            return out
        return [(s, Out(FALL)) for s, _ in self.ev(stmt.value, st)]

    def st_Return(self, stmt, st):
        if stmt.value is None:
            return [(st, Out(RET, VNONE))]
        return [(s, Out(RET, v)) for s, v in self.ev(stmt.value, st)]

    def st_Break(self, stmt, st):
        return [(st, Out(BRK))]

    def st_Continue(self, stmt, st):
        return [(st, Out(CONT))]

    def st_Global(self, stmt, st):
        return [(st, Out(FALL))]

    def st_Import(self, stmt, st):
        return [(st, Out(FALL))]

    st_ImportFrom = st_Import

    def st_FunctionDef(self, stmt, st):
        st.env[stmt.name] = V(Ty('localfn'), stmt)
        return [(st, Out(FALL))]

    def st_Assert(self, stmt, st):
        out = []
        for s, v in self.ev(stmt.test, st):
            t = self.truth(s, v)
            bad = s.clone()
            bad.assume(z3.Not(t))
            self.raise_(bad, 'AssertionError')
            s.assume(t)
            out.append((s, Out(FALL)))
        return out

    def st_Raise(self, stmt, st):
        if stmt.exc is None:
            if st.cur_exc is None:
                raise Unsupported(stmt, 'bare raise outside handler')
            return [(st, Out(RAISE, None, st.cur_exc))]
        e = stmt.exc
        if isinstance(e, ast.Call):
            name = ast.unparse(e.func).split('.')[-1]
            out = []
            hits = self.reg.by_simple_name(name) if isinstance(e.func, ast.Name) else []
            if len(hits) == 1:
                for s, v in self.call_contract(e, st, hits[0]):
                    s.cur_exc = name
                    out.append((s, Out(RAISE, v, name)))
                return out
            # evaluate constructor arguments for their effects / obligations only
            args = [a for a in e.args if not isinstance(a, ast.Constant)]
            for s, vs in self.ev_list(args, st):
                s.cur_exc = name
                out.append((s, Out(RAISE, V(TUP(*[v.ty for v in vs]), tuple(vs)), name)))
            return out
        if isinstance(e, (ast.Name, ast.Attribute)):
            text = ast.unparse(e)
            name = text.split('.')[-1]
            if isinstance(e, ast.Name) and e.id in st.env and st.env[e.id].ty.kind == 'exc':
                v = st.env[e.id]
                return [(st, Out(RAISE, v, v.t))]
            return [(st, Out(RAISE, None, name))]
        if isinstance(e, ast.Subscript):
            # raise excs[0]  -- an exception object stored in a sequence: class unknown statically
            out = []
            for s, v in self.ev(e, st):
                out.append((s, Out(RAISE, v, 'Invalid')))
            return out
        raise Unsupported(stmt, 'raise form')

    def st_Assign(self, stmt, st):
        out = []
        for s, v in self.ev(stmt.value, st):
            for tgt in stmt.targets:
                self.assign(tgt, v, s)
            out.append((s, Out(FALL)))
        return out

    def st_AugAssign(self, stmt, st):
        out = []
        load = ast.copy_location(ast.parse(ast.unparse(stmt.target), mode='eval').body, stmt)
        for n in ast.walk(load):
            ast.copy_location(n, stmt)
        for s, (cur, v) in [(s, tuple(vs)) for s, vs in self.ev_list([load, stmt.value], st)]:
            self.assign(stmt.target, self.binop(stmt, s, stmt.op, cur, v), s)
            out.append((s, Out(FALL)))
        return out

    def st_Delete(self, stmt, st):
        results = [(st, Out(FALL))]
        for tgt in stmt.targets:
            nxt = []
            for s, o in results:
                if isinstance(tgt, ast.Name):
                    s.env.pop(tgt.id, None)
                    nxt.append((s, o))
                elif isinstance(tgt, ast.Subscript):
                    for s2, (base, idx) in [(x, tuple(y)) for x, y in self.ev_list([tgt.value, tgt.slice], s)]:
                        if base.ty.kind == 'dict':
                            m = self.dictval(s2, base.t)
                            key = box(idx)
                            miss = s2.clone()
                            miss.assume(z3.Select(m, key) == ABSENT)
                            self.raise_(miss, 'KeyError')
                            s2.assume(z3.Select(m, key) != ABSENT)
                            self.set_dictval(s2, base.t, z3.Store(m, key, ABSENT))
                        elif base.ty.kind == 'list' and _maybe_negative(tgt.slice) and \
                                ast.unparse(tgt.slice) == '-1':
                            cur = self.listval(s2, base.t)
                            self.oblige(s2, 'del-last-nonempty@%s' % stmt.lineno, Length(cur) > 0, 'safety', stmt)
                            self.set_listval(s2, base.t, SubSeq(cur, 0, Length(cur) - 1))
                        elif base.ty.kind == 'list' and not _maybe_negative(tgt.slice):
                            cur = self.listval(s2, base.t)
                            i = self.coerce(idx, INT, s2).t
                            n = Length(cur)
                            self.oblige(s2, 'del-index-in-bounds@%s' % stmt.lineno, z3.And(0 <= i, i < n), 'safety', stmt)
                            s2.assume(z3.And(0 <= i, i < n))
                            self.set_listval(s2, base.t, Concat(SubSeq(cur, 0, i), SubSeq(cur, i + 1, n - i - 1)))
                        else:
                            raise Unsupported(stmt, 'del on %r' % (base.ty,))
                        nxt.append((s2, Out(FALL)))
                elif isinstance(tgt, ast.Attribute):
                    h = DELATTR.get(self.mangle(tgt.attr))
                    if h is None:
                        raise Unsupported(stmt, 'del attribute')
                    for s2, recv in self.ev(tgt.value, s):
                        nxt.extend(h(self, stmt, s2, recv))
                else:
                    raise Unsupported(stmt)
            results = nxt
        return results

    def assign(self, tgt, v, st):
        if isinstance(tgt, ast.Name):
            hint = self.proc.locals.get(tgt.id)
            if hint is not None and v.ty != hint:
                v = self.coerce(v, hint, st)
            st.env[tgt.id] = v
        elif isinstance(tgt, ast.Attribute):
            rs = self.ev(tgt.value, st)
            if len(rs) != 1:
                raise Unsupported(tgt, 'forking assignment target')
            h = self.proc.setattr_.get(self.mangle(tgt.attr)) or SETATTR.get(self.mangle(tgt.attr))
            if h is not None:
                h(self, tgt, rs[0][0], rs[0][1], v)
            else:
                self.write_field(st, rs[0][1].t, tgt.attr, v)
        elif isinstance(tgt, ast.Subscript) and self.instdict(tgt) is not None:
            onode, key = self.instdict(tgt)
            (s1, recv), = self.ev(onode, st)
            self.write_field(st, recv.t, key, V(OBJ, box(v)))
        elif isinstance(tgt, ast.Subscript):
            (s1, base), = self.ev(tgt.value, st)
            if isinstance(tgt.slice, ast.Slice):
                # result[i:i] = seq   (insertion)
                if base.ty.kind != 'list':
                    raise Unsupported(tgt, 'slice assignment')
                cur = self.listval(st, base.t)
                ins, _ = self.seqterm(st, v, tgt)
                if tgt.slice.lower is None and tgt.slice.upper is None:
                    self.set_listval(st, base.t, ins)          # lst[:] = seq
                    return
                (s2, lo), = self.ev(tgt.slice.lower, st)
                (s3, hi), = self.ev(tgt.slice.upper, st)
                lo_t, hi_t = self.coerce(lo, INT).t, self.coerce(hi, INT).t
                self.oblige(st, 'slice-assign-bounds@%s' % tgt.lineno,
                            z3.And(0 <= lo_t, lo_t <= hi_t, hi_t <= Length(cur)), 'safety', tgt)
                self.set_listval(st, base.t, Concat(SubSeq(cur, 0, lo_t), ins,
                                                       SubSeq(cur, hi_t, Length(cur) - hi_t)))
                return
            (s2, idx), = self.ev(tgt.slice, st)
            if base.ty.kind == 'dict':
                m = self.dictval(st, base.t)
                before = st.heap.get('$dict')
                self.set_dictval(st, base.t, z3.Store(m, box(idx), box(v)))
                hook = getattr(self.proc, 'on_dict_store', None)
                if hook is not None:
                    # ghost: the contract may supply GROUND INSTANCES of lemmas that are themselves proved on every run
                    # (it gets the heap before and after the store); it must not constrain the program state otherwise
                    for fact in hook(self, st, before, base.t, box(idx), box(v)) or ():
                        st.assume(fact)
            elif base.ty.kind == 'list':
                cur = self.listval(st, base.t)
                i = self.coerce(idx, INT).t
                n = Length(cur)
                if _maybe_negative(tgt.slice):
                    i = i + n
                self.oblige(st, 'store-in-bounds@%s' % tgt.lineno, z3.And(0 <= i, i < n), 'safety', tgt)
                self.set_listval(st, base.t, Concat(SubSeq(cur, 0, i), Unit(box(v)),
                                                       SubSeq(cur, i + 1, n - i - 1)))
            else:
                raise Unsupported(tgt, 'subscript store on %r' % (base.ty,))
        elif isinstance(tgt, (ast.Tuple, ast.List)):
            if v.ty.kind == 'tup':
                if len(v.t) != len(tgt.elts):
                    raise Unsupported(tgt, 'unpack arity')
                for e, x in zip(tgt.elts, v.t):
                    self.assign(e, x, st)
            else:
                sq, et = self.seqterm(st, v, tgt)
                self.oblige(st, 'unpack-arity@%s' % getattr(tgt, 'lineno', 0), Length(sq) == len(tgt.elts), 'safety', tgt)
                st.assume(Length(sq) == len(tgt.elts))
                for k, e in enumerate(tgt.elts):
                    self.assign(e, V(et, sq[k]), st)
        else:
            raise Unsupported(tgt)

    # ---------------------------------------------------------------- control flow
    def st_If(self, stmt, st):
        out = []
        for s, c in self.ev(stmt.test, st):
            t = z3.simplify(self.truth(s, c))
            n0 = len(s.pc)
            a, b = s, s.clone()
            if self.proc.locals.get('$prune') and not z3.is_false(t) and not z3.is_true(t):
                # semantic pruning (opt-in): a branch whose condition contradicts the path condition is not executed
                if self.infeasible(s, t):
                    t = z3.BoolVal(False)
                elif self.infeasible(s, z3.Not(t)):
                    t = z3.BoolVal(True)
            a.assume(t); b.assume(z3.Not(t))
            a.trace.append('L%d:T' % stmt.lineno); b.trace.append('L%d:F' % stmt.lineno)
            ra = self.run(stmt.body, a) if not z3.is_false(t) else []
            rb = self.run(stmt.orelse, b) if not z3.is_true(t) else []
            fa = [x for x in ra if x[1].kind == FALL]
            fb = [x for x in rb if x[1].kind == FALL]
            merged = None
            if len(fa) == 1 and len(fb) == 1 and not z3.is_false(t) and not z3.is_true(t) and not self.proc.locals.get('$nomerge'):
                merged = self.merge_states(n0, t, fa[0][0], fb[0][0])
            if merged is not None:
                out.extend(x for x in ra + rb if x[1].kind != FALL)
                out.append((merged, Out(FALL)))
            else:
                out.extend(ra + rb)
        return out

    def merge_states(self, n0, t, sa, sb):
        """Join two fall-through states of an if/else into one (ite on variables and heap arrays)."""
        if sa.pc[:n0] != sb.pc[:n0] and any(not x.eq(y) for x, y in zip(sa.pc[:n0], sb.pc[:n0])):
            return None
        env = {}
        for k in set(sa.env) | set(sb.env):
            va, vb = sa.env.get(k), sb.env.get(k)
            if va is None or vb is None:
                env[k] = va or vb
                continue
            m = self.merge_values(t, va, vb)
            if m is None:
                return None
            env[k] = m
        st = St(sa.heap.clone())
        st.pc = list(sa.pc[:n0])
        xa, xb = sa.pc[n0 + 1:], sb.pc[n0 + 1:]
        if xa:
            st.pc.append(z3.Implies(t, z3.And(*xa) if len(xa) > 1 else xa[0]))
        if xb:
            st.pc.append(z3.Implies(z3.Not(t), z3.And(*xb) if len(xb) > 1 else xb[0]))
        st.env = env
        for fld in set(sa.heap.arrays) | set(sb.heap.arrays):
            A, B = sa.heap.get(fld), sb.heap.get(fld)
            st.heap.set(fld, A if A.eq(B) else z3.If(t, A, B))
        st.cur_exc = sa.cur_exc
        st.trace = sa.trace[:-1] + ['%s|F' % sa.trace[-1]] if sa.trace else []
        return st

    def merge_values(self, t, va, vb):
        if va.ty == vb.ty:
            if va.ty.kind == 'tup':
                parts = [self.merge_values(t, x, y) for x, y in zip(va.t, vb.t)]
                if any(p is None for p in parts):
                    return None
                return V(TUP(*[p.ty for p in parts]), tuple(parts))
            if va.ty.kind in ('localfn', 'exc', 'enum', 'zip', 'items', 'bound', 'bound_get'):
                return va if va.t is vb.t else None
            return va if va.t.eq(vb.t) else V(va.ty, z3.If(t, va.t, vb.t))
        try:
            return V(OBJ, z3.If(t, box(va), box(vb)))
        except TypeError:
            return None

    def st_Try(self, stmt, st):
        if stmt.finalbody:
            raise Unsupported(stmt, 'finally')
        out = []
        for s, o in self.run(stmt.body, st):
            if o.kind == RAISE:
                handled = False
                for h in stmt.handlers:
                    names = self.handler_names(h)
                    if any(exc_subclass(o.exc, n) for n in names):
                        if h.name:
                            s.env[h.name] = o.val if (o.val is not None and o.val.ty.kind == 'obj') else V(Ty('exc'), o.exc)
                        s.cur_exc = o.exc
                        s.trace.append('L%d:except %s' % (h.lineno, o.exc))
                        out.extend(self.run(h.body, s))
                        handled = True
                        break
                if not handled:
                    out.append((s, o))
            elif o.kind == FALL and stmt.orelse:
                out.extend(self.run(stmt.orelse, s))
            else:
                out.append((s, o))
        return out

    def handler_names(self, h):
        if h.type is None:
            return ['BaseException']
        if isinstance(h.type, ast.Tuple):
            return [ast.unparse(e).split('.')[-1] for e in h.type.elts]
        return [ast.unparse(h.type).split('.')[-1]]

SETATTR = {}
DELATTR = {}


def assigned_names(stmts):
    names = set()
    for stmt in stmts:
        for n in ast.walk(stmt):
            if isinstance(n, ast.Name) and isinstance(n.ctx, (ast.Store, ast.Del)):
                names.add(n.id)
            elif isinstance(n, ast.ExceptHandler) and n.name:
                names.add(n.name)
    return names


class View:
    """An iterable as (length, element) functions of the current state."""

    def __init__(self, length, elem, ety, live=False):
        self.length = length      # st -> z3 Int
        self.elem = elem          # (st, i) -> V
        self.ety = ety
        self.live = live


class _Loops:
    def number_loops(self, fnode):
        self.loop_names = {}
        self.comp_names = {}
        kcount = [0]

        def visit(stmts, prefix):
            n = 0
            for s in stmts:
                n = visit_stmt(s, prefix, n)

        def visit_stmt(s, prefix, n):
            for sub in ast.walk(s) if not isinstance(s, (ast.For, ast.While, ast.If, ast.Try)) else []:
                pass
            if isinstance(s, (ast.For, ast.While)):
                name = '%s%d' % (prefix, n)
                self.loop_names[id(s)] = name
                comps_in([s.iter] if isinstance(s, ast.For) else [s.test])
                visit(s.body, name + '.')
                visit(s.orelse, name + '.e')
                return n + 1
            if isinstance(s, ast.If):
                comps_in([s.test])
                for blk in (s.body, s.orelse):
                    for c in blk:
                        n = visit_stmt(c, prefix, n)
                return n
            if isinstance(s, ast.Try):
                for blk in [s.body] + [h.body for h in s.handlers] + [s.orelse, s.finalbody]:
                    for c in blk:
                        n = visit_stmt(c, prefix, n)
                return n
            if isinstance(s, (ast.FunctionDef, ast.ClassDef)):
                return n
            comps_in([s])
            return n

        def comps_in(nodes):
            for nd in nodes:
                for sub in _walk_ordered(nd):
                    if isinstance(sub, (ast.ListComp, ast.GeneratorExp, ast.DictComp, ast.SetComp)):
                        self.comp_names[id(sub)] = 'K%d' % kcount[0]
                        kcount[0] += 1
        visit(fnode.body, 'L')

    def view_of(self, node, st, itv):
        k = itv.ty.kind
        if k == 'seq':
            s = itv.t
            et = itv.ty.args[0]
            return View(lambda st_: Length(s), lambda st_, i: V(et, s[i]), et)
        if k == 'tup':
            s = seq_of_tuple(itv)
            return View(lambda st_: Length(s), lambda st_, i: V(OBJ, s[i]), OBJ)
        if k == 'list':
            r = itv.t
            return View(lambda st_: Length(self.listval(st_, r)),
                        lambda st_, i: V(OBJ, self.listval(st_, r)[i]), OBJ, live=True)
        if k == 'dict':
            ks = dict_keys(self.dictval(st, itv.t))
            for f in dict_keys_facts(self.dictval(st, itv.t)):
                st.assume(f)
            return View(lambda st_: Length(ks), lambda st_, i: V(OBJ, ks[i]), OBJ)
        if k == 'items':
            m = itv.t
            ks = dict_keys(m)
            for f in dict_keys_facts(m):
                st.assume(f)
            return View(lambda st_: Length(ks),
                        lambda st_, i: V(TUP(OBJ, OBJ), (V(OBJ, ks[i]), V(OBJ, z3.Select(m, ks[i])))), TUP(OBJ, OBJ))
        if k == 'obj':
            hook = getattr(self.proc, 'iter_obj', None)
            if hook is not None:
                # the contract says what iterating an object of the modelled shapes yields (e.g. a declaration: its interfaces)
                s = hook(self, st, itv.t)
            else:
                s = z3.If(is_seq(itv.t), unbox_seq(itv.t), self.listval(st, itv.t))
            return View(lambda st_: Length(s), lambda st_, i: V(OBJ, s[i]), OBJ)
        raise Unsupported(node, 'iteration over %r' % (itv.ty,))

    def dm_items(self, node, st, recv):
        return [(st, V(Ty('items'), self.dictval(st, recv.t)))]

    def dm_values(self, node, st, recv):
        m = self.dictval(st, recv.t)
        ks = dict_keys(m)
        for f in dict_keys_facts(m):
            st.assume(f)
        vals = fresh('vals', SeqO)
        j = z3.Int('dv_j')
        st.assume(Length(vals) == Length(ks))
        st.assume(z3.ForAll([j], z3.Implies(z3.And(0 <= j, j < Length(ks)), vals[j] == z3.Select(m, ks[j])),
                            patterns=[vals[j]]))
        return [(st, V(SEQO, vals))]

    def bi_enumerate(self, node, st):
        out = []
        for s, (v,) in self.args1(node, st, 1):
            out.append((s, V(Ty('enum'), v)))
        return out

    def bi_zip(self, node, st):
        out = []
        for s, vs in self.args1(node, st, 2):
            out.append((s, V(Ty('zip'), tuple(vs))))
        return out

    def st_For(self, stmt, st):
        name = self.loop_names[id(stmt)]
        out = []
        for s, itv in self.ev(stmt.iter, st):
            if itv.ty.kind == 'enum':
                inner = self.view_of(stmt, s, itv.t)
                view = View(inner.length, lambda st_, i, inner=inner: V(TUP(INT, inner.ety), (vint(i), inner.elem(st_, i))),
                            TUP(INT, inner.ety), inner.live)
            elif itv.ty.kind == 'zip':
                va, vb = [self.view_of(stmt, s, x) for x in itv.t]
                view = View(lambda st_: z3.If(va.length(st_) < vb.length(st_), va.length(st_), vb.length(st_)),
                            lambda st_, i: V(TUP(va.ety, vb.ety), (va.elem(st_, i), vb.elem(st_, i))),
                            TUP(va.ety, vb.ety))
            else:
                view = self.view_of(stmt, s, itv)
            out.extend(self.cut_loop(stmt, s, name, view, stmt.target, stmt.body, stmt.orelse, None))
        return out

    def st_While(self, stmt, st):
        name = self.loop_names[id(stmt)]
        return self.cut_loop(stmt, st, name, None, None, stmt.body, stmt.orelse, stmt.test)

    def loop_ctx(self, st, entry_env, i, view, acc=None):
        n = view.length(st) if view is not None else None
        return self.ctx(st, locals_=st.env, i=i, n=n,
                        elem=(lambda j: view.elem(st, j).t) if view is not None else None,
                        acc=acc, entry=entry_env, extra={'$loop_heap': self._loop_heap})

    def cut_loop(self, stmt, st, name, view, target, body, orelse, test, acc_name=None):
        spec = self.proc.loops.get(name)
        if spec is None:
            raise Unsupported(stmt, 'loop %s has no invariant in the contract of %s' % (name, self.proc.key))
        self.nloops_seen.add(name)
        entry_env = dict(st.env)
        line = stmt.lineno
        saved_loop_heap = getattr(self, '_loop_heap', None)
        self._loop_heap = st.heap.clone()
        try:
            return self._cut_loop(stmt, st, name, view, target, body, orelse, test, acc_name, spec, entry_env)
        finally:
            self._loop_heap = saved_loop_heap

    def _cut_loop(self, stmt, st, name, view, target, body, orelse, test, acc_name, spec, entry_env):
        # 1. invariant holds on entry
        i0 = z3.IntVal(0)
        c = self.loop_ctx(st, entry_env, i0, view, acc=st.env.get(acc_name).t if acc_name else None)
        for label, f in _norm(spec.inv(c), 'inv'):
            self.oblige(st, '%s:init:%s' % (name, label), f, 'inv-init', stmt)
        # 2. arbitrary iteration: havoc what the body may change
        h = st.clone()
        mods = assigned_names(body) | (assigned_names([ast.Assign(targets=[target], value=None)]) if target is not None else set())
        if acc_name:
            mods.add(acc_name)
        if any(isinstance(n, (ast.Yield, ast.YieldFrom)) for b_ in body for n in ast.walk(b_)):
            mods.add('$yield')
        for nm in mods:
            if nm in h.env and h.env[nm].ty.kind not in ('localfn',):
                h.env[nm] = self.fresh_value(h.env[nm].ty, nm)
            elif nm in self.proc.locals:
                h.env[nm] = self.fresh_value(self.proc.locals[nm], nm)
            else:
                h.env.pop(nm, None)
        for fld in self.loop_modifies(spec, body, st.env):
            h.heap.set(fld, fresh('H_' + fld.strip('$'), h.heap.sort(fld)))
        i = fresh('i_' + name, z3.IntSort())
        h.env['$i_' + name] = vint(i)      # visible to the invariants of inner loops
        h.assume(i >= 0)
        if view is not None and not view.live:
            h.assume(i <= view.length(h))
        c = self.loop_ctx(h, entry_env, i, view, acc=h.env.get(acc_name).t if acc_name else None)
        for label, f in _norm(spec.inv(c), 'inv'):
            h.assume(f)
        out = []
        # 3a. exit
        if view is not None:
            ex = h.clone()
            ex.assume(i >= view.length(ex))
            ex.trace.append('%s:exit' % name)
            out.extend(self.run(orelse, ex) if orelse else [(ex, Out(FALL))])
            it = h
            it.assume(i < view.length(it))
            it.trace.append('%s:iter' % name)
            self.assign(target, view.elem(it, i), it)
            iters = [it]
        else:
            iters = []
            for s2, cv in self.ev(test, h):
                t = z3.simplify(self.truth(s2, cv))
                ex = s2.clone()
                ex.assume(z3.Not(t))
                ex.trace.append('%s:exit' % name)
                if not z3.is_true(t):
                    out.extend(self.run(orelse, ex) if orelse else [(ex, Out(FALL))])
                s2.assume(t)
                s2.trace.append('%s:iter' % name)
                iters.append(s2)
        # 3b. one iteration
        for it in iters:
            dec0 = spec.decreases(self.loop_ctx(it, entry_env, i, view)) if spec.decreases else None
            for s2, o in self.run(body, it):
                if o.kind in (FALL, CONT):
                    c2 = self.loop_ctx(s2, entry_env, i + 1, view, acc=s2.env.get(acc_name).t if acc_name else None)
                    for label, f in _norm(spec.inv(c2), 'inv'):
                        self.oblige(s2, '%s:step:%s' % (name, label), f, 'inv-step', stmt)
                    if dec0 is not None:
                        d1 = spec.decreases(c2)
                        self.oblige(s2, '%s:decreases' % name, z3.And(d1 < dec0, dec0 >= 0), 'termination', stmt)
                    self.paths_ended += 1
                elif o.kind == BRK:
                    out.append((s2, Out(FALL)))
                else:
                    out.append((s2, o))
        return out

    def loop_modifies(self, spec, body, env=None):
        flds = set(spec.modifies)
        for stmt in body:
            for n in ast.walk(stmt):
                if isinstance(n, ast.Attribute):
                    key = self.proc.calls.get('@' + ast.unparse(n))
                    if key is not None:
                        flds.update(self.reg.procs[key].modifies)
                if isinstance(n, ast.Call):
                    key = self.proc.calls.get(ast.unparse(n.func))
                    if isinstance(key, str):
                        flds.update(self.reg.procs[key].modifies)
                    elif key is None:
                        nm = n.func.id if isinstance(n.func, ast.Name) else (
                            n.func.attr if isinstance(n.func, ast.Attribute) else None)
                        for h in (self.reg.by_simple_name(nm) if nm else []):
                            flds.update(h.modifies)
                if isinstance(n, ast.Attribute) and isinstance(n.ctx, (ast.Store, ast.Del)):
                    a = self.mangle(n.attr)
                    a = self.proc.attr_alias.get(a, a)
                    a = FIELD_ALIAS.get(a, a)
                    if a in self.reg.fields:
                        flds.add(a)
                if isinstance(n, ast.Call) and isinstance(n.func, ast.Attribute):
                    if n.func.attr in ('append', 'extend', 'insert'):
                        flds.add('$list')
                    if n.func.attr in ('update', 'clear', 'pop', 'setdefault', 'add'):
                        flds.add('$dict')
                if isinstance(n, ast.List) or (isinstance(n, ast.Call) and isinstance(n.func, ast.Name)
                                               and n.func.id == 'list'):
                    flds.add('$list'); flds.add('$alloc')
                if isinstance(n, (ast.Dict,)):
                    flds.add('$dict'); flds.add('$alloc')
                if isinstance(n, ast.Subscript) and isinstance(n.ctx, (ast.Store, ast.Del)):
                    kind = None
                    if isinstance(n.value, ast.Name):
                        v = (env or {}).get(n.value.id)
                        hint = self.proc.locals.get(n.value.id)
                        kind = (v.ty.kind if v is not None else None) or (hint.kind if hint is not None else None)
                    if kind == 'dict':
                        flds.add('$dict')
                    elif kind == 'list':
                        flds.add('$list')
                    else:
                        flds.add('$dict'); flds.add('$list')
        return flds

    # ---------------------------------------------------------------- comprehensions
    def ev_ListComp(self, node, st):
        return self.comprehension(node, st)

    def ev_GeneratorExp(self, node, st):
        return self.comprehension(node, st)

    def comprehension(self, node, st):
        if len(node.generators) != 1:
            raise Unsupported(node, 'nested generators')
        gen = node.generators[0]
        name = self.comp_names[id(node)]
        out = []
        for s, itv in self.ev(gen.iter, st):
            view = self.view_of(node, s, itv)
            spec = self.proc.loops.get(name)
            if spec is None and not gen.ifs:
                # plain map: quantified characterisation, element expression must be pure
                j = z3.Int('c_j_%s' % name)
                ev = self.pure_eval(node.elt, s, gen.target, view.elem(s, j))
                ety = ev.ty if ev.ty.kind in ('int', 'name', 'bool') else (SEQO if ev.ty.kind == 'seq' and ev.ty.args[0].kind == 'obj' and self.proc.locals.get('$comp_' + name) == 'seqseq' else OBJ)
                evc = self.coerce(ev, ety, s)
                r = fresh('comp_' + name, SeqSortOf(sort_of(ety)))
                s.assume(Length(r) == view.length(s))
                s.assume(z3.ForAll([j], z3.Implies(z3.And(0 <= j, j < view.length(s)), r[j] == evc.t),
                                   patterns=[r[j]]))
                out.append((s, V(SEQ(ety), r)))
                continue
            if spec is None:
                raise Unsupported(node, 'comprehension %s needs an invariant in %s' % (name, self.proc.key))
            # desugar:  acc = [] ; for target in iter: if conds: acc = acc + [elt]
            ety = self.proc.locals.get('$elt_' + name, OBJ)
            accn = '$acc_' + name
            s.env[accn] = V(SEQ(ety), Empty(SeqSortOf(sort_of(ety))))
            test = ast.BoolOp(op=ast.And(), values=list(gen.ifs)) if len(gen.ifs) > 1 else (gen.ifs[0] if gen.ifs else None)
            app = _AccAppend(node.elt, accn, ety)
            ast.copy_location(app, node)
            body = [ast.If(test=test, body=[app], orelse=[])] if test is not None else [app]
            for b in body:
                ast.copy_location(b, node)
                ast.fix_missing_locations(b)
            fake = ast.For(target=gen.target, iter=gen.iter, body=body, orelse=[])
            ast.copy_location(fake, node)
            for s2, o in self.cut_loop(fake, s, name, view, gen.target, body, [], None, acc_name=accn):
                if o.kind == FALL:
                    acc = s2.env.pop(accn)
                    out.append((s2, acc))
                else:
                    self.raised.append((s2, o))
        return out

    def st__AccAppend(self, stmt, st):
        out = []
        for s, v in self.ev(stmt.elt, st):
            acc = s.env[stmt.accn]
            s.env[stmt.accn] = V(acc.ty, Concat(acc.t, Unit(self.coerce(v, stmt.ety, s).t)))
            out.append((s, Out(FALL)))
        return out


class _AccAppend(ast.stmt):
    _fields = ('elt',)

    def __init__(self, elt, accn, ety):
        ast.stmt.__init__(self)
        self.elt = elt
        self.accn = accn
        self.ety = ety


def _walk_ordered(node):
    yield node
    for c in ast.iter_child_nodes(node):
        yield from _walk_ordered(c)


class Exec(Exec, _Expr, _Calls, _Contracts, _Stmts, _Loops):
    def verify(self):
        """Symbolically execute the procedure body against its contract; fills self.obls."""
        proc, reg = self.proc, self.reg
        self.raised = []
        self.called = set()
        fnode = self.fsrc.node
        self.number_loops(fnode)
        heap = HeapView(reg.fields)
        st = St(heap)
        args = {}
        for pn, pty in proc.params:
            args[pn] = self.fresh_value(pty, pn)
        if proc.varargs:
            args[proc.varargs] = V(SEQO, fresh(proc.varargs, SeqO))
        self.args = args
        # parameters of the real function must be the contract's parameters (shape check)
        real = [a.arg for a in fnode.args.posonlyargs + fnode.args.args]
        if fnode.args.vararg:
            real.append('*' + fnode.args.vararg.arg)
        want = [pn for pn, _ in proc.params] + (['*' + proc.varargs] if proc.varargs else [])
        if real != want:
            raise ShapeMismatch('parameters of %s are %s, contract written for %s' % (proc.key, real, want))
        for pn, c in getattr(self, '_variant', {}).items():
            ty = dict(proc.params)[pn]
            if ty.kind == 'int':
                st.assume(args[pn].t == c)
            elif ty.kind == 'bool':
                st.assume(args[pn].t == z3.BoolVal(c))
            elif ty.kind == 'name':
                st.assume(args[pn].t == strlit(c))
            else:
                raise Unsupported(pn, 'finite split on %r' % (ty,))
        st.env.update(args)
        self.is_generator = any(isinstance(n, (ast.Yield, ast.YieldFrom)) for n in ast.walk(fnode))
        if self.is_generator:
            st.env['$yield'] = V(SEQO, Empty(SeqO))
        self.entry_heap = heap.clone()
        # materialise entry arrays so that "old" and "new" start equal
        c0 = Ctx(args, st.heap, self.entry_heap)
        pre = _norm(proc.requires(c0), 'requires')
        if proc.ghost_pre:
            pre += _norm(proc.ghost_pre(c0), 'ghost')
        for fld in list(self.entry_heap.arrays):
            st.heap.set(fld, self.entry_heap.get(fld))
        for label, f in pre:
            st.assume(f)
        self.pre = [f for _, f in pre]
        if proc.on_entry:
            proc.on_entry(self, st)
        results = self.run(self.fsrc.body(), st)
        results += self.raised
        self.raised = []
        for s, o in results:
            # re-sync: fields first touched during execution share the entry array
            self.finish(s, o)
        missing = set(proc.loops) - self.nloops_seen
        if missing:
            raise ShapeMismatch('contract of %s has invariants for loops %s that the code does not have'
                                % (proc.key, sorted(missing)))
        return self.obls

    def verify_variant(self, var):
        """Case split on finite parameters: the parameter is the given Python constant."""
        self._variant = var
        return self.verify()

    def finish(self, s, o):
        proc = self.proc
        self.paths_ended += 1
        self.reach.append((o.kind if o.kind != RAISE else 'raise:' + o.exc, list(s.pc)))
        if o.kind in (BRK, CONT):
            raise Unsupported('break/continue', 'outside loop')
        if o.kind in (FALL, RET):
            val = o.val if o.kind == RET else VNONE
            if getattr(self, 'is_generator', False):
                val = s.env['$yield']
            if proc.result.kind == 'items':
                if val.ty.kind != 'items':
                    raise Unsupported('return', 'expected a dict items view, got %r' % (val.ty,))
                res = val.t
            elif proc.result.kind == 'tup' and val.ty.kind == 'tup':
                resv = V(proc.result, tuple(self.coerce(x, t, s) for x, t in zip(val.t, proc.result.args)))
                res = resv
            else:
                res = self.coerce(val, proc.result, s).t
            c = Ctx(self.args, s.heap, self.entry_heap, res=res, locals_=s.env)
            for exc, (when, post) in proc.raises.items():
                self.oblige(s, 'returns-although:%s' % exc, z3.Not(when(c)), 'post')
            for label, f in _norm(proc.ensures(c), 'ensures'):
                self.oblige(s, 'post:%s' % label, f, 'post')
            self.check_frame(s)
        else:
            c = Ctx(self.args, s.heap, self.entry_heap, locals_=s.env,
                    res=o.val.t if (o.val is not None and o.val.ty.kind == 'obj') else None)
            matched = False
            for exc, (when, post) in proc.raises.items():
                if exc_subclass(o.exc, exc):
                    matched = True
                    self.oblige(s, 'raises:%s:when' % exc, when(c), 'post')
                    for label, f in _norm(post(c) if post else [], 'rpost'):
                        self.oblige(s, 'raises:%s:%s' % (exc, label), f, 'post')
                    break
            if not matched and any(exc_subclass(o.exc, e) for e in proc.may_raise):
                matched = True
            if not matched:
                self.oblige(s, 'unexpected-raise:%s' % o.exc, z3.BoolVal(False), 'post')

    def check_frame(self, s):
        """Fields outside ``modifies`` must be unchanged (syntactic: same array term)."""
        for fld, arr in s.heap.arrays.items():
            if fld in self.proc.modifies or fld in ('$alloc',):
                continue
            old = self.entry_heap.get(fld)
            if not arr.eq(old):
                if fld in ('$list', '$dict'):
                    # only freshly allocated containers may differ: forall allocated-at-entry refs unchanged
                    o = z3.Const('fr_o', Obj)
                    al0 = self.entry_heap.get('$alloc')
                    self.oblige(s, 'frame:%s' % fld,
                                z3.ForAll([o], z3.Implies(z3.Select(al0, o), z3.Select(arr, o) == z3.Select(old, o))),
                                'frame')
                else:
                    self.oblige(s, 'frame:%s' % fld, arr == old, 'frame')


class ShapeMismatch(Exception):
    pass


class _Dicts:
    def bi_set(self, node, st):
        r = self.fresh_ref(st, 'set')
        if not node.args:
            self.set_dictval(st, r, EMPTYMAP)
            return [(st, V(DICT, r))]
        out = []
        for s, v in self.ev(node.args[0], st):
            sq, et = self.seqterm(s, v, node)
            sq = self.named(s, sq)
            m = fresh('setof', ObjMap)
            k = z3.Const('so_k', Obj)
            s.assume(z3.ForAll([k], (z3.Select(m, k) != ABSENT) == Contains(sq, k), patterns=[z3.Select(m, k)]))
            self.set_dictval(s, r, m)
            out.append((s, V(DICT, r)))
        return out

    def dm_add(self, node, st, recv):
        out = []
        for s, (v,) in self.args1(node, st, 1):
            m = self.dictval(s, recv.t)
            self.set_dictval(s, recv.t, z3.Store(m, box(v), box_int(1)))
            out.append((s, VNONE))
        return out

    def bi_dict(self, node, st):
        if not node.args:
            r = self.fresh_ref(st, 'dict')
            self.set_dictval(st, r, EMPTYMAP)
            return [(st, V(DICT, r))]
        out = []
        for s, (v,) in self.args1(node, st, 1):
            r = self.fresh_ref(s, 'dict')
            if v.ty.kind == 'zip':
                a, b = v.t
                sa, ea = self.seqterm(s, a, node)
                sb, eb = self.seqterm(s, b, node)
                sa, sb = self.named(s, sa), self.named(s, sb)
                n = z3.If(Length(sa) < Length(sb), Length(sa), Length(sb))
                m = fresh('zipdict', ObjMap)
                j, j2 = z3.Int('zd_j'), z3.Int('zd_j2')
                k = z3.Const('zd_k', Obj)
                bx = (lambda t, e: box(V(e, t)))
                # keys must be pairwise distinct for the point-wise characterisation (else "last wins")
                self.oblige(s, 'dict-zip-keys-distinct', z3.ForAll([j, j2], z3.Implies(
                    z3.And(0 <= j, j < j2, j2 < n), sa[j] != sa[j2])), 'safety', node)
                s.assume(z3.ForAll([j], z3.Implies(z3.And(0 <= j, j < n), z3.Select(m, bx(sa[j], ea)) == bx(sb[j], eb)),
                                   patterns=[sa[j]]))
                s.assume(z3.ForAll([k], z3.Implies(
                    z3.Not(z3.Exists([j], z3.And(0 <= j, j < n, bx(sa[j], ea) == k))), z3.Select(m, k) == ABSENT),
                    patterns=[z3.Select(m, k)]))
                self.set_dictval(s, r, m)
            elif v.ty.kind == 'dict':
                self.set_dictval(s, r, self.dictval(s, v.t))
            elif v.ty.kind == 'items':
                self.set_dictval(s, r, v.t)
            else:
                raise Unsupported(node, 'dict(%r)' % (v.ty,))
            out.append((s, V(DICT, r)))
        return out

    def dm_update(self, node, st, recv):
        out = []
        for s, (v,) in self.args1(node, st, 1):
            if v.ty.kind == 'dict':
                src = self.dictval(s, v.t)
            elif v.ty.kind == 'items':
                src = v.t
            elif v.ty.kind == 'obj' and self.proc.locals.get('$containers'):
                self.oblige(s, 'update-argument-is-dict', is_dict(v.t), 'safety', node)
                s.assume(is_dict(v.t))
                src = self.dictval(s, v.t)
            else:
                raise Unsupported(node, 'update(%r)' % (v.ty,))
            old = self.dictval(s, recv.t)
            m = dict_update(old, src)
            self.set_dictval(s, recv.t, m)
            out.append((s, VNONE))
        return out

    def dm_setdefault(self, node, st, recv):
        out = []
        for s, (k, d) in self.args1(node, st, 2):
            m = self.dictval(s, recv.t)
            cur = z3.Select(m, box(k))
            val = z3.If(cur == ABSENT, box(d), cur)
            self.set_dictval(s, recv.t, z3.Store(m, box(k), val))
            out.append((s, vobj(val)))
        return out


class Exec(Exec, _Dicts):
    pass
