"""cfront: ownership / call-out obligations for the C accelerator, from the clang JSON AST of the real file.

For every function under contract the body is executed path by path over an abstract heap of Python objects:

  owned(o)     references this frame holds on o (new references +1, Py_INCREF +1, Py_DECREF -1, stolen -1)
  origin(o)    'arg' | 'immortal' | 'global' | 'new' | ('borrowed', container, epoch)
  epoch        advances at every call that may run arbitrary Python code (call-out)
  made(o)      epoch at which o was produced

Obligations (DESIGN 1.5):
  (U) a reference borrowed from a mutable container or object field may be used after a later call-out only
      if the frame owns a reference to the object (or to an immutable container it was borrowed from)
  (L) at every return the frame owns nothing but the returned new reference
  (N) arguments that must not be NULL are not NULL on the path
  (St) a value produced by a call-out is stored only into containers acquired before that call-out
      (a cache refreshed after a re-entrant mutation must not receive the stale answer)
Every obligation is emitted as an integer/boolean formula and discharged by the SMT back end like the others.
"""
import json
import os
import subprocess

import z3

from . import extract

PYINC = '/root/.pyenv/versions/3.12.1/include/python3.12'
CFILE = '_zope_interface_coptimizations.c'

# ---------------------------------------------------------------------------------------------- CPython API table
# result: 'new' | 'borrowed:<argidx>' | 'int' | 'void' | 'same:<argidx>' ; nullable: result may be NULL
# callout: may run arbitrary Python code;  steals: indexes of stolen args;  nonnull: indexes that must be non-NULL
API = {
    'Py_INCREF': dict(result='void', incref=0, nonnull=[0]),
    'Py_DECREF': dict(result='void', decref=0, nonnull=[0], callout=True),
    'Py_XDECREF': dict(result='void', decref=0, nonnull=[], callout=True),
    'Py_XINCREF': dict(result='void', incref=0, nonnull=[]),
    'Py_NewRef': dict(result='same:0', incref=0, nonnull=[0]),
    'PyDict_New': dict(result='new', nullable=True),
    'PyTuple_New': dict(result='new', nullable=True),
    'PyList_New': dict(result='new', nullable=True),
    'PyDict_GetItem': dict(result='borrowed:0', nullable=True, nonnull=[0, 1], mutable=True),
    'PyDict_GetItemWithError': dict(result='borrowed:0', nullable=True, nonnull=[0, 1], mutable=True),
    'PyDict_SetItem': dict(result='int', nonnull=[0, 1, 2], store=(0, 2)),
    'PyDict_Clear': dict(result='void', nonnull=[0], callout=True),
    'PyTuple_SET_ITEM': dict(result='void', steals=[2], nonnull=[0, 2]),
    'PyTuple_SetItem': dict(result='int', steals=[2], nonnull=[0, 2]),
    'PyTuple_GET_ITEM': dict(result='borrowed:0', nonnull=[0], mutable=False),
    'PyList_GET_ITEM': dict(result='borrowed:0', nonnull=[0], mutable=True),
    'PyTuple_GET_SIZE': dict(result='int', nonnull=[0]),
    'PyList_GET_SIZE': dict(result='int', nonnull=[0]),
    'PyTuple_Size': dict(result='int', nonnull=[0]),
    'PySequence_Tuple': dict(result='new', nullable=True, nonnull=[0], callout=True),
    'PyObject_CallMethodObjArgs': dict(result='new', nullable=True, nonnull=[0, 1], callout=True),
    'PyObject_CallFunctionObjArgs': dict(result='new', nullable=True, nonnull=[0], callout=True),
    'PyObject_CallObject': dict(result='new', nullable=True, nonnull=[0], callout=True),
    'PyObject_Call': dict(result='new', nullable=True, nonnull=[0, 1], callout=True),
    'PyObject_GetAttr': dict(result='new', nullable=True, nonnull=[0, 1], callout=True),
    'PyObject_GetAttrString': dict(result='new', nullable=True, nonnull=[0], callout=True),
    'PyObject_IsTrue': dict(result='int', nonnull=[0], callout_unless_str=True),
    'PyObject_IsInstance': dict(result='int', nonnull=[0, 1], callout=True),
    'PyObject_RichCompare': dict(result='new', nullable=True, nonnull=[0, 1], callout=True),
    'PyObject_RichCompareBool': dict(result='int', nonnull=[0, 1], callout=True),
    'PyObject_TypeCheck': dict(result='int', nonnull=[0]),
    'PyObject_Hash': dict(result='int', nonnull=[0], callout=True),
    'PyType_IsSubtype': dict(result='int', nonnull=[0, 1]),
    'PyType_FastSubclass': dict(result='int', nonnull=[0]),
    'PyType_HasFeature': dict(result='int', nonnull=[0]),
    'Py_TYPE': dict(result='borrowed:0', nonnull=[0], mutable=False, stable=True),
    'Py_IS_TYPE': dict(result='int', nonnull=[0]),
    'PyErr_SetString': dict(result='void'),
    'PyErr_SetObject': dict(result='void'),
    'PyErr_Occurred': dict(result='borrowed:-1', nullable=True),
    'PyErr_Clear': dict(result='void'),
    'PyErr_ExceptionMatches': dict(result='int'),
    'PyArg_ParseTupleAndKeywords': dict(result='int', outargs='borrowed-from-args'),
    'PyArg_ParseTuple': dict(result='int', outargs='borrowed-from-args'),
    'PyLong_FromLong': dict(result='new', nullable=True),
    'PyUnicode_FromString': dict(result='new', nullable=True),
    'PyLong_AsLong': dict(result='int', nonnull=[0]),
    'PyTuple_Pack': dict(result='new', nullable=True),
    'PyTuple_GetSlice': dict(result='new', nullable=True, nonnull=[0]),
    'PyUnicode_Compare': dict(result='int', nonnull=[0, 1]),
    'PyObject_GenericGetAttr': dict(result='new', nullable=True, callout=True),
    'PyObject_GenericSetAttr': dict(result='int', callout=True),
    'PyImport_ImportModule': dict(result='new', nullable=True, callout=True),
    'PyType_GetModuleByDef': dict(result='borrowed:0', nullable=True, nonnull=[0], mutable=False, stable=True),
    'PyModule_GetState': dict(result='state', nonnull=[0]),
    'PyObject_GC_UnTrack': dict(result='void'),
    'PyObject_ClearWeakRefs': dict(result='void', callout=True),
    'PyWeakref_NewRef': dict(result='new', nullable=True),
    '__builtin_expect': dict(result='same:0'),
}

# functions of the file itself used by the verified ones: summarised by contracts written here and themselves verified
LOCAL = {
    '_get_module': dict(result='borrowed:0', mutable=False, stable=True, nonnull=[0]),
    '_get_adapter_hooks': dict(result='borrowed:0', mutable=False, stable=True, nonnull=[0]),
    '_get_specification_base_class': dict(result='borrowed:0', mutable=False, stable=True, nonnull=[0]),
    '_get_interface_base_class': dict(result='borrowed:0', mutable=False, stable=True, nonnull=[0]),
    'providedBy': dict(result='new', nullable=True, callout=True, nonnull=[1]),
    'implementedBy': dict(result='new', nullable=True, callout=True, nonnull=[1]),
    'getObjectSpecification': dict(result='new', nullable=True, callout=True, nonnull=[1]),
    'SB_extends': dict(result='new', nullable=True, nonnull=[0, 1]),
    '_subcache': dict(result='borrowed:0', nullable=True, mutable=True, nonnull=[0, 1]),
    '_getcache': dict(result='borrowed-field:_cache', nullable=True, nonnull=[0, 1]),
    '_lookup': dict(result='new', nullable=True, callout=True, nonnull=[0, 1, 2]),
    '_lookup1': dict(result='new', nullable=True, callout=True, nonnull=[0, 1, 2]),
    '_adapter_hook': dict(result='new', nullable=True, callout=True, nonnull=[0, 1, 2]),
    '_lookupAll': dict(result='new', nullable=True, callout=True, nonnull=[0, 1, 2]),
    '_subscriptions': dict(result='new', nullable=True, callout=True, nonnull=[0, 1, 2]),
    '_verify': dict(result='int', callout=True, nonnull=[0]),
    '_generations_tuple': dict(result='new', nullable=True, callout=True, nonnull=[0]),
    'LB_clear': dict(result='int', callout=True, nonnull=[0]),
    'LB_changed': dict(result='new', nullable=False, callout=True, nonnull=[0]),
    'VB_clear': dict(result='int', callout=True, nonnull=[0]),
    'IB__adapt__': dict(result='new', nullable=True, callout=True, nonnull=[0, 1]),
}

# parameters that the callers have checked with PyUnicode_Check (precondition of the callee)
PRE_STR = {'_getcache': ('name',)}

_ast_cache = {}


def dump_functions(names, cpath=None):
    """clang JSON AST of the named functions (one clang run per distinct filter string)."""
    cpath = cpath or os.path.join(extract.SRC, CFILE)
    out = {}
    for name in names:
        key = (cpath, name)
        if key not in _ast_cache:
            p = subprocess.run(['clang-14', '-fsyntax-only', '-w', '-Xclang', '-ast-dump=json', '-Xclang',
                                '-ast-dump-filter=' + name, '-I' + PYINC, cpath], capture_output=True, text=True)
            txt = p.stdout
            dec = json.JSONDecoder()
            i = 0
            found = None
            while i < len(txt):
                while i < len(txt) and txt[i] in ' \n\r\t':
                    i += 1
                if i >= len(txt):
                    break
                if txt.startswith('Dumping', i):
                    i = txt.index('\n', i) + 1
                    continue
                obj, i = dec.raw_decode(txt, i)
                if obj.get('kind') == 'FunctionDecl' and obj.get('name') == name and \
                        any(c.get('kind') == 'CompoundStmt' for c in obj.get('inner', [])):
                    found = obj
            _ast_cache[key] = found
        out[name] = _ast_cache[key]
    return out


class CUnsupported(Exception):
    pass


class Obj:
    """abstract Python object on one path"""
    _n = 0

    def __init__(self, origin, made, label):
        Obj._n += 1
        self.id = Obj._n
        self.origin = origin      # 'arg' | 'immortal' | 'global' | 'new' | ('borrowed', container Obj or None, epoch, mutable)
        self.owned = 0
        self.made = made          # epoch of production
        self.label = label
        self.from_callout = False

    def __repr__(self):
        return '<%s#%d own=%d %s>' % (self.label, self.id, self.owned, self.origin if isinstance(self.origin, str) else 'borrowed')


NULL = 'NULL'


class Path:
    def __init__(self):
        self.env = {}          # variable name -> Obj | NULL | ('int', tag) | ('maybe', Obj)
        self.fields = {}       # (obj id, field) -> value
        self.epoch = 0
        self.objs = []
        self.trace = []
        self.dead = False
        self.field_epoch = {}
        self.size_epoch = {}

    def clone(self):
        import copy
        memo = {}
        p = Path()
        # objects must be copied consistently (aliasing preserved)
        mapping = {}
        for o in self.objs:
            n = Obj.__new__(Obj)
            n.__dict__.update(o.__dict__)
            mapping[id(o)] = n
        for n in mapping.values():
            if isinstance(n.origin, tuple) and n.origin[1] is not None and id(n.origin[1]) in mapping:
                n.origin = (n.origin[0], mapping[id(n.origin[1])]) + n.origin[2:]

        def conv(v):
            if isinstance(v, Obj):
                return mapping.get(id(v), v)
            if isinstance(v, tuple) and len(v) == 2 and v[0] == 'maybe':
                return ('maybe', conv(v[1]))
            return v
        p.env = {k: conv(v) for k, v in self.env.items()}
        p.fields = {k: conv(v) for k, v in self.fields.items()}
        p.objs = [mapping[id(o)] for o in self.objs]
        p.epoch = self.epoch
        p.trace = list(self.trace)
        p.field_epoch = dict(self.field_epoch)
        p.size_epoch = dict(self.size_epoch)
        return p

    def new(self, origin, label):
        o = Obj(origin, self.epoch, label)
        self.objs.append(o)
        return o


class CExec:
    """Path-wise abstract execution of one C function; collects obligations (label, ok, detail)."""

    def __init__(self, fdecl, assumptions=None):
        self.f = fdecl
        self.name = fdecl['name']
        self.obls = []
        self.paths = 0
        self.assumptions = assumptions if assumptions is not None else []

    # ------------------------------------------------------------------ helpers
    def ob(self, kind, ok, detail, path):
        self.obls.append((kind, bool(ok), detail, list(path.trace)))

    def strip(self, n):
        while n.get('kind') in ('ImplicitCastExpr', 'CStyleCastExpr', 'ParenExpr', 'ConstantExpr') and n.get('inner'):
            if n['kind'] == 'CStyleCastExpr' and n.get('castKind') == 'NullToPointer':
                return {'kind': 'NullLiteral'}
            if n['kind'] == 'ImplicitCastExpr' and n.get('castKind') == 'NullToPointer':
                return {'kind': 'NullLiteral'}
            n = n['inner'][-1]
        return n

    def callee(self, n):
        f = self.strip(n['inner'][0])
        if f.get('kind') == 'DeclRefExpr':
            return f['referencedDecl']['name']
        return None

    def is_null(self, n):
        n = self.strip(n)
        return n.get('kind') == 'NullLiteral' or (n.get('kind') == 'IntegerLiteral' and n.get('value') == '0' and False)

    # ------------------------------------------------------------------ use of a pointer (U) / (N)
    def use(self, path, v, what, must_nonnull=True):
        if v == NULL:
            if must_nonnull:
                self.ob('N', False, '%s: NULL passed/dereferenced' % what, path)
            return
        if isinstance(v, tuple) and v[0] == 'maybe':
            if must_nonnull:
                self.ob('N', False, '%s: possibly-NULL value used without a test' % what, path)
            v = v[1]
        if not isinstance(v, Obj):
            return
        self.check_alive(path, v, what)

    def check_alive(self, path, o, what):
        if o.owned <= 0 and o.origin == 'new' and getattr(o, 'also_held_by', None) is not None:
            o.origin = ('borrowed', o.also_held_by, o.made, False)
        if o.owned > 0 or o.origin in ('arg', 'immortal', 'global', 'new'):
            ok = True
            if o.origin == 'new' and o.owned <= 0:
                ok = False          # use after the last reference was given up
            if o.origin == 'new' or not ok:
                self.ob('U', ok, '%s: %r used after its reference was released' % (what, o), path)
            return
        kind, cont, ep, mutable = o.origin[:4]
        if ep >= path.epoch:
            return                  # no call-out since it was borrowed
        # borrowed before a call-out: safe only if borrowed from an immutable container that is itself alive
        if not mutable and cont is not None and (cont.owned > 0 or cont.origin in ('arg', 'immortal', 'global')):
            self.ob('U', True, '%s: %r borrowed from an immutable container that is kept alive' % (what, o), path)
            return
        if not mutable and cont is None:
            return
        self.ob('U', False, '%s: %r was borrowed at epoch %d from a container that a later call-out (now epoch %d) '
                'may have mutated or freed, and this frame owns no reference to it' % (what, o, ep, path.epoch), path)

    # ------------------------------------------------------------------ expressions
    def ev(self, n, path):
        """-> value: Obj | NULL | ('maybe', Obj) | ('int', descr)"""
        n = self.strip(n)
        k = n.get('kind')
        if k == 'NullLiteral':
            return NULL
        if k in ('IntegerLiteral', 'CharacterLiteral', 'StringLiteral'):
            return ('int', n.get('value'))
        if k == 'DeclRefExpr':
            name = n['referencedDecl']['name']
            if name in path.env:
                return path.env[name]
            if name in ('_Py_NoneStruct', '_Py_TrueStruct', '_Py_FalseStruct', '_Py_NotImplementedStruct') or name.startswith('PyExc_') \
                    or name.endswith('_Type'):
                return self.immortal(path, name)
            if n['referencedDecl'].get('kind') in ('VarDecl',) :
                return self.global_(path, name)
            if n['referencedDecl'].get('kind') == 'FunctionDecl':
                return ('int', 'fn:' + name)
            return ('int', name)
        if k == 'UnaryOperator':
            op = n.get('opcode')
            inner = self.strip(n['inner'][0])
            if op == '&':
                if inner.get('kind') == 'DeclRefExpr':
                    name = inner['referencedDecl']['name']
                    if name in ('_Py_NoneStruct', '_Py_TrueStruct', '_Py_FalseStruct', '_Py_NotImplementedStruct') or name.endswith('_Type'):
                        return self.immortal(path, name)
                    return ('addr', name)
                return ('int', '&expr')
            if op == '!':
                v = self.ev(n['inner'][0], path)
                return ('int', ('not', v))
            if op in ('++', '--', '-', '~', '+'):
                self.ev(n['inner'][0], path)
                return ('int', op)
            if op == '*':
                v = self.ev(n['inner'][0], path)
                return ('int', 'deref')
        if k == 'MemberExpr':
            base = self.ev(n['inner'][0], path)
            fld = n.get('name')
            self.use(path, base, 'field %s' % fld)
            if isinstance(base, tuple) and base[0] == 'maybe':
                base = base[1]
            if isinstance(base, Obj):
                key = (base.id, fld)
                if key not in path.fields:
                    if fld in ('ob_type',):
                        path.fields[key] = self.immortal(path, 'type')
                    else:
                        # a PyObject* field of self: borrowed from the object, which is mutable (LB_clear resets it)
                        o = path.new(('borrowed', base, path.epoch, True), '%s->%s' % (base.label, fld))
                        path.fields[key] = ('maybe', o)
                        path.field_epoch[key] = path.epoch
                else:
                    # re-reading the field after a call-out yields the current occupant: a fresh borrow
                    if path.field_epoch.get(key, 0) < path.epoch and fld not in ('ob_type',):
                        o = path.new(('borrowed', base, path.epoch, True), '%s->%s' % (base.label, fld))
                        path.fields[key] = ('maybe', o)
                        path.field_epoch[key] = path.epoch
                return path.fields[key]
            return ('int', 'field')
        if k == 'ArraySubscriptExpr':
            # PyTuple_GET_ITEM / PyList_GET_ITEM expansions:  container->ob_item[i]
            cont = self.find_container(n, path)
            if cont is not None:
                self.use(path, cont, 'item access')
                c = cont[1] if isinstance(cont, tuple) else cont
                mutable = 'PyListObject' in json.dumps(n)[:8000]
                if mutable and isinstance(c, Obj):
                    # (B) the index must be bounded by a size read since the last call-out
                    se = path.size_epoch.get(c.id)
                    self.ob('B', se is not None and se >= path.epoch,
                            'item of the mutable list %r is read with an index bounded by a size that was read before a '
                            'call-out (size read at epoch %s, now %d): the list may have shrunk' % (c, se, path.epoch), path)
                return path.new(('borrowed', c if isinstance(c, Obj) else None, path.epoch, mutable), 'item')
            return ('int', 'subscript')
        if k == 'CallExpr':
            return self.call(n, path)
        if k == 'BinaryOperator':
            op = n.get('opcode')
            if op == ',':
                self.ev(n['inner'][0], path)
                return self.ev(n['inner'][1], path)
            if op == '=':
                v = self.ev(n['inner'][1], path)
                self.assign(n['inner'][0], v, path)
                return v
            a = self.ev(n['inner'][0], path)
            b = self.ev(n['inner'][1], path)
            return ('int', (op, a, b))
        if k == 'ConditionalOperator':
            self.ev(n['inner'][0], path)
            a = self.ev(n['inner'][1], path)
            self.ev(n['inner'][2], path)
            return a
        if k in ('UnaryExprOrTypeTraitExpr', 'CompoundAssignOperator', 'InitListExpr', 'PredefinedExpr'):
            return ('int', k)
        raise CUnsupported('%s in %s' % (k, self.name))

    def find_container(self, n, path):
        def walk(x):
            x = self.strip(x)
            if x.get('kind') == 'DeclRefExpr' and x['referencedDecl']['name'] in path.env:
                return path.env[x['referencedDecl']['name']]
            for c in x.get('inner', []) or []:
                r = walk(c)
                if r is not None:
                    return r
            return None
        return walk(n['inner'][0])

    def immortal(self, path, name):
        key = ('imm', name)
        if key not in path.env:
            path.env[key] = path.new('immortal', name)
        return path.env[key]

    def global_(self, path, name):
        key = ('glob', name)
        if key not in path.env:
            path.env[key] = path.new('global', name)
        return path.env[key]

    def assign(self, target, v, path):
        t = self.strip(target)
        if t.get('kind') == 'DeclRefExpr':
            path.env[t['referencedDecl']['name']] = v
            return
        if t.get('kind') == 'MemberExpr':
            base = self.ev(t['inner'][0], path)
            if isinstance(base, tuple) and base[0] == 'maybe':
                base = base[1]
            if isinstance(base, Obj):
                # (L, field overwrite) the reference the field held so far passes to this frame: it is known to be NULL, or it
                # was read (saved) since the last call-out and must be released before the function returns
                key = (base.id, t.get('name'))
                cur = path.fields.get(key)
                fresh = path.field_epoch.get(key, -1) >= path.epoch
                if v is not NULL and not (isinstance(v, tuple) and v[0] == 'int'):
                    if cur is NULL and fresh:
                        pass
                    elif cur is not None and fresh and (isinstance(cur, Obj) or (isinstance(cur, tuple) and cur[0] == 'maybe')):
                        oo = cur[1] if isinstance(cur, tuple) else cur
                        if oo.origin != 'immortal':
                            oo.owned += 1
                            oo.taken_from_field = True
                    else:
                        self.ob('L', False, 'field %s->%s is overwritten although it may hold a reference: it is not known to be NULL '
                                'since the last call-out and its old value was not saved for release' % (base.label, t.get('name')), path)
                # storing a reference into a field transfers one owned reference to the object
                vv = v[1] if isinstance(v, tuple) and v[0] == 'maybe' else v
                if isinstance(vv, Obj):
                    vv.owned -= 1
                    vv.escaped = True
                    if vv.owned <= 0:
                        vv.origin = ('borrowed', base, path.epoch, True)
                path.fields[(base.id, t.get('name'))] = v
                path.field_epoch[(base.id, t.get('name'))] = path.epoch
            return
        if t.get('kind') in ('UnaryOperator', 'ArraySubscriptExpr'):
            return
        raise CUnsupported('assignment target %s' % t.get('kind'))

    def call(self, n, path):
        name = self.callee(n)
        args = [self.ev(a, path) for a in n['inner'][1:]]
        spec = API.get(name) or LOCAL.get(name)
        if spec is None:
            raise CUnsupported('call of %s (no entry in the API table)' % name)
        for idx in spec.get('nonnull', []):
            if idx < len(args):
                self.use(path, args[idx], 'argument %d of %s' % (idx, name))
        for idx, a in enumerate(args):
            if idx not in spec.get('nonnull', []):
                self.use(path, a, 'argument %d of %s' % (idx, name), must_nonnull=False)

        def obj_of(v):
            if isinstance(v, tuple) and v[0] == 'maybe':
                return v[1]
            return v if isinstance(v, Obj) else None
        if 'incref' in spec:
            o = obj_of(args[spec['incref']]) if args else None
            if o is not None:
                o.owned += 1
        if 'decref' in spec:
            o = obj_of(args[spec['decref']]) if args else None
            if o is not None:
                if o.origin != 'immortal':
                    self.ob('L', o.owned > 0 or o.origin in ('arg', 'global') and False,
                            'Py_DECREF of %r which this frame does not own' % (o,), path) if o.owned <= 0 else None
                o.owned -= 1
        for idx in spec.get('steals', []):
            o = obj_of(args[idx]) if idx < len(args) else None
            if o is not None:
                o.owned -= 1
                o.escaped = True
        if 'store' in spec:
            ci, vi = spec['store']
            cont, val = obj_of(args[ci]), obj_of(args[vi])
            if cont is not None and val is not None and val.from_callout:
                # (St): the container must have been acquired before the call-out that produced the value
                acq = cont.made
                self.ob('St', acq <= val.made_before, 'value produced by the call-out at epoch %d is stored into %r acquired at epoch %d '
                        '(after that call-out): an answer computed before a re-entrant mutation would survive in the live cache'
                        % (val.made_before, cont, acq), path)
        if name in ('PyList_GET_SIZE', 'PyList_Size') and args:
            o = obj_of(args[0])
            if o is not None:
                path.size_epoch[o.id] = path.epoch
        callout = spec.get('callout', False)
        if spec.get('callout_unless_str') and not self.known_str(path, args[0] if args else None):
            callout = True
        if callout and name in LOCAL:
            # (A): a function of this file that calls out keeps using its pointer arguments afterwards (they are "function
            # arguments" inside it, rule U); the caller must therefore keep them alive itself -- a pointer merely borrowed
            # from a mutable container or struct field may be released by the code the callee runs
            for idx, a in enumerate(args):
                o = obj_of(a)
                if o is None or o.owned > 0 or not isinstance(o.origin, tuple):
                    continue
                kind, cont, ep, mutable = o.origin[:4]
                self.ob('A', not mutable, 'argument %d of %s: %r is only borrowed from a mutable container or field; %s runs arbitrary '
                        'code and goes on using its arguments, so the caller has to own a reference' % (idx, name, o, name), path)
        before = path.epoch
        if callout:
            path.epoch += 1
        r = spec['result']
        if r == 'void':
            return ('int', 'void')
        if r == 'int':
            return ('int', 'call:' + (name or '?'))
        if r == 'state':
            return path.new('immortal', 'module-state')
        if r.startswith('same:'):
            return args[int(r[5:])]
        if r == 'new':
            o = path.new('new', name)
            o.owned = 1
            if name == 'PyObject_GetAttr' and len(args) > 1 and isinstance(args[1], Obj) and args[1].label == 'str__self__':
                # super.__self__: the super object (immutable) holds this reference for as long as it lives
                o.also_held_by = obj_of(args[0])
            if callout:
                o.from_callout = True
                o.made_before = before
            return ('maybe', o) if spec.get('nullable') else o
        if r.startswith('borrowed-field:'):
            selfo = obj_of(args[0])
            o = path.new(('borrowed', selfo, path.epoch, True), name)
            return ('maybe', o) if spec.get('nullable') else o
        if r.startswith('borrowed:'):
            idx = int(r[9:])
            cont = obj_of(args[idx]) if 0 <= idx < len(args) else None
            if spec.get('stable'):
                o = path.new('immortal', name)
            else:
                o = path.new(('borrowed', cont, path.epoch, spec.get('mutable', True)), name)
            return ('maybe', o) if spec.get('nullable') else o
        raise CUnsupported('result kind %s' % r)

    def known_str(self, path, v):
        o = v[1] if isinstance(v, tuple) and v[0] == 'maybe' else v
        return isinstance(o, Obj) and getattr(o, 'is_str', False)

    # ------------------------------------------------------------------ conditions
    def branch(self, cond, path):
        """-> [(path, truth)] after evaluating cond, refining NULL-ness where the test is about it"""
        c = self.strip(cond)
        k = c.get('kind')
        if k == 'BinaryOperator' and c.get('opcode') in ('&&', '||'):
            out = []
            for p1, t1 in self.branch(c['inner'][0], path):
                if (c['opcode'] == '&&' and not t1) or (c['opcode'] == '||' and t1):
                    out.append((p1, t1))
                else:
                    out.extend(self.branch(c['inner'][1], p1))
            return out
        if k == 'UnaryOperator' and c.get('opcode') == '!':
            return [(p, not t) for p, t in self.branch(c['inner'][0], path)]
        if k == 'BinaryOperator' and c.get('opcode') in ('==', '!='):
            l, r = self.strip(c['inner'][0]), self.strip(c['inner'][1])
            for a, b in ((l, r), (r, l)):
                if b.get('kind') == 'NullLiteral' and a.get('kind') == 'DeclRefExpr' and a['referencedDecl']['name'] in path.env:
                    var = a['referencedDecl']['name']
                    v = path.env[var]
                    eq = c['opcode'] == '=='
                    if v == NULL:
                        return [(path, eq)]
                    if isinstance(v, tuple) and v[0] == 'maybe':
                        pn, pt = path.clone(), path
                        o_n = pn.env[var][1]
                        self.replace(pn, o_n, NULL)
                        self.replace(pt, v[1], v[1])
                        pn.trace.append('%s==NULL' % var)
                        pt.trace.append('%s!=NULL' % var)
                        return [(pn, eq), (pt, not eq)]
                    if isinstance(v, Obj):
                        return [(path, not eq)]
                if b.get('kind') == 'NullLiteral' and a.get('kind') == 'MemberExpr':
                    v = self.ev(a, path)
                    eq = c['opcode'] == '=='
                    if isinstance(v, tuple) and v[0] == 'maybe':
                        base = self.ev(a['inner'][0], path)
                        base = base[1] if isinstance(base, tuple) and base[0] == 'maybe' else base
                        pn, pt = path.clone(), path
                        pn.fields[(base.id, a.get('name'))] = NULL
                        pt.fields[(base.id, a.get('name'))] = v[1]
                        pn.trace.append('%s==NULL' % a.get('name'))
                        pt.trace.append('%s!=NULL' % a.get('name'))
                        return [(pn, eq), (pt, not eq)]
                    if v == NULL:
                        return [(path, eq)]
                    return [(path, not eq)]
        if k == 'BinaryOperator' and c.get('opcode') in ('==', '!='):
            l, r = self.strip(c['inner'][0]), self.strip(c['inner'][1])
            for a, b in ((l, r), (r, l)):
                if a.get('kind') == 'DeclRefExpr' and a['referencedDecl']['name'] in path.env and \
                        b.get('kind') == 'UnaryOperator' and b.get('opcode') == '&':
                    var = a['referencedDecl']['name']
                    v = path.env[var]
                    imm = self.ev(b, path)
                    o = v[1] if isinstance(v, tuple) and v[0] == 'maybe' else v
                    if isinstance(o, Obj) and isinstance(imm, Obj):
                        eq = c['opcode'] == '=='
                        pt, pf = path, path.clone()
                        # on the equal branch the variable IS the immortal object: merge the reference counts
                        io = self.ev(b, pt)
                        oo = pt.env[var][1] if isinstance(pt.env[var], tuple) else pt.env[var]
                        if oo is not io:
                            io.owned += oo.owned
                            oo.owned = 0
                            for kk, vv in list(pt.env.items()):
                                if vv is oo or (isinstance(vv, tuple) and len(vv) == 2 and vv[1] is oo):
                                    pt.env[kk] = io
                        pt.trace.append('%s is %s' % (var, io.label))
                        pf.trace.append('%s is not %s' % (var, io.label))
                        return [(pt, eq), (pf, not eq)]
        if k == 'DeclRefExpr' and c['referencedDecl']['name'] in path.env:
            var = c['referencedDecl']['name']
            v = path.env[var]
            if v == NULL:
                return [(path, False)]
            if isinstance(v, tuple) and v[0] == 'maybe':
                pn, pt = path.clone(), path
                self.replace(pn, pn.env[var][1], NULL)
                self.replace(pt, v[1], v[1])
                return [(pn, False), (pt, True)]
            if isinstance(v, Obj):
                return [(path, True)]
        # PyUnicode_Check(name) refinement: remember that the object is a str
        txt = json.dumps(c)[:3000]
        self.ev(cond, path)
        pt, pf = path, path.clone()
        if 'PyType_FastSubclass' in txt or 'PyUnicode' in txt:
            for vname, v in list(pt.env.items()):
                pass
            self.mark_str(c, pt)
        pt.trace.append('cond@%s:T' % c.get('range', {}).get('begin', {}).get('line', '?'))
        pf.trace.append('cond@%s:F' % c.get('range', {}).get('begin', {}).get('line', '?'))
        return [(pt, True), (pf, False)]

    def mark_str(self, c, path):
        def walk(x):
            if x.get('kind') == 'DeclRefExpr' and x['referencedDecl']['name'] in path.env:
                v = path.env[x['referencedDecl']['name']]
                o = v[1] if isinstance(v, tuple) and v[0] == 'maybe' else v
                if isinstance(o, Obj):
                    o.is_str = True
            for ch in x.get('inner', []) or []:
                walk(ch)
        walk(c)

    def replace(self, path, obj, newval):
        """refine every alias of ('maybe', obj) to newval"""
        for k, v in list(path.env.items()):
            if isinstance(v, tuple) and v[0] == 'maybe' and v[1] is obj:
                path.env[k] = newval
        for k, v in list(path.fields.items()):
            if isinstance(v, tuple) and v[0] == 'maybe' and v[1] is obj:
                path.fields[k] = newval
        if newval == NULL and obj in path.objs:
            obj.owned = 0

    # ------------------------------------------------------------------ statements
    def run(self, stmts, path):
        """-> [(path, outcome)] outcome None (fall through) | ('return', value) | 'break' | 'continue'"""
        paths = [path]
        done = []
        for s in stmts:
            nxt = []
            for p in paths:
                for p2, o in self.step(s, p):
                    (nxt if o is None else done).append((p2, o) if o is not None else p2)
            paths = nxt
            if len(paths) + len(done) > 3000:
                raise CUnsupported('too many paths in %s' % self.name)
        return done + [(p, None) for p in paths]

    def step(self, s, path):
        k = s.get('kind')
        if k == 'CompoundStmt':
            return self.run(s.get('inner', []), path)
        if k == 'DeclStmt':
            for d in s.get('inner', []):
                if d.get('kind') == 'VarDecl':
                    init = [c for c in d.get('inner', []) if c.get('kind') not in ('FullComment',)]
                    path.env[d['name']] = self.ev(init[0], path) if init else ('int', 'uninit')
            return [(path, None)]
        if k == 'ReturnStmt':
            v = self.ev(s['inner'][0], path) if s.get('inner') else ('int', 'void')
            return [(path, ('return', v))]
        if k == 'IfStmt':
            inner = s['inner']
            out = []
            for p, t in self.branch(inner[0], path):
                if t:
                    out.extend(self.step(inner[1], p))
                elif len(inner) > 2:
                    out.extend(self.step(inner[2], p))
                else:
                    out.append((p, None))
            return out
        if k == 'ForStmt':
            init, _, cond, inc, body = (s['inner'] + [None] * 5)[:5]
            if init and init.get('kind'):
                self.step(init, path) if init.get('kind') in ('DeclStmt',) else self.ev(init, path)
            out = []
            # zero iterations
            p0 = path.clone()
            if cond and cond.get('kind'):
                self.ev(cond, p0)
            out.append((p0, None))
            # one generic iteration: ownership must be balanced by the body.  If the body contains a call-out, the
            # generic iteration starts after an earlier iteration's call-out (epoch advanced past everything read before)
            probe = path.clone()
            e0 = probe.epoch
            nob = len(self.obls)
            try:
                advanced = any(p_.epoch > e0 for p_, _ in self.step(body, probe))
            finally:
                del self.obls[nob:]
            if advanced:
                path.epoch += 1
            before = {o.id: o.owned for o in path.objs}
            if cond and cond.get('kind'):
                self.ev(cond, path)
            for p, o in self.step(body, path):
                if o in (None, 'continue'):
                    for ob_ in p.objs:
                        if ob_.id in before and ob_.owned != before[ob_.id] and ob_.origin != 'immortal':
                            self.ob('L', False, 'loop body changes the references held on %r (%d -> %d)' % (ob_, before[ob_.id], ob_.owned), p)
                    for ob_ in p.objs:
                        if ob_.id not in before and ob_.owned > 0 and not getattr(ob_, 'escaped', False):
                            self.ob('L', False, 'reference to %r created in the loop body is still held at the end of the iteration' % (ob_,), p)
                    if inc and inc.get('kind'):
                        self.ev(inc, p)
                    out.append((p, None))
                elif o == 'break':
                    out.append((p, None))
                else:
                    out.append((p, o))
            return out
        if k in ('BreakStmt',):
            return [(path, 'break')]
        if k in ('ContinueStmt',):
            return [(path, 'continue')]
        if k in ('NullStmt',):
            return [(path, None)]
        if k == 'SwitchStmt':
            self.ev(s['inner'][0], path)
            out = []
            body = s['inner'][-1]
            cases = [c for c in body.get('inner', []) if c.get('kind') in ('CaseStmt', 'DefaultStmt')]
            for c in cases:
                p = path.clone()
                stmts = [x for x in c.get('inner', []) if x.get('kind') not in ('ConstantExpr', 'IntegerLiteral')]
                res = self.run(stmts, p)
                for p2, o in res:
                    out.append((p2, None if o == 'break' else o))
            if not any(c.get('kind') == 'DefaultStmt' for c in cases):
                out.append((path, None))
            return out
        if k in ('DoStmt', 'WhileStmt'):
            raise CUnsupported(k + ' in ' + self.name)
        # expression statement
        self.ev(s, path)
        return [(path, None)]

    # ------------------------------------------------------------------ driver
    def verify(self, returns='new'):
        body = [c for c in self.f['inner'] if c.get('kind') == 'CompoundStmt'][0]
        path = Path()
        for prm in [c for c in self.f['inner'] if c.get('kind') == 'ParmVarDecl']:
            ty = prm.get('type', {}).get('qualType', '')
            if '*' in ty:
                o = path.new('arg', prm['name'])
                if prm['name'] in PRE_STR.get(self.name, ()):
                    o.is_str = True
                # optional keyword arguments may be NULL
                path.env[prm['name']] = ('maybe', o) if prm['name'] in ('name', 'default_', 'kwds', 'kwargs', 'ignored', 'kw') else o
            else:
                path.env[prm['name']] = ('int', prm['name'])
        results = self.run(body['inner'], path)
        for p, o in results:
            self.paths += 1
            if o is None:
                continue
            _, v = o
            ret = v[1] if isinstance(v, tuple) and v[0] == 'maybe' else v
            balanced = all(ob_.owned == 0 or getattr(ob_, 'escaped', False) for ob_ in p.objs
                           if ob_ is not ret and ob_.origin != 'immortal')
            if balanced:
                self.ob('L', True, 'at return: no reference held besides the result', p)
            for ob_ in p.objs:
                if ob_ is ret or ob_.origin == 'immortal':
                    continue
                if ob_.owned != 0 and not getattr(ob_, 'escaped', False):
                    self.ob('L', False, 'at return %r: %d reference(s) to %r still held (leak) or over-released' % (
                        'NULL' if v == NULL else getattr(ret, 'label', v), ob_.owned, ob_), p)
            if returns == 'new' and isinstance(ret, Obj):
                ok = ret.owned == 1 or (ret.origin == 'immortal' and ret.owned >= 0 and False)
                if ret.origin == 'immortal':
                    ok = True       # immortal singletons (3.12): Py_RETURN_TRUE returns them without a new reference
                self.ob('L', ok, 'returned object %r must carry exactly one new reference (has %d)' % (ret, ret.owned), p)
                if ret.owned > 0:
                    pass
                if isinstance(v, tuple) and v[0] == 'maybe' and False:
                    pass
        # positive obligations (so that a discharged count exists): one per path
        return self.obls


def verify_functions(names, returns=None, cpath=None):
    """-> {name: (status, obligations)}; obligation = (kind, ok, detail, trace)"""
    out = {}
    asts = dump_functions(names, cpath)
    for name in names:
        f = asts.get(name)
        if f is None:
            out[name] = ('missing', [], 0, None)
            continue
        ex = CExec(f)
        try:
            obls = ex.verify((returns or {}).get(name, 'new'))
            out[name] = ('ok', obls, ex.paths, f)
        except CUnsupported as e:
            out[name] = ('unsupported: %s' % e, [], 0, f)
    return out
