"""Mechanical extraction of function bodies from /repo's working tree.

The text that is verified is the text that runs: the module file is re-read
and re-parsed on every run; a function is addressed as ``path:Qual.Name``.
Dropped by extraction (and by nothing else): docstrings, comments, type
annotations and decorators (``@staticmethod``, ``@classmethod``, ``@property``,
``@_use_c_impl`` -- their dispatch effect is part of the call resolution).
"""
import ast
import hashlib
import os

REPO = os.environ.get('VERIF_REPO', '/repo')
SRC = os.path.join(REPO, 'src', 'zope', 'interface')

_cache = {}


def parse_module(relpath):
    path = os.path.join(SRC, relpath)
    if path not in _cache:
        with open(path, encoding='utf-8') as f:
            text = f.read()
        _cache[path] = (text, ast.parse(text, filename=path))
    return _cache[path]


class FunctionSource:
    def __init__(self, key, relpath, qualname, node, text, classname):
        self.key = key
        self.relpath = relpath
        self.qualname = qualname
        self.node = node
        self.classname = classname          # innermost enclosing class, for name mangling
        self.lineno = node.lineno
        self.end_lineno = node.end_lineno
        seg = '\n'.join(text.splitlines()[node.lineno - 1:node.end_lineno])
        self.text = seg
        self.sha = hashlib.sha256(ast.dump(node).encode()).hexdigest()[:16]

    def body(self):
        b = list(self.node.body)
        if b and isinstance(b[0], ast.Expr) and isinstance(getattr(b[0], 'value', None), ast.Constant) \
                and isinstance(b[0].value.value, str):
            b = b[1:]
        return b


def find_function(key):
    """key = 'ro.py:C3._merge' -> FunctionSource (raises KeyError when absent)."""
    relpath, qual = key.split(':', 1)
    text, tree = parse_module(relpath)
    parts = qual.split('.')
    scope = tree.body
    classname = None
    node = None
    for idx, p in enumerate(parts):
        want_class = p.endswith('@class')      # disambiguate a class later shadowed by a function of the same name
        p = p[:-6] if want_class else p
        found = None
        # last definition wins, as at import time
        for n in scope:
            if isinstance(n, (ast.FunctionDef, ast.ClassDef)) and n.name == p and \
                    (not want_class or isinstance(n, ast.ClassDef)):
                found = n
            elif isinstance(n, (ast.If, ast.Try)):
                for sub in ast.walk(n):
                    if isinstance(sub, (ast.FunctionDef, ast.ClassDef)) and sub.name == p and found is None:
                        found = sub
        if found is None:
            raise KeyError('function %s not found in %s' % (qual, relpath))
        if isinstance(found, ast.ClassDef):
            classname = found.name
            scope = found.body
        else:
            node = found
            scope = found.body
    if not isinstance(node, ast.FunctionDef):
        raise KeyError('%s is not a function' % key)
    return FunctionSource(key, relpath, qual, node, text, classname)


def loop_shape(fnode):
    """Ordinal names of loops/comprehensions, e.g. ['L0', 'L0.0', 'L1', 'K0']."""
    out = []

    def walk(stmts, prefix):
        n = 0
        for s in stmts:
            for sub in _stmt_children_loops(s):
                name = '%s%d' % (prefix, n) if prefix.endswith('.') or prefix == 'L' else prefix
                name = (prefix + str(n))
                out.append(name)
                n += 1
                walk(sub.body + getattr(sub, 'orelse', []), name + '.')
    def _stmt_children_loops(s):
        res = []
        if isinstance(s, (ast.For, ast.While)):
            return [s]
        for field in ('body', 'orelse', 'finalbody', 'handlers'):
            for c in getattr(s, field, []) or []:
                if isinstance(c, ast.ExceptHandler):
                    for cc in c.body:
                        res.extend(_stmt_children_loops(cc))
                elif isinstance(c, ast.stmt):
                    res.extend(_stmt_children_loops(c))
        return res
    walk(fnode.body, 'L')
    return out
