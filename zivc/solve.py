"""Discharging obligations: z3 first, cvc5 for what z3 leaves open (never the other way round for `sat`)."""
import multiprocessing as mp
import os
import subprocess
import tempfile
import time

import z3

Z3_TIMEOUT_MS = int(os.environ.get('VERIF_Z3_TIMEOUT_MS', '10000'))
CVC5_TIMEOUT_MS = int(os.environ.get('VERIF_CVC5_TIMEOUT_MS', '15000'))
SEED = int(os.environ.get('VERIF_SEED', '0') or 0)


def to_smt2(axioms, hyps, goal):
    s = z3.Solver()
    for a in axioms:
        s.add(a)
    for h in hyps:
        s.add(h)
    s.add(z3.Not(goal))
    return s.to_smt2()


class Lazy:
    """An obligation still in term form: serialised to SMT-LIB inside the worker process (the pool is forked after the
    terms were built, so the workers inherit them); serialisation was the serial bottleneck of large checks."""

    def __init__(self, axioms, hyps, goal):
        self.axioms, self.hyps, self.goal = axioms, hyps, goal

    def text(self):
        return to_smt2(self.axioms, self.hyps, self.goal)


_ITEMS = []


def _quantified(t, seen=None):
    seen = {} if seen is None else seen
    if t.get_id() in seen:
        return False
    seen[t.get_id()] = True
    if z3.is_quantifier(t):
        return True
    return any(_quantified(c, seen) for c in t.children())


def _text(idx):
    smt = _ITEMS[idx][1]
    return smt.text() if isinstance(smt, Lazy) else smt


def _solve_one(job):
    idx, single_pass, want_model, timeout = job
    t0 = time.time()
    try:
        smt2 = _text(idx)
        ctx = z3.Context()
        # pass 0: the quantifier-free hypotheses alone (a subset of the hypotheses: `unsat` is `unsat`); many obligations are
        # decided by ground reasoning, and this pass does not depend on the quantifier-instantiation heuristics at all
        s = z3.Solver(ctx=ctx)
        s.set('timeout', min(timeout, 3000))
        s.set('random_seed', SEED % (2 ** 31))
        ground = [a for a in z3.parse_smt2_string(smt2, ctx=ctx) if not _quantified(a)]
        s.add(ground)
        r = z3.unknown if single_pass else s.check()
        if r == z3.unsat:
            return idx, 'unsat', time.time() - t0, None, ''
        # passes 1-3: default configuration with a short budget, then pure E-matching (no model-based quantifier
        # instantiation: the axioms carry explicit triggers, and many quantified hypotheses send MBQI astray), then the default
        # configuration with the full budget.  `unsat` is `unsat` under any option; `sat` is only taken from a default pass.
        r = z3.unknown
        for mbqi, budget in (((True, timeout),) if single_pass else ((True, min(timeout, 3000)), (False, timeout), (True, timeout))):
            s = z3.Solver(ctx=ctx)
            s.set('timeout', budget)
            s.set('random_seed', SEED % (2 ** 31))
            if not mbqi:
                s.set('smt.mbqi', False)
            s.from_string(smt2)
            r2 = s.check()
            if r2 == z3.unsat or (r2 == z3.sat and mbqi):
                r = r2
                break
        verdict = str(r)
        model = None
        if r == z3.sat and want_model:
            try:
                model = s.model().sexpr()
            except Exception as e:  # pragma: no cover
                model = 'model unavailable: %s' % e
        reason = s.reason_unknown() if r == z3.unknown else ''
        return idx, verdict, time.time() - t0, model, reason
    except Exception as e:
        return idx, 'error', time.time() - t0, None, repr(e)


def _cvc5(smt2, timeout_ms):
    t0 = time.time()
    with tempfile.NamedTemporaryFile('w', suffix='.smt2', delete=False) as f:
        f.write('(set-logic ALL)\n' + smt2)
        path = f.name
    try:
        p = subprocess.run(['/usr/bin/cvc5', '--strings-exp', '--tlimit=%d' % timeout_ms, path],
                           capture_output=True, text=True, timeout=timeout_ms / 1000 + 10)
        out = (p.stdout.strip().splitlines() or ['unknown'])[0]
        if out not in ('sat', 'unsat', 'unknown'):
            out = 'unknown'
        return out, time.time() - t0, (p.stdout + p.stderr)[-400:]
    except subprocess.TimeoutExpired:
        return 'unknown', time.time() - t0, 'timeout'
    finally:
        os.unlink(path)


def _cvc5_job(job):
    idx, _unused, timeout = job
    v, t, raw = _cvc5(_text(idx), timeout)
    return idx, v, t, raw


class Result:
    def __init__(self, label):
        self.label = label
        self.z3 = None
        self.cvc5 = None
        self.time = 0.0
        self.model = None
        self.reason = ''
        self.raw = ''

    @property
    def discharged(self):
        return self.z3 == 'unsat' or self.cvc5 == 'unsat'

    @property
    def backend(self):
        if getattr(self, 'via', None) and self.discharged:
            return self.via
        return 'z3' if self.z3 == 'unsat' else ('cvc5' if self.cvc5 == 'unsat' else None)

    @property
    def refuted(self):
        return self.z3 == 'sat' or self.cvc5 == 'sat'


def discharge(items, jobs=None, both=False, z3_timeout=None, use_cvc5=True, single_pass=False):
    """items: [(label, smt2)] -> [Result]; runs in a process pool."""
    jobs = jobs or min(16, os.cpu_count() or 4)
    z3_timeout = z3_timeout or Z3_TIMEOUT_MS
    global _ITEMS
    results = [Result(lbl) for lbl, _ in items]
    if not items:
        return results
    _ITEMS = items                      # inherited by the forked workers; jobs carry indexes only
    with mp.get_context('fork').Pool(min(jobs, len(items))) as pool:
        for idx, verdict, t, model, reason in pool.imap_unordered(
                _solve_one, [(i, single_pass, True, z3_timeout) for i in range(len(items))], chunksize=max(1, len(items) // (jobs * 8))):
            r = results[idx]
            r.z3, r.time, r.model, r.reason = verdict, t, model, reason
        todo = [(i, None, CVC5_TIMEOUT_MS) for i, r in enumerate(results)
                if both or r.z3 not in ('unsat', 'sat')] if use_cvc5 else []
        if todo:
            for idx, v, t, raw in pool.imap_unordered(_cvc5_job, todo):
                r = results[idx]
                r.cvc5, r.raw = v, raw
                r.time += t
    return results
