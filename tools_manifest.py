"""Regenerate MANIFEST.json from contracts.PROPS (python3-vt tools_manifest.py)."""
import json
import os
import sys

sys.path.insert(0, os.path.dirname(os.path.abspath(__file__)))
from contracts import PROPS, NOT_APPLICABLE  # noqa

props = [json.loads(l) for l in open('properties.jsonl')]
checks = []
for p in props:
    pid = p['id']
    if pid not in PROPS:
        continue
    c = PROPS[pid]
    checks.append({
        'property_id': pid,
        'quick_cmd': './check %s --tier quick' % pid,
        'thorough_cmd': './check %s --tier thorough' % pid,
        'evidence_file': '/verif/evidence/%s.json' % pid,
        'replay_cmd_template': './check replay {path}',
        'engine': 'zivc',
        'level_claimed': {'category': c.get('level', 'proof'), 'text': c['level_text'] + c.get('level_text_extra', ''), 'design_ref': c.get('design_ref', 'DESIGN.md section 5, ' + pid)},
        'level_note': c['level_note'],
        'technique': c.get('technique', 'contract-based deductive verification: side-car contracts on the real functions, VCs generated from the ast on every run, discharged by z3/cvc5; bounded run-time contract checking as labelled stand-in'),
    })
na = list(NOT_APPLICABLE)
for p in props:
    if p['id'] not in PROPS and not any(n['property_id'] == p['id'] for n in na):
        na.append({'property_id': p['id'], 'reason': 'no check registered yet: contracts for this property are still being written (work in progress, see DESIGN.md section 9)'})
manifest = {
    'version': 1,
    'setup_cmd': 'python3-vt -c "import z3; print(z3.get_version_string())" && /usr/bin/cvc5 --version | head -1 && python3-vt -m compileall -q zivc contracts falsify && /venv/bin/python -c "import zope.interface"',
    'hooks': {
        'guard': 'ZOPE_INTERFACE_VERIF',
        'enable': 'no hooks: contracts are side-car files, run-time monitors are installed by monkey-patching from /verif/falsify, the C accelerator is compiled out of tree from /repo working tree',
        'baseline_off_cmd': 'cd /repo && /venv/bin/python -m pytest -ra -q -p no:cacheprovider --timeout=900 --continue-on-collection-errors',
        'source_commits': json.load(open('known_findings.json')).get('source_commits', []),
        'add_only': True,
    },
    'engines': [{'name': 'zivc', 'path': '/verif/zivc', 'serves_properties': sorted(PROPS),
                 'kind_free_text': 'verification-condition generator: typed symbolic execution of the real Python function bodies (ast re-read from /repo on every run) against side-car contracts; loops cut at invariants, calls replaced by callee contracts; obligations discharged by z3 (cvc5 second); bounded small-scope run-time contract checking of the real code for witnesses and for functions outside the verified subset'}],
    'checks': checks,
    'not_applicable': na,
    'notes': 'Exit codes: 0 held, 1 violation, 2 undecided (contract no longer lines up with the code), 3 checker error. See DESIGN.md.',
}
json.dump(manifest, open('MANIFEST.json', 'w'), indent=1)
print('checks:', [c['property_id'] for c in checks], 'n/a:', [n['property_id'] for n in na])
