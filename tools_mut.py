"""Developer helper: run tools_dbg on a scratch copy with one textual replacement.
usage: python3 tools_mut.py <contract module> <file> <old> <new> [proc substrings...]"""
import os, shutil, subprocess, sys, tempfile
mod, f, old, new = sys.argv[1:5]
d = tempfile.mkdtemp(prefix='zi_mut_')
try:
    shutil.copytree('/repo/src', os.path.join(d, 'src'), ignore=shutil.ignore_patterns('*.so', '__pycache__'))
    p = os.path.join(d, 'src', 'zope', 'interface', f)
    s = open(p).read()
    assert s.count(old) == 1, s.count(old)
    open(p, 'w').write(s.replace(old, new))
    r = subprocess.run(['python3-vt', os.environ.get('TOOL', 'tools_dbg.py'), mod] + sys.argv[5:], env=dict(os.environ, VERIF_REPO=d), capture_output=True, text=True)
    print('\n'.join(l for l in r.stdout.splitlines() if not l.startswith('WARN'))[-3000:])
    print(r.stderr[-500:])
finally:
    shutil.rmtree(d, ignore_errors=True)
