"""Kill matrix of the seeded changes on scratch copies (never touches /repo, /verif/evidence or /verif/replays).

usage: python3 tools_seed_matrix.py [-j N] [seed dirs...]     writes seeded/RESULTS.json
Each seeded/<id>/patch.diff is applied to a fresh copy of /repo's working tree under a temporary directory, the
property's quick check runs against that copy (VERIF_REPO, VERIF_OUT_DIR), the copy is removed."""
import json, os, shutil, subprocess, sys, tempfile, time
from concurrent.futures import ThreadPoolExecutor

VERIF = os.path.dirname(os.path.abspath(__file__))
args = sys.argv[1:]
jobs = 4
if '-j' in args:
    jobs = int(args[args.index('-j') + 1])
    del args[args.index('-j'):args.index('-j') + 2]
names = args or sorted(d for d in os.listdir(os.path.join(VERIF, 'seeded')) if os.path.isdir(os.path.join(VERIF, 'seeded', d)))
respath = os.path.join(VERIF, 'seeded', 'RESULTS.json')
results = json.load(open(respath)) if os.path.exists(respath) else {}


def one(name):
    pid = name.split('_')[0]
    d = tempfile.mkdtemp(prefix='zi_seed_')
    try:
        shutil.copytree('/repo/src', os.path.join(d, 'src'), ignore=shutil.ignore_patterns('*.so', '__pycache__'))
        p = subprocess.run(['patch', '-p1', '-s', '-i', os.path.join(VERIF, 'seeded', name, 'patch.diff')], cwd=d, capture_output=True, text=True)
        if p.returncode != 0:
            return name, {'property': pid, 'exit': None, 'detected': False, 'lines': ['patch does not apply: ' + p.stdout[-200:]], 'wall_s': 0}
        env = dict(os.environ, VERIF_REPO=d, VERIF_OUT_DIR=os.path.join(d, 'out'))
        t0 = time.time()
        r = subprocess.run(['./check', pid, '--tier', 'quick'], cwd=VERIF, env=env, capture_output=True, text=True)
        out = r.stdout.strip().splitlines()
        viol = [l for l in out if l.startswith('VIOLATION')]
        return name, {'property': pid, 'exit': r.returncode, 'detected': r.returncode == 1 and bool(viol),
                      'lines': [l.replace(d, '<scratch>') for l in out[:8]], 'wall_s': round(time.time() - t0, 1)}
    finally:
        shutil.rmtree(d, ignore_errors=True)


with ThreadPoolExecutor(jobs) as ex:
    for name, res in ex.map(one, names):
        results[name] = res
        print(name, 'exit', res['exit'], 'DETECTED' if res['detected'] else 'MISSED', '%.0fs' % res['wall_s'])
        for l in res['lines'][:3]:
            print('    ', l[:220])
json.dump(results, open(respath, 'w'), indent=1, sort_keys=True)
det = sum(1 for n in names if results[n]['detected'])
print('%d/%d detected' % (det, len(names)))
