"""Confirm seeded changes (from independent sub-agents) in a scratch worktree and store them under seeded/.

usage: python3 tools_seed_confirm.py <srcdir containing Cxx/A|B/{patch.diff,demo.py,meta.json}> [ids...]
For each change: pristine tree -> tests pass + demo passes; patched tree -> tests pass (same counts) + demo fails.
"""
import json, os, shutil, subprocess, sys

SRC = sys.argv[1]
WT = '/tmp/seed/wt_confirm'
VERIF = os.path.dirname(os.path.abspath(__file__))

def sh(cmd, **kw):
    return subprocess.run(cmd, shell=True, capture_output=True, text=True, **kw)

def tests():
    p = sh('/tmp/seed/tests.sh %s' % WT)
    last = (p.stdout.strip().splitlines() or ['?'])[-1]
    return last

def demo(path, pure):
    env = dict(os.environ)
    env.pop('PURE_PYTHON', None)
    if pure:
        env['PURE_PYTHON'] = '1'
    p = subprocess.run(['/tmp/seed/py.sh', WT, path], capture_output=True, text=True, env=env, timeout=300)
    return p.returncode, (p.stdout + p.stderr).strip()[-300:]

sh('git -C /repo worktree remove --force %s' % WT)
r = sh('git -C /repo worktree add --detach %s HEAD' % WT)
assert os.path.isdir(WT), r.stderr
base_tests = tests()
print('pristine tests:', base_tests)
ids = sys.argv[2:] or sorted(os.listdir(SRC))
for pid in ids:
    for v in sorted(os.listdir(os.path.join(SRC, pid))):
        d = os.path.join(SRC, pid, v)
        if not os.path.exists(os.path.join(d, 'patch.diff')):
            continue
        name = '%s_%s' % (pid, v)
        sh('git -C %s checkout -- . && git -C %s clean -fdq' % (WT, WT))
        sh('/tmp/seed/build.sh %s' % WT)
        dp = os.path.join(d, 'demo.py')
        pr_c = demo(dp, False); pr_py = demo(dp, True)
        a = sh('git -C %s apply %s' % (WT, os.path.join(d, 'patch.diff')))
        if a.returncode != 0:
            print(name, 'PATCH DOES NOT APPLY', a.stderr[:200]); continue
        t = tests()
        ch_c = demo(dp, False); ch_py = demo(dp, True)
        ok = (t == base_tests or t.split(' in ')[0] == base_tests.split(' in ')[0]) and pr_c[0] == 0 and pr_py[0] == 0 and (ch_c[0] != 0 or ch_py[0] != 0)
        modes = [m for m, r_ in (('c', ch_c), ('py', ch_py)) if r_[0] != 0]
        print(name, 'CONFIRMED' if ok else 'REJECTED', 'tests:', t.split(' in ')[0], 'pristine', pr_c[0], pr_py[0], 'changed', ch_c[0], ch_py[0])
        if ok:
            out = os.path.join(VERIF, 'seeded', name)
            os.makedirs(out, exist_ok=True)
            shutil.copy(os.path.join(d, 'patch.diff'), out)
            shutil.copy(dp, out)
            try:
                meta = json.load(open(os.path.join(d, 'meta.json')))
            except Exception:
                meta = {}
            meta.update({'property': pid, 'origin': 'independent sub-agent given only the property text and a scratch worktree',
                         'modes_failing_confirmed': modes,
                         'confirmed': {'base_commit': sh('git -C /repo rev-parse --short HEAD').stdout.strip(),
                                       'pristine_tests': base_tests, 'patched_tests': t,
                                       'demo_pristine_rc': {'c': pr_c[0], 'py': pr_py[0]},
                                       'demo_patched_rc': {'c': ch_c[0], 'py': ch_py[0]},
                                       'demo_patched_output': {'c': ch_c[1], 'py': ch_py[1]},
                                       'how': 'tools_seed_confirm.py: scratch worktree, /tmp/seed/tests.sh (full suite against the worktree with rebuilt accelerator), demo run in both modes before and after git apply'}})
            json.dump(meta, open(os.path.join(out, 'meta.json'), 'w'), indent=1)
sh('git -C /repo worktree remove --force %s' % WT)
