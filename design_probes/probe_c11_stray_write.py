from zope.interface import Interface
from zope.interface.adapter import AdapterRegistry
class I(Interface): pass
class P(Interface): pass
r = AdapterRegistry()
r.register((I,), P, '', 'v')
lk = r._v_lookup
orig = lk._uncached_lookup
junk = []
def evil(required, provided, name=''):
    res = orig(required, provided, name)
    r.register((I,), P, 'x%d' % len(junk), 'w')
    junk.append([{} for _ in range(100)])
    return res
lk._uncached_lookup = evil
bad = 0
for n in range(50):
    r.lookup((I,), P, '')
    bad += sum(1 for lst in junk for d in lst if d)
print("stray writes into unrelated dicts:", bad)
