# sanity-check the "mirror" spec of DESIGN 4.1: sro == CPython MRO of the mirrored hierarchy whenever it exists
import random, sys
from zope.interface import Interface, implementedBy, classImplements, ro
from zope.interface.interface import InterfaceClass
rnd = random.Random(int(sys.argv[1]) if len(sys.argv)>1 else 0)
def mirror(spec, memo):
    if spec is Interface: return object
    if spec in memo: return memo[spec]
    bs = tuple(mirror(b, memo) for b in spec.__bases__) or (object,)
    try:
        memo[spec] = type('M', bs, {})
    except TypeError:
        memo[spec] = None; raise
    return memo[spec]
stats = dict(cons=0, incons=0, bad=0, lin_bad=0, isc_bad=0)
for trial in range(3000):
    ifs=[]
    for k in range(rnd.randint(2,6)):
        bases = tuple(rnd.sample(ifs, rnd.randint(0, min(3,len(ifs))))) or (Interface,)
        if rnd.random()<0.15 and Interface not in bases: bases = bases + (Interface,) if rnd.random()<.5 else (Interface,)+bases
        ifs.append(InterfaceClass('I%d'%k, bases))
    # some classes with declarations
    classes=[]
    for k in range(rnd.randint(0,3)):
        cb = tuple(rnd.sample(classes, rnd.randint(0, min(2,len(classes))))) 
        try: c = type('K%d'%k, cb or (object,), {})
        except TypeError: continue
        classImplements(c, *rnd.sample(ifs, rnd.randint(0,2)))
        classes.append(c)
    specs = ifs + [implementedBy(c) for c in classes]
    for s in specs:
        sro = s.__sro__
        # linearization facts
        anc=set(); st=[s]
        while st:
            x=st.pop()
            if x in anc: continue
            anc.add(x); st.extend(x.__bases__)
        ok = sro[0] is s and len(set(sro))==len(sro) and set(sro)==anc|{Interface} and sro[-1] is Interface and all(sro.index(x) < sro.index(b) for x in sro for b in x.__bases__ if x is not Interface)
        if not ok: stats['lin_bad']+=1
        memo={}
        try:
            m = mirror(s, memo); exists=True
        except TypeError:
            exists=False
        if exists:
            stats['cons']+=1
            inv = {v:k for k,v in memo.items()}; inv[object]=Interface
            exp = tuple(inv[c] for c in m.__mro__)
            if exp != sro: stats['bad']+=1; print("MISMATCH", [x.__name__ for x in sro], [x.__name__ for x in exp])
        else:
            stats['incons']+=1
        if ro.is_consistent(s) != exists: stats['isc_bad']+=1
        try: ro.ro(s, strict=True); strict_ok=True
        except ro.InconsistentResolutionOrderError: strict_ok=False
        # strict on the leaf only sees leaf-level merge with precomputed? (no base_mros here: recomputes all)
        if strict_ok != exists: stats['bad']+=1; print("STRICT MISMATCH", exists, strict_ok)
print(stats)
