"""verify_changed (C VerifyingBase.changed): a `_generation` attribute that re-enters changed() while the snapshot is
being taken used to leave the inner snapshot tuples unreleased (reference leak; C11 'references are not leaked')."""
import sys
from zope.interface import Interface
from zope.interface.adapter import VerifyingAdapterRegistry


class Base(VerifyingAdapterRegistry):
    hook = None

    @property
    def _generation(self):
        h = self.__dict__.get('hook')
        if h is not None:
            self.__dict__['hook'] = None
            h()
        return self.__dict__.get('_gen', 0)

    @_generation.setter
    def _generation(self, v):
        self.__dict__['_gen'] = v


base = Base()
child = VerifyingAdapterRegistry((base,))
before = sys.getrefcount(base)
for i in range(200):
    base.hook = lambda: child._v_lookup.changed(None)      # re-entrant changed() while the outer one reads the generations
    child._v_lookup.changed(None)
after = sys.getrefcount(base)
print('refcount of the base registry before/after 200 re-entrant changed():', before, after)
sys.exit(1 if after - before > 5 else 0)
