# Spike 4: Specification.changed against the "Bad-set shrinks by desc*(X)" contract; heap = sro array; recursion by contract.
import z3, time
Obj = z3.DeclareSort('Obj'); Val = z3.DeclareSort('Val')   # Val: abstract contents (sro/iro/implied triple)
Heap = z3.ArraySort(Obj, Val)
C = z3.Function('C', Heap, Obj, z3.BoolSort())          # local consistency of node in heap
isbase = z3.Function('isbase', Obj, Obj, z3.BoolSort()) # isbase(b, Y): b in Y.__bases__
dep = z3.Function('dep', Obj, Obj, z3.BoolSort())       # dep(X, d): d in X._dependents
desc = z3.Function('desc', Obj, Obj, z3.BoolSort())     # reflexive-transitive closure of dep
h1,h2 = z3.Consts('h1 h2', Heap); X,Y,Z,b,d = z3.Consts('X Y Z b d', Obj)
ax = [
 # frame axiom for C: depends only on own value and bases' values
 z3.ForAll([h1,h2,Y], z3.Implies(z3.And(h1[Y]==h2[Y], z3.ForAll([b], z3.Implies(isbase(b,Y), h1[b]==h2[b]))), C(h1,Y)==C(h2,Y)), patterns=[z3.MultiPattern(C(h1,Y),C(h2,Y))]),
 z3.ForAll([b,Y], z3.Implies(isbase(b,Y), dep(b,Y))),                      # subscription invariant
 z3.ForAll([X], desc(X,X)),
 z3.ForAll([X,d,Y], z3.Implies(z3.And(dep(X,d), desc(d,Y)), desc(X,Y))),
 z3.ForAll([X,Y,Z], z3.Implies(z3.And(desc(X,Y), desc(Y,Z)), desc(X,Z))),
 z3.ForAll([X,Y], z3.Implies(z3.And(desc(X,Y), X!=Y), z3.Exists([d], z3.And(dep(X,d), desc(d,Y))))),
 z3.ForAll([X,d], z3.Implies(z3.And(dep(X,d)), z3.Not(desc(d,X)))),        # acyclic (assumption)
]
SeqO = z3.SeqSort(Obj)
D = z3.Const('D', SeqO); j = z3.Int('j'); jj = z3.Int('jj')
X0 = z3.Const('X0', Obj)
snapshot = z3.And(z3.ForAll([jj], z3.Implies(z3.And(0<=jj, jj<z3.Length(D)), dep(X0, D[jj]))),
                  z3.ForAll([d], z3.Implies(dep(X0,d), z3.Exists([jj], z3.And(0<=jj, jj<z3.Length(D), D[jj]==d)))))
H0,H1,Hj,Hn = z3.Consts('H0 H1 Hj Hn', Heap)
def frame(Ha,Hb,root): return z3.ForAll([Y], z3.Implies(z3.Not(desc(root,Y)), Ha[Y]==Hb[Y]))
def post(Ha,Hb,root): return z3.ForAll([Y], z3.Or(C(Hb,Y), z3.And(z3.Not(C(Ha,Y)), z3.Not(desc(root,Y)))))
def inv(H, j): return z3.And(0<=j, j<=z3.Length(D), frame(H0,H,X0),
        z3.ForAll([Y], z3.Or(C(H,Y), z3.And(z3.Not(C(H0,Y)), z3.Not(desc(X0,Y))), z3.Exists([jj], z3.And(j<=jj, jj<z3.Length(D), desc(D[jj],Y))))))
recompute = z3.And(C(H1,X0), z3.ForAll([Y], z3.Implies(Y!=X0, H1[Y]==H0[Y])))
obl = {
 'inv_init': (z3.And(snapshot, recompute), inv(H1, z3.IntVal(0))),
 'inv_step': (z3.And(snapshot, inv(Hj,j), j<z3.Length(D), frame(Hj,Hn,D[j]), post(Hj,Hn,D[j])), inv(Hn, j+1)),
 'exit_post': (z3.And(snapshot, inv(Hj,j), j>=z3.Length(D)), z3.And(post(H0,Hj,X0), frame(H0,Hj,X0))),
}
for n,(h,g) in obl.items():
    s = z3.Solver(); s.set('timeout', 60000); s.add(ax); s.add(h, z3.Not(g))
    t=time.time(); r=s.check(); print(n, r, '%.3fs'%(time.time()-t))
# mutant: dependents not notified (loop removed): post after recompute only
s = z3.Solver(); s.set('timeout', 20000); s.add(ax); s.add(snapshot, recompute, z3.Not(post(H0,H1,X0)))
t=time.time(); r=s.check(); print('mutant_no_notify', r, '%.3fs'%(time.time()-t))
