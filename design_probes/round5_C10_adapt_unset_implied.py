"""IB__adapt__ (C InterfaceBase.__adapt__): a declaration whose _implied slot was never set made the C code return NULL
without an exception (SystemError); the Python code raises AttributeError (self.providedBy(obj))."""
import sys
from zope.interface import Interface
from zope.interface.interface import Specification


class IFoo(Interface):
    pass


class MySpec(Specification):
    def __init__(self):          # never runs Specification.__init__: _implied stays unset
        pass


class X:
    __providedBy__ = MySpec()


bad = 0
for what, f in (('__adapt__', lambda: IFoo.__adapt__(X())), ('providedBy', lambda: IFoo.providedBy(X())), ('__call__', lambda: IFoo(X(), 'alt'))):
    try:
        print(what, 'result', f())
        bad += 1
    except BaseException as e:
        print(what, type(e).__name__, e)
        bad += not isinstance(e, AttributeError)
sys.exit(1 if bad else 0)
