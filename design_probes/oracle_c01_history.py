# sanity-check the ghost-history spec of C01 (DESIGN 5/C01) against the real code on random histories
import random, sys, collections
from zope.interface import (Interface, implementedBy, providedBy, classImplements, classImplementsOnly,
    classImplementsFirst, directlyProvides, alsoProvides, noLongerProvides, directlyProvidedBy)
from zope.interface.interface import InterfaceClass
rnd = random.Random(int(sys.argv[1]) if len(sys.argv)>1 else 0)
def close(ifs):
    out=set()
    for i in ifs: out |= set(i.__iro__)
    out.add(Interface); return out
fails = collections.Counter(); runs=0
for trial in range(20000):
    ifs=[]
    for k in range(2):
        bases = tuple(rnd.sample(ifs, rnd.randint(0, min(2,len(ifs))))) or (Interface,)
        try: ifs.append(InterfaceClass('I%d'%k, bases))
        except TypeError: ifs.append(InterfaceClass('I%d'%k, (Interface,)))
    classes=[type('K0',(object,),{})]; objs=[]
    Decl={classes[0]:[]}; Inh={classes[0]:True}; Dir={}
    def Impl(c):
        s=set(Decl.get(c,[]))
        if Inh.get(c,True):
            for b in c.__bases__:
                if b is not object: s |= Impl(b)
        return close(s) if True else s
    def ImplIf(c): return Impl(c)
    log=[]
    def check(tag):
        for c in classes:
            got=set(implementedBy(c).flattened()); exp=Impl(c)
            if got!=exp: return ('impl', tag)
        for o in objs:
            got=set(providedBy(o).flattened()); exp=close(Dir.get(id(o),[]))|Impl(type(o))
            if got!=exp: return ('prov', tag)
            for i in ifs:
                if i.providedBy(o) != (i in exp): return ('I.providedBy', tag)
        return None
    for step in range(rnd.randint(4,9)):
        op = rnd.choice(['inst','inst','ci','cio','dp','dp','ap','nlp'])
        try:
            if op=='sub':
                bs = tuple(rnd.sample(classes, rnd.randint(1,min(2,len(classes)))))
                try: c=type('K%d'%len(classes), bs, {})
                except TypeError: continue
                classes.append(c); Decl[c]=[]; Inh[c]=True
            elif op=='inst':
                o=rnd.choice(classes)(); objs.append(o)
            elif op in('ci','cio','cif'):
                c=rnd.choice(classes); I=rnd.sample(ifs, rnd.randint(0,2)) if op!='cif' else [rnd.choice(ifs)]
                if op=='ci':
                    cur=Impl(c); keep=[i for i in I if i not in cur]   # redundant at the moment -> may be dropped
                    # each one checked against the state before the call (code checks all against pre-state)
                    Decl[c]=Decl[c]+[i for i in keep if i not in Decl[c]]
                    classImplements(c,*I)
                elif op=='cio':
                    Decl[c]=list(dict.fromkeys(I)); Inh[c]=False
                    classImplementsOnly(c,*I)
                else:
                    cur=Impl(c); 
                    if I[0] not in cur: Decl[c]=[I[0]]+Decl[c]
                    classImplementsFirst(c,I[0])
            elif op in ('dp','ap') and objs:
                o=rnd.choice(objs); I=rnd.sample(ifs, rnd.randint(0,2))
                cur=Impl(type(o))
                if op=='dp': Dir[id(o)]=[i for i in I if i not in cur]
                else: Dir[id(o)]=Dir.get(id(o),[])+[i for i in I if i not in cur and i not in Dir.get(id(o),[])]
                (directlyProvides if op=='dp' else alsoProvides)(o,*I)
            elif op=='nlp' and objs:
                o=rnd.choice(objs); I=rnd.choice(ifs)
                Dir[id(o)]=[i for i in Dir.get(id(o),[]) if I not in i.__iro__]
                try: noLongerProvides(o,I)
                except ValueError: pass
            else: continue
        except Exception as e:
            fails[('exc',op,type(e).__name__)]+=1; break
        log.append(op)
        r=check(op)
        if r: fails[r+(tuple(log),)]+=1; break
    runs+=1
print(runs, sum(fails.values()))
for k,v in fails.most_common(12): print(v,k)
