# sanity-check the declarative specs Best / All / Subs of DESIGN 4.3 against the real registry on random small cases
import random, itertools, sys
from zope.interface import Interface, implementedBy
from zope.interface.interface import InterfaceClass
from zope.interface.adapter import AdapterRegistry, VerifyingAdapterRegistry
rnd = random.Random(int(sys.argv[1]) if len(sys.argv)>1 else 0)
def mk_ifaces(n):
    out=[]
    for k in range(n):
        while True:
            bases = tuple(rnd.sample(out, rnd.randint(0, min(2,len(out))))) or (Interface,)
            try:
                out.append(InterfaceClass('I%d'%k, bases)); break
            except TypeError: continue
    return out
bad=0; total=0
for trial in range(400):
    ifs = mk_ifaces(5)
    R = rnd.choice([AdapterRegistry, VerifyingAdapterRegistry])
    regs=[R()]
    for k in range(rnd.randint(0,2)):
        bases = tuple(rnd.sample(regs, rnd.randint(1, len(regs))))
        try: regs.append(R(bases))
        except Exception: pass
    A = {id(r):{} for r in regs}; S={id(r):{} for r in regs}
    for _ in range(rnd.randint(1,8)):
        r = rnd.choice(regs); ar = rnd.randint(0,2)
        req = tuple(rnd.choice(ifs+[None]) for _ in range(ar)); p = rnd.choice(ifs); n = rnd.choice(['', 'a'])
        v = object()
        key = tuple(Interface if x is None else x for x in req)
        if rnd.random()<0.6:
            r.register(req, p, n, v); A[id(r)][(key,p,n)] = v
        else:
            r.subscribe(req, p, v); S[id(r)].setdefault((key,p), []).append(v)
    bot = regs[-1]
    chain = bot.ro
    for _ in range(10):
        ar = rnd.randint(0,2); req = tuple(rnd.choice(ifs) for _ in range(ar)); p = rnd.choice(ifs)
        def rank(ri, key, q):
            return (ri,)+tuple(list(req[i].__sro__).index(key[i]) for i in range(ar))
        # Best per name
        for n in ['', 'a']:
            cands=[]
            for ri, r in enumerate(chain):
                ext = r._v_lookup._extendors.get(p, ())
                for (key,q,nn),v in A[id(r)].items():
                    if nn==n and len(key)==ar and all(key[i] in req[i].__sro__ for i in range(ar)) and q in ext:
                        cands.append((rank(ri,key,q)+(list(ext).index(q),), v))
            exp = min(cands, key=lambda c:c[0])[1] if cands else None
            got = bot.lookup(req, p, n)
            total+=1
            if got is not exp: bad+=1; print("LOOKUP MISMATCH")
            if ar==1 and bot.lookup1(req[0], p, n) is not exp: bad+=1; print("LOOKUP1 MISMATCH")
        allgot = dict(bot.lookupAll(req,p))
        if {n:bot.lookup(req,p,n) for n in allgot} != allgot or set(allgot)!={n for n in ['','a'] if bot.lookup(req,p,n) is not None}: bad+=1; print("ALL MISMATCH")
        # Subs: decreasing lexicographic rank
        cands=[]
        for ri, r in enumerate(chain):
            ext = r._v_lookup._extendors.get(p)
            if ext is None: continue
            for (key,q),vs in S[id(r)].items():
                if len(key)==ar and all(key[i] in req[i].__sro__ for i in range(ar)) and q in ext:
                    cands.append((rank(ri,key,q)+(list(ext).index(q),), vs))
        exp = [v for _,vs in sorted(cands, key=lambda c:c[0], reverse=True) for v in vs]
        got = bot.subscriptions(req,p)
        total+=1
        if [id(x) for x in got]!=[id(x) for x in exp]: bad+=1; print("SUBS MISMATCH", len(got), len(exp))
print("checked", total, "bad", bad)
