# C16: Components random histories vs reference model (listing, events, return values, rebuild probe)
import random, sys, collections
from zope.interface import Interface, implementer, providedBy
from zope.interface.interface import InterfaceClass
from zope.interface import registry as zr
from zope.interface.registry import Components
rnd=random.Random(int(sys.argv[1]) if len(sys.argv)>1 else 0); fails=collections.Counter()
class I(Interface): pass
class J(I): pass
class U:
    def __init__(s,v): s.v=v
    def __eq__(s,o): return isinstance(o,U) and o.v==s.v
    def __hash__(s): return hash(s.v)
    def __call__(s,*a): return s
class UL(list):   # unhashable, eq by content
    def __call__(s,*a): return s
for trial in range(3000):
    ev=[]; zr.notify=lambda e: ev.append((type(e).__name__, type(e.object).__name__))
    c=Components()
    comps=[U(0),U(0),U(1),UL([1]),UL([1]),UL([2])]
    Uref={}; Aref={}; Sref=[]; Href=[]; log=[]
    for step in range(rnd.randint(1,7)):
        op=rnd.choice(['ru','uu','ra','ua','rs','us','rh','uh'])
        comp=rnd.choice(comps); p=rnd.choice([I,J]); n=rnd.choice(['','a']); info=rnd.choice(['','i']); req=rnd.choice([(I,),(J,),(I,J)])
        ev.clear(); exp=[]; ret=None; expret=None
        if op=='ru':
            old=Uref.get((p,n))
            if old is not None and (old[0]==comp and old[1]==info): pass
            else:
                if old is not None: exp.append(('Unregistered','UtilityRegistration'))
                Uref[(p,n)]=(comp,info); exp.append(('Registered','UtilityRegistration'))
            c.registerUtility(comp,p,n,info)
        elif op=='uu':
            old=Uref.get((p,n)); use=rnd.choice([None,comp])
            if old is None or (use is not None and use!=old[0]): expret=False
            else: del Uref[(p,n)]; expret=True; exp.append(('Unregistered','UtilityRegistration'))
            ret=c.unregisterUtility(use,p,n)
        elif op=='ra':
            old=Aref.get((req,p,n))
            if old is not None and old[0] is comp and old[1]==info: pass   # statement: no-op -> no event
            else:
                if old is not None: exp.append(('Unregistered','AdapterRegistration'))
                exp.append(('Registered','AdapterRegistration'))
            Aref[(req,p,n)]=(comp,info)
            c.registerAdapter(comp,req,p,n,info)
        elif op=='ua':
            old=Aref.get((req,p,n)); use=rnd.choice([None,comp])
            if old is None or (use is not None and use!=old[0]): expret=False
            else: del Aref[(req,p,n)]; expret=True; exp.append(('Unregistered','AdapterRegistration'))
            ret=c.unregisterAdapter(use,req,p,n)
        elif op=='rs':
            Sref.append((req,p,comp,info)); exp.append(('Registered','SubscriptionRegistration')); c.registerSubscriptionAdapter(comp,req,p,'',info)
        elif op=='us':
            use=rnd.choice([None,comp]); new=[x for x in Sref if not (x[0]==req and x[1]==p and (use is None or x[2]==use))]
            expret=len(new)!=len(Sref)
            if expret: exp.append(('Unregistered','SubscriptionRegistration'))   # NB: one event even if several removed?
            nrem=len(Sref)-len(new); Sref=new
            ret=c.unregisterSubscriptionAdapter(use,req,p)
        elif op=='rh':
            Href.append((req,comp,info)); exp.append(('Registered','HandlerRegistration')); c.registerHandler(comp,req,'',info)
        elif op=='uh':
            use=rnd.choice([None,comp]); new=[x for x in Href if not (x[0]==req and (use is None or x[1]==use))]
            expret=len(new)!=len(Href)
            if expret: exp.append(('Unregistered','HandlerRegistration'))
            Href=new; ret=c.unregisterHandler(use,req)
        log.append(op)
        if ret!=expret: fails[('ret',op)]+=1
        if ev!=exp: fails[('events',op,tuple(ev),tuple(exp))]+=1
        # listings
        lu={(r.provided,r.name):(r.component,r.info) for r in c.registeredUtilities()}
        if set(lu)!=set(Uref) or any(lu[k][0] is not Uref[k][0] for k in lu): fails[('listU',op)]+=1
        la={(r.required,r.provided,r.name):r.factory for r in c.registeredAdapters()}
        if set(la)!=set(Aref) or any(la[k] is not Aref[k][0] for k in la): fails[('listA',op)]+=1
        if [(r.required,r.provided,id(r.factory)) for r in c.registeredSubscriptionAdapters()]!=[(a,b,id(f)) for a,b,f,i in Sref]: fails[('listS',op)]+=1
        if [(r.required,id(r.factory)) for r in c.registeredHandlers()]!=[(a,id(f)) for a,f,i in Href]: fails[('listH',op)]+=1
        # queries
        for (pp,nn),(cc,_) in Uref.items():
            if c.queryUtility(pp,nn) is not cc: fails[('qU',op)]+=1
        for pp in (I,J):
            for nn in ('','a'):
                best=None
                if (pp,nn) in Uref: best=Uref[(pp,nn)][0]
                elif pp is I and (J,nn) in Uref: best=Uref[(J,nn)][0]
                if c.queryUtility(pp,nn) is not best: fails[('qU2',op)]+=1
            allu=c.getAllUtilitiesRegisteredFor(pp)
            expu=[]
            for p3 in (I,J):
                if not p3.isOrExtends(pp): continue
                seen=[]
                for (p2,n2),(cc,_) in Uref.items():
                    if p2 is p3 and not any(cc==x for x in seen): seen.append(cc)
                expu+=seen
            if len(allu)!=len(expu) or any(not any(a==e for e in expu) for a in allu): fails[('allU',op,tuple(log))]+=1
        d=c.rebuildUtilityRegistryFromLocalCache()
        if d['needed_registered'] or d['needed_subscribed']: fails[('rebuildprobe',op)]+=1
pr=collections.Counter()
for k,v in fails.items(): pr[k[:2]]+=v
print(dict(pr))
for k,v in list(fails.items())[:4]:
    if k[0]=='events': print(k,v)
