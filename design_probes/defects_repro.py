import os, sys, pickle
from zope.interface import Interface, implementer, implementer_only, classImplementsOnly, directlyProvides, providedBy, implementedBy
from zope.interface import ro
from zope.interface.interface import fromFunction
print("C impl?", 'Py' not in type(providedBy).__name__, providedBy)

# C01
class I(Interface): pass
class J(Interface): pass
@implementer(I)
class K: pass
a=K(); b=K()
directlyProvides(a, I)
classImplementsOnly(K, J)
directlyProvides(b, I)
print("C01 I.providedBy(b) =", I.providedBy(b), "(expected True)")

# C03
class I0(Interface): pass
class I1(I0): pass
try:
    class I3(I0, I1): pass
    print("C03 is_consistent(I3) =", ro.is_consistent(I3), "(expected False)")
    try:
        ro.ro(I3, strict=True); print("strict accepted")
    except ro.InconsistentResolutionOrderError as e: print("strict raised")
except Exception as e: print("exc", e)

# C06
from zope.interface.adapter import AdapterRegistry, VerifyingAdapterRegistry
for R in (AdapterRegistry, VerifyingAdapterRegistry):
    top1=R(); top2=R(); mid=R((top1,)); bot=R((mid,))
    top1.register((), I, '', 'one'); top2.register((), I, '', 'two')
    print(R.__name__, bot.lookup((), I, ''), end=' ')
    mid.__bases__=(top2,)
    print(bot.lookup((), I, ''), "(expected two)")

# C13
@implementer_only(J)
class KO(K): pass
s = implementedBy(KO)
print("C13", list(pickle.loads(pickle.dumps(s))), "(expected [J])", pickle.loads(pickle.dumps(s)) is s)

# C15
class IBase(Interface):
    def foo(): "base"
class IBase1(IBase): pass
class IBase2(IBase):
    def foo(): "base2"
class ISub(IBase1, IBase2): pass
print("C15", ISub['foo'].interface, dict(ISub.namesAndDescriptions(all=True))['foo'].interface)

# C18
def f(a, b=1, *args, k=1, **kw): pass
print("C18", fromFunction(f).getSignatureString())
def g(a, /, b, *, c): pass
print("C18b", fromFunction(g).getSignatureInfo())
