from zope.interface import *
from zope.interface.interface import InterfaceClass
class I0(Interface): pass
class I1(I0): pass
class K: pass
def show(tag, o): print(tag, [i.__name__ for i in providedBy(o).flattened()], 'direct', [i.__name__ for i in directlyProvidedBy(o)], 'impl', [i.__name__ for i in implementedBy(K).flattened()])
import itertools
# brute force tiny: ops over one object, find shortest history ending in cio where provided != close(Dir)+Impl
ifs=[I0,I1]
ops=[]
for I in ifs:
    ops += [('dp',I),('ap',I),('nlp',I),('ci',I),('cio',I)]
ops += [('cio',None),('dp',None)]
def run(seq):
    K=type('K',(object,),{}); o=K(); Decl=[]; Dir=[]
    def impl(): 
        s=set()
        for i in Decl: s|=set(i.__iro__)
        s.add(Interface); return s
    for n,(op,I) in enumerate(seq):
        cur=impl()
        if op=='dp': Dir=[I] if I is not None and I not in cur else []; directlyProvides(o,*([I] if I else []))
        elif op=='ap':
            if I not in cur and I not in Dir: Dir=Dir+[I]
            alsoProvides(o,I)
        elif op=='nlp':
            Dir=[i for i in Dir if I not in i.__iro__]
            try: noLongerProvides(o,I)
            except ValueError: pass
        elif op=='ci':
            if I not in cur: Decl.append(I)
            classImplements(K,I)
        elif op=='cio':
            Decl=[I] if I else []; classImplementsOnly(K,*([I] if I else []))
        exp=set(impl())
        for i in Dir: exp|=set(i.__iro__)
        got=set(providedBy(o).flattened())
        if got!=exp: return n, sorted(x.__name__ for x in got), sorted(x.__name__ for x in exp), [i.__name__ for i in Dir]
    return None
for L in (4,):
    found=0
    for seq in itertools.product(ops, repeat=L):
        r=run(seq)
        if r and r[0]==L-1:
            print([(a, b.__name__ if b else None) for a,b in seq], r); found+=1
            if found>6: break
    if found: break
