# C05/C06/C07/C09 history differential: warm registries vs cold rebuilt copies
import random, sys, collections
from zope.interface import Interface, implementedBy, classImplements, classImplementsOnly, directlyProvides, providedBy
from zope.interface.interface import InterfaceClass
from zope.interface.adapter import AdapterRegistry, VerifyingAdapterRegistry
seed=int(sys.argv[1]) if len(sys.argv)>1 else 0
MODE=sys.argv[2] if len(sys.argv)>2 else 'safe'
rnd=random.Random(seed); fails=collections.Counter(); uid=[0]
class Eq:
    def __init__(s,v): s.v=v
    def __eq__(s,o): return isinstance(o,Eq) and o.v==s.v
    def __hash__(s): return hash(s.v)
    def __call__(s,*a): return (s.v,)+a
def cold(regs, R):
    m={}
    for r in regs:
        c=R(tuple(m[id(b)] for b in r.__bases__)); m[id(r)]=c
        for a in r.allRegistrations(): c.register(*a)
        for a in r.allSubscriptions(): c.subscribe(*a)
    return m
for trial in range(int(sys.argv[3]) if len(sys.argv)>3 else 600):
    uid[0]+=1
    R=rnd.choice([AdapterRegistry, VerifyingAdapterRegistry])
    ifs=[]
    for k in range(4):
        bases=tuple(rnd.sample(ifs, rnd.randint(0,min(2,len(ifs))))) or (Interface,)
        try: ifs.append(InterfaceClass('I%d_%d_%d'%(k,uid[0],seed), bases))
        except TypeError: ifs.append(InterfaceClass('I%d_%d_%d'%(k,uid[0],seed)))
    K=type('K',(object,),{}); classImplements(K, ifs[0]); objs=[K(),K()]
    regs=[R()]
    for k in range(rnd.randint(1,3)): regs.append(R(tuple(rnd.sample(regs, rnd.randint(1,min(2,len(regs)))))))
    vals=[Eq(0),Eq(0),Eq(1),Eq(2)]
    log=[]
    def queries():
        out=[]
        for r in regs:
            for ar in (0,1,2):
                reqs=[()] if ar==0 else ([(i,) for i in ifs]+[(providedBy(o),) for o in objs]) if ar==1 else [(ifs[1],ifs[2]),(ifs[3],providedBy(objs[0]))]
                for req in reqs:
                    for p in ifs[:3]:
                        out.append((r,req,p))
        return out
    def observe(rmap=None):
        res=[]
        for r,req,p in queries():
            rr=rmap[id(r)] if rmap else r
            for n in ('','a'):
                res.append(('lookup',id(r),n,id(rr.lookup(req,p,n))))
            res.append(('all',id(r),tuple((n,id(v)) for n,v in rr.lookupAll(req,p))))
            res.append(('names',id(r),tuple(rr.names(req,p))))
            res.append(('subs',id(r),tuple(id(v) for v in rr.subscriptions(req,p))))
            if len(req)==1: res.append(('l1',id(r),id(rr.lookup1(req[0],p,''))))
        for r in regs:
            rr=rmap[id(r)] if rmap else r
            for o in objs:
                for p in ifs[:3]:
                    res.append(('qa',id(r),rr.queryAdapter(o,p)))
        return res
    for step in range(rnd.randint(2,8)):
        op=rnd.choice(['reg','reg','unreg','sub','unsub','rebase_if','rebase_reg','decl','dp','warm','warm']+(['rebuild','rebase_mid'] if MODE=='all' else []))
        r=rnd.choice(regs); ar=rnd.randint(0,2)
        req=tuple(rnd.choice(ifs+[None, implementedBy(K)]) for _ in range(ar)); p=rnd.choice(ifs[:3]); n=rnd.choice(['','a']); v=rnd.choice(vals)
        if op=='reg': r.register(req,p,n,v)
        elif op=='unreg': r.unregister(req,p,n, rnd.choice([None,v]))
        elif op=='sub': r.subscribe(req, rnd.choice([p,None]), v)
        elif op=='unsub': r.unsubscribe(req, rnd.choice([p,None]), rnd.choice([None,v]))
        elif op=='rebase_if':
            s=ifs[3]; nb=tuple(rnd.sample(ifs[:3], rnd.randint(1,2)))   # ifs[3] is never used as provided
            try: s.__bases__=nb
            except TypeError: pass
        elif op=='rebase_reg':
            leaf=regs[-1]; cand=regs[:-1]
            leaf.__bases__=tuple(rnd.sample(cand, rnd.randint(0,min(2,len(cand)))))
        elif op=='rebase_mid':
            i=rnd.randrange(len(regs)); cand=regs[:i]
            regs[i].__bases__=tuple(rnd.sample(cand, rnd.randint(0,min(2,len(cand)))))
        elif op=='rebuild': r.rebuild()
        elif op=='decl':
            (classImplements if rnd.random()<.5 else classImplementsOnly)(K, rnd.choice(ifs))
        elif op=='dp': directlyProvides(rnd.choice(objs), *rnd.sample(ifs, rnd.randint(0,2)))
        elif op=='warm': observe()
        log.append(op)
        a=observe(); b=observe(cold(regs,R))
        if a!=b:
            kinds={x[0] for x,y in zip(a,b) if x!=y}
            fails[(R.__name__, tuple(sorted(kinds)), log[-1])]+=1; break
print(dict(fails) if fails else 'no deviation', MODE)
