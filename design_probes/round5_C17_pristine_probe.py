from zope.interface import Interface, implementer
from zope.interface.verify import verifyObject, verifyClass
from zope.interface.exceptions import Invalid
import traceback

class I(Interface):
    def m(a): pass

def t(label, f):
    try:
        print(label, '->', f())
    except Invalid as e:
        print(label, '-> Invalid:', e)
    except Exception as e:
        print(label, '-> CRASH', type(e).__name__, e)

@implementer(I)
class KW:
    def m(self, a, *, b): pass
t('kwonly required (call m(1) does not bind)', lambda: verifyObject(I, KW()))

@implementer(I)
class SM:
    @staticmethod
    def m(a): pass
t('staticmethod verifyClass (SM().m(1) binds)', lambda: verifyClass(I, SM))
t('staticmethod verifyObject', lambda: verifyObject(I, SM()))

@implementer(I)
class VA:
    def m(*args): pass
t('def m(*args) verifyObject', lambda: verifyObject(I, VA()))
t('def m(*args) verifyClass', lambda: verifyClass(I, VA))

import abc
from zope.interface.common import ABCInterface
class Foo(abc.ABC):
    def m(self, a): pass
class IFoo(ABCInterface):
    abc = Foo
print(IFoo['m'].getSignatureInfo())
@implementer(IFoo)
class Impl:
    def m(self, a, b): pass
t('ABC iface m(a), impl m(self,a,b)', lambda: verifyObject(IFoo, Impl()))
