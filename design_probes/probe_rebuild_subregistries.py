from zope.interface import Interface
from zope.interface.adapter import AdapterRegistry, VerifyingAdapterRegistry
class I(Interface): pass
class P(Interface): pass
for R in (AdapterRegistry, VerifyingAdapterRegistry):
    base = R(); child = R((base,))
    base.register((I,), P, '', 'v1')
    print(R.__name__, child.lookup((I,), P, ''), end=' ')
    base.rebuild()
    base.register((I,), P, '', 'v2')
    print(child.lookup((I,), P, ''), '(expected v2)', base.lookup((I,), P, ''))
