# Spike 1: VCs for ro.C3._can_choose_base as the engine would emit them (path-wise, loop cut by invariants)
import z3, time
Obj = z3.DeclareSort('Obj')
SeqO = z3.SeqSort(Obj)
SeqSeqO = z3.SeqSort(SeqO)
base = z3.Const('base', Obj)
btr = z3.Const('btr', SeqSeqO)
i = z3.Int('i'); k = z3.Int('k')
L = z3.Length
def nth(s, j): return s[j]   # z3 Seq __getitem__ => seq.nth
def okrow(row):
    kk = z3.Int('kk')
    return z3.Or(L(row) == 0, nth(row,0) == base, z3.ForAll([kk], z3.Implies(z3.And(0 <= kk, kk < L(row)), nth(row,kk) != base)))
def post(result):
    ii = z3.Int('ii')
    return result == z3.ForAll([ii], z3.Implies(z3.And(0 <= ii, ii < L(btr)), okrow(nth(btr, ii))))
def inv0(i):
    ii = z3.Int('ii2')
    return z3.And(0 <= i, i <= L(btr), z3.ForAll([ii], z3.Implies(z3.And(0 <= ii, ii < i), okrow(nth(btr, ii)))))
def inv1(i, k):
    bases = nth(btr, i)
    kk = z3.Int('kk2')
    return z3.And(inv0(i), i < L(btr), 0 <= k, k <= L(bases), L(bases) > 0, nth(bases,0) != base,
                  z3.ForAll([kk], z3.Implies(z3.And(0 <= kk, kk < k), nth(bases,kk) != base)))
obls = {}
# O1: inv0 holds initially
obls['inv0_init'] = (z3.BoolVal(True), inv0(z3.IntVal(0)))
# O2: outer loop exit => post(True)
obls['exit_post'] = (z3.And(inv0(i), i >= L(btr)), post(z3.BoolVal(True)))
# O3: continue branch preserves inv0
bases = nth(btr, i)
obls['continue_preserves'] = (z3.And(inv0(i), i < L(btr), z3.Or(L(bases) == 0, nth(bases,0) == base)), inv0(i+1))
# O4: inner init
obls['inner_init'] = (z3.And(inv0(i), i < L(btr), z3.Not(z3.Or(L(bases) == 0, nth(bases,0) == base))), inv1(i, z3.IntVal(0)))
# O5: inner step, b is base -> return False satisfies post
obls['ret_false_post'] = (z3.And(inv1(i,k), k < L(bases), nth(bases,k) == base), post(z3.BoolVal(False)))
# O6: inner step preserve
obls['inner_preserve'] = (z3.And(inv1(i,k), k < L(bases), nth(bases,k) != base), inv1(i,k+1))
# O7: inner exit -> outer inv at i+1
obls['inner_exit'] = (z3.And(inv1(i,k), k >= L(bases)), inv0(i+1))
for name,(hyp,goal) in obls.items():
    s = z3.Solver(); s.set('timeout', 20000)
    s.add(hyp, z3.Not(goal))
    t=time.time(); r = s.check(); print(name, r, '%.3fs'%(time.time()-t))
# mutant: skip condition 'bases[0] is base' dropped  -> post must fail somewhere with model
print('--- mutant: `if not bases: continue` only')
hyp = z3.And(inv0(i), i < L(btr), L(bases) != 0)  # enters inner loop even if head is base
inv1m = lambda i,k: z3.And(inv0(i), i < L(btr), 0 <= k, k <= L(bases), L(bases) > 0,
                  z3.ForAll([z3.Int('kk3')], z3.Implies(z3.And(0 <= z3.Int('kk3'), z3.Int('kk3') < k), nth(bases,z3.Int('kk3')) != base)))
s = z3.Solver(); s.set('timeout', 20000)
s.add(inv1m(i,k), k < L(bases), nth(bases,k) == base, z3.Not(post(z3.BoolVal(False))))
t=time.time(); r = s.check(); print('mutant ret_false_post', r, '%.3fs'%(time.time()-t))
if r == z3.sat:
    m = s.model(); print(m.eval(btr), m.eval(base), m.eval(i), m.eval(k))
