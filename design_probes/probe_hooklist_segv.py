from zope.interface import Interface
from zope.interface.interface import adapter_hooks
class I(Interface): pass
calls=[]
def h1(i, o):
    calls.append('h1'); del adapter_hooks[:]; return None
def h2(i, o):
    calls.append('h2'); return None
adapter_hooks[:] = [h1, h2, h2, h2]
try: print(I(object(), 'alt'), calls)
except Exception as e: print('exc', type(e).__name__, calls)
