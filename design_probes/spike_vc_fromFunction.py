import z3, time, subprocess, sys
Name = z3.DeclareSort('Name'); SeqN = z3.SeqSort(Name)
argc, kwonly, imlevel, ndef, flags_va, flags_kw = z3.Ints('argc kwonly imlevel ndef va kw')
varnames = z3.Const('varnames', SeqN); L = z3.Length
wf = z3.And(argc >= 0, kwonly >= 0, 0 <= imlevel, imlevel <= 1, imlevel <= argc, 0 <= ndef, ndef <= argc,
            z3.Or(flags_va == 0, flags_va == 1), z3.Or(flags_kw == 0, flags_kw == 1),
            L(varnames) >= argc + kwonly + flags_va + flags_kw)
na = argc - imlevel
names = z3.SubSeq(varnames, imlevel, L(varnames) - imlevel)
nr0 = na - ndef; nr = z3.If(nr0 < 0, 0, nr0)
positional = z3.SubSeq(names, 0, na); required = z3.SubSeq(names, 0, nr)
argno = na + kwonly
varargs = names[argno]; kwargs = names[z3.If(flags_va == 1, argno + 1, argno)]
sp = z3.SubSeq(varnames, imlevel, argc - imlevel)
sr = z3.SubSeq(varnames, imlevel, nr)
sv = varnames[argc + kwonly]; sk = varnames[argc + kwonly + flags_va]
goals = {'positional': positional == sp, 'required': required == sr, 'varargs': z3.Implies(flags_va == 1, varargs == sv), 'kwargs': z3.Implies(flags_kw == 1, kwargs == sk)}
for iml in (0,1):
  for n,g in goals.items():
    s = z3.Solver(); s.set('timeout', 10000); s.add(wf, imlevel == iml, z3.Not(g))
    t=time.time(); res = s.check(); print('z3 imlevel',iml, n, res, '%.3fs'%(time.time()-t))
    if res != z3.unsat:
        open('q.smt2','w').write('(set-logic ALL)\n'+s.to_smt2())
        t=time.time(); out = subprocess.run(['cvc5','--strings-exp','--tlimit=20000','q.smt2'],capture_output=True,text=True)
        print('   cvc5', out.stdout.strip()[:60], out.stderr.strip()[:100], '%.3fs'%(time.time()-t))
