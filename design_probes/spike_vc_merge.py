# Spike 2: _merge loop against textbook recursive spec, uninterpreted spec fns + unfolding axioms
import z3, time
Obj = z3.DeclareSort('Obj'); SeqO = z3.SeqSort(Obj); SSO = z3.SeqSort(SeqO)
OptO, mkSome, mkNone = None, None, None
Opt = z3.Datatype('Opt'); Opt.declare('none'); Opt.declare('some', ('val', Obj)); Opt = Opt.create()
nxt = z3.Function('next', SSO, Opt)        # spec: first head not in any tail
rem = z3.Function('remove', SSO, Opt, SSO) # spec: nonempty(map(filter(!=x)))
mrg = z3.Function('merge', SSO, SeqO)      # spec: textbook merge (total case)
ok  = z3.Function('mergeable', SSO, z3.BoolSort())
T = z3.Const('T', SSO)
E = z3.Empty(SSO)
ax = [
  z3.ForAll([T], z3.Implies(T == E, z3.And(ok(T), mrg(T) == z3.Empty(SeqO))), patterns=[mrg(T)]),
  z3.ForAll([T], z3.Implies(T != E, z3.And(
        ok(T) == z3.And(nxt(T) != Opt.none, ok(rem(T, nxt(T)))),
        z3.Implies(nxt(T) != Opt.none, mrg(T) == z3.Concat(z3.Unit(Opt.val(nxt(T))), mrg(rem(T, nxt(T))))))), patterns=[mrg(T)]),
]
# code state
T0 = z3.Const('T0', SSO); btr = z3.Const('btr', SSO); res = z3.Const('res', SeqO); base = z3.Const('base', Opt)
M0 = mrg(rem(T0, Opt.none))
def inv(res, btr, base): return z3.And(ok(rem(btr, base)), z3.Concat(res, mrg(rem(btr, base))) == M0)
obl = {}
obl['init'] = (ok(rem(T0, Opt.none)), inv(z3.Empty(SeqO), T0, Opt.none))
btr1 = rem(btr, base)
obl['exit'] = (z3.And(inv(res,btr,base), btr1 == E), res == M0)
b1 = z3.Const('b1', Obj)
# contract of _choose_next_base in mergeable case: returns val(next(btr1)) when next != none
obl['step'] = (z3.And(inv(res,btr,base), btr1 != E, nxt(btr1) != Opt.none, b1 == Opt.val(nxt(btr1))),
               inv(z3.Concat(res, z3.Unit(b1)), btr1, Opt.some(b1)))
obl['step_choice_exists'] = (z3.And(inv(res,btr,base), btr1 != E), nxt(btr1) != Opt.none)
for n,(h,g) in obl.items():
    s = z3.Solver(); s.set('timeout', 20000); s.add(ax); s.add(h, z3.Not(g))
    t=time.time(); r=s.check(); print(n, r, '%.3fs'%(time.time()-t))
