from zope.interface import Interface
from zope.interface.adapter import AdapterRegistry
class I(Interface): pass
class P(Interface): pass
r = AdapterRegistry()
r.register((I,), P, '', 'v1'); r.register((I,), P, '', 'v2')
print(dict(r._provided))
r.unregister((I,), P, '')
print(dict(r._provided), r._adapters, r._v_lookup._extendors.get(P))
