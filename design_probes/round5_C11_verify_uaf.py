import sys, gc
from zope.interface import Interface
from zope.interface.adapter import VerifyingAdapterRegistry

class IR(Interface): pass
class IP(Interface): pass

class Base(VerifyingAdapterRegistry):
    hook = None
    @property
    def _generation(self):
        h = self.__dict__.get('hook')
        if h is not None:
            self.__dict__['hook'] = None
            h()
        return self.__dict__.get('_gen', 0)
    @_generation.setter
    def _generation(self, v):
        self.__dict__['_gen'] = v

bases = [Base() for i in range(6)]
child = VerifyingAdapterRegistry(tuple(bases))
child.register([IR], IP, '', 'x')
print(child.lookup([IR], IP, ''))
def hook():
    # a mutation of the child itself while _verify is reading the base generations
    child.__bases__ = tuple(bases[:2])
    global junk; junk = [tuple(range(1000, 1006)) for i in range(50)]
bases[0].hook = hook
print(child.lookup([IR], IP, ''))
print(child.lookupAll([IR], IP))
print("survived")
