# validate specs of C02 (reachability after rebasing), C15 (first along iro), C20 (algebra) on random inputs
import random, sys, collections
from zope.interface import Interface, Declaration, taggedValue, implementedBy, classImplements
from zope.interface.interface import InterfaceClass, Attribute
rnd = random.Random(int(sys.argv[1]) if len(sys.argv)>1 else 0)
fails=collections.Counter()
def reach(s):
    seen=set(); st=[s]
    while st:
        x=st.pop()
        if x in seen: continue
        seen.add(x); st.extend(x.__bases__)
    return seen
for trial in range(3000):
    ifs=[]
    for k in range(5):
        bases = tuple(rnd.sample(ifs, rnd.randint(0, min(2,len(ifs))))) or (Interface,)
        attrs={}
        for nm in ('x','y'):
            if rnd.random()<0.4: attrs[nm]=Attribute(nm)
        I=InterfaceClass('I%d_%d'%(k,trial), bases, attrs)
        if rnd.random()<0.4: I.setTaggedValue('t', k)
        ifs.append(I)
    classes=[]
    for k in range(2):
        c=type('K%d'%k,(object,),{}); classImplements(c,*rnd.sample(ifs,rnd.randint(0,2))); classes.append(c)
    decls=[Declaration(*rnd.sample(ifs, rnd.randint(0,3))) for _ in range(2)]
    specs = ifs+[implementedBy(c) for c in classes]+decls
    def checkall(tag):
        for s in specs:
            r=reach(s)|{Interface}
            if set(s.__sro__)!=r: fails[('sro',tag)]+=1
            for t in specs+[Interface]:
                if s.isOrExtends(t)!=(t in r): fails[('isOrExtends',tag)]+=1
                if s.extends(t)!=((t in r) and s!=t): fails[('extends',tag)]+=1
        for I in ifs:
            for nm in ('x','y','z'):
                first=None
                for J in I.__iro__:
                    if J.direct(nm) is not None: first=J.direct(nm); break
                if I.get(nm) is not first: fails[('get',tag)]+=1
                if (nm in I)!=(first is not None): fails[('in',tag)]+=1
                if (nm in set(I.names(all=True)))!=(first is not None): fails[('names',tag)]+=1
                if (nm in set(iter(I)))!=(first is not None): fails[('iter',tag)]+=1
                nad=dict(I.namesAndDescriptions(all=True))
                if nad.get(nm) is not first: fails[('nad',tag)]+=1
            tv=[J.queryDirectTaggedValue('t') for J in I.__iro__ if J.queryDirectTaggedValue('t') is not None]
            if I.queryTaggedValue('t')!=(tv[0] if tv else None): fails[('tag',tag)]+=1
            if set(I.getTaggedValueTags())!=({'t'} if tv else set()): fails[('tags',tag)]+=1
    checkall('init')
    for step in range(rnd.randint(0,3)):
        s=rnd.choice(ifs+decls)
        cand=[x for x in ifs if s not in reach(x)]  # keep acyclic
        nb=tuple(rnd.sample(cand, rnd.randint(0,min(2,len(cand)))))
        if isinstance(s, InterfaceClass) and not nb: nb=(Interface,)
        for I in ifs: I.get('x')   # warm memo
        s.__bases__=nb
        checkall('rebase')
    # C20
    A,B=decls
    la,lb=list(A),list(B)
    if list(A-B)!=[i for i in la if not any(i.isOrExtends(j) for j in lb)]: fails['sub']+=1
    add=list(A+B); new=[i for i in lb if i not in la]
    lit_front=[i for i in new if any(i.extends(x) for x in la)]
    if add!=lit_front+la+[i for i in new if i not in lit_front]: fails['add_literal']+=1
    if set(add)!=set(la)|set(lb) or len(set(add))!=len(add) or [i for i in add if i in la]!=la: fails['add_set']+=1
    for I in ifs:
        if (I in A)!=(I in la): fails['contains']+=1
    if list(A.flattened())!=list(A.__iro__): fails['flattened']+=1
print(dict(fails))
