# C14: decision-list spec vs real __call__, full product
import itertools, collections, sys
from zope.interface import Interface, implementer, interfacemethod
from zope.interface.interface import adapter_hooks
class I(Interface): pass
class E1(Exception): pass
fails=collections.Counter(); n=0
MISSING=object()
for conform, provided, hooks, alt, custom in itertools.product(
        ['absent','attrerr','othererr','none','value','raises','raisesTypeError'], [False,True],
        list(itertools.chain.from_iterable(itertools.product(['none','value','raises'], repeat=k) for k in range(3))),
        [False,True], ['no','none','value','raises']):
    log=[]
    if custom=='no': IF=I
    else:
        class IF(Interface):
            @interfacemethod
            def __adapt__(self, obj):
                log.append('custom')
                if custom=='raises': raise E1('custom')
                return None if custom=='none' else 'custom-value'
    class O:
        if conform=='attrerr':
            @property
            def __conform__(self): raise AttributeError('x')
        elif conform=='othererr':
            @property
            def __conform__(self): raise E1('attr')
        elif conform!='absent':
            def __conform__(self, iface):
                log.append('conform')
                if conform=='raises': raise E1('conform')
                if conform=='raisesTypeError': raise TypeError('conform')
                return None if conform=='none' else 'conform-value'
    if provided: O=implementer(IF)(O)
    o=O()
    def mk(k,kind):
        def h(iface,obj):
            log.append('h%d'%k)
            if kind=='raises': raise E1('hook%d'%k)
            return None if kind=='none' else 'hook%d-value'%k
        return h
    adapter_hooks[:]=[mk(k,kind) for k,kind in enumerate(hooks)]
    # spec
    def spec():
        elog=[]
        if conform=='othererr': return ('exc','attr'),elog
        if conform in ('none','value','raises','raisesTypeError'):
            elog.append('conform')
            if conform=='raises': return ('exc','conform'),elog
            if conform=='raisesTypeError': return ('exc','TypeError'),elog
            if conform=='value': return ('val','conform-value'),elog
        if custom!='no':
            elog.append('custom')
            if custom=='raises': return ('exc','custom'),elog
            if custom=='value': return ('val','custom-value'),elog
        else:
            if provided: return ('self',),elog
            for k,kind in enumerate(hooks):
                elog.append('h%d'%k)
                if kind=='raises': return ('exc','hook%d'%k),elog
                if kind=='value': return ('val','hook%d-value'%k),elog
        if alt: return ('val','ALT'),elog
        return ('exc','TypeError'),elog
    try:
        r=IF(o,'ALT') if alt else IF(o)
        got=('self',) if r is o else ('val',r)
    except E1 as e: got=('exc',e.args[0])
    except TypeError as e: got=('exc','TypeError')
    exp,elog=spec(); n+=1
    if got!=exp or log!=elog: fails[(conform,provided,hooks,alt,custom,got,exp)]+=1
adapter_hooks[:]=[]
print(n, len(fails)); 
for k in list(fails)[:5]: print(k)
