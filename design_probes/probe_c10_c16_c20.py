import os, sys
from zope.interface import Interface, implementer, providedBy, implementedBy, Declaration
from zope.interface.adapter import AdapterRegistry
from zope.interface import registry as zr
from zope.interface.registry import Components
print("impl:", providedBy)
class I1(Interface): pass
class J(Interface): pass
class K(J): pass
A = Declaration(I1); B = Declaration(J, K)
print("C20 A+B =", [i.__name__ for i in (A+B)])
# C10: unhashable
for f in (lambda: I1.isOrExtends([]), lambda: I1.providedBy(object()), lambda: I1 == 3, lambda: I1 < 3):
    try: print("res", f())
    except Exception as e: print("exc", type(e).__name__, e)
# C16 adapter re-registration events
events=[]
zr.notify = lambda ev: events.append(type(ev).__name__)
c = Components()
def fac(x): return 1
def fac2(x): return 2
c.registerAdapter(fac, (I1,), J, '')
c.registerAdapter(fac, (I1,), J, '')
c.registerAdapter(fac2, (I1,), J, '')
print("C16 adapter events", events, len(list(c.registeredAdapters())))
events.clear()
u = object()
c.registerUtility(u, I1); c.registerUtility(u, I1); c.registerUtility(object(), I1)
print("C16 util events", events)
# C08: default identity w/ cached None
r = AdapterRegistry()
d = object()
print("C08", r.lookup1(I1, J, '', d) is d, r.lookup1(I1, J, '', d) is d, r.lookup((I1,), J, '', d) is d, r.queryAdapter(object(), J, '', d) is d)
for name in (1, None, b'x'):
    for fn in (lambda n: r.lookup((I1,), J, n), lambda n: r.lookup1(I1, J, n), lambda n: r.queryAdapter(object(), J, n), lambda n: r.adapter_hook(J, object(), n), lambda n: r.queryMultiAdapter((object(),), J, n)):
        try: fn(name); print("no error for", name)
        except ValueError as e: pass
        except Exception as e: print("other", type(e).__name__, e)
