# validate C17 (_incompat vs bind on admitted call shapes), C19 (super), C12 (order laws)
import itertools, inspect, sys, collections, random
from zope.interface import Interface, implementer, implementer_only, providedBy, implementedBy, classImplements, directlyProvides
from zope.interface.interface import fromFunction, InterfaceClass
from zope.interface.verify import _incompat
from zope.interface.adapter import AdapterRegistry
fails=collections.Counter()
def mk(nreq, nopt, va, kw):
    params=['a%d'%i for i in range(nreq)]+['o%d=0'%i for i in range(nopt)]+(['*args'] if va else [])+(['**kw'] if kw else [])
    ns={}; exec('def f(%s): pass'%', '.join(params), ns); return ns['f']
sigs=[(r,o,v,k) for r in range(3) for o in range(3) for v in (0,1) for k in (0,1)]
for rs in sigs:
    rf=mk(*rs); rinfo=fromFunction(rf).getSignatureInfo()
    for is_ in sigs:
        f=mk(*is_); iinfo=fromFunction(f).getSignatureInfo()
        mess=_incompat(rinfo, iinfo)
        # admitted call shapes
        shapes=[(n,{}) for n in range(rs[0], rs[0]+rs[1]+1)]
        if rs[2]: shapes+=[(rs[0]+rs[1]+j,{}) for j in (1,2,5)]
        if rs[3]: shapes+=[(n,{'zzz':1}) for n,_ in list(shapes)]
        ok=True
        sig=inspect.signature(f)
        for n,kws in shapes:
            try: sig.bind(*range(n), **kws)
            except TypeError: ok=False
        if (mess is None)!=ok: fails[('incompat', rs, is_, mess)]+=1
print('C17', len(fails), list(fails)[:5])
# C19
rnd=random.Random(1); f19=collections.Counter()
for trial in range(1500):
    ifs=[InterfaceClass('J%d_%d'%(k,trial)) for k in range(4)]
    classes=[]
    for k in range(rnd.randint(2,5)):
        bs=tuple(rnd.sample(classes, rnd.randint(0,min(2,len(classes))))) or (object,)
        try: c=type('K%d'%k, bs, {})
        except TypeError: continue
        r=rnd.random()
        if r<0.5: classImplements(c,*rnd.sample(ifs,rnd.randint(0,2)))
        elif r<0.65: implementer_only(*rnd.sample(ifs,rnd.randint(0,2)))(c)
        classes.append(c)
    def check(tag):
        for T in classes:
            ob=T(); directlyProvides(ob, ifs[3])
            for C in T.__mro__[:-1]:
                rest=T.__mro__[T.__mro__.index(C)+1:]
                exp=set()
                for c in rest: exp|=set(implementedBy(c).flattened())
                exp.add(Interface)
                s=super(C,ob)
                if set(providedBy(s).flattened())!=exp: f19[('prov',tag)]+=1
                if set(implementedBy(s).flattened())!=exp: f19[('impl',tag)]+=1
                reg=AdapterRegistry(); got=[]
                for i in ifs: reg.register((i,), ifs[0], '', (lambda i: (lambda o: (i,o)))(i))
                r=reg.queryAdapter(s, ifs[0])
                best=reg.lookup((providedBy(s),), ifs[0])
                if (r is None)!=(best is None) or (r is not None and (r[1] is not ob or best(1)[0] is not r[0])): f19[('adapt',tag)]+=1
    check('init')
    for step in range(2):
        c=rnd.choice(classes); classImplements(c, rnd.choice(ifs)) if rnd.random()<.7 else implementer_only(rnd.choice(ifs))(c)
        check('after')
print('C19', dict(f19))
# C12
names=['', 'a', 'ab', 'b', 'é']; mods=['', 'm', 'ma', 'n']
objs=[InterfaceClass(n, __module__=m) for n in names for m in mods]+[InterfaceClass('a', __module__='m')]
class Ka: pass
class Kb: pass
objs+= [implementedBy(Ka), implementedBy(Kb)]
key=lambda x:(x.__name__, x.__module__)
f12=collections.Counter()
for a,b in itertools.product(objs, repeat=2):
    ka,kb=key(a),key(b)
    if (a<b)!=(ka<kb if a is not b else False): f12['lt']+=1
    if (a<=b)!=(ka<=kb): f12['le']+=1
    if (a>b)!=(ka>kb if a is not b else False): f12['gt']+=1
    if (a>=b)!=(ka>=kb): f12['ge']+=1
    if isinstance(a,InterfaceClass) and isinstance(b,InterfaceClass):
        if (a==b)!=(ka==kb): f12['eq']+=1
        if (a!=b)==(a==b): f12['ne']+=1
        if a==b and hash(a)!=hash(b): f12['hash']+=1
for a in objs:
    if not (a<None) or (a>None) or not (None>a) or (a==None): f12['none']+=1
    for foreign in (3,'s',object()):
        if a==foreign or not (a!=foreign): f12['foreign']+=1
        try: a<foreign; f12['foreign_lt']+=1
        except TypeError: pass
print('C12', dict(f12))
