"""Run the registered checks against the seeded changes: apply to /repo, run, undo straight afterwards.

usage: python3 tools_seed_run.py [seed dirs...]   (default: every seeded/<id> whose property has a check)
Writes seeded/RESULTS.json (kill matrix).
"""
import json, os, subprocess, sys, time

VERIF = os.path.dirname(os.path.abspath(__file__))
sys.path.insert(0, VERIF)

def sh(cmd):
    return subprocess.run(cmd, shell=True, capture_output=True, text=True)

manifest = json.load(open(os.path.join(VERIF, 'MANIFEST.json')))
cmds = {c['property_id']: c['quick_cmd'] for c in manifest['checks']}
names = sys.argv[1:] or sorted(d for d in os.listdir(os.path.join(VERIF, 'seeded')) if os.path.isdir(os.path.join(VERIF, 'seeded', d)))
respath = os.path.join(VERIF, 'seeded', 'RESULTS.json')
results = json.load(open(respath)) if os.path.exists(respath) else {}
assert sh('git -C /repo status --porcelain --untracked-files=no').stdout.strip() == '', '/repo has local changes'
for name in names:
    pid = name.split('_')[0]
    if pid not in cmds:
        continue
    patch = os.path.join(VERIF, 'seeded', name, 'patch.diff')
    a = sh('git -C /repo apply %s' % patch)
    if a.returncode != 0:
        print(name, 'patch does not apply', a.stderr[:200]); continue
    try:
        t0 = time.time()
        p = subprocess.run(cmds[pid], shell=True, capture_output=True, text=True, cwd=VERIF)
        out = p.stdout.strip().splitlines()
        viol = [l for l in out if l.startswith('VIOLATION')]
        results[name] = {'property': pid, 'exit': p.returncode, 'detected': p.returncode == 1 and bool(viol),
                         'lines': out[:8], 'wall_s': round(time.time() - t0, 1)}
        print(name, 'exit', p.returncode, 'DETECTED' if results[name]['detected'] else 'MISSED', '%.0fs' % (time.time() - t0))
        for l in out[:6]:
            print('    ', l[:200])
    finally:
        sh('git -C /repo checkout -- .')
assert sh('git -C /repo status --porcelain --untracked-files=no').stdout.strip() == ''
json.dump(results, open(respath, 'w'), indent=1, sort_keys=True)
# evidence files must describe the unchanged tree: re-run the affected checks on it
for pid in sorted({n.split('_')[0] for n in names if n.split('_')[0] in cmds}):
    subprocess.run(cmds[pid], shell=True, capture_output=True, text=True, cwd=VERIF)
