"""Developer helper: verify the C contracts of one module (contracts/<module>.py with PROCS/FIELDS/AXIOMS).
usage: python3-vt tools_cdbg.py C12_c [function substring]"""
import importlib, sys, time
sys.path.insert(0, '.')
from zivc import cfun, solve, core
mod = importlib.import_module('contracts.' + sys.argv[1])
procs = [p for p in mod.PROCS if len(sys.argv) < 3 or any(s in p.name for s in sys.argv[2:] if not s.startswith('-'))]
t0 = time.time()
res = cfun.verify_cprocs(procs, mod.FIELDS)
axioms = core.prelude_axioms() + core.strlit_axioms() + cfun.api_axioms() + list(mod.AXIOMS)
for lbl, hyps, goal in getattr(mod, 'LEMMAS', []):
    r, = solve.discharge([(lbl, solve.Lazy(list(getattr(mod, 'LEMMA_AXIOMS', axioms)), hyps, goal))])
    print('lemma', lbl, 'z3=%s cvc5=%s' % (r.z3, r.cvc5))
for p, status, detail, obls, paths, ex in res:
    print('==', p.name, status, detail, 'paths', paths)
    items = [(o.label, solve.Lazy(axioms, o.hyps, o.goal)) for o in obls]
    rs = solve.discharge(items)
    for o, r in zip(obls, rs):
        if not r.discharged or '-v' in sys.argv:
            print('    z3=%s cvc5=%s %.2fs %s %s' % (r.z3, r.cvc5, r.time, o.label, ' '.join(map(str, o.trace or []))))
    print('   %d obligations, %d discharged' % (len(obls), sum(1 for r in rs if r.discharged)))
    if ex is not None:
        sm = solve.discharge([('smoke', solve.Lazy(axioms, ex.pre, z3.BoolVal(False)))], z3_timeout=2000, use_cvc5=False) if False else None
print('%.1fs' % (time.time() - t0))
