"""Run every registered quick check on the current tree (16 at most in sequence), optionally rewriting ledgers.
usage: python3 tools_runall.py [--write-ledger] [--tier T] [ids...]"""
import json, os, subprocess, sys, time
VERIF = os.path.dirname(os.path.abspath(__file__))
args = sys.argv[1:]
wl = '--write-ledger' in args
tier = 'quick'
if '--tier' in args:
    tier = args[args.index('--tier') + 1]
ids = [a for a in args if a.startswith('C')]
m = json.load(open(os.path.join(VERIF, 'MANIFEST.json')))
bad = 0
for c in m['checks']:
    pid = c['property_id']
    if ids and pid not in ids:
        continue
    t0 = time.time()
    cmd = ['./check', pid, '--tier', tier] + (['--write-ledger'] if wl else [])
    p = subprocess.run(cmd, cwd=VERIF, capture_output=True, text=True)
    last = (p.stdout.strip().splitlines() or ['?'])[-1]
    print('%s rc=%d %s' % (pid, p.returncode, last[:170]))
    if p.returncode != 0:
        bad += 1
        for l in p.stdout.strip().splitlines()[:4]:
            print('     ', l[:200])
print('non-zero exits:', bad)
