"""Importable module-level interfaces and classes for the pickle round trips of C13."""
from zope.interface import (Interface, Attribute, implementer, implementer_only, classImplementsFirst, classImplements, provider,
                            directlyProvides, alsoProvides)


class IA(Interface):
    """UNIQUE-DOC-MARKER-IA the definition must never be stored in a pickle"""
    marker_attribute_xyz = Attribute('UNIQUE-ATTR-MARKER')

    def marker_method_xyz(arg):
        """UNIQUE-METHOD-MARKER"""


class IB(IA):
    pass


class IC(Interface):
    pass


class IMarker(Interface):
    pass


@implementer(IA)
class Base:
    pass


class Inherits(Base):
    pass


@implementer(IC)
class Adds(Base):
    pass


@implementer_only(IC)
class Only(Base):
    pass


class OnlySub(Only):
    pass


@implementer(IB)
class First(Base):
    pass


classImplementsFirst(First, IC)


@provider(IMarker)
@implementer(IA)
class ClassProvided:
    pass


@provider(IMarker, IC)
class ClassProvidedOnlyDirect:
    pass


class Plain:
    pass


# declared with an *only* form and changed again afterwards (the specification is re-based / notified after the narrowing)
@implementer_only(IC)
class OnlyThenMore(Base):
    pass


classImplements(OnlyThenMore, IMarker)


@implementer_only(IC)
class OnlyThenFirst(Base):
    pass


classImplementsFirst(OnlyThenFirst, IMarker)


class ILater(Interface):
    pass


@implementer_only(ILater)
class OnlyWhoseInterfaceIsRebased(Base):
    pass


ILater.__bases__ = (IC,)


class _CountingMeta(type):
    """a registry-like class object that is falsy while it has no members"""

    def __len__(cls):
        return len(cls.members)


@implementer(IC)
class FalsyClass(metaclass=_CountingMeta):
    members = ()


@implementer_only(IC)
class FalsyOnly(Base, metaclass=_CountingMeta):
    members = ()


CLASSES = [Base, Inherits, Adds, Only, OnlySub, First, ClassProvided, ClassProvidedOnlyDirect, Plain,
           OnlyThenMore, OnlyThenFirst, OnlyWhoseInterfaceIsRebased, FalsyClass, FalsyOnly]
INTERFACES = [IA, IB, IC, IMarker, ILater, Interface]
