"""Importable module-level interfaces and classes for the pickle round trips of C13."""
from zope.interface import (Interface, Attribute, implementer, implementer_only, classImplementsFirst, provider,
                            directlyProvides, alsoProvides)


class IA(Interface):
    """UNIQUE-DOC-MARKER-IA the definition must never be stored in a pickle"""
    marker_attribute_xyz = Attribute('UNIQUE-ATTR-MARKER')

    def marker_method_xyz(arg):
        """UNIQUE-METHOD-MARKER"""


class IB(IA):
    pass


class IC(Interface):
    pass


class IMarker(Interface):
    pass


@implementer(IA)
class Base:
    pass


class Inherits(Base):
    pass


@implementer(IC)
class Adds(Base):
    pass


@implementer_only(IC)
class Only(Base):
    pass


class OnlySub(Only):
    pass


@implementer(IB)
class First(Base):
    pass


classImplementsFirst(First, IC)


@provider(IMarker)
@implementer(IA)
class ClassProvided:
    pass


@provider(IMarker, IC)
class ClassProvidedOnlyDirect:
    pass


class Plain:
    pass


CLASSES = [Base, Inherits, Adds, Only, OnlySub, First, ClassProvided, ClassProvidedOnlyDirect, Plain]
INTERFACES = [IA, IB, IC, IMarker, Interface]
